import VibeProof.Props.C25
#print axioms VibeProof.C25.C25_coherence
#print axioms VibeProof.C25.C25_hit_is_current
#print axioms VibeProof.C25.C25_no_shared_entry
#print axioms VibeProof.C25.C25_view_counterexample
#print axioms VibeProof.C25.C25_indirect_write_counterexample
#print axioms VibeProof.C25.C25_sig_structure
#print axioms VibeProof.C25.C25_sig_keeps_quoted_text
#print axioms VibeProof.C25.C25_normalize_idempotent
#print axioms VibeProof.C25.C25_sig_examples
#print axioms VibeProof.C25.C25_old_normalizer_conflates
#print axioms VibeProof.C25.C25_extract_examples
#print axioms VibeProof.C25.C25_regions_are_scanned
#print axioms VibeProof.C25.C25_normal_form_preserves_regions
#print axioms VibeProof.C25.C25_equal_keys_equal_regions
#print axioms VibeProof.C25.C25_foreign_quote_examples
