//! C29 — password authentication accepts exactly the right credentials.
//!
//! Real code: `PasswordStore::{add_user, add_user_hashed, verify_cleartext, verify_md5}` and
//! `compute_md5_password` of the server's auth/password.rs, compiled into this binary from
//! /repo's working tree.
//! Direct oracle (no model):
//!   * cleartext: accepted ⇔ the user's entry is an Argon2 hash created from password p and the
//!     presented password is p (users created with `add_user` / `hash_password_argon2`);
//!   * MD5: accepted ⇔ the user's entry is `{MD5}p` and the response is `"md5"` followed by
//!     hex(md5(hex(md5(p ++ user)) ++ salt)), the digest computed here with the md-5 crate;
//!   * everything else (unknown users, other formats, malformed responses) rejected.
//! Correspondence: the model's MD5 vs the md-5 crate, `computeMd5Password` vs
//! `compute_md5_password`, and the accept/reject decision of `verifyMd5` / `verifyCleartext`
//! (the latter run with the argon2 crate's own answers for the stored string) vs the real ones.
use std::panic::{catch_unwind, AssertUnwindSafe};

use argon2::password_hash::{PasswordHash, PasswordVerifier};
use argon2::Argon2;
use md5::{Digest, Md5};
use vharness::sx::hex;
use vharness::*;

#[allow(dead_code)]
#[path = "/repo/crates/vibesql-server/src/auth/password.rs"]
mod password;
use password::{compute_md5_password, hash_password_argon2, PasswordStore};

#[path = "../wiresrv.rs"]
mod wiresrv;

const KNOWN_BARE: &str = "C29/md5-bare-digest-accepted";

fn hx(b: &[u8]) -> String {
    if b.is_empty() {
        "-".into()
    } else {
        hex(b)
    }
}

/// PostgreSQL's MD5 response digits (without the "md5" prefix), from the protocol description
fn pg_digest(pw: &str, user: &str, salt: &[u8; 4]) -> String {
    let inner = hex(&Md5::digest([pw.as_bytes(), user.as_bytes()].concat()));
    hex(&Md5::digest([inner.as_bytes(), &salt[..]].concat()))
}

#[derive(Clone, Debug)]
enum Entry {
    /// Argon2 hash (real) of this password
    Argon(String),
    /// `{MD5}` + password
    Md5(String),
    /// anything else
    Other,
}

struct User {
    name: String,
    stored: String,
    entry: Entry,
}

struct Ctx {
    model: model::Model,
    rep: Report,
}

fn store_sx(users: &[User]) -> String {
    format!("({})", users.iter().map(|u| format!("({} {})", hx(u.name.as_bytes()), hx(u.stored.as_bytes()))).collect::<Vec<_>>().join(" "))
}

fn gen_text(r: &mut Rng, max: usize) -> String {
    let n = match r.below(8) {
        0 => 0,
        1 => 1,
        _ => r.range(2, max as i64) as usize,
    };
    let pool: &[&str] = &["é", "ß", "€", "漢", "😀", "ñ", "\u{0}", " ", ":", "$", "{", "}"];
    let mut s = String::new();
    while s.chars().count() < n {
        if r.chance(1, 6) {
            s.push_str(*r.pick(pool));
        } else {
            s.push((r.range(0x21, 0x7e) as u8) as char);
        }
    }
    s
}

impl Ctx {
    fn md5_case(&mut self, msg: &[u8]) {
        let real = hex(&Md5::digest(msg));
        let reply = self.model.ask(&format!("md5 {}", hx(msg)));
        self.rep.case(&format!("md5 {}", hx(msg)), !msg.is_empty());
        self.rep.count(&format!("md5_len_mod64_{}", match msg.len() % 64 { 0 => "0", 1..=54 => "1-54", 55 => "55", 56 => "56", _ => "57-63" }));
        self.rep.traces_validated += 1;
        if reply != real {
            self.rep.fail(FailKind::ModelDiff, None, "MD5: model digest differs from the md-5 crate", &format!("md5 {}\nmd-5 crate: {}\nmodel     : {}", hx(msg), real, reply));
        }
    }

    fn md5pw_case(&mut self, pw: &str, user: &str, salt: &[u8; 4]) {
        let real = catch_unwind(AssertUnwindSafe(|| compute_md5_password(pw, user, salt)));
        let id = format!("md5pw {} {} {}", hx(pw.as_bytes()), hx(user.as_bytes()), hx(salt));
        self.rep.case(&id, true);
        self.rep.count("compute_md5_password");
        let real = match real {
            Ok(s) => s,
            Err(_) => {
                self.rep.fail(FailKind::Oracle, None, "compute_md5_password panicked", &id);
                return;
            }
        };
        let want = pg_digest(pw, user, salt);
        if real != want {
            self.rep.fail(FailKind::Oracle, None, "compute_md5_password is not hex(md5(hex(md5(password ++ user)) ++ salt))", &format!("{}\nreal    : {}\nexpected: {}", id, real, want));
        }
        let reply = self.model.ask(&id);
        self.rep.traces_validated += 1;
        if reply != hx(real.as_bytes()) {
            self.rep.fail(FailKind::ModelDiff, None, "computeMd5Password: model differs from compute_md5_password", &format!("{}\nreal : {}\nmodel: {}", id, hx(real.as_bytes()), reply));
        }
    }

    fn verify_md5_case(&mut self, store: &PasswordStore, users: &[User], user: &str, resp: &str, salt: &[u8; 4], class: &str) {
        let real = catch_unwind(AssertUnwindSafe(|| store.verify_md5(user, resp, salt)));
        let req = format!("verifymd5 {} {} {} {}", store_sx(users), hx(user.as_bytes()), hx(resp.as_bytes()), hx(salt));
        let entry = users.iter().find(|u| u.name == user);
        self.rep.case(&req, entry.is_some());
        self.rep.count(&format!("md5_resp_{}", class));
        self.rep.count(&format!("md5_entry_{}", match entry.map(|u| &u.entry) { None => "unknown_user", Some(Entry::Argon(_)) => "argon2", Some(Entry::Md5(_)) => "md5", Some(Entry::Other) => "other" }));
        let real = match real {
            Ok(b) => b,
            Err(_) => {
                self.rep.fail(FailKind::Oracle, None, "verify_md5 panicked", &req);
                return;
            }
        };
        self.rep.count(if real { "md5_accepted" } else { "md5_rejected" });
        // ---- direct oracle ----
        let (want, bare) = match entry.map(|u| &u.entry) {
            Some(Entry::Md5(p)) => {
                let d = pg_digest(p, user, salt);
                (resp == format!("md5{}", d), resp == d)
            }
            _ => (false, false),
        };
        if real != want {
            // the one recorded class: `{MD5}p` entry and the response is exactly the bare digest
            let sig = if real && bare { Some(KNOWN_BARE) } else { None };
            self.rep.fail(
                FailKind::Oracle,
                sig,
                if real { "verify_md5 accepts a response that is not \"md5\" + digest of the stored password" } else { "verify_md5 rejects the correct MD5 response" },
                &format!("{}\nuser {:?} stored {:?} response {:?} salt {:?}\nreal: {}  expected: {}", req, user, entry.map(|u| u.stored.as_str()), resp, salt, real, want),
            );
        }
        // ---- correspondence ----
        let reply = self.model.ask(&req);
        self.rep.traces_validated += 1;
        if reply != if real { "1" } else { "0" } {
            self.rep.fail(FailKind::ModelDiff, None, "verifyMd5: model decision differs from verify_md5", &format!("{}\nreal: {}\nmodel: {}", req, real, reply));
        }
    }

    fn verify_clear_case(&mut self, store: &PasswordStore, users: &[User], user: &str, pw: &str, class: &str) {
        let real = catch_unwind(AssertUnwindSafe(|| store.verify_cleartext(user, pw)));
        let entry = users.iter().find(|u| u.name == user);
        // what the argon2 crate itself says about the stored string (the model's CryptoOps)
        let (parse_ok, verify_ok) = match entry {
            Some(u) => match PasswordHash::new(&u.stored) {
                Ok(h) => (true, Argon2::default().verify_password(pw.as_bytes(), &h).is_ok()),
                Err(_) => (false, false),
            },
            None => (false, false),
        };
        let req = format!("verifyclear {} {} {} {} {}", store_sx(users), hx(user.as_bytes()), hx(pw.as_bytes()), parse_ok as u8, verify_ok as u8);
        self.rep.case(&req, entry.is_some());
        self.rep.count(&format!("clear_pw_{}", class));
        self.rep.count(&format!("clear_entry_{}", match entry.map(|u| &u.entry) { None => "unknown_user", Some(Entry::Argon(_)) => "argon2", Some(Entry::Md5(_)) => "md5", Some(Entry::Other) => "other" }));
        let real = match real {
            Ok(b) => b,
            Err(_) => {
                self.rep.fail(FailKind::Oracle, None, "verify_cleartext panicked", &req);
                return;
            }
        };
        self.rep.count(if real { "clear_accepted" } else { "clear_rejected" });
        let want = matches!(entry.map(|u| &u.entry), Some(Entry::Argon(p)) if p == pw);
        if real != want {
            self.rep.fail(
                FailKind::Oracle,
                None,
                if real { "verify_cleartext accepts a password the entry was not created from" } else { "verify_cleartext rejects the password the entry was created from" },
                &format!("{}\nuser {:?} stored {:?} password {:?}\nreal: {}  expected: {}", req, user, entry.map(|u| u.stored.as_str()), pw, real, want),
            );
        }
        let reply = self.model.ask(&req);
        self.rep.traces_validated += 1;
        if reply != if real { "1" } else { "0" } {
            self.rep.fail(FailKind::ModelDiff, None, "verifyCleartext: model decision differs from verify_cleartext", &format!("{}\nreal: {}\nmodel: {}", req, real, reply));
        }
    }
}

fn other_entries() -> Vec<&'static str> {
    vec![
        "plaintext",
        "",
        "$argon2",
        "$argon2id",
        "$argon2id$v=19$m=19456,t=2,p=1$c29tZXNhbHQ",
        "$argon2id$v=19$m=19456,t=2,p=1$",
        "$argon2x$garbage",
        " $argon2id$v=19$m=19456,t=2,p=1$c29tZXNhbHQ$aGFzaA",
        "{md5}secret",
        " {MD5}secret",
        "MD5secret",
        "{MD5",
        "$ARGON2id$v=19",
    ]
}

/// what an attacker can compute from the password file line of the user (the stored string), the
/// user name and the salt — without the password
fn attacker_strings(stored: &str, user: &str, salt: &[u8; 4], salt2: &[u8; 4]) -> Vec<(String, &'static str)> {
    let stripped = stored.strip_prefix("{MD5}").unwrap_or(stored).to_string();
    let inner = hex(&Md5::digest([stored.as_bytes(), user.as_bytes()].concat()));
    let d = pg_digest(stored, user, salt);
    vec![
        (stored.to_string(), "atk_stored_verbatim"),
        (format!("md5{}", d), "atk_digest_of_stored"),
        (d.clone(), "atk_digest_of_stored_bare"),
        (format!("md5{}", d.to_uppercase()), "atk_digest_of_stored_uppercase"),
        (format!("md5{}", inner), "atk_inner_digest_of_stored"),
        (inner.clone(), "atk_inner_digest_of_stored_bare"),
        (format!("md5{}", pg_digest(stored, user, salt2)), "atk_digest_of_stored_other_salt"),
        (format!("md5{}", pg_digest(stored, &format!("{}2", user), salt)), "atk_digest_of_stored_other_user"),
        (format!("md5{}", pg_digest(&format!("{{MD5}}{}", stored), user, salt)), "atk_digest_of_tagged_stored"),
        (format!("{{MD5}}{}", stored), "atk_md5tag_stored"),
        (format!("md5{}", stored), "atk_md5prefix_stored"),
        (stripped, "atk_stored_without_tag"),
        (stored.to_uppercase(), "atk_stored_uppercase"),
        (user.to_string(), "atk_user_name"),
        (format!("md5{}", user), "atk_md5prefix_user_name"),
        (format!("md5{}", pg_digest(user, user, salt)), "atk_digest_of_user_name"),
        (format!("md5{}", pg_digest("", user, salt)), "atk_digest_of_empty_password"),
        (hex(salt), "atk_salt_hex"),
        (String::from_utf8_lossy(salt).to_string(), "atk_salt_bytes"),
    ]
}

/// store built through the API: `add_user_hashed` for `{MD5}` / Argon2 (pool) / raw values
/// (including values that look like digests), optionally one user through `add_user`
fn gen_api_store(r: &mut Rng, pool: &[(String, String)], others: &[&'static str], salt: &[u8; 4], with_add_user: bool, rep: &mut Report) -> (PasswordStore, Vec<User>, &'static str) {
    let mut users: Vec<User> = vec![];
    let n = r.range(1, 5) as usize;
    while users.len() < n {
        let name = match r.below(6) {
            0 => "postgres".to_string(),
            1 => "".to_string(),
            _ => gen_text(r, 12),
        };
        if users.iter().any(|u| u.name == name) {
            continue;
        }
        let (stored, entry) = match r.below(12) {
            0..=4 => {
                let p = if r.chance(1, 8) { "".to_string() } else { gen_text(r, 16) };
                (format!("{{MD5}}{}", p), Entry::Md5(p))
            }
            5..=7 if !pool.is_empty() => {
                let (p, h) = r.pick(pool).clone();
                (h, Entry::Argon(p))
            }
            // raw values that look like what travels on the wire: 32 hex digits, "md5" + digits
            8 => (pg_digest("secret", &name, salt), Entry::Other),
            9 => (format!("md5{}", pg_digest("secret", &name, salt)), Entry::Other),
            _ => (r.pick(others).to_string(), Entry::Other),
        };
        users.push(User { name, stored, entry });
    }
    let mut store = build(&users);
    if with_add_user {
        let name = format!("added{}", r.below(1000));
        let pw = gen_text(r, 10);
        if !users.iter().any(|u| u.name == name) {
            match store.add_user(name.clone(), &pw) {
                Ok(()) => {
                    let stored = store.get_password(&name).cloned().unwrap_or_default();
                    users.push(User { name, stored, entry: Entry::Argon(pw) });
                }
                Err(e) => rep.fail(FailKind::Oracle, None, "add_user failed", &format!("user {:?} password {:?}: {}", name, pw, e)),
            }
        }
    }
    (store, users, if with_add_user { "api+add_user" } else { "api" })
}

/// store loaded from a generated password file: `{MD5}` lines and `$argon2` lines are kept
/// verbatim, a cleartext line is hashed with Argon2 on load, comments and blank lines skipped
fn gen_file_store(r: &mut Rng, pool: &[(String, String)], path: &std::path::Path, rep: &mut Report) -> (PasswordStore, Vec<User>, &'static str) {
    let word = |r: &mut Rng, min: i64, max: i64| -> String {
        let chars = b"abcdefghijklmnopqrstuvwxyzABCDEFXYZ0123456789_-$/+={}.";
        (0..r.range(min, max)).map(|_| *r.pick(chars) as char).collect()
    };
    let mut lines = vec!["# generated password file".to_string(), "".to_string()];
    let mut expect: Vec<(String, Entry)> = vec![];
    let n = r.range(1, 4) as usize;
    let mut cleartext_used = false;
    while expect.len() < n {
        let name: String = word(r, 1, 8).chars().filter(|c| c.is_ascii_alphanumeric() || *c == '_').collect();
        if name.is_empty() || expect.iter().any(|(k, _)| *k == name) {
            continue;
        }
        let (value, entry) = match r.below(8) {
            0..=2 => {
                let p = word(r, 0, 12);
                (format!("{{MD5}}{}", p), Entry::Md5(p))
            }
            3 | 4 if !pool.is_empty() => {
                let (p, h) = r.pick(pool).clone();
                (h, Entry::Argon(p))
            }
            5 => (format!("$argon2id$v=19$m=19456,t=2,p=1${}", word(r, 0, 10)), Entry::Other),
            _ if !cleartext_used => {
                // cleartext line: hashed with Argon2 on load; must not look like the other formats
                cleartext_used = true;
                let p = format!("c{}", word(r, 0, 10).replace('$', "s").replace('{', "b"));
                (p.clone(), Entry::Argon(p))
            }
            _ => (format!("{{MD5}}{}", name), Entry::Md5(name.clone())),
        };
        lines.push(format!("{}{}:{}{}", if r.chance(1, 4) { "  " } else { "" }, name, value, if r.chance(1, 4) { "  " } else { "" }));
        if r.chance(1, 4) {
            lines.push("# comment".into());
        }
        expect.push((name, entry));
    }
    let _ = std::fs::write(path, lines.join("\n") + "\n");
    let loaded = catch_unwind(AssertUnwindSafe(|| PasswordStore::load_from_file(path)));
    let _ = std::fs::remove_file(path);
    match loaded {
        Ok(Ok(store)) => {
            let mut users = vec![];
            for (name, entry) in expect {
                match store.get_password(&name) {
                    Some(stored) => {
                        let ok = match &entry {
                            Entry::Md5(p) => *stored == format!("{{MD5}}{}", p),
                            Entry::Argon(_) => stored.starts_with("$argon2"),
                            Entry::Other => stored.starts_with("$argon2"),
                        };
                        if !ok {
                            rep.fail(FailKind::Oracle, None, "load_from_file stored a line in an unexpected form", &format!("file:\n{}\nuser {:?} stored {:?}", lines.join("\n"), name, stored));
                        }
                        users.push(User { name, stored: stored.clone(), entry });
                    }
                    None => rep.fail(FailKind::Oracle, None, "load_from_file lost a user", &format!("file:\n{}\nuser {:?}", lines.join("\n"), name)),
                }
            }
            (store, users, "password_file")
        }
        other => {
            rep.fail(FailKind::Oracle, None, "load_from_file rejected (or panicked on) a well-formed password file", &format!("file:\n{}\nresult: {}", lines.join("\n"), match other { Ok(Err(e)) => e.to_string(), _ => "panic".into() }));
            (PasswordStore::new(), vec![], "password_file")
        }
    }
}

// ---------------------------------------------------------------------------------------------
// wire-level logins against the real server binary (connection.rs: handle_startup / authenticate)
// ---------------------------------------------------------------------------------------------

fn read_frame(s: &mut std::net::TcpStream) -> Option<(u8, Vec<u8>)> {
    use std::io::Read;
    let mut h = [0u8; 5];
    s.read_exact(&mut h).ok()?;
    let len = i32::from_be_bytes([h[1], h[2], h[3], h[4]]);
    if !(4..=1 << 20).contains(&len) {
        return None;
    }
    let mut body = vec![0u8; len as usize - 4];
    s.read_exact(&mut body).ok()?;
    Some((h[0], body))
}

/// one login attempt as a PostgreSQL client would make it; `secret` maps the salt (md5) to the
/// content of the PasswordMessage.  Returns (accepted, salt used, what was sent) or an error text.
fn wire_login(port: u16, user: &str, database: Option<&str>, secret: &dyn Fn(Option<[u8; 4]>) -> Vec<u8>) -> Result<(bool, [u8; 4], Vec<u8>), String> {
    use std::io::Write;
    let mut s = std::net::TcpStream::connect(("127.0.0.1", port)).map_err(|e| format!("connect: {}", e))?;
    let _ = s.set_read_timeout(Some(std::time::Duration::from_secs(90)));
    let _ = s.set_nodelay(true);
    let mut body = 196608i32.to_be_bytes().to_vec();
    for (k, v) in [("user", Some(user)), ("database", database)] {
        if let Some(v) = v {
            body.extend_from_slice(k.as_bytes());
            body.push(0);
            body.extend_from_slice(v.as_bytes());
            body.push(0);
        }
    }
    body.push(0);
    let mut pkt = ((4 + body.len()) as u32).to_be_bytes().to_vec();
    pkt.extend_from_slice(&body);
    s.write_all(&pkt).map_err(|e| format!("send startup: {}", e))?;
    let (ty, b) = read_frame(&mut s).ok_or("no authentication request")?;
    if ty != b'R' || b.len() < 4 {
        return Err(format!("unexpected first message {:?}", ty as char));
    }
    let code = i32::from_be_bytes([b[0], b[1], b[2], b[3]]);
    let salt = match code {
        3 => None,
        5 if b.len() == 8 => Some([b[4], b[5], b[6], b[7]]),
        0 => return Ok((true, [0; 4], b"(no secret asked)".to_vec())),
        _ => return Err(format!("unexpected authentication request {}", code)),
    };
    let sent = secret(salt);
    let mut m = vec![b'p'];
    m.extend_from_slice(&((4 + sent.len() + 1) as u32).to_be_bytes());
    m.extend_from_slice(&sent);
    m.push(0);
    s.write_all(&m).map_err(|e| format!("send password: {}", e))?;
    let accepted = matches!(read_frame(&mut s), Some((b'R', b)) if b == [0, 0, 0, 0]);
    let _ = s.write_all(&[b'X', 0, 0, 0, 4]);
    Ok((accepted, salt.unwrap_or([0; 4]), sent))
}

fn wire_family(cx: &mut Ctx, args: &Args, rng: &mut Rng) {
    let t0 = std::time::Instant::now();
    let built = wiresrv::build_server(&args.scratch);
    cx.rep.extra.insert("server_build_s".into(), serde_json::json!(t0.elapsed().as_secs_f64()));
    let bin = match built {
        Ok(b) => b,
        Err(e) => {
            cx.rep.fail(FailKind::Oracle, None, "the server binary of the tree under test does not build (wire-level logins impossible)", &e);
            return;
        }
    };
    // accounts: two Argon2 (pre-hashed lines, so the stored strings are known), three {MD5}; an
    // account exists for each database name used below ("shop", "store")
    let mut users: Vec<User> = vec![];
    // non-ASCII accounts: 2-, 3-, 4-byte code points in names and passwords; precomposed (U+00E9) vs
    // decomposed (e + U+0301) passwords; "Ã©" is what the UTF-8 bytes of "é" look like when they
    // are (wrongly) decoded as Latin-1 — a different password that must stay different
    let accounts: Vec<(&str, &str, bool)> = vec![
        ("alice", "alicepw", false),
        ("store", "storepw", false),
        ("bob", "bobpw", true),
        ("shop", "shoppw", true),
        ("dave", "", true),
        ("张伟", "密码🔑", false),
        ("renee", "\u{e9}", false),
        ("anna_a", "Ã©", false),
        ("zoë", "pässwörd€𝄞", true),
        ("rene2", "e\u{301}", true),
        ("anna_m", "Ã©", true),
    ];
    for (name, pw, md5) in accounts.iter().cloned() {
        if md5 {
            users.push(User { name: name.into(), stored: format!("{{MD5}}{}", pw), entry: Entry::Md5(pw.into()) });
        } else {
            match hash_password_argon2(pw) {
                Ok(h) => users.push(User { name: name.into(), stored: h, entry: Entry::Argon(pw.into()) }),
                Err(e) => cx.rep.fail(FailKind::Oracle, None, "hash_password_argon2 failed", &e.to_string()),
            }
        }
    }
    let pwfile = args.scratch.join("passwd");
    let _ = std::fs::write(&pwfile, users.iter().map(|u| format!("{}:{}\n", u.name, u.stored)).collect::<String>());
    for method in ["password", "md5"] {
        let dir = args.scratch.join(format!("srv-{}", method));
        let srv = match wiresrv::start_server(&bin, &dir, method, Some(&pwfile)) {
            Ok(s) => s,
            Err(e) => {
                cx.rep.fail(FailKind::Oracle, None, "the server does not start with a generated configuration and password file", &format!("method {}: {}", method, e));
                continue;
            }
        };
        let names = ["alice", "store", "bob", "shop", "dave", "mallory", "张伟", "renee", "anna_a", "zoë", "rene2", "anna_m", "zoÃ«"];
        for user in names {
            let ascii_account = user.is_ascii() && !user.starts_with("anna") && !user.starts_with("rene");
            let own = users.iter().find(|u| u.name == user);
            let own_pw = match own.map(|u| &u.entry) {
                Some(Entry::Argon(p)) | Some(Entry::Md5(p)) => p.clone(),
                _ => "guess".to_string(),
            };
            let dbs: Vec<Option<&str>> = if ascii_account { vec![None, Some(user), Some("shop"), Some("store"), Some("alice"), Some("nosuchdb")] } else { vec![None, Some("数据库")] };
            for database in dbs {
                // presented passwords: the user's own, the one of the account named like the database, wrong, empty
                let db_pw = database.and_then(|d| users.iter().find(|u| u.name == d)).map(|u| match &u.entry {
                    Entry::Argon(p) | Entry::Md5(p) => p.clone(),
                    _ => String::new(),
                });
                let mut presented: Vec<(Vec<u8>, &str)> = vec![(own_pw.clone().into_bytes(), "own_password"), (b"wrong".to_vec(), "wrong_password")];
                if let Some(p) = db_pw {
                    if p != own_pw {
                        presented.push((p.into_bytes(), "password_of_account_named_like_database"));
                    }
                }
                if rng.chance(1, 3) {
                    presented.push((vec![], "empty_password"));
                }
                if !ascii_account && database.is_none() {
                    // the own password's bytes re-decoded as Latin-1 (what a decoder without UTF-8
                    // validation would compare), the other normalisation form, the string whose Latin-1
                    // mis-decoding equals the stored "Ã©", and byte strings that are not UTF-8 at all
                    presented.push((own_pw.bytes().map(char::from).collect::<String>().into_bytes(), "latin1_redecoding_of_own_password"));
                    presented.push(("\u{e9}".as_bytes().to_vec(), "precomposed_e_acute"));
                    presented.push(("e\u{301}".as_bytes().to_vec(), "decomposed_e_acute"));
                    presented.push((vec![0xe9], "latin1_byte_e9_invalid_utf8"));
                    presented.push((vec![0xc3], "truncated_utf8"));
                    presented.push((vec![0xff, 0xfe, 0x41], "invalid_utf8"));
                }
                for (pw, class) in presented {
                    // md5: the client answers with "md5" + digest(presented password, USER it logs in as, salt);
                    // a presented byte string that is not UTF-8 is sent as it is
                    let u2 = user.to_string();
                    let pw2 = pw.clone();
                    let is_md5 = method == "md5";
                    let mk = move |salt: Option<[u8; 4]>| -> Vec<u8> {
                        match (is_md5, salt, std::str::from_utf8(&pw2)) {
                            (true, Some(s), Ok(p)) => format!("md5{}", pg_digest(p, &u2, &s)).into_bytes(),
                            _ => pw2.clone(),
                        }
                    };
                    let pw_show = String::from_utf8_lossy(&pw).to_string();
                    let res = wire_login(srv.port, user, database, &mk);
                    let id = format!("login {} user={} database={:?} presented={:?} [{}] ({})", method, user, database, pw_show, hx(&pw), class);
                    cx.rep.case(&id, own.is_some());
                    cx.rep.count(&format!("wire_{}_{}", method, class));
                    cx.rep.count(&format!("wire_database_{}", match database { None => "absent", Some(d) if d == user => "same_as_user", Some("nosuchdb") => "no_such_account", _ => "other_account" }));
                    let (accepted, salt, sent) = match res {
                        Ok(x) => x,
                        Err(e) => {
                            cx.rep.fail(FailKind::Oracle, None, "wire-level login: the server did not follow the authentication exchange", &format!("{}\n{}", id, e));
                            continue;
                        }
                    };
                    cx.rep.count(if accepted { "wire_accepted" } else { "wire_rejected" });
                    // oracle: the decision is about USER's entry and the password presented — the database is irrelevant
                    let want = match (method, own.map(|u| &u.entry)) {
                        ("password", Some(Entry::Argon(p))) => p.as_bytes() == &pw[..],
                        ("md5", Some(Entry::Md5(p))) => p.as_bytes() == &pw[..],
                        _ => false,
                    };
                    if accepted != want {
                        cx.rep.fail(
                            FailKind::Oracle,
                            None,
                            if accepted { "wire-level login accepted without the password of the user logging in" } else { "wire-level login with the user's own password rejected" },
                            &format!("{}\npassword file:\n{}sent in PasswordMessage: {:?} [{}] (salt {:?})\nserver: {}  expected: {}", id, users.iter().map(|u| format!("{}:{}\n", u.name, u.stored)).collect::<String>(), String::from_utf8_lossy(&sent), hx(&sent), salt, if accepted { "AuthenticationOk" } else { "rejected" }, want),
                        );
                    }
                    // correspondence: the model's login step (lookup by user)
                    let (po, vo) = match own {
                        Some(u) => match PasswordHash::new(&u.stored) {
                            Ok(h) => (true, method == "password" && Argon2::default().verify_password(&sent, &h).is_ok()),
                            Err(_) => (false, false),
                        },
                        None => (false, false),
                    };
                    let req = format!("login {} {} {} {} {} {} {} {}", method, store_sx(&users), hx(user.as_bytes()), hx(database.unwrap_or(user).as_bytes()), hx(&sent), hx(&salt), po as u8, vo as u8);
                    let reply = cx.model.ask(&req);
                    cx.rep.traces_validated += 1;
                    if reply != if accepted { "1" } else { "0" } {
                        cx.rep.fail(FailKind::ModelDiff, None, "wire-level login: the server's decision differs from the model's login step (lookup by user)", &format!("{}\n{}\nserver: {}\nmodel: {}", id, req, accepted, reply));
                    }
                }
            }
        }
        drop(srv);
    }
}

fn build(users: &[User]) -> PasswordStore {
    let mut s = PasswordStore::new();
    for u in users {
        s.add_user_hashed(u.name.clone(), u.stored.clone());
    }
    s
}

fn main() {
    engine::silence_panics();
    let args = Args::parse("C29");
    let rep = Report::new(
        &args,
        "case = an MD5 input, a (password, user, salt) triple, or (store, user, response/password[, salt]); non-trivial = the user exists in \
         the store (the format / comparison logic is reached) resp. a non-empty MD5 input; distinct by hash of the model request",
    );
    let model = args.model();
    let mut cx = Ctx { model, rep };
    cx.rep.assumptions.push("Argon2 is not modelled: the law 'a hash verifies exactly the password it was created from' is a hypothesis of the theorems (structure Crypto); the real argon2 crate is exercised by the direct oracle".into());
    cx.rep.assumptions.push("the model's verifyCleartext is run with the argon2 crate's own answers (PasswordHash::new, verify_password) for the stored string".into());
    let mut rng = Rng::new(args.seed);

    // ---- MD5 vs md-5 crate: padding boundaries first, then random ----
    for n in [0usize, 1, 2, 3, 54, 55, 56, 57, 62, 63, 64, 65, 118, 119, 120, 121, 127, 128, 129, 183, 184, 191, 192, 193, 1000] {
        let mut r = rng.fork();
        let msg: Vec<u8> = (0..n).map(|_| r.below(256) as u8).collect();
        cx.md5_case(&msg);
        cx.md5_case(&vec![0u8; n]);
        cx.md5_case(&vec![0xffu8; n]);
    }
    for _ in 0..args.n(400, 20000) {
        let mut r = rng.fork();
        let n = if r.chance(1, 10) { r.range(0, 2000) } else { r.range(0, 200) } as usize;
        let msg: Vec<u8> = (0..n).map(|_| r.below(256) as u8).collect();
        cx.md5_case(&msg);
    }
    // ---- compute_md5_password ----
    cx.md5pw_case("secret", "postgres", &[1, 2, 3, 4]);
    cx.md5pw_case("", "", &[0, 0, 0, 0]);
    cx.md5pw_case("pässwörd€", "üser", &[255, 0, 128, 127]);
    for _ in 0..args.n(300, 10000) {
        let mut r = rng.fork();
        let salt = [r.below(256) as u8, r.below(256) as u8, r.below(256) as u8, r.below(256) as u8];
        cx.md5pw_case(&gen_text(&mut r, 40), &gen_text(&mut r, 20), &salt);
    }

    // ---- a pool of real Argon2 hashes (slow to make): password → PHC string ----
    let pool_pw = ["secret123", "", "pässwörd€", "a", "Secret123", "secret1234", "x y", "😀"];
    let npool = args.n(5, 8) as usize;
    let mut pool: Vec<(String, String)> = vec![];
    for p in pool_pw.iter().take(npool) {
        match hash_password_argon2(p) {
            Ok(h) => pool.push((p.to_string(), h)),
            Err(e) => cx.rep.fail(FailKind::Oracle, None, "hash_password_argon2 failed", &format!("password {:?}: {}", p, e)),
        }
    }
    // `add_user` itself (hashes inside the store)
    {
        let mut s = PasswordStore::new();
        let ok = s.add_user("postgres".to_string(), "secret123").is_ok();
        let stored = s.get_password("postgres").cloned().unwrap_or_default();
        let users = vec![User { name: "postgres".into(), stored: stored.clone(), entry: Entry::Argon("secret123".into()) }];
        if !ok || !stored.starts_with("$argon2") {
            cx.rep.fail(FailKind::Oracle, None, "add_user did not store an Argon2 hash", &format!("stored {:?}", stored));
        }
        for (pw, class) in [("secret123", "correct"), ("wrong", "wrong"), ("", "empty"), ("secret12", "truncated"), ("secret1234", "extended"), ("SECRET123", "case")] {
            cx.verify_clear_case(&s, &users, "postgres", pw, class);
        }
        cx.verify_clear_case(&s, &users, "nonexistent", "secret123", "correct_other_user");
        let d = pg_digest("secret123", "postgres", &[1, 2, 3, 4]);
        cx.verify_md5_case(&s, &users, "postgres", &format!("md5{}", d), &[1, 2, 3, 4], "digest_of_argon2_users_password");
        cx.verify_md5_case(&s, &users, "postgres", &d, &[1, 2, 3, 4], "bare_digest_of_argon2_users_password");
        // pass-the-hash: responses computed from the stored Argon2 string alone must never be accepted
        for (resp, class) in attacker_strings(&stored, "postgres", &[1, 2, 3, 4], &[1, 2, 3, 5]) {
            cx.verify_md5_case(&s, &users, "postgres", &resp, &[1, 2, 3, 4], class);
        }
        for (pw, class) in attacker_strings(&stored, "postgres", &[1, 2, 3, 4], &[1, 2, 3, 5]).into_iter().take(6) {
            cx.verify_clear_case(&s, &users, "postgres", &pw, class);
        }
        // raw values stored through add_user_hashed: cleartext-looking, 32 hex digits, "md5" + digits
        for raw in ["secret".to_string(), pg_digest("secret", "raw", &[1, 2, 3, 4]), format!("md5{}", pg_digest("secret", "raw", &[1, 2, 3, 4]))] {
            let users = vec![User { name: "raw".into(), stored: raw.clone(), entry: Entry::Other }];
            let s = build(&users);
            for (resp, class) in attacker_strings(&raw, "raw", &[1, 2, 3, 4], &[1, 2, 3, 5]) {
                cx.verify_md5_case(&s, &users, "raw", &resp, &[1, 2, 3, 4], class);
                cx.verify_clear_case(&s, &users, "raw", &resp, class);
            }
        }
    }

    // ---- the recorded finding, reproduced on every run (the repo's own test vector) ----
    {
        let users = vec![User { name: "postgres".into(), stored: "{MD5}secret".into(), entry: Entry::Md5("secret".into()) }];
        let s = build(&users);
        let d = pg_digest("secret", "postgres", &[1, 2, 3, 4]);
        cx.verify_md5_case(&s, &users, "postgres", &d, &[1, 2, 3, 4], "bare");
        cx.verify_md5_case(&s, &users, "postgres", &format!("md5{}", d), &[1, 2, 3, 4], "correct");
        cx.verify_md5_case(&s, &users, "postgres", "wronghash", &[1, 2, 3, 4], "garbage");
        // Lean witness of C29_md5_counterexample: user "u", stored "{MD5}p", salt 01 02 03 04
        let users = vec![User { name: "u".into(), stored: "{MD5}p".into(), entry: Entry::Md5("p".into()) }];
        let s = build(&users);
        cx.verify_md5_case(&s, &users, "u", &pg_digest("p", "u", &[1, 2, 3, 4]), &[1, 2, 3, 4], "bare");
    }

    // ---- non-ASCII credentials at function level: precomposed / decomposed / Latin-1 look-alike passwords,
    //      2-, 3-, 4-byte code points in user names: each password presented to each user ----
    {
        let creds = [("renée", "\u{e9}"), ("rene2", "e\u{301}"), ("anna", "Ã©"), ("张伟", "密码🔑"), ("zoë", "pässwörd€𝄞")];
        let users: Vec<User> = creds.iter().map(|(n, p)| User { name: n.to_string(), stored: format!("{{MD5}}{}", p), entry: Entry::Md5(p.to_string()) }).collect();
        let store = build(&users);
        for (n, _) in &creds {
            for (_, p) in &creds {
                let salt = [0x80, 0xff, 0x00, 0x7f];
                cx.verify_md5_case(&store, &users, n, &format!("md5{}", pg_digest(p, n, &salt)), &salt, "non_ascii_cross");
                let latin1: String = p.bytes().map(char::from).collect();
                cx.verify_md5_case(&store, &users, n, &format!("md5{}", pg_digest(&latin1, n, &salt)), &salt, "non_ascii_latin1_redecoded");
                cx.verify_clear_case(&store, &users, n, p, "non_ascii_cross");
            }
            let n_latin1: String = n.bytes().map(char::from).collect();
            cx.verify_md5_case(&store, &users, &n_latin1, &format!("md5{}", pg_digest("\u{e9}", &n_latin1, &[1, 2, 3, 4])), &[1, 2, 3, 4], "non_ascii_user_latin1_redecoded");
        }
    }

    // ---- generated stores: every storage route × legitimate, near-miss and attacker responses ----
    let rounds = args.n(50, 400);
    let others = other_entries();
    for i in 0..rounds {
        let mut r = rng.fork();
        let salt = [r.below(256) as u8, r.below(256) as u8, r.below(256) as u8, r.below(256) as u8];
        let salt2 = [salt[0] ^ 1, salt[1], salt[2], salt[3]];
        let (store, users, route) = if i % 3 == 2 { gen_file_store(&mut r, &pool, &args.scratch.join(format!("pw-{}.txt", i)), &mut cx.rep) } else { gen_api_store(&mut r, &pool, &others, &salt, i % 4 == 0, &mut cx.rep) };
        cx.rep.count(&format!("store_route_{}", route));
        if i < 3 {
            cx.rep.sample(serde_json::json!({"route": route, "store": users.iter().map(|u| format!("{:?} -> {:?}", u.name, u.stored.chars().take(40).collect::<String>())).collect::<Vec<_>>()}));
        }
        if users.is_empty() {
            continue;
        }
        let mut names: Vec<String> = users.iter().map(|u| u.name.clone()).collect();
        names.push("nobody".into());
        names.push(format!("{}x", users[0].name));
        for name in &names {
            let entry = users.iter().find(|u| &u.name == name);
            // the password whose digest a client would send: the entry's, or some password
            let p = match entry.map(|u| &u.entry) {
                Some(Entry::Md5(p)) | Some(Entry::Argon(p)) => p.clone(),
                _ => "secret".to_string(),
            };
            let d = pg_digest(&p, name, &salt);
            let other_user = pg_digest(&p, &format!("{}2", name), &salt);
            let mut trunc = format!("md5{}", d);
            trunc.pop();
            let mut resps: Vec<(String, &str)> = vec![
                (format!("md5{}", d), "correct"),
                (d.clone(), "bare"),
                (format!("md5{}", d.to_uppercase()), "uppercase_digits"),
                (format!("MD5{}", d), "uppercase_prefix"),
                (trunc, "truncated"),
                (format!("md5{}0", d), "extended"),
                (format!("md5md5{}", d), "double_prefix"),
                (format!("md5{}", other_user), "other_user"),
                (format!("md5{}", pg_digest(&p, name, &salt2)), "other_salt"),
                (format!("md5{}", pg_digest(&format!("{}x", p), name, &salt)), "other_password"),
                (format!(" md5{}", d), "leading_blank"),
                ("".into(), "empty"),
                ("md5".into(), "prefix_only"),
                (p.clone(), "the_password_itself"),
                (gen_text(&mut r, 40), "random"),
            ];
            // attacker: everything computable from the password file, the user name and the salt
            let stored = entry.map(|u| u.stored.clone()).unwrap_or_default();
            let atk = attacker_strings(&stored, name, &salt, &salt2);
            resps.extend(atk.iter().cloned());
            for (resp, class) in &resps {
                cx.verify_md5_case(&store, &users, name, resp, &salt, class);
            }
            // cleartext: few passwords on Argon2 entries (each costs two Argon2 runs), more elsewhere
            let is_argon = matches!(entry.map(|u| &u.stored), Some(s) if PasswordHash::new(s).is_ok());
            let mut pws: Vec<(String, &str)> = vec![(p.clone(), "correct"), (format!("{}x", p), "extended")];
            if !is_argon || r.chance(1, 4) {
                pws.push(("".into(), "empty"));
                pws.push((p.to_uppercase(), "case"));
                pws.push((gen_text(&mut r, 12), "random"));
                pws.push((format!("md5{}", d), "md5_response"));
            }
            if is_argon {
                // the stored string itself always, one more attacker string at random
                pws.push(atk[0].clone());
                pws.push(r.pick(&atk).clone());
            } else {
                pws.extend(atk.iter().cloned());
            }
            for (pw, class) in &pws {
                cx.verify_clear_case(&store, &users, name, pw, class);
            }
        }
    }

    // ---- wire-level logins against the real server (user ≠ database, both methods) ----
    wire_family(&mut cx, &args, &mut rng);

    std::process::exit(cx.rep.finish());
}
