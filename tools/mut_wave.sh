#!/bin/bash
# usage: tools/mut_wave.sh <n> Cxx [Cyy ...] : creates /tmp/mut/<Cxx>-<n> worktrees of /repo HEAD and the prompt files
# /tmp/mut/prompt-<Cxx>-<n>.txt (hint = what the earlier seeded changes for that property touched)
N=$1; shift
mkdir -p /tmp/mut
for P in "$@"; do
  HINT=$(python3 - "$P" <<'PY'
import json,glob,sys
p=sys.argv[1]
prev=[]
for f in sorted(glob.glob('/verif/seeded/%s-*/meta.json'%p)):
    m=json.load(open(f)); prev.append('%s (%s)' % (', '.join(m.get('touched_files',[])), m.get('summary','')[:140].replace('\n',' ')))
print(('Earlier seeded changes for this property already touched: ' + ' ; '.join(prev) + '. Choose a DIFFERENT file/function and a different kind of slip, ideally in another layer the property depends on (optimizer, storage, evaluator, planner, catalog, protocol ...).') if prev else '')
PY
)
  git -C /repo worktree remove --force /tmp/mut/$P-$N 2>/dev/null; rm -rf /tmp/mut/$P-$N
  git -C /repo worktree add -q --detach /tmp/mut/$P-$N HEAD
  python3 /verif/tools/mut_prompt.py $P $N "$HINT" > /tmp/mut/prompt-$P-$N.txt
  echo "$P-$N ready"
done
