import VibeProof.Model.Value
/-
C33 — the registries a schema change touches, as the DDL executors update them.

  catalog   table name → declared columns          (`Catalog::create_table / drop_table`)
  stored    table name → (the stored table's OWN schema copy, rows)   (`Database::tables`)
  reg       user-defined indexes: name, table, key columns  (`Operations::index_manager` and the
            catalog's index list, which `CreateIndexExecutor` / `DropIndexExecutor` /
            `DropTableExecutor` update together)

Names are the normalised ones (the parser upper-cases unquoted identifiers; a quoted name is a
different name).  As coded: ALTER TABLE ADD / DROP COLUMN (`alter/columns.rs`) rewrites the
stored table's schema copy and its rows only — neither the catalog entry nor the indexes on a
dropped column are touched; INSERT validates the column count against the catalog and then
`Table::insert` validates it against the stored schema.
-/
namespace VibeProof.Ddl
open VibeProof

structure STable where
  cols : List String
  rows : List Row
  deriving Repr, DecidableEq

structure DIndex where
  name : String
  table : String
  cols : List String
  deriving Repr, DecidableEq

structure DState where
  catalog : List (String × List String)
  stored : List (String × STable)
  reg : List DIndex
  deriving Repr, DecidableEq

inductive DErr where
  | tableExists | tableMissing | indexExists | indexMissing | columnMissing | columnExists
  | columnCount | lastColumn
  deriving Repr, DecidableEq

inductive DOp where
  | createTable (n : String) (cols : List String)
  | dropTable (n : String)
  | createIndex (i n : String) (cols : List String)
  | dropIndex (i : String)
  | insert (n : String) (r : Row)
  | clear (n : String)
  | addColumn (n c : String)
  | dropColumn (n c : String)
  deriving Repr, DecidableEq

def init : DState := { catalog := [], stored := [], reg := [] }

def catCols (s : DState) (n : String) : Option (List String) :=
  (s.catalog.find? (fun e => e.1 == n)).map (fun e => e.2)

def stTable (s : DState) (n : String) : Option STable :=
  (s.stored.find? (fun e => e.1 == n)).map (fun e => e.2)

/-- apply `f` to the stored table called `n` -/
def updStored (s : DState) (n : String) (f : STable → STable) : DState :=
  { s with stored := s.stored.map (fun e => if e.1 = n then (e.1, f e.2) else e) }

def pushRow (r : Row) (t : STable) : STable :=
  if r.length = t.cols.length then { t with rows := t.rows ++ [r] } else t

def addCol (c : String) (t : STable) : STable :=
  { cols := t.cols ++ [c], rows := t.rows.map (fun r => r ++ [Value.null]) }

def dropCol (c : String) (t : STable) : STable :=
  match t.cols.idxOf? c with
  | some k => { cols := t.cols.eraseIdx k, rows := t.rows.map (fun r => r.eraseIdx k) }
  | none => t

def step (s : DState) : DOp → DState × Option DErr
  | .createTable n cols =>
    if (catCols s n).isSome then (s, some .tableExists)
    else ({ s with catalog := s.catalog ++ [(n, cols)], stored := s.stored ++ [(n, { cols := cols, rows := [] })] }, none)
  | .dropTable n =>
    if (catCols s n).isSome then
      ({ catalog := s.catalog.filter (fun e => decide (e.1 ≠ n))
         stored := s.stored.filter (fun e => decide (e.1 ≠ n))
         reg := s.reg.filter (fun ix => decide (ix.table ≠ n)) }, none)
    else (s, some .tableMissing)
  | .createIndex i n cols =>
    match catCols s n with
    | none => (s, some .tableMissing)
    | some tc =>
      if cols.all (fun c => tc.contains c) then
        if s.reg.any (fun ix => ix.name == i) then (s, some .indexExists)
        else ({ s with reg := s.reg ++ [{ name := i, table := n, cols := cols }] }, none)
      else (s, some .columnMissing)
  | .dropIndex i =>
    if s.reg.any (fun ix => ix.name == i) then
      ({ s with reg := s.reg.filter (fun ix => !(ix.name == i)) }, none)
    else (s, some .indexMissing)
  | .insert n r =>
    match catCols s n, stTable s n with
    | some tc, some t =>
      if r.length ≠ tc.length then (s, some .columnCount)
      else if r.length ≠ t.cols.length then (s, some .columnCount)
      else (updStored s n (pushRow r), none)
    | _, _ => (s, some .tableMissing)
  | .clear n =>
    match stTable s n with
    | some _ => (updStored s n (fun t => { t with rows := [] }), none)
    | none => (s, some .tableMissing)
  | .addColumn n c =>
    match stTable s n with
    | none => (s, some .tableMissing)
    | some t =>
      if t.cols.contains c then (s, some .columnExists)
      else (updStored s n (addCol c), none)
  | .dropColumn n c =>
    match stTable s n with
    | none => (s, some .tableMissing)
    | some t =>
      if t.cols.length ≤ 1 then (s, some .lastColumn)
      else if t.cols.contains c then (updStored s n (dropCol c), none)
      else (s, some .columnMissing)

/-- `Operations::list_indexes_for_table`: the indexes a query on table `n` may use — compared
after normalising both names with `norm` (`to_uppercase` in the code) -/
def indexesFor (norm : String → String) (s : DState) (n : String) : List DIndex :=
  s.reg.filter (fun ix => norm ix.table == norm n)

def run (s : DState) : List DOp → DState
  | [] => s
  | op :: ops => run (step s op).1 ops

end VibeProof.Ddl
