import VibeProof.Props.C20
#print axioms VibeProof.C20.C20_readValue_safe
#print axioms VibeProof.C20.C20_unknown_tag_rejected
#print axioms VibeProof.C20.C20_readString_alloc_bounded
#print axioms VibeProof.C20.C20_readString_alloc_counterexample_before_fix
#print axioms VibeProof.C20.C20_readString_ffffffff
#print axioms VibeProof.C20.C20_readRows_safe
#print axioms VibeProof.C20.C20_readCatalog_safe
#print axioms VibeProof.C20.C20_load_total_consumes_prefix_alloc_bounded
#print axioms VibeProof.C20.C20_empty_and_bad_magic
#print axioms VibeProof.C20.C20_zero_column_rows_consume_nothing
#print axioms VibeProof.C20.C20_split_nonempty
#print axioms VibeProof.C20.C20_split_second_part_absent
#print axioms VibeProof.C20.C20_parseType_numeric_prefix_total
#print axioms VibeProof.C20.C20_parseType_single_prefix_total
#print axioms VibeProof.C20.C20_type_text_roundtrip
#print axioms VibeProof.C20.C20_type_text_roundtrip_counterexample
#print axioms VibeProof.C20.C20_near_miss_texts
