# C23: the keyword table of the lexer (crates/vibesql-parser/src/lexer/keywords.rs::map_keyword)
# and the parser's nesting limit, re-read from the source on every run.
import re


def extract(read):
    src = read("crates/vibesql-parser/src/lexer/keywords.rs")
    pairs = re.findall(r'"([A-Z_0-9]+)"\s*=>\s*Token::Keyword\(Keyword::(\w+)\)', src)
    out = []
    if not pairs or "fn map_keyword" not in src:
        out.append("-- lexerKeywords: NOT FOUND in source (dependent theorems will not build)\n")
    else:
        body = ", ".join('("%s", "%s")' % p for p in pairs)
        out.append("/-- lexer/keywords.rs `map_keyword`: upper-case text -> `Keyword` variant -/\n"
                   "def lexerKeywords : List (String × String) := [%s]\n" % body)
    psrc = read("crates/vibesql-parser/src/parser/mod.rs")
    m = re.search(r"pub const MAX_NESTING_DEPTH\s*:\s*usize\s*=\s*([0-9_]+)\s*;", psrc)
    if m:
        out.append("/-- parser/mod.rs `MAX_NESTING_DEPTH` -/\ndef parserMaxNestingDepth : Nat := %d\n" % int(m.group(1).replace("_", "")))
    else:
        out.append("-- parserMaxNestingDepth: NOT FOUND in source (dependent theorems will not build)\n")
    return "\n".join(out)
