//! C09 — UPDATE and DELETE act on exactly the rows their WHERE clause selects; INSERT adds
//! exactly the given rows.
//!
//! Direct oracle (engine only): S = SELECT * WHERE p on the pre-state; DELETE reports |S| and the
//! post-state is pre − S (order of the survivors kept); UPDATE reports |S| and the post-state is
//! pre with each selected row replaced by `SELECT <SET expressions> … WHERE p` evaluated on the
//! pre-state; INSERT appends its rows. Correspondence: the same statements through the Lean
//! `deleteWhere` / `updateWhere` / `deleteByPk`.
use vharness::qast::*;
use vharness::*;
use vibesql_types::SqlValue;

struct Case {
    schema: Schema,
    pk_type: &'static str,
    /// rows as inserted
    loaded: Vec<Vec<Lit>>,
    /// statements executed after loading (key-changing UPDATEs, a DELETE + re-INSERT): the table
    /// state the property quantifies over is reached by a history, not only by INSERTs
    pre: Vec<String>,
    /// statements inside BEGIN … SAVEPOINT … ROLLBACK TO SAVEPOINT … COMMIT, run after `pre`: the
    /// table's contents are the same afterwards, the physical row order may not be
    txn_pre: Vec<String>,
    /// rows after `pre` (what the table holds when the statement under test runs)
    rows: Vec<Vec<Lit>>,
    /// key values that were held by some row earlier in the history and are free now
    stale_ids: Vec<i64>,
    /// a secondary (non-unique) index, created before or after the rows are loaded
    index: Option<(String, bool)>,
    /// values column c1 held earlier in the history (before an UPDATE moved the row to another key)
    stale_c1: Vec<i64>,
}

fn create_sql(c: &Case) -> String {
    let cols: Vec<String> = c
        .schema
        .cols
        .iter()
        .enumerate()
        .map(|(i, (n, t))| {
            if i == 0 {
                format!("{} {} PRIMARY KEY", n, c.pk_type)
            } else {
                format!("{} {}", n, if *t == Ty::Int { "INTEGER" } else { "VARCHAR(20)" })
            }
        })
        .collect();
    format!("CREATE TABLE {} ({})", c.schema.table, cols.join(", "))
}

fn setup(c: &Case) -> (Db, String) {
    let mut db = Db::new();
    let mut script = String::new();
    let cs = create_sql(c);
    db.must(&cs);
    script.push_str(&format!("{};\n", cs));
    if let Some((ix, true)) = &c.index {
        db.must(ix);
        script.push_str(&format!("{};\n", ix));
    }
    for r in &c.loaded {
        let sql = format!("INSERT INTO {} SELECT {}", c.schema.table, r.iter().map(|v| v.sql()).collect::<Vec<_>>().join(", "));
        db.must(&sql);
        script.push_str(&format!("{};\n", sql));
    }
    if let Some((ix, false)) = &c.index {
        db.must(ix);
        script.push_str(&format!("{};\n", ix));
    }
    for sql in &c.pre {
        let o = db.exec(sql);
        script.push_str(&format!("{};\n", sql));
        if !matches!(o, Out::Count(1)) {
            // a single-row key change to an unused key must succeed and change exactly one row
            script.push_str(&format!("  => {}   <-- HISTORY STEP DID NOT CHANGE EXACTLY ONE ROW\n", o.brief()));
        }
    }
    if !c.txn_pre.is_empty() {
        let before = db.scan(&c.schema.table).map(|r| { let mut v = canon_rows(&r); v.sort(); v });
        for sql in &c.txn_pre {
            let o = db.exec(sql);
            script.push_str(&format!("{};\n", sql));
            if !o.is_ok() {
                script.push_str(&format!("  => {}   <-- ROLLED-BACK SPAN: STATEMENT FAILED\n", o.brief()));
            }
        }
        let after = db.scan(&c.schema.table).map(|r| { let mut v = canon_rows(&r); v.sort(); v });
        if before != after {
            script.push_str("  <-- ROLLED-BACK SPAN CHANGED THE TABLE CONTENTS\n");
        }
    }
    (db, script)
}

fn history_failed(script: &str, rep: &mut Report) -> bool {
    if script.contains("ROLLED-BACK SPAN") {
        rep.case(script, true);
        rep.fail(FailKind::Oracle, None, "BEGIN; SAVEPOINT; DML; ROLLBACK TO SAVEPOINT; COMMIT failed or changed the table contents (history before the statement under test)", script);
        return true;
    }
    if script.contains("HISTORY STEP DID NOT CHANGE EXACTLY ONE ROW") {
        rep.case(script, true);
        rep.fail(FailKind::Oracle, None, "UPDATE … SET id = <unused key> WHERE id = <existing key> did not change exactly that one row", script);
        return true;
    }
    false
}

fn canon_rows(rows: &[Vec<SqlValue>]) -> Vec<String> {
    rows.iter().map(|r| canon::row(r)).collect()
}

/// sequence equality; after a rolled-back span the physical row order is the engine's business,
/// so then multiset equality
fn same_rows(c: &Case, a: &[String], b: &[String]) -> bool {
    if c.txn_pre.is_empty() {
        return a == b;
    }
    let (mut x, mut y) = (a.to_vec(), b.to_vec());
    x.sort();
    y.sort();
    x == y
}

fn model_rows(sx: &Sx) -> Vec<String> {
    sx.as_list().unwrap_or(&[]).iter().map(|r| r.to_string()).collect()
}

fn gen_case(r: &mut Rng) -> Case {
    let ncols = r.range(3, 4) as usize;
    let mut cols = vec![("id".to_string(), Ty::Int)];
    for i in 1..ncols {
        cols.push((format!("c{}", i), if i == 1 || r.chance(1, 2) { Ty::Int } else { Ty::Str }));
    }
    let schema = Schema { table: "t".into(), cols };
    let n = match r.below(8) {
        0 => 0,
        1 => 1,
        _ => r.range(2, 10) as usize,
    };
    let mut rows = gen_rows(r, &schema, n);
    // unique non-NULL ids, not sequential
    let mut ids: Vec<i64> = (-2..12).collect();
    r.shuffle(&mut ids);
    for (i, row) in rows.iter_mut().enumerate() {
        row[0] = Lit::I(ids[i]);
    }
    let pk_type = *r.pick(&["INTEGER", "INTEGER", "BIGINT"]);
    let loaded = rows.clone();
    // history before the statement under test: key-changing single-row UPDATEs (the old key
    // becomes stale), sometimes followed by re-using a stale key for another row
    let mut pre = vec![];
    let mut stale_ids = vec![];
    let mut free: Vec<i64> = ids[n..].to_vec();
    // (UPDATE of a BIGINT column with an INTEGER literal is rejected by the engine: type mismatch)
    if !rows.is_empty() && pk_type == "INTEGER" && r.chance(1, 2) {
        let steps = r.range(1, 2);
        for _ in 0..steps {
            let i = r.below(rows.len() as u64) as usize;
            let old = match rows[i][0] {
                Lit::I(x) => x,
                _ => continue,
            };
            let new = if !stale_ids.is_empty() && r.chance(1, 3) { stale_ids.remove(0) } else if let Some(x) = free.pop() { x } else { continue };
            pre.push(format!("UPDATE t SET id = {} WHERE id = {}", Lit::I(new).sql(), Lit::I(old).sql()));
            rows[i][0] = Lit::I(new);
            stale_ids.push(old);
        }
    }
    // one case in three: a secondary index on c1 (or (c1, id) / (c1, c2)), and history steps that move
    // single rows from one c1 key to another (index maintenance on UPDATE: the rows that stay under
    // the old key must remain reachable through the index)
    let mut index = None;
    let mut stale_c1 = vec![];
    if r.chance(1, 3) {
        let cols = *r.pick(&["c1", "c1", "c1, id", "c1, c2"]);
        index = Some((format!("CREATE INDEX ix_c1 ON t ({})", cols), r.chance(1, 2)));
        if !rows.is_empty() {
            for _ in 0..r.range(1, 3) {
                let i = r.below(rows.len() as u64) as usize;
                let (id, old) = match (&rows[i][0], &rows[i][1]) {
                    (Lit::I(id), Lit::I(old)) => (*id, *old),
                    _ => continue,
                };
                let new = r.range(-2, 6);
                if new == old {
                    continue;
                }
                pre.push(format!("UPDATE t SET c1 = {} WHERE id = {}", Lit::I(new).sql(), Lit::I(id).sql()));
                rows[i][1] = Lit::I(new);
                stale_c1.push(old);
            }
        }
    }
    // a rolled-back span: the contents stay, the storage (row order, index positions) is shaken
    let mut txn_pre = vec![];
    if !rows.is_empty() && r.chance(1, 3) {
        txn_pre.push("BEGIN".to_string());
        txn_pre.push("SAVEPOINT sp".to_string());
        for _ in 0..r.range(1, 3) {
            let i = r.below(rows.len() as u64) as usize;
            let id = match rows[i][0] { Lit::I(x) => x, _ => continue };
            match r.below(4) {
                0 | 1 => txn_pre.push(format!("UPDATE t SET c1 = {} WHERE id = {}", Lit::I(r.range(50, 60)).sql(), Lit::I(id).sql())),
                2 => txn_pre.push(format!("DELETE FROM t WHERE id = {}", Lit::I(id).sql())),
                _ => txn_pre.push(format!("UPDATE t SET c1 = c1 WHERE id >= {}", Lit::I(id).sql())),
            }
        }
        txn_pre.push("ROLLBACK TO SAVEPOINT sp".to_string());
        txn_pre.push("COMMIT".to_string());
    }
    Case { schema, pk_type, loaded, pre, txn_pre, rows, stale_ids, index, stale_c1 }
}

/// WHERE predicate as SQL + model expression + a label; covers the fast path and its neighbours
fn gen_pred(r: &mut Rng, c: &Case) -> (String, Sx, &'static str) {
    let names: Vec<String> = c.schema.cols.iter().map(|x| x.0.clone()).collect();
    let g = Gen::new(&c.schema);
    let some_id = if !c.stale_ids.is_empty() && r.chance(1, 2) {
        // a key some row held earlier in the history
        *r.pick(&c.stale_ids)
    } else if !c.rows.is_empty() && r.chance(3, 4) {
        match &c.rows[r.below(c.rows.len() as u64) as usize][0] {
            Lit::I(i) => *i,
            _ => 0,
        }
    } else {
        r.range(-3, 13)
    };
    let eq = |v: i64| E::Bin(Op::Eq, Box::new(E::Col(0)), Box::new(E::Lit(Lit::I(v))));
    if c.index.is_some() && r.chance(1, 2) {
        // equality / range on the indexed column c1, the literal being a key that lost a row earlier
        // in the history, a key some row holds now, or a free one
        let v = if !c.stale_c1.is_empty() && r.chance(2, 3) {
            *r.pick(&c.stale_c1)
        } else if !c.rows.is_empty() && r.chance(3, 4) {
            match &c.rows[r.below(c.rows.len() as u64) as usize][1] { Lit::I(i) => *i, _ => 0 }
        } else {
            r.range(-3, 7)
        };
        let op = *r.pick(&[Op::Eq, Op::Eq, Op::Eq, Op::Ge, Op::Le]);
        let e = E::Bin(op, Box::new(E::Col(1)), Box::new(E::Lit(Lit::I(v))));
        return (e.sql(&names), e.sx(), "indexed_column_vs_literal");
    }
    match r.below(10) {
        0 | 1 => (format!("id = {}", Lit::I(some_id).sql()), eq(some_id).sx(), "pk_eq_literal"),
        2 => (format!("{} = id", Lit::I(some_id).sql()), eq(some_id).sx(), "literal_eq_pk"),
        3 => (format!("id = {}.0", some_id.abs()), eq(some_id.abs()).sx(), "pk_eq_decimal_literal"),
        4 => {
            let e = g.int(r, 1);
            (e.sql(&names), e.sx(), "integer_truth_value")
        }
        _ => {
            let d = r.range(0, 2) as u32;
            let e = g.boolean(r, d);
            (e.sql(&names), e.sx(), "boolean_predicate")
        }
    }
}

fn run_delete(c: &Case, r: &mut Rng, model: &mut model::Model, rep: &mut Report) {
    let (mut db, script) = setup(c);
    if history_failed(&script, rep) {
        return;
    }
    let (p_sql, p_sx, label) = gen_pred(r, c);
    let t = &c.schema.table;
    let pre = db.scan(t).unwrap();
    let sel = db.query(&format!("SELECT * FROM {} WHERE {}", t, p_sql));
    let del_sql = format!("DELETE FROM {} WHERE {}", t, p_sql);
    let del = db.exec(&del_sql);
    let post = db.scan(t).unwrap();
    let case_id = format!("delete {} {} {}", rows_sx(&c.rows), p_sx, c.pk_type);
    rep.count(&format!("delete_{}", label));
    let replay = |extra: &str| format!("{}-- pre-state select: SELECT * FROM {} WHERE {} => {}\n{};\n  => {}\n-- post-state: {}\n{}", script, t, p_sql, sel.brief(), del_sql, del.brief(), canon::rows_seq(&post), extra);
    if del.is_panic() || sel.is_panic() {
        rep.case(&case_id, true);
        rep.fail(FailKind::Oracle, None, "engine panicked", &replay(""));
        return;
    }
    let (srows, n) = match (&sel, &del) {
        (Out::Rows(s), Out::Count(n)) => (s.clone(), *n),
        (Out::Err { .. }, _) => {
            // SELECT rejects the predicate: DELETE must then delete nothing
            rep.case(&case_id, false);
            rep.count("predicate_rejected_by_select");
            if canon_rows(&post) != canon_rows(&pre) {
                rep.fail(FailKind::Oracle, None, "DELETE removed rows although SELECT rejects the predicate", &replay(""));
            }
            return;
        }
        _ => {
            rep.case(&case_id, false);
            rep.fail(FailKind::Oracle, None, "DELETE fails although SELECT with the same predicate succeeds", &replay(""));
            return;
        }
    };
    rep.case(&case_id, !srows.is_empty() && srows.len() < pre.len());
    // oracle: count, and post = pre minus selected (survivors in order)
    let selset: Vec<String> = canon_rows(&srows);
    let expected: Vec<String> = canon_rows(&pre).into_iter().filter(|x| !selset.contains(x)).collect();
    if n != srows.len() || canon_rows(&post) != expected {
        rep.fail(FailKind::Oracle, None, "DELETE … WHERE p does not remove exactly the rows SELECT … WHERE p returns (or reports a wrong count)", &replay(""));
    }
    // model
    let reply = model.ask(&format!("delete {} {}", rows_sx(&c.rows), p_sx));
    rep.traces_validated += 1;
    match Sx::parse(&reply) {
        Some(Sx::List(v)) if v.len() == 3 && v[0].as_atom() == Some("delete") => {
            let mc: usize = v[1].as_atom().and_then(|x| x.parse().ok()).unwrap_or(usize::MAX);
            if mc != n || !same_rows(c, &model_rows(&v[2]), &canon_rows(&post)) {
                rep.fail(FailKind::ModelDiff, None, "DELETE: model and engine differ", &replay(&format!("-- model: {}", reply)));
            }
        }
        _ => rep.fail(FailKind::ModelDiff, None, "DELETE: unexpected model reply", &replay(&format!("-- model: {}", reply))),
    }
    // the PK fast path model (typed literal) on the pk_eq forms
    if label == "pk_eq_literal" || label == "pk_eq_decimal_literal" {
        if let Some(Sx::List(parts)) = Sx::parse(&p_sx.to_string()) {
            if let Some(Sx::List(l)) = parts.get(2) {
                let lit = l[1].to_string();
                let same = if label == "pk_eq_literal" && c.pk_type == "INTEGER" { "1" } else { "0" };
                let reply = model.ask(&format!("deletepk 0 {} {} {}", rows_sx(&c.rows), lit, same));
                if let Some(Sx::List(v)) = Sx::parse(&reply) {
                    if v.len() == 3 && (v[1].as_atom().and_then(|x| x.parse::<usize>().ok()) != Some(n) || !same_rows(c, &model_rows(&v[2]), &canon_rows(&post))) {
                        rep.fail(FailKind::ModelDiff, None, "DELETE by primary key: fast-path model and engine differ", &replay(&format!("-- model: {}", reply)));
                    }
                }
                rep.count("pk_fastpath_model_checked");
            }
        }
    }
}

fn run_update(c: &Case, r: &mut Rng, model: &mut model::Model, rep: &mut Report) {
    let (mut db, script) = setup(c);
    if history_failed(&script, rep) {
        return;
    }
    let (p_sql, p_sx, label) = gen_pred(r, c);
    let names: Vec<String> = c.schema.cols.iter().map(|x| x.0.clone()).collect();
    let g = Gen::new(&c.schema);
    let t = &c.schema.table;
    // SET list over non-key columns; sometimes a swap of two same-typed columns
    let mut assigns: Vec<(usize, E)> = vec![];
    let ints: Vec<usize> = c.schema.cols_of(Ty::Int).into_iter().filter(|i| *i != 0).collect();
    if ints.len() >= 2 && r.chance(1, 4) {
        assigns.push((ints[0], E::Col(ints[1])));
        assigns.push((ints[1], E::Col(ints[0])));
        rep.count("update_swap_columns");
    } else {
        let k = r.range(1, 2);
        let mut used = vec![];
        for _ in 0..k {
            let col = r.range(1, c.schema.cols.len() as i64 - 1) as usize;
            if used.contains(&col) {
                continue;
            }
            used.push(col);
            let e = if c.schema.cols[col].1 == Ty::Int { g.int(r, 2) } else { g.string(r, 1) };
            assigns.push((col, e));
        }
    }
    let set_sql: Vec<String> = assigns.iter().map(|(c2, e)| format!("{} = {}", names[*c2], e.sql(&names))).collect();
    let upd_sql = format!("UPDATE {} SET {} WHERE {}", t, set_sql.join(", "), p_sql);
    // expected images from the engine's own SELECT on the pre-state
    let img_items: Vec<String> = (0..names.len())
        .map(|i| match assigns.iter().find(|a| a.0 == i) {
            Some((_, e)) => e.sql(&names),
            None => names[i].clone(),
        })
        .collect();
    let pre = db.scan(t).unwrap();
    let sel = db.query(&format!("SELECT * FROM {} WHERE {}", t, p_sql));
    let img = db.query(&format!("SELECT {} FROM {} WHERE {}", img_items.join(", "), t, p_sql));
    let upd = db.exec(&upd_sql);
    let post = db.scan(t).unwrap();
    let asx = Sx::List(assigns.iter().map(|(c2, e)| Sx::List(vec![Sx::int(*c2 as i128), e.sx()])).collect());
    let case_id = format!("update {} {} {} {}", rows_sx(&c.rows), p_sx, asx, c.pk_type);
    rep.count(&format!("update_{}", label));
    let replay = |extra: &str| format!("{}-- pre-state: SELECT * … WHERE {} => {}\n-- images: {}\n{};\n  => {}\n-- post-state: {}\n{}", script, p_sql, sel.brief(), img.brief(), upd_sql, upd.brief(), canon::rows_seq(&post), extra);
    if upd.is_panic() {
        rep.case(&case_id, true);
        rep.fail(FailKind::Oracle, None, "engine panicked", &replay(""));
        return;
    }
    match (&sel, &img, &upd) {
        (Out::Rows(s), Out::Rows(im), Out::Count(n)) => {
            rep.case(&case_id, !s.is_empty() && s.len() < pre.len());
            // ids are unique and never assigned: identify a selected row and its image by the id
            let idkey = |r: &Vec<SqlValue>| canon::val(&r[0]);
            let sel_ids: Vec<String> = s.iter().map(idkey).collect();
            let images: std::collections::HashMap<String, String> = im.iter().map(|r| (idkey(r), canon::row(r))).collect();
            let expected: Vec<String> = pre
                .iter()
                .map(|x| if sel_ids.contains(&idkey(x)) { images.get(&idkey(x)).cloned().unwrap_or_else(|| "<missing image>".into()) } else { canon::row(x) })
                .collect();
            if *n != s.len() || canon_rows(&post) != expected {
                rep.fail(FailKind::Oracle, None, "UPDATE … WHERE p does not change exactly the selected rows to the SET expressions evaluated on their old values", &replay(&format!("-- expected: {:?}", expected)));
            }
            let reply = model.ask(&format!("update {} {} {}", rows_sx(&c.rows), p_sx, asx));
            rep.traces_validated += 1;
            match Sx::parse(&reply) {
                Some(Sx::List(v)) if v.len() == 3 && v[0].as_atom() == Some("update") => {
                    let mc: usize = v[1].as_atom().and_then(|x| x.parse().ok()).unwrap_or(usize::MAX);
                    if mc != *n || !same_rows(c, &model_rows(&v[2]), &canon_rows(&post)) {
                        rep.fail(FailKind::ModelDiff, None, "UPDATE: model and engine differ", &replay(&format!("-- model: {}", reply)));
                    }
                }
                _ => rep.fail(FailKind::ModelDiff, None, "UPDATE: engine succeeds where the model reports an evaluation error", &replay(&format!("-- model: {}", reply))),
            }
        }
        (_, _, Out::Err { .. }) => {
            rep.case(&case_id, false);
            rep.count("update_rejected");
            // a rejected UPDATE changes nothing (C11's property; cheap to check here too)
            if canon_rows(&post) != canon_rows(&pre) {
                rep.fail(FailKind::Oracle, None, "a rejected UPDATE changed the table", &replay(""));
            }
        }
        _ => {
            rep.case(&case_id, false);
            rep.fail(FailKind::Oracle, None, "UPDATE succeeds although SELECT with the same predicate / SET expressions fails", &replay(""));
        }
    }
}

fn run_insert(c: &Case, r: &mut Rng, rep: &mut Report) {
    let (mut db, script) = setup(c);
    if history_failed(&script, rep) {
        return;
    }
    let t = &c.schema.table;
    let pre = db.scan(t).unwrap();
    let k = r.range(1, 3) as usize;
    let mut new = gen_rows(r, &c.schema, k);
    for (i, row) in new.iter_mut().enumerate() {
        row[0] = Lit::I(100 + i as i64);
    }
    let vals: Vec<String> = new.iter().map(|row| format!("({})", row.iter().map(|v| v.sql()).collect::<Vec<_>>().join(", "))).collect();
    let sql = format!("INSERT INTO {} VALUES {}", t, vals.join(", "));
    let out = db.exec(&sql);
    let post = db.scan(t).unwrap();
    rep.case(&format!("insert {} {}", rows_sx(&c.rows), rows_sx(&new)), true);
    rep.count("insert_multi_row");
    let mut expected = canon_rows(&pre);
    expected.extend(new.iter().map(|x| lit_row_canon(x)));
    let ok = matches!(out, Out::Count(n) if n == k) && canon_rows(&post) == expected;
    if !ok {
        rep.fail(FailKind::Oracle, None, "INSERT does not add exactly the given rows", &format!("{}{};\n  => {}\n-- post: {}", script, sql, out.brief(), canon::rows_seq(&post)));
    }
}

fn main() {
    engine::silence_panics();
    let args = Args::parse("C09");
    let mut rep = Report::new(
        &args,
        "case = (keyed table contents, WHERE predicate [, SET list]); predicates: pk = literal (both orders, decimal literal, BIGINT key), \
         integer truth values, generated boolean predicates; non-trivial = the predicate selects some but not all rows; distinct by hash",
    );
    rep.assumptions.push("primary keys are unique small integers; SET lists do not assign the key column (key changes are C10's)".into());
    let mut model = args.model();
    let mut rng = Rng::new(args.seed);
    let n = args.n(900, 30000);
    for i in 0..n {
        let mut r = rng.fork();
        let c = gen_case(&mut r);
        if i < 3 {
            rep.sample(serde_json::json!({"create": create_sql(&c), "rows": c.rows.len(), "history_before_statement": c.pre}));
        }
        if !c.pre.is_empty() {
            rep.count("case_with_key_changing_history");
        }
        match i % 5 {
            0 | 1 => run_delete(&c, &mut r, &mut model, &mut rep),
            2 | 3 => run_update(&c, &mut r, &mut model, &mut rep),
            _ => run_insert(&c, &mut r, &mut rep),
        }
    }
    std::process::exit(rep.finish());
}
