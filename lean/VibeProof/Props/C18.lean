import VibeProof.Model.BinCodec
import VibeProof.Model.BinTypes
import VibeProof.Lemmas.BinCodec
/-
C18 — native save/load round-trips the database (binary format, byte level).
-/
namespace VibeProof.C18
open VibeProof.BinCodec VibeProof.Generated

/-! ### T0: the tag table of format.rs (re-extracted from the source on every run) -/

/-- `TypeTag::from_u8 (t as u8) = Ok t` for every tag -/
theorem C18_tag_roundtrip : ∀ t : Tag, Tag.fromNat? t.toNat = some t := by
  intro t; cases t <;> decide

/-- distinct tags have distinct bytes -/
theorem C18_tag_injective (t u : Tag) (h : t.toNat = u.toNat) : t = u := by
  have h1 := C18_tag_roundtrip t
  have h2 := C18_tag_roundtrip u
  rw [h] at h1; rw [h1] at h2; exact Option.some.inj h2

/-- every arm of `from_u8` is the inverse of the enum discriminant, every discriminant fits a
    byte, and the source has no variant the model does not know -/
theorem C18_tag_tables_agree :
    (∀ p ∈ binTagFromByte, (Tag.ofIdx? p.2).map Tag.toNat = some p.1) ∧
    (∀ t : Tag, t.toNat < 256) ∧ binTagUnknownVariants = 0 ∧
    binTagFromByte.length = Tag.all.length := by
  refine ⟨by decide, ?_, by decide, by decide⟩
  intro t; cases t <;> decide

theorem tagByte_toNat (t : Tag) : t.toByte.toNat = t.toNat := by
  unfold Tag.toByte
  rw [UInt8.toNat_ofNat']
  have := C18_tag_tables_agree.2.1 t
  omega

/-! ### T1: values -/

theorem reads_temporal (k : TKind) (s : Bytes) (hv : validUtf8 s = true) (hl : s.length < 2 ^ 32)
    (hc : (temporalCheck k s).toBool = true) :
    Reads (readTemporal k) (writeString s) (.temporal k s) := by
  intro rest
  unfold readTemporal
  rw [bind_def, bind_res_ok (Reads.string hv hl rest)]
  cases h : temporalCheck k s with
  | ok u => rfl
  | error e => rw [h] at hc; cases hc

theorem reads_body (v : BVal) (h : v.WF) : Reads (readBody v.tag) (writeBody v) v := by
  cases v with
  | null => exact Reads.pure _
  | smallint n => exact Reads.map (Reads.i16 h.1 h.2) BVal.smallint
  | integer n => exact Reads.map (Reads.i64 h.1 h.2) BVal.integer
  | bigint n => exact Reads.map (Reads.i64 h.1 h.2) BVal.bigint
  | unsigned n => exact Reads.map (Reads.uN (k := 8) (by simpa [BVal.WF] using h)) BVal.unsigned
  | numeric n => exact Reads.map (Reads.uN (k := 8) (by simpa [BVal.WF] using h)) BVal.numeric
  | float n => exact Reads.map (Reads.uN (k := 4) (by simpa [BVal.WF] using h)) BVal.float
  | real n => exact Reads.map (Reads.uN (k := 4) (by simpa [BVal.WF] using h)) BVal.real
  | double n => exact Reads.map (Reads.uN (k := 8) (by simpa [BVal.WF] using h)) BVal.double
  | character s => exact Reads.map (Reads.string h.1 h.2) BVal.character
  | varchar s => exact Reads.map (Reads.string h.1 h.2) BVal.varchar
  | boolean b => exact Reads.map (Reads.bool b) BVal.boolean
  | temporal k s =>
    cases k <;> exact reads_temporal _ s h.1 h.2.1 h.2.2

theorem reads_value (v : BVal) (h : v.WF) : Reads readValue (writeValue v) v := by
  unfold readValue writeValue
  have : v.tag.toByte :: writeBody v = [v.tag.toByte] ++ writeBody v := rfl
  rw [this]
  refine Reads.bind (Reads.u8 _) ?_
  simp only [tagByte_toNat, C18_tag_roundtrip]
  exact reads_body v h

/-- **T1.** decoding the encoding of any value (extreme integers, every float bit pattern,
    every valid UTF-8 string below 4 GiB) returns exactly that value and the untouched rest -/
theorem C18_value_roundtrip (v : BVal) (h : v.WF) (rest : Bytes) :
    (readValue (writeValue v ++ rest)).res = .ok (v, rest) := reads_value v h rest

example : (BVal.bigint (-(2 ^ 63))).WF ∧ (BVal.double 0x7FF8000000000001).WF ∧
    (BVal.varchar [0xC3, 0xA9, 0x27]).WF := by decide

/-! ### T2: rows and table data, any number of rows / columns -/

theorem reads_row (r : Row) (h : ∀ v ∈ r, v.WF) : Reads (readRow r.length) (writeRow r) r :=
  Reads.many r (fun v hv => reads_value v (h v hv))

/-- **T2a.** a row of any width -/
theorem C18_row_roundtrip (r : Row) (h : ∀ v ∈ r, v.WF) (rest : Bytes) :
    (readRow r.length (writeRow r ++ rest)).res = .ok (r, rest) := reads_row r h rest

theorem reads_rows (rs : List Row) (k : Nat) (hk : ∀ r ∈ rs, r.length = k)
    (h : ∀ r ∈ rs, ∀ v ∈ r, v.WF) : Reads (readRows rs.length k) (writeRows rs) rs := by
  refine Reads.many rs (fun r hr => ?_)
  have := reads_row r (h r hr)
  rwa [hk r hr] at this

/-- **T2b.** any number of rows of `k` columns (the column count comes from the catalog) -/
theorem C18_rows_roundtrip (rs : List Row) (k : Nat) (hk : ∀ r ∈ rs, r.length = k)
    (h : ∀ r ∈ rs, ∀ v ∈ r, v.WF) (rest : Bytes) :
    (readRows rs.length k (writeRows rs ++ rest)).res = .ok (rs, rest) :=
  reads_rows rs k hk h rest

def TableData.WF (tables : List TableDef) (t : TableData) : Prop :=
  validUtf8 t.name = true ∧ t.name.length < 2 ^ 32 ∧ t.rows.length < 2 ^ 64 ∧
  ∃ k, findCols tables t.name = some k ∧ ¬ (k = 0 ∧ t.rows.length > 0) ∧
    (∀ r ∈ t.rows, r.length = k) ∧ (∀ r ∈ t.rows, ∀ v ∈ r, v.WF)

theorem reads_tableData (tables : List TableDef) (t : TableData) (h : TableData.WF tables t) :
    Reads (readTableData tables) (writeTableData t) t := by
  obtain ⟨h1, h2, h3, k, hk, hz, hlen, hwf⟩ := h
  unfold readTableData writeTableData
  simp only [List.append_assoc]
  refine Reads.bind (Reads.string h1 h2) ?_
  refine Reads.bind (Reads.uN (k := 8) (by simpa using h3)) ?_
  simp only [hk, if_neg hz]
  exact Reads.map (reads_rows t.rows k hlen hwf) (fun rows => (⟨t.name, rows⟩ : TableData))

/-- **T2c.** one table of the data section: name, row count, rows -/
theorem C18_table_data_roundtrip (tables : List TableDef) (t : TableData)
    (h : TableData.WF tables t) (rest : Bytes) :
    (readTableData tables (writeTableData t ++ rest)).res = .ok (t, rest) :=
  reads_tableData tables t h rest

/-! ### T4: catalog section and whole file -/

def StrOK (s : Bytes) : Prop := validUtf8 s = true ∧ s.length < 2 ^ 32
instance (s : Bytes) : Decidable (StrOK s) := by unfold StrOK; infer_instance

def ColDef.WF (c : ColDef) : Prop := StrOK c.name ∧ StrOK c.typeStr
def TableDef.WF (t : TableDef) : Prop :=
  StrOK t.name ∧ t.cols.length < 2 ^ 32 ∧ ∀ c ∈ t.cols, ColDef.WF c
def IdxDef.WF (i : IdxDef) : Prop :=
  StrOK i.name ∧ StrOK i.table ∧ i.cols.length < 2 ^ 32 ∧
  ∀ c ∈ i.cols, StrOK c.name ∧ ∀ n, c.pfx = some n → n < 2 ^ 64
def TrigDef.WF (t : TrigDef) : Prop :=
  StrOK t.name ∧ StrOK t.table ∧ t.timing ≤ 2 ∧ t.event ≤ 3 ∧ t.granularity ≤ 1 ∧ StrOK t.sql ∧
  (t.event ≠ 3 → t.eventCols = []) ∧ t.eventCols.length < 2 ^ 32 ∧ (∀ c ∈ t.eventCols, StrOK c) ∧
  t.when = none
def Catalog.WF (c : Catalog) : Prop :=
  (c.schemas.length < 2 ^ 32 ∧ ∀ s ∈ c.schemas, StrOK s) ∧
  (c.roles.length < 2 ^ 32 ∧ ∀ s ∈ c.roles, StrOK s) ∧
  (c.tables.length < 2 ^ 32 ∧ ∀ t ∈ c.tables, TableDef.WF t) ∧
  (c.indexes.length < 2 ^ 32 ∧ ∀ i ∈ c.indexes, IdxDef.WF i) ∧
  (c.triggers.length < 2 ^ 32 ∧ ∀ t ∈ c.triggers, TrigDef.WF t)
def FileContent.WF (f : FileContent) : Prop :=
  Catalog.WF f.catalog ∧ f.data.length = f.catalog.tables.length ∧
  ∀ t ∈ f.data, TableData.WF f.catalog.tables t

theorem reads_str {s : Bytes} (h : StrOK s) : Reads readString (writeString s) s :=
  Reads.string h.1 h.2

theorem reads_counted {rd : Reader α} {wr : α → Bytes} (xs : List α) (hl : xs.length < 2 ^ 32)
    (h : ∀ x ∈ xs, Reads rd (wr x) x) : Reads (readCounted rd) (writeCounted wr xs) xs := by
  unfold readCounted writeCounted writeCount
  exact Reads.bind (Reads.uN (k := 4) (by simpa using hl)) (Reads.many xs h)

theorem reads_col (c : ColDef) (h : ColDef.WF c) : Reads readCol (writeCol c) c := by
  unfold readCol writeCol
  simp only [List.append_assoc]
  refine Reads.bind (reads_str h.1) ?_
  refine Reads.bind (reads_str h.2) ?_
  exact Reads.map (Reads.bool c.nullable) (fun b => (⟨c.name, c.typeStr, b⟩ : ColDef))

theorem reads_tableDef (t : TableDef) (h : TableDef.WF t) :
    Reads readTableDef (writeTableDef t) t := by
  unfold readTableDef writeTableDef writeCount
  simp only [List.append_assoc]
  refine Reads.bind (reads_str h.1) ?_
  refine Reads.bind (Reads.uN (k := 4) (by simpa using h.2.1)) ?_
  exact Reads.map (Reads.many t.cols (fun c hc => reads_col c (h.2.2 c hc)))
    (fun cs => (⟨t.name, cs⟩ : TableDef))

theorem reads_idxCol (c : IdxCol) (h : StrOK c.name ∧ ∀ n, c.pfx = some n → n < 2 ^ 64) :
    Reads readIdxCol (writeIdxCol c) c := by
  unfold readIdxCol writeIdxCol
  simp only [List.append_assoc]
  refine Reads.bind (reads_str h.1) ?_
  obtain ⟨n, d, p⟩ := c
  cases d <;> cases p with
  | none =>
    refine Reads.bind (w1 := [_]) (Reads.u8 _) ?_
    simp [dirByte]
    exact Reads.pure _
  | some k =>
    have hk : k < 256 ^ 8 := by have := h.2 k rfl; simpa using this
    refine Reads.bind (w1 := [_]) (Reads.u8 _) ?_
    simp [dirByte]
    exact Reads.map (Reads.uN hk) _

theorem reads_idxDef (i : IdxDef) (h : IdxDef.WF i) : Reads readIdxDef (writeIdxDef i) i := by
  unfold readIdxDef writeIdxDef writeCount
  simp only [List.append_assoc]
  refine Reads.bind (reads_str h.1) ?_
  refine Reads.bind (reads_str h.2.1) ?_
  refine Reads.bind (Reads.bool i.unique) ?_
  refine Reads.bind (Reads.uN (k := 4) (by simpa using h.2.2.1)) ?_
  exact Reads.map (Reads.many i.cols (fun c hc => reads_idxCol c (h.2.2.2 c hc)))
    (fun cs => (⟨i.name, i.table, i.unique, cs⟩ : IdxDef))

theorem Reads.bind_u8 {g : UInt8 → Reader β} {b : UInt8} {w : Bytes} {r : β}
    (h : Reads (g b) w r) : Reads (u8 >>= g) (b :: w) r :=
  Reads.bind (w1 := [b]) (Reads.u8 b) h

theorem Reads.bind_false {g : Bool → Reader β} {w : Bytes} {r : β}
    (h : Reads (g false) w r) : Reads (rbool >>= g) (0 :: w) r :=
  Reads.bind (w1 := [0]) (Reads.bool false) h

theorem reads_trig (t : TrigDef) (h : TrigDef.WF t) : Reads readTrig (writeTrig t) t := by
  obtain ⟨hn, ht, htim, hev, hg, hsql, hcols0, hcl, hcs, hwhen⟩ := h
  have e1 : (UInt8.ofNat t.timing).toNat = t.timing := by rw [UInt8.toNat_ofNat']; omega
  have e2 : (UInt8.ofNat t.event).toNat = t.event := by rw [UInt8.toNat_ofNat']; omega
  have e3 : (UInt8.ofNat t.granularity).toNat = t.granularity := by rw [UInt8.toNat_ofNat']; omega
  unfold readTrig writeTrig wbool
  simp only [List.append_assoc, List.cons_append, List.nil_append, Bool.false_eq_true, if_false]
  refine Reads.bind (reads_str hn) ?_
  refine Reads.bind (reads_str ht) ?_
  refine Reads.bind_u8 ?_
  simp only [e1]
  rw [if_neg (by omega)]
  refine Reads.bind_u8 ?_
  simp only [e2]
  rw [if_neg (by omega)]
  have hcols : Reads (if t.event = 3 then (do let k ← uN 4; readMany readString k) else Pure.pure [])
      (if t.event = 3 then writeCount t.eventCols.length ++ writeMany writeString t.eventCols else [])
      t.eventCols := by
    by_cases h3 : t.event = 3
    · simp only [h3, if_true]
      unfold writeCount
      exact Reads.bind (Reads.uN (k := 4) (by simpa using hcl))
        (Reads.many t.eventCols (fun c hc => reads_str (hcs c hc)))
    · simp only [h3, if_false, hcols0 h3]
      exact Reads.pure _
  refine Reads.bind hcols ?_
  refine Reads.bind_u8 ?_
  simp only [e3]
  rw [if_neg (by omega)]
  refine Reads.bind (w1 := [0]) (Reads.optional_none readExpression) ?_
  refine Reads.bind_u8 ?_
  simp only [show (0 : UInt8).toNat = 0 from rfl, ne_eq, not_true_eq_false, if_false]
  have ht' : (⟨t.name, t.table, t.timing, t.event, t.eventCols, t.granularity, none, t.sql⟩ : TrigDef) = t := by
    cases t; simp only at hwhen; subst hwhen; rfl
  have := Reads.map (reads_str hsql)
    (fun sql => (⟨t.name, t.table, t.timing, t.event, t.eventCols, t.granularity, none, sql⟩ : TrigDef))
  rw [ht'] at this
  exact this

theorem reads_catalog (c : Catalog) (h : Catalog.WF c) : Reads readCatalog (writeCatalog c) c := by
  obtain ⟨hs, hr, ht, hi, hg⟩ := h
  unfold readCatalog writeCatalog
  simp only [List.append_assoc]
  refine Reads.bind (reads_counted c.schemas hs.1 (fun s hx => reads_str (hs.2 s hx))) ?_
  refine Reads.bind (reads_counted c.roles hr.1 (fun s hx => reads_str (hr.2 s hx))) ?_
  refine Reads.bind (reads_counted c.tables ht.1 (fun t hx => reads_tableDef t (ht.2 t hx))) ?_
  refine Reads.bind (reads_counted c.indexes hi.1 (fun i hx => reads_idxDef i (hi.2 i hx))) ?_
  exact Reads.map (reads_counted c.triggers hg.1 (fun t hx => reads_trig t (hg.2 t hx)))
    (fun g => (⟨c.schemas, c.roles, c.tables, c.indexes, g⟩ : Catalog))

/-- **T4a.** the catalog section: schemas, roles, table definitions (column name, type text,
    nullability), index definitions (name, table, unique, columns with direction), triggers
    without WHEN -/
theorem C18_catalog_roundtrip (c : Catalog) (h : Catalog.WF c) (rest : Bytes) :
    (readCatalog (writeCatalog c ++ rest)).res = .ok (c, rest) := reads_catalog c h rest

theorem reads_header : Reads readHeader writeHeader () := by
  unfold readHeader writeHeader
  simp only [List.append_assoc, List.cons_append, List.nil_append]
  have hm : Reads (BinCodec.takeN binMagic.length) magicBytes magicBytes := by
    have := Reads.takeN magicBytes
    rwa [show magicBytes.length = binMagic.length by simp [magicBytes]] at this
  refine Reads.bind hm ?_
  simp only [ne_eq, not_true_eq_false, if_false]
  refine Reads.bind_u8 ?_
  rw [if_neg (by decide)]
  refine Reads.bind_u8 ?_
  have hr : Reads (BinCodec.takeN binReservedLen) (List.replicate binReservedLen (0 : UInt8))
      (List.replicate binReservedLen 0) := by
    have := Reads.takeN (List.replicate binReservedLen (0 : UInt8))
    rwa [List.length_replicate] at this
  exact Reads.map hr (fun _ => ())

theorem reads_file (f : FileContent) (h : FileContent.WF f) : Reads loadFile (saveFile f) f := by
  obtain ⟨hc, hl, hd⟩ := h
  unfold loadFile saveFile
  simp only [List.append_assoc]
  refine Reads.bind reads_header ?_
  refine Reads.bind (reads_catalog f.catalog hc) ?_
  have := Reads.many (rd := readTableData f.catalog.tables) (wr := writeTableData) f.data
    (fun t ht => reads_tableData f.catalog.tables t (hd t ht))
  rw [hl] at this
  exact Reads.map this (fun d => (⟨f.catalog, d⟩ : FileContent))

/-- **T4.** whole file: `load (save f) = f` — header, catalog and one data block per table,
    for any number of tables, columns, indexes and rows -/
theorem C18_file_roundtrip (f : FileContent) (h : FileContent.WF f) :
    (loadFile (saveFile f)).res = .ok (f, []) := by
  have := reads_file f h []
  simpa using this

def exampleFile : FileContent :=
  { catalog := { schemas := [], roles := [],
                 tables := [⟨[0x54], [⟨[0x41], [0x49, 0x4E, 0x54, 0x45, 0x47, 0x45, 0x52], true⟩]⟩],
                 indexes := [⟨[0x49], [0x54], false, [⟨[0x41], true, some 2⟩]⟩], triggers := [] },
    data := [⟨[0x74], [[.integer (-5)], [.null]]⟩] }

example : FileContent.WF exampleFile := by
  refine ⟨?_, rfl, ?_⟩
  · refine ⟨⟨by decide, by simp [exampleFile]⟩, ⟨by decide, by simp [exampleFile]⟩, ⟨by decide, ?_⟩,
      ⟨by decide, ?_⟩, ⟨by decide, by simp [exampleFile]⟩⟩
    · intro t ht
      simp [exampleFile] at ht; subst ht
      refine ⟨by decide, by decide, ?_⟩
      intro c hc; simp at hc; subst hc; exact ⟨by decide, by decide⟩
    · intro i hi
      simp [exampleFile] at hi; subst hi
      refine ⟨by decide, by decide, by decide, ?_⟩
      intro c hc; simp at hc; subst hc
      exact ⟨by decide, by intro n hn; injection hn with hn; subst hn; decide⟩
  · intro t ht
    simp [exampleFile] at ht; subst ht
    refine ⟨by decide, by decide, by decide, 1, by decide, (by intro h; exact absurd h.1 (by decide)), ?_, ?_⟩
    · intro r hr; simp at hr; rcases hr with h | h <;> subst h <;> rfl
    · intro r hr v hv; simp at hr; rcases hr with h | h <;> subst h <;> simp at hv <;> subst hv <;> decide

/-! ### T3: column types through the catalog text (`format_data_type` / `parse_data_type`) -/

open VibeProof.BinTypes in
/-- the full statement: every column type survives the catalog text -/
def C18_type_roundtrip_full : Prop := ∀ t : DataType, parseDataType (formatDataType t) = some t

open VibeProof.BinTypes in
/-- the types without parameters that the text identifies -/
def plainType : DataType → Prop
  | .integer | .smallint | .bigint | .unsigned | .real | .double | .boolean | .date
  | .time false | .timestamp _ | .varchar none => True
  | _ => False

open VibeProof.BinTypes in
/-- **T3 (partial).** holds for the parameterless types -/
theorem C18_type_roundtrip_partial (t : DataType) (h : plainType t) :
    parseDataType (formatDataType t) = some t := by
  cases t <;> simp only [plainType] at h <;> try decide
  all_goals (rename_i x; cases x <;> first | decide | exact absurd h (by simp [plainType]))

open VibeProof.BinTypes in
example : plainType (.timestamp true) := trivial

open VibeProof.BinTypes in
/-- parameterised types at the sizes the generators use (checked instances, not a proof for
    every size: the general statement needs the decimal printer/parser round trip) -/
theorem C18_type_roundtrip_instances :
    parseDataType (formatDataType (.varchar (some 40))) = some (.varchar (some 40)) ∧
    parseDataType (formatDataType (.character 6)) = some (.character 6) ∧
    parseDataType (formatDataType (.float 24)) = some (.float 24) ∧
    parseDataType (formatDataType (.numeric 10 2)) = some (.numeric 10 2) ∧
    parseDataType (formatDataType (.decimal 8 3)) = some (.decimal 8 3) ∧
    parseDataType (formatDataType (.numeric 38 0)) = some (.numeric 38 0) := by decide

open VibeProof.BinTypes in
/-- **T3 counterexamples** (each replayed on the real code by the harness probes):
    INTERVAL, BIT, a user-defined type name are written as text the reader rejects;
    TIME WITH TIME ZONE and NAME come back as other types -/
theorem C18_type_roundtrip_counterexample : ¬ C18_type_roundtrip_full := by
  intro h
  exact absurd (h (.time true)) (by decide)

open VibeProof.BinTypes in
theorem C18_type_counterexamples :
    parseDataType (formatDataType (.interval .year none)) = none ∧
    parseDataType (formatDataType (.bit (some 4))) = none ∧
    parseDataType (formatDataType (.userDefined "TINYINT".toList)) = none ∧
    parseDataType (formatDataType (.time true)) = some (.time false) ∧
    parseDataType (formatDataType .name) = some (.varchar (some 128)) ∧
    parseDataType (formatDataType (.userDefined "INTEGER".toList)) = some .integer := by decide

end VibeProof.C18
