import VibeProof.Model.Dml
/-
Foreign keys (C12): one FOREIGN KEY from a child table to the PRIMARY KEY of a parent table,
over the rows of `Dml` tables.  Mirrors insert/foreign_keys.rs + row_validator.rs phase 6 +
update/foreign_keys.rs (`validate_constraints`: a key with a NULL is not checked, otherwise a
parent row with equal key must exist) and delete/integrity.rs (`check_no_child_references`:
referrers are the child rows whose non-NULL key equals the parent key; NO ACTION / RESTRICT
reject, CASCADE deletes them, SET NULL nulls their key columns) and update/foreign_keys.rs
(`check_no_child_references` for a parent key change: NO ACTION rejects, CASCADE rewrites the
referrers' key columns).
-/
namespace VibeProof.Dml
open VibeProof

structure Fk where
  /-- child columns -/
  cols : List Nat
  /-- parent primary-key columns -/
  pcols : List Nat
  deriving Repr, Inhabited

inductive Action where
  | noAction | cascade | setNull
  deriving DecidableEq, Repr, Inhabited

namespace Fk

/-- `validate_foreign_key_constraints` for one row of the child -/
def rowOk (fk : Fk) (parents : List Row) (c : Row) : Bool :=
  hasNull (keyOf fk.cols c) || parents.any (fun p => keyOf fk.pcols p == keyOf fk.cols c)

/-- a child row references the parent key `k` (`child_fk_values == parent_key_values`, NULLs skipped) -/
def refers (fk : Fk) (k : Key) (c : Row) : Bool :=
  !hasNull (keyOf fk.cols c) && keyOf fk.cols c == k

/-- write `vals` into the key columns of a child row -/
def setCols : List Nat → List Value → Row → Row
  | i :: is, v :: vs, r => setCols is vs (r.set i v)
  | _, _, r => r

def nullCols (fk : Fk) (c : Row) : Row := setCols fk.cols (fk.cols.map (fun _ => Value.null)) c

/-- INSERT into the child / UPDATE of a child row: accepted iff the row passes `rowOk` -/
def insertChild (fk : Fk) (parents children : List Row) (c : Row) : Option (List Row) :=
  if fk.rowOk parents c then some (children ++ [c]) else none

/-- DELETE of the parent row `p` (already selected): the action on the child table;
`none` = statement rejected -/
def onDeleteParent (fk : Fk) (a : Action) (children : List Row) (p : Row) : Option (List Row) :=
  let k := keyOf fk.pcols p
  if children.any (fk.refers k) then
    match a with
    | .noAction => none
    | .cascade => some (children.filter (fun c => !(fk.refers k c)))
    | .setNull => some (children.map (fun c => if fk.refers k c then fk.nullCols c else c))
  else some children

/-- UPDATE of the parent key from `p` to `p'`: NO ACTION rejects when referrers exist, CASCADE
rewrites their key columns to the new key -/
def onUpdateParent (fk : Fk) (a : Action) (children : List Row) (p p' : Row) : Option (List Row) :=
  let k := keyOf fk.pcols p
  if children.any (fun c => keyOf fk.cols c == k) then
    match a with
    | .noAction => none
    | .cascade => some (children.map (fun c => if keyOf fk.cols c == k then setCols fk.cols (keyOf fk.pcols p') c else c))
    | .setNull => some (children.map (fun c => if keyOf fk.cols c == k then fk.nullCols c else c))
  else some children

/-- self-referencing table, DELETE of the row at position `i` as coded: the cascade removes the
referrers *by value* first, then the executor deletes *position* `i` of what is left
(delete/executor.rs keeps the positions collected before `check_no_child_references` ran) -/
def deleteSelfRefAsCoded (fk : Fk) (rows : List Row) (i : Nat) : List Row :=
  match rows[i]? with
  | none => rows
  | some victim =>
    let k := keyOf fk.pcols victim
    (rows.filter (fun c => !(fk.refers k c))).eraseIdx i

end Fk

/-- every child row with a NULL-free key has a parent row with that key -/
def FKInv (fk : Fk) (parents children : List Row) : Prop :=
  ∀ c ∈ children, hasNull (keyOf fk.cols c) = false → ∃ p ∈ parents, keyOf fk.pcols p = keyOf fk.cols c

end VibeProof.Dml

/-! ### several tables, several foreign keys, the recursive cascade (delete/integrity.rs)

`check_no_child_references(db, table, row)` collects, against the database as it is on entry,
the foreign keys that reference `table` and have a referrer of the row's key, then performs
their actions in order; `cascade_delete` first calls `check_no_child_references` for every
referrer and only then deletes the referrers (by row equality).  The Rust code has no fuel: the
recursion depth is bounded only by the data.  The model takes fuel and reports `CErr.fuel` when
it runs out, so that "terminates" is a theorem, not a default. -/
namespace VibeProof.Dml
open VibeProof

structure FkDecl where
  child : Nat
  parent : Nat
  cols : List Nat
  pcols : List Nat
  onDelete : Action
  deriving Repr, Inhabited

def FkDecl.fk (d : FkDecl) : Fk := { cols := d.cols, pcols := d.pcols }

/-- tables by number -/
abbrev Db := Nat → List Row

def Db.set (db : Db) (i : Nat) (rows : List Row) : Db := fun j => if j = i then rows else db j

inductive CErr where
  | reject   -- ConstraintViolation: NO ACTION / RESTRICT with a referrer
  | fuel     -- recursion deeper than the fuel (the real code would still be recursing)
  deriving DecidableEq, Repr, Inhabited

/-- run `rec` on every victim, threading the database -/
def runVictims (rec : Db → Row → Except CErr Db) : List Row → Db → Except CErr Db
  | [], db => .ok db
  | v :: vs, db =>
    match rec db v with
    | .error e => .error e
    | .ok db' => runVictims rec vs db'

/-- check every victim, then delete the victims from their table (`delete_where(|r| r == victim)`) -/
def deleteVictims (rec : Db → Row → Except CErr Db) (db : Db) (t : Nat) (victims : List Row) : Except CErr Db :=
  match runVictims rec victims db with
  | .error e => .error e
  | .ok db1 => .ok (db1.set t ((db1 t).filter (fun r => !(victims.contains r))))

/-- one collected action -/
def applyAct (rec : Nat → Db → Row → Except CErr Db) (row : Row) (d : FkDecl) (db : Db) : Except CErr Db :=
  let k := keyOf d.pcols row
  match d.onDelete with
  | .noAction => .error .reject
  | .cascade => deleteVictims (rec d.child) db d.child ((db d.child).filter (d.fk.refers k))
  | .setNull => .ok (db.set d.child ((db d.child).map (fun c => if d.fk.refers k c then d.fk.nullCols c else c)))

def runActs (rec : Nat → Db → Row → Except CErr Db) (row : Row) : List FkDecl → Db → Except CErr Db
  | [], db => .ok db
  | d :: ds, db =>
    match applyAct rec row d db with
    | .error e => .error e
    | .ok db' => runActs rec row ds db'

/-- `check_no_child_references` -/
def checkRow (fks : List FkDecl) : Nat → Db → Nat → Row → Except CErr Db
  | 0, _, _, _ => .error .fuel
  | f + 1, db, t, row =>
    let acts := fks.filter (fun d => d.parent == t && (db d.child).any (d.fk.refers (keyOf d.pcols row)))
    runActs (fun child db v => checkRow fks f db child v) row acts db

/-- `DeleteExecutor`: integrity handling for every selected row, then the rows are deleted -/
def deleteWithFks (fks : List FkDecl) (fuel : Nat) (db : Db) (t : Nat) (sel : Row → Bool) : Except CErr Db :=
  deleteVictims (fun db v => checkRow fks fuel db t v) db t ((db t).filter sel)

/-- every foreign key of the schema holds -/
def DbInv (fks : List FkDecl) (db : Db) : Prop :=
  ∀ d ∈ fks, FKInv d.fk (db d.parent) (db d.child)

end VibeProof.Dml

/-! ### TRUNCATE … CASCADE (truncate/constraints.rs `get_fk_children`, truncate/core.rs
`collect_fk_dependencies` + `execute_truncate_cascade`) -/
namespace VibeProof.Dml
open VibeProof

/-- `get_fk_children`: every table (other than the parent itself) that has *some* foreign key
referencing the parent, each once, in catalog order -/
def fkChildren (fks : List FkDecl) (tables : List Nat) (p : Nat) : List Nat :=
  tables.filter (fun c => c != p && fks.any (fun d => d.child == c && d.parent == p))

inductive TErr where
  | cycle   -- "Circular foreign key dependency detected"
  | fuel
  deriving DecidableEq, Repr, Inhabited

def visitAll (rec : List Nat → Nat → Except TErr (List Nat)) : List Nat → List Nat → Except TErr (List Nat)
  | vis, [] => .ok vis
  | vis, c :: cs =>
    match rec vis c with
    | .error e => .error e
    | .ok vis' => visitAll rec vis' cs

/-- the DFS of `collect_fk_dependencies`: `vis` = visited, `stack` = recursion stack -/
def visit (fks : List FkDecl) (tables : List Nat) : Nat → List Nat → List Nat → Nat → Except TErr (List Nat)
  | 0, _, _, _ => .error .fuel
  | f + 1, vis, stack, t =>
    if t ∈ stack then .error .cycle
    else if t ∈ vis then .ok vis
    else visitAll (fun vis c => visit fks tables f vis (t :: stack) c) (t :: vis) (fkChildren fks tables t)

/-- `execute_truncate` of every collected table -/
def emptyTables (db : Db) (s : List Nat) : Db := fun i => if i ∈ s then [] else db i

def truncateCascade (fks : List FkDecl) (tables : List Nat) (fuel : Nat) (db : Db) (p : Nat) : Except TErr Db :=
  match visit fks tables fuel [] [] p with
  | .error e => .error e
  | .ok s => .ok (emptyTables db s)

end VibeProof.Dml

/-! ### the repaired recursion (delete/integrity.rs since the visited-set repair)

`check_no_child_references_visiting` carries `in_progress`, the (table, row) pairs whose referrers
are being (or have been) handled by this call tree; a pair met again is skipped.  `in_progress`
only grows.  The executor starts every selected row with an empty list and afterwards deletes the
selected rows that are still there, found again by value (`deleteVictims`). -/
namespace VibeProof.Dml
open VibeProof

abbrev Seen := List (Nat × Row)

def runVictimsV (rec : Seen → Db → Row → Except CErr (Db × Seen)) : List Row → Seen → Db → Except CErr (Db × Seen)
  | [], seen, db => .ok (db, seen)
  | v :: vs, seen, db =>
    match rec seen db v with
    | .error e => .error e
    | .ok (db', seen') => runVictimsV rec vs seen' db'

def deleteVictimsV (rec : Seen → Db → Row → Except CErr (Db × Seen)) (seen : Seen) (db : Db) (t : Nat)
    (victims : List Row) : Except CErr (Db × Seen) :=
  match runVictimsV rec victims seen db with
  | .error e => .error e
  | .ok (db1, seen1) => .ok (db1.set t ((db1 t).filter (fun r => !(victims.contains r))), seen1)

def applyActV (rec : Nat → Seen → Db → Row → Except CErr (Db × Seen)) (row : Row) (d : FkDecl) (seen : Seen) (db : Db) :
    Except CErr (Db × Seen) :=
  let k := keyOf d.pcols row
  match d.onDelete with
  | .noAction => .error .reject
  | .cascade => deleteVictimsV (rec d.child) seen db d.child ((db d.child).filter (d.fk.refers k))
  | .setNull => .ok (db.set d.child ((db d.child).map (fun c => if d.fk.refers k c then d.fk.nullCols c else c)), seen)

def runActsV (rec : Nat → Seen → Db → Row → Except CErr (Db × Seen)) (row : Row) :
    List FkDecl → Seen → Db → Except CErr (Db × Seen)
  | [], seen, db => .ok (db, seen)
  | d :: ds, seen, db =>
    match applyActV rec row d seen db with
    | .error e => .error e
    | .ok (db', seen') => runActsV rec row ds seen' db'

/-- `check_no_child_references_visiting` -/
def checkRowV (fks : List FkDecl) : Nat → Seen → Db → Nat → Row → Except CErr (Db × Seen)
  | 0, _, _, _, _ => .error .fuel
  | f + 1, seen, db, t, row =>
    if seen.contains (t, row) then .ok (db, seen)
    else
      let acts := fks.filter (fun d => d.parent == t && (db d.child).any (d.fk.refers (keyOf d.pcols row)))
      runActsV (fun child seen db v => checkRowV fks f seen db child v) row acts ((t, row) :: seen) db

/-- `DeleteExecutor` after the repairs: every selected row with a fresh `in_progress`, then the
selected rows are deleted — at their positions when the table kept its size, otherwise found again by
primary key `pk`; both are "the rows whose primary key is the key of a selected row" (SET NULL may
have changed other columns of a selected row of a self-referencing table in the meantime) -/
def deleteWithFksV (fks : List FkDecl) (fuel : Nat) (db : Db) (t : Nat) (pk : List Nat) (sel : Row → Bool) : Except CErr Db :=
  let victims := (db t).filter sel
  match runVictimsV (fun _ db v => checkRowV fks fuel [] db t v) victims [] db with
  | .error e => .error e
  | .ok (db1, _) => .ok (db1.set t ((db1 t).filter (fun r => !((victims.map (keyOf pk)).contains (keyOf pk r)))))

end VibeProof.Dml

/-! ### referential actions and the savepoint undo log (storage `Database::update_row_recorded`,
`undo_change` for `TransactionChange::Update`)

A referential action that rewrites child rows (ON UPDATE CASCADE / SET NULL / SET DEFAULT, ON DELETE
SET NULL / SET DEFAULT) goes through `update_row_recorded`: read the row at the position, write the new
row, record `(old, new)`.  ROLLBACK TO SAVEPOINT undoes the recorded changes newest first; an update is
undone by value: remove one row equal to `new`, insert `old` (at the end). -/
namespace VibeProof.Dml
open VibeProof

/-- one recorded write; `none` = position past the end (`ColumnIndexOutOfBounds`, nothing recorded) -/
def updateRecorded (rows : List Row) (i : Nat) (new : Row) : Option (List Row × (Row × Row)) :=
  match rows[i]? with
  | none => none
  | some old => some (rows.set i new, (old, new))

/-- the writes of one referential action, log newest first -/
def applyRecorded : List Row → List (Nat × Row) → List Row × List (Row × Row)
  | rows, [] => (rows, [])
  | rows, (i, new) :: us =>
    match updateRecorded rows i new with
    | none => applyRecorded rows us
    | some (rows1, e) =>
      let r := applyRecorded rows1 us
      (r.1, r.2 ++ [e])

/-- `undo_change (Update { old_row, new_row })`: `remove_row(&new_row)` then `insert(old_row)` -/
def undoOne (rows : List Row) (e : Row × Row) : Option (List Row) :=
  if e.2 ∈ rows then some (rows.erase e.2 ++ [e.1]) else none

def undoAll : List Row → List (Row × Row) → Option (List Row)
  | rows, [] => some rows
  | rows, e :: es =>
    match undoOne rows e with
    | none => none
    | some rows' => undoAll rows' es

end VibeProof.Dml
