import VibeProof.Model.Codec
import VibeProof.Model.DmlFk
open VibeProof VibeProof.Proto VibeProof.Codec VibeProof.Dml

/-!
`(delparent noaction|cascade|setnull (cols…) (pcols…) (children R…) P)` → `(ok (R…))` | `(reject)`
`(updparent noaction|cascade|setnull (cols…) (pcols…) (children R…) P P')` → same
`(inschild (cols…) (pcols…) (parents R…) C)` → `(accept)` | `(reject)`
`(selfdel (cols…) (pcols…) (rows R…) i)` → `(ok (R…))`
`(trunc (fks …) (tables (R…)…) t)` → `(ok (R…)…)` | `(cycle)` | `(fuel)`: TRUNCATE TABLE t CASCADE
`(casc (fks (child parent (cols…) (pcols…) action)…) (tables (R…)…) t (sel V…))` → `(ok (R…)…)` | `(reject)` | `(fuel)`:
  whole DELETE of the rows of table t whose first column is in `sel`, repaired recursive cascade (`deleteWithFksV`,
  visited set), fuel = rows + tables + 1
-/

def decAction : String → Option Action
  | "noaction" => some .noAction | "cascade" => some .cascade | "setnull" => some .setNull | _ => none

def nats (s : Sx) : Option (List Nat) := match s with
  | .list xs => xs.mapM Sx.nat?
  | _ => none

def res (r : Option (List Row)) : Sx := match r with
  | some rows => .list [.atom "ok", encRows rows]
  | none => .list [.atom "reject"]

def handle : List Sx → Sx
  | [.atom "delparent", .atom a, c, pc, .list (.atom "children" :: ch), p] =>
    match decAction a, nats c, nats pc, ch.mapM decRow, decRow p with
    | some a, some c, some pc, some ch, some p => res (Fk.onDeleteParent { cols := c, pcols := pc } a ch p)
    | _, _, _, _, _ => .atom "bad-request"
  | [.atom "updparent", .atom a, c, pc, .list (.atom "children" :: ch), p, p'] =>
    match decAction a, nats c, nats pc, ch.mapM decRow, decRow p, decRow p' with
    | some a, some c, some pc, some ch, some p, some p' => res (Fk.onUpdateParent { cols := c, pcols := pc } a ch p p')
    | _, _, _, _, _, _ => .atom "bad-request"
  | [.atom "inschild", c, pc, .list (.atom "parents" :: ps), r] =>
    match nats c, nats pc, ps.mapM decRow, decRow r with
    | some c, some pc, some ps, some r =>
      if Fk.rowOk { cols := c, pcols := pc } ps r then .list [.atom "accept"] else .list [.atom "reject"]
    | _, _, _, _ => .atom "bad-request"
  | [.atom "selfdel", c, pc, .list (.atom "rows" :: rs), i] =>
    match nats c, nats pc, rs.mapM decRow, i.nat? with
    | some c, some pc, some rs, some i => res (some (Fk.deleteSelfRefAsCoded { cols := c, pcols := pc } rs i))
    | _, _, _, _ => .atom "bad-request"
  | [.atom "casc", .list (.atom "fks" :: fs), .list (.atom "tables" :: ts), t, .list (.atom "sel" :: ids)] =>
    let decFk : Sx → Option FkDecl
      | .list [c, p, cols, pcols, .atom a] => do
        pure { child := ← c.nat?, parent := ← p.nat?, cols := ← nats cols, pcols := ← nats pcols, onDelete := ← decAction a }
      | _ => none
    match fs.mapM decFk, ts.mapM decRows, t.nat?, ids.mapM decValueSx with
    | some fks, some tabs, some t, some ids =>
      let db : Db := fun i => tabs.getD i []
      let fuel := (tabs.map List.length).sum + tabs.length + 1
      match deleteWithFksV fks fuel db t [0] (fun r => ids.contains (r.getD 0 Value.null)) with
      | .ok db' => .list (.atom "ok" :: (List.range tabs.length).map (fun i => encRows (db' i)))
      | .error .reject => .list [.atom "reject"]
      | .error .fuel => .list [.atom "fuel"]
    | _, _, _, _ => .atom "bad-request"
  | [.atom "trunc", .list (.atom "fks" :: fs), .list (.atom "tables" :: ts), t] =>
    let decFk : Sx → Option FkDecl
      | .list [c, p, cols, pcols, .atom a] => do
        pure { child := ← c.nat?, parent := ← p.nat?, cols := ← nats cols, pcols := ← nats pcols, onDelete := ← decAction a }
      | _ => none
    match fs.mapM decFk, ts.mapM decRows, t.nat? with
    | some fks, some tabs, some t =>
      let db : Db := fun i => tabs.getD i []
      match truncateCascade fks (List.range tabs.length) (tabs.length + 1) db t with
      | .ok db' => .list (.atom "ok" :: (List.range tabs.length).map (fun i => encRows (db' i)))
      | .error .cycle => .list [.atom "cycle"]
      | .error .fuel => .list [.atom "fuel"]
    | _, _, _ => .atom "bad-request"
  | _ => .atom "bad-request"

def main : IO Unit := runDriver handle
