/-
Text model shared by C19 (SQL dump), C31 (CLI import/export) and C30 (Python parameter binding).

Strings are `List Char` (the Rust code is char-indexed everywhere here).  Every function mirrors
one function of /repo as coded:

* `dbl`, `renderStr`               — `s.replace('\'', "''")` and `format!("'{}'", …)`
                                      (persistence/save.rs `sql_value_to_literal`, data_io.rs
                                      `import_csv`/`import_json`, conversions.rs `substitute_placeholders`)
* `lexStrBody`, `lexString`        — lexer/strings.rs `tokenize_string`
* `scan`                           — lexer/mod.rs main loop, coarsened: whitespace and `--` comments
                                      skipped, quoted tokens recognised, every other char kept as is
* `Split.*`, `parseSqlStatements`  — persistence/load.rs `parse_sql_statements`
* `Lit.*`                          — `sql_value_to_literal` → parser `parse_literal` / unary sign →
                                      insert/defaults.rs → insert/validation.rs `coerce_value`
* `Csv.*`                          — data_io.rs `escape_csv_value`, `write_csv_row`, `parse_csv_records`, `import_csv`,
                                      `import_json` (after serde has parsed the file)
* `Bind.*`                         — conversions.rs `substitute_placeholders`, `py_to_sqlvalue`,
                                      cursor.rs `bind_parameters` and the statement cache of `execute`
-/
namespace VibeProof.Text

abbrev Str := List Char

/-! ## Character classes (Rust `char::is_whitespace`, i.e. Unicode White_Space) -/

def isWs (c : Char) : Bool :=
  let n := c.toNat
  (9 ≤ n && n ≤ 13) || n = 32 || n = 0x85 || n = 0xA0 || n = 0x1680 ||
  (0x2000 ≤ n && n ≤ 0x200A) || n = 0x2028 || n = 0x2029 || n = 0x202F || n = 0x205F || n = 0x3000

def trimStart : Str → Str
  | [] => []
  | c :: cs => if isWs c then trimStart cs else c :: cs

def trimEnd (s : Str) : Str := (trimStart s.reverse).reverse

/-- `str::trim` -/
def trim (s : Str) : Str := trimEnd (trimStart s)

/-! ## Quoting -/

/-- `s.replace(q, qq)` for a one-character pattern -/
def dbl (q : Char) : Str → Str
  | [] => []
  | c :: cs => if c = q then q :: q :: dbl q cs else c :: dbl q cs

/-- `format!("'{}'", s.replace('\'', "''"))` -/
def renderStr (s : Str) : Str := '\'' :: (dbl '\'' s ++ ['\''])

inductive LexErr where
  | unterminated
  | emptyIdent
  | notAString
  deriving DecidableEq, Repr

/-- `tokenize_string` once the opening quote `q` has been consumed: content and remaining input.
A quote followed by a quote is one quote of content; a quote followed by anything else (or by the
end of input) ends the literal. -/
def lexStrBody (q : Char) : Str → Except LexErr (Str × Str)
  | [] => .error .unterminated
  | c :: cs =>
    if c = q then
      match cs with
      | [] => .ok ([], [])
      | c2 :: cs2 =>
        if c2 = q then
          match lexStrBody q cs2 with
          | .ok (s, r) => .ok (q :: s, r)
          | .error e => .error e
        else .ok ([], c2 :: cs2)
    else
      match lexStrBody q cs with
      | .ok (s, r) => .ok (c :: s, r)
      | .error e => .error e

/-- the lexer's rule for a token starting with `'` -/
def lexString : Str → Except LexErr (Str × Str)
  | '\'' :: cs => lexStrBody '\'' cs
  | _ => .error .notAString

/-! ## Coarse scanner: the lexer's main loop at the granularity that matters for quoting

Whitespace and `-- …` comments are skipped, `'…'` is a string token, `"…"` / `` `…` `` are delimited
identifiers (empty ones are rejected), every other character is kept as a one-character piece
(the real lexer groups those into words, numbers and operators).  With `holes = true` a `?` in
code position is a placeholder piece. -/

inductive Piece where
  | ch (c : Char)
  | str (s : Str)
  | ident (s : Str)
  | hole
  deriving DecidableEq, Repr

inductive Mode where
  | norm
  | dash                          -- one '-' seen in code position
  | comment
  | inq (q : Char) (acc : Str)    -- inside a token quoted by q; acc is reversed
  | qq (q : Char) (acc : Str)     -- inside a token quoted by q, a q was just seen
  deriving DecidableEq, Repr

def isQuote (c : Char) : Bool := c = '\'' || c = '"' || c = '`'

/-- the piece a quoted token becomes when its closing quote has been confirmed -/
def closeQuoted (q : Char) (acc : Str) : Except LexErr (List Piece) :=
  if q = '\'' then .ok [.str acc.reverse]
  else if acc.isEmpty then .error .emptyIdent
  else .ok [.ident acc.reverse]

/-- one character in code position (mode `norm`): pieces produced and next mode -/
def normStep (holes : Bool) (c : Char) : List Piece × Mode :=
  if isQuote c then ([], .inq c [])
  else if c = '-' then ([], .dash)
  else if isWs c then ([], .norm)
  else if holes && c = '?' then ([.hole], .norm)
  else ([.ch c], .norm)

def stepMode (holes : Bool) : Mode → Char → Except LexErr (List Piece × Mode)
  | .norm, c => .ok (normStep holes c)
  | .dash, c =>
    if c = '-' then .ok ([], .comment)
    else .ok (.ch '-' :: (normStep holes c).1, (normStep holes c).2)
  | .comment, c => .ok ([], if c = '\n' then .norm else .comment)
  | .inq q acc, c => if c = q then .ok ([], .qq q acc) else .ok ([], .inq q (c :: acc))
  | .qq q acc, c =>
    if c = q then .ok ([], .inq q (q :: acc))
    else
      match closeQuoted q acc with
      | .ok p => .ok (p ++ (normStep holes c).1, (normStep holes c).2)
      | .error e => .error e

/-- end of input -/
def finishMode : Mode → Except LexErr (List Piece)
  | .norm => .ok []
  | .dash => .ok [.ch '-']
  | .comment => .ok []
  | .inq _ _ => .error .unterminated
  | .qq q acc => closeQuoted q acc

def scanGo (holes : Bool) : Mode → Str → Except LexErr (List Piece)
  | m, [] => finishMode m
  | m, c :: cs =>
    match stepMode holes m c with
    | .ok (ps, m') =>
      match scanGo holes m' cs with
      | .ok rest => .ok (ps ++ rest)
      | .error e => .error e
    | .error e => .error e

def scanWith (holes : Bool) (s : Str) : Except LexErr (List Piece) := scanGo holes .norm s

/-- pieces of a SQL text -/
def scan (s : Str) : Except LexErr (List Piece) := scanWith false s
/-- pieces of a SQL text with `?` placeholders -/
def scanQ (s : Str) : Except LexErr (List Piece) := scanWith true s

/-! ## The dump statement splitter (`parse_sql_statements`) -/

namespace Split

structure St where
  stmts : List Str      -- finished statements, most recent first
  cur : Str             -- current statement, reversed
  inStr : Bool
  strCh : Char
  deriving DecidableEq, Repr

def init : St := { stmts := [], cur := [], inStr := false, strCh := ' ' }

/-- `s.trim_end_matches(';')` on a reversed string -/
def dropSemisRev : Str → Str
  | [] => []
  | c :: cs => if c = ';' then dropSemisRev cs else c :: cs

def allWs (s : Str) : Bool := s.all isWs

/-- the `match ch { … }` of the inner loop -/
def stepChar (st : St) (ch : Char) : St :=
  if (ch = '\'' || ch = '"') && !st.inStr then
    { st with inStr := true, strCh := ch, cur := ch :: st.cur }
  else if st.inStr && ch = st.strCh then
    { st with inStr := false, cur := ch :: st.cur }
  else if ch = ';' && !st.inStr then
    let cur' := ch :: st.cur
    if allWs cur' then { st with cur := [] }
    else { st with stmts := (dropSemisRev cur').reverse :: st.stmts, cur := [] }
  else { st with cur := ch :: st.cur }

/-- `trimmed.starts_with("--") || trimmed.is_empty()` -/
def skippable (line : Str) : Bool :=
  match trim line with
  | [] => true
  | '-' :: '-' :: _ => true
  | _ => false

/-- one iteration of `for line in content.split('\n')` -/
def procLine (st : St) (line : Str) : St :=
  if !st.inStr && skippable line then st
  else
    let st' := line.foldl stepChar st
    if st'.inStr then { st' with cur := '\n' :: st'.cur } else { st' with cur := ' ' :: st'.cur }

/-- `content.split('\n')` fused with the loop over the lines; `line` is the current line, reversed -/
def goLines (st : St) (line : Str) : Str → St
  | [] => procLine st line.reverse
  | c :: rest => if c = '\n' then goLines (procLine st line.reverse) [] rest else goLines st (c :: line) rest

/-- "Handle any remaining statement" -/
def finish (st : St) : List Str :=
  if allWs st.cur then st.stmts.reverse else ((trim st.cur.reverse) :: st.stmts).reverse

end Split

def parseSqlStatements (content : Str) : List Str := Split.finish (Split.goLines Split.init [] content)

/-! ## Literals: what the dump writer emits and what the loader's INSERT accepts -/

namespace Lit

/-- column types the dump can express (`format_data_type` text parses back to the same type) -/
inductive Ty where
  | integer | smallint | bigint | numeric | float | real | double
  | varchar | character | boolean | date | time | timestamp
  deriving DecidableEq, Repr

/-- A decimal number as text: sign, integer digits, fraction digits (empty = no '.').  This is how
the model represents every numeric value: Rust prints floats with the shortest digits that parse
back to the same float, so the text *is* the value (trusted: `f64::to_string` / `str::parse`). -/
structure Dec where
  neg : Bool
  int : Str
  frac : Str
  deriving DecidableEq, Repr

inductive Val where
  | null
  | int (neg : Bool) (digits : Str)      -- Integer / Smallint / Bigint payload
  | num (d : Dec)                          -- Numeric / Float / Real / Double payload, finite
  | nan | inf (neg : Bool)                 -- special values of Float / Real / Double
  | numNan | numInf (neg : Bool)           -- special values of Numeric
  | str (s : Str)                          -- Varchar / Character payload
  | bool (b : Bool)
  | date (s : Str) | time (s : Str) | timestamp (s : Str)   -- Display text of the temporal value
  deriving DecidableEq, Repr

/-- token-level shape of a literal in the dump -/
inductive Tok where
  | kwNull | kwTrue | kwFalse
  | minus
  | number (text : Str)
  | string (s : Str)
  | word (w : Str)                         -- bare identifier (NaN, inf)
  | typed (kw : Str) (s : Str)             -- DATE '…' / TIME '…' / TIMESTAMP '…'
  deriving DecidableEq, Repr

def decText (d : Dec) : Str := if d.frac.isEmpty then d.int else d.int ++ '.' :: d.frac

/-- `sql_value_to_literal`, as the token sequence the lexer produces from its output -/
def render : Val → List Tok
  | .null => [.kwNull]
  | .int neg ds => if neg then [.minus, .number ds] else [.number ds]
  | .num d => if d.neg then [.minus, .number (decText d)] else [.number (decText d)]
  | .nan => [.string "NaN".toList]
  | .inf neg => [.string (if neg then "-Infinity".toList else "Infinity".toList)]
  | .numNan => [.word "NaN".toList]
  | .numInf neg => if neg then [.minus, .word "inf".toList] else [.word "inf".toList]
  | .str s => [.string s]
  | .bool b => [if b then .kwTrue else .kwFalse]
  | .date s => [.typed "DATE".toList s]
  | .time s => [.typed "TIME".toList s]
  | .timestamp s => [.typed "TIMESTAMP".toList s]

/-- what `parse_literal` makes of a number token: an `Integer` when the text is all digits and
fits i64 (`fitsI64`), otherwise a `Numeric` -/
inductive Parsed where
  | null
  | integer (neg : Bool) (digits : Str)
  | numeric (d : Dec)
  | varchar (s : Str)
  | boolean (b : Bool)
  | date (s : Str) | time (s : Str) | timestamp (s : Str)
  deriving DecidableEq, Repr

inductive LoadErr where
  | complexExpression      -- "Complex expressions in INSERT VALUES …"
  | columnReference        -- bare word
  | typeMismatch
  | outOfRange
  | negateNonNumber
  deriving DecidableEq, Repr

def splitDot : Str → Str × Str
  | [] => ([], [])
  | c :: cs => if c = '.' then ([], cs) else let (a, b) := splitDot cs; (c :: a, b)

/-- `parse_literal` on a number token; `fits` says whether an all-digit text fits an i64 -/
def parseNumber (fits : Str → Bool) (text : Str) : Parsed :=
  let (i, f) := splitDot text
  if text.all (· ≠ '.') && fits text then .integer false text
  else .numeric { neg := false, int := i, frac := f }

/-- `eval_unary_op(Minus, …)` on a literal -/
def negate : Parsed → Except LoadErr Parsed
  | .integer neg ds => .ok (.integer (!neg) ds)
  | .numeric d => .ok (.numeric { d with neg := !d.neg })
  | .null => .ok .null
  | _ => .error .negateNonNumber

/-- parser + `evaluate_insert_expression`: literal, or sign applied to a literal -/
def evalToks (fits : Str → Bool) : List Tok → Except LoadErr Parsed
  | [.kwNull] => .ok .null
  | [.kwTrue] => .ok (.boolean true)
  | [.kwFalse] => .ok (.boolean false)
  | [.number t] => .ok (parseNumber fits t)
  | [.minus, .number t] => negate (parseNumber fits t)
  | [.string s] => .ok (.varchar s)
  | [.typed kw s] =>
    if kw = "DATE".toList then .ok (.date s)
    else if kw = "TIME".toList then .ok (.time s)
    else .ok (.timestamp s)
  | [.word _] => .error .columnReference
  | _ => .error .complexExpression

/-- `coerce_value` restricted to what a parsed literal can be; `small` says whether a signed
all-digit text fits an i16.  A `Numeric` with an empty fraction is a whole number. -/
def coerce (small : Bool → Str → Bool) : Parsed → Ty → Except LoadErr Val
  | .null, _ => .ok .null
  | .integer n ds, .integer => .ok (.int n ds)
  | .integer n ds, .bigint => .ok (.int n ds)
  | .integer n ds, .smallint => if small n ds then .ok (.int n ds) else .error .outOfRange
  | .integer n ds, .numeric => .ok (.num { neg := n, int := ds, frac := [] })
  | .integer n ds, .float => .ok (.num { neg := n, int := ds, frac := [] })
  | .integer n ds, .real => .ok (.num { neg := n, int := ds, frac := [] })
  | .integer n ds, .double => .ok (.num { neg := n, int := ds, frac := [] })
  | .numeric d, .numeric => .ok (.num d)
  | .numeric d, .float => .ok (.num d)
  | .numeric d, .real => .ok (.num d)
  | .numeric d, .double => .ok (.num d)
  | .numeric d, .integer => if d.frac.isEmpty then .ok (.int d.neg d.int) else .error .outOfRange
  | .numeric d, .bigint => if d.frac.isEmpty then .ok (.int d.neg d.int) else .error .outOfRange
  | .numeric d, .smallint =>
    if d.frac.isEmpty && small d.neg d.int then .ok (.int d.neg d.int) else .error .outOfRange
  | .varchar s, .varchar => .ok (.str s)
  | .varchar s, .character => .ok (.str s)
  | .varchar s, .date => .ok (.date s)
  | .varchar s, .time => .ok (.time s)
  | .varchar s, .timestamp => .ok (.timestamp s)
  | .boolean b, .boolean => .ok (.bool b)
  | .date s, .date => .ok (.date s)
  | .time s, .time => .ok (.time s)
  | .timestamp s, .timestamp => .ok (.timestamp s)
  | _, _ => .error .typeMismatch

/-- the loader's handling of one literal of the dump -/
def load (fits : Str → Bool) (small : Bool → Str → Bool) (ty : Ty) (toks : List Tok) : Except LoadErr Val :=
  match evalToks fits toks with
  | .ok p => coerce small p ty
  | .error e => .error e

/-- `v` is a value a column of type `ty` can hold -/
def wellTyped : Ty → Val → Bool
  | _, .null => true
  | .integer, .int _ _ => true
  | .bigint, .int _ _ => true
  | .smallint, .int _ _ => true
  | .numeric, .num _ => true
  | .numeric, .numNan => true
  | .numeric, .numInf _ => true
  | .float, .num _ => true | .float, .nan => true | .float, .inf _ => true
  | .real, .num _ => true | .real, .nan => true | .real, .inf _ => true
  | .double, .num _ => true | .double, .nan => true | .double, .inf _ => true
  | .varchar, .str _ => true
  | .character, .str _ => true
  | .boolean, .bool _ => true
  | .date, .date _ => true
  | .time, .time _ => true
  | .timestamp, .timestamp _ => true
  | _, _ => false

def isSpecial : Val → Bool
  | .nan => true | .inf _ => true | .numNan => true | .numInf _ => true
  | _ => false

end Lit

/-! ## CSV (data_io.rs) -/

namespace Csv

/-- `escape_csv_value` -/
def needsQuote (v : Str) : Bool :=
  v.any (· = ',') || v.any (· = '"') || v.any (· = '\n') || v.any (· = '\r')

def escape (v : Str) : Str := if needsQuote v then '"' :: (dbl '"' v ++ ['"']) else v

/-- `values.map(escape).join(",")` -/
def joinCells : List Str → Str
  | [] => []
  | [c] => escape c
  | c :: cs => escape c ++ ',' :: joinCells cs

/-- `write_csv_row` (`writeln!`) -/
def writeRow (cells : List Str) : Str := joinCells cells ++ ['\n']

/-- `export_csv`: header then rows -/
def writeCsv (rows : List (List Str)) : Str := (rows.map writeRow).flatten

/-! ### The reader: `parse_csv_records` (RFC 4180 quoting, records end with LF or CRLF) -/

inductive RErr where
  | badQuote          -- a quote inside an unquoted field, or text after a closing quote
  | unterminated
  deriving DecidableEq, Repr

inductive RMode where
  | fieldStart
  | unq (acc : Str)         -- reversed
  | quoted (acc : Str)
  | quoteSeen (acc : Str)
  | crAfterQuote (acc : Str)
  deriving DecidableEq, Repr

structure RSt where
  rows : List (List Str)    -- finished records, most recent first
  cells : List Str          -- finished cells of the current record, most recent first
  mode : RMode
  fresh : Bool              -- nothing of the current record has been read yet (`!in_record`)
  deriving DecidableEq, Repr

def endCell (st : RSt) (cell : Str) : RSt :=
  { st with cells := cell :: st.cells, mode := .fieldStart, fresh := false }

def endRow (st : RSt) (cell : Str) : RSt :=
  { rows := (cell :: st.cells).reverse :: st.rows, cells := [], mode := .fieldStart, fresh := true }

/-- `if field.ends_with('\r') { field.pop() }` on the reversed field -/
def stripCr (revField : Str) : Str :=
  match revField with
  | '\r' :: rest => rest
  | l => l

def rStep (st : RSt) (c : Char) : Except RErr RSt :=
  match st.mode with
  | .fieldStart =>
    if c = '"' then .ok { st with mode := .quoted [], fresh := false }
    else if c = ',' then .ok (endCell st [])
    else if c = '\n' then .ok (endRow st [])
    else .ok { st with mode := .unq [c], fresh := false }
  | .unq acc =>
    if c = '"' then .error .badQuote
    else if c = ',' then .ok (endCell st acc.reverse)
    else if c = '\n' then .ok (endRow st (stripCr acc).reverse)
    else .ok { st with mode := .unq (c :: acc) }
  | .quoted acc =>
    if c = '"' then .ok { st with mode := .quoteSeen acc }
    else .ok { st with mode := .quoted (c :: acc) }
  | .quoteSeen acc =>
    if c = '"' then .ok { st with mode := .quoted ('"' :: acc) }
    else if c = ',' then .ok (endCell st acc.reverse)
    else if c = '\n' then .ok (endRow st acc.reverse)
    else if c = '\r' then .ok { st with mode := .crAfterQuote acc }
    else .error .badQuote
  | .crAfterQuote acc =>
    if c = '\n' then .ok (endRow st acc.reverse) else .error .badQuote

def rRun : RSt → Str → Except RErr RSt
  | st, [] => .ok st
  | st, c :: cs =>
    match rStep st c with
    | .ok st' => rRun st' cs
    | .error e => .error e

/-- "Last record without a final line break" -/
def rFinish (st : RSt) : Except RErr (List (List Str)) :=
  match st.mode with
  | .quoted _ => .error .unterminated
  | .fieldStart => if st.fresh then .ok st.rows.reverse else .ok (endRow st []).rows.reverse
  | .unq acc => .ok (endRow st acc.reverse).rows.reverse
  | .quoteSeen acc => .ok (endRow st acc.reverse).rows.reverse
  | .crAfterQuote acc => .ok (endRow st acc.reverse).rows.reverse

def rInit : RSt := { rows := [], cells := [], mode := .fieldStart, fresh := true }

/-- `parse_csv_records` -/
def parseCsv (text : Str) : Except RErr (List (List Str)) :=
  match rRun rInit text with
  | .ok st => rFinish st
  | .error e => .error e

/-! ### `import_csv` -/

/-- `items.join(", ")` -/
def joinComma : List Str → Str
  | [] => []
  | [c] => c
  | c :: cs => c ++ ',' :: ' ' :: joinComma cs

/-- `format!("'{}'", v.replace("'", "''"))` -/
def quoteCell (v : Str) : Str := renderStr v

/-- `format!("INSERT INTO {} ({}) VALUES ({});", table, cols, vals)` -/
def insertText (table : Str) (cols : List Str) (vals : List Str) : Str :=
  "INSERT INTO ".toList ++ table ++ " (".toList ++ joinComma cols ++ ") VALUES (".toList ++
    joinComma vals ++ ");".toList

inductive IErr where
  | empty
  | columnCount (line : Nat)
  | malformed (e : RErr)
  deriving DecidableEq, Repr

def importRows (table : Str) (cols : List Str) : Nat → List (List Str) → Except IErr (List Str)
  | _, [] => .ok []
  | n, values :: ls =>
    if values.length ≠ cols.length then .error (.columnCount n)
    else
      match importRows table cols (n + 1) ls with
      | .ok rest => .ok (insertText table cols (values.map quoteCell) :: rest)
      | .error e => .error e

/-- `DataIO::import_csv`: the INSERT statement texts -/
def importCsv (table : Str) (text : Str) : Except IErr (List Str) :=
  match parseCsv text with
  | .error e => .error (.malformed e)
  | .ok [] => .error .empty
  | .ok (h :: ls) => importRows table h 2 ls

/-- the statements a faithful import of `rows` produces for the same header -/
def insertsOf (table : Str) (header : List Str) (rows : List (List Str)) : List Str :=
  rows.map (fun r => insertText table header (r.map renderStr))

/-! ### JSON import, after parsing: each object is a list of (key, value); a value is `none`
for JSON null and otherwise the text `import_json` derives from it -/

/-- `import_json`'s value rendering: only JSON null is NULL, everything else a string literal -/
def jsonCell : Option Str → Str
  | none => "NULL".toList
  | some t => renderStr t

def importJsonObj (table : Str) (obj : List (Str × Option Str)) : Str :=
  insertText table (obj.map (·.1)) (obj.map (fun kv => jsonCell kv.2))

/-- `validate_json_columns` / `validate_csv_columns`: the character test on a column name -/
def nameCharsOk (name : Str) : Bool :=
  name.all (fun c => c ≠ ';' && c ≠ '\'' && c ≠ '"' && c ≠ '(' && c ≠ ')')

/-! ### `validate_csv_columns`: what is checked before the generated statements are run -/

/-- `s.split(sep)`; `cur` is the current piece, reversed -/
def splitOnAux (sep : Char) (cur : Str) : Str → List Str
  | [] => [cur.reverse]
  | c :: cs => if c = sep then cur.reverse :: splitOnAux sep [] cs else splitOnAux sep (c :: cur) cs

def splitOn (sep : Char) (s : Str) : List Str := splitOnAux sep [] s

/-- `BufRead::lines().next()` on a non-empty file: the text up to the first LF, without a CR that
precedes that LF; `cur` is reversed -/
def firstLineAux (cur : Str) : Str → Str
  | [] => cur.reverse
  | c :: cs => if c = '\n' then (stripCr cur).reverse else firstLineAux (c :: cur) cs

def firstLine (text : Str) : Option Str :=
  if text.isEmpty then none else some (firstLineAux [] text)

def lowerAscii (c : Char) : Char :=
  if 'A'.toNat ≤ c.toNat ∧ c.toNat ≤ 'Z'.toNat then Char.ofNat (c.toNat + 32) else c

/-- `a.eq_ignore_ascii_case(b)` -/
def eqIgnoreAsciiCase (a b : Str) : Bool := a.map lowerAscii == b.map lowerAscii

/-- one header name is acceptable: no forbidden character and a column of the table -/
def nameOk (cols : List Str) (name : Str) : Bool :=
  nameCharsOk name && cols.any (fun c => eqIgnoreAsciiCase c name)

/-- `validate_csv_columns` accepts the file: line 1, split at commas, every trimmed piece is ok -/
def validateHeader (cols : List Str) (text : Str) : Bool :=
  match firstLine text with
  | none => false
  | some l => (splitOn ',' l).all (fun f => nameOk cols (trim f))

/-- the header `import_csv` pastes into its statements: the first *record* -/
def firstRecord (text : Str) : Option (List Str) :=
  match parseCsv text with
  | .ok (h :: _) => some h
  | _ => none

/-- `export`: `execute("SELECT * …")` gives header `Column` per column and cells in `{:?}` form;
`dbg` is the Debug text of a value -/
def exportTable (dbg : α → Str) (rows : List (List α)) : List (List Str) :=
  match rows with
  | [] => [[]]
  | r :: _ => (r.map (fun _ => "Column".toList)) :: rows.map (fun row => row.map dbg)

end Csv

/-! ## Parameter binding (Python bindings) -/

namespace Bind

/-- a bound value after `py_to_sqlvalue`, reduced to how it is printed -/
inductive PVal where
  | num (neg : Bool) (body : Str)     -- integer or finite float: optional '-' then digits / '.'
  | str (s : Str)
  | bool (b : Bool)
  | null
  deriving DecidableEq, Repr

def renderVal : PVal → Str
  | .num neg body => if neg then '-' :: body else body
  | .str s => renderStr s
  | .bool b => if b then "TRUE".toList else "FALSE".toList
  | .null => "NULL".toList

/-- `ScanState::next`: the lexical state after reading `c`.  (`Mode` also carries the text of a
quoted token, which the Rust state does not need.) -/
def codeNext (c : Char) : Mode :=
  if isQuote c then .inq c [] else if c = '-' then .dash else .norm

def nextMode : Mode → Char → Mode
  | .inq q acc, c => if c = q then .qq q acc else .inq q (c :: acc)
  | .qq q acc, c => if c = q then .inq q (q :: acc) else codeNext c
  | .comment, c => if c = '\n' then .norm else .comment
  | .dash, c => if c = '-' then .comment else codeNext c
  | .norm, c => codeNext c

/-- `ScanState::placeholder_allowed` -/
def placeholderAllowed : Mode → Bool
  | .inq _ _ => false
  | .comment => false
  | _ => true

/-- `count_placeholders` -/
def countGo : Mode → Str → Nat
  | _, [] => 0
  | m, c :: cs =>
    if c = '?' && placeholderAllowed m then countGo .norm cs + 1 else countGo (nextMode m c) cs

def countQ (s : Str) : Nat := countGo .norm s

/-- `substitute_placeholders`: a `?` outside string literals, delimited identifiers and comments is
replaced by the literal of the next value with a blank on either side (dropped when no value is
left); everything else is copied -/
def substGo : Mode → Str → List PVal → Str
  | _, [], _ => []
  | m, c :: cs, vs =>
    if c = '?' && placeholderAllowed m then
      match vs with
      | v :: vs' => ' ' :: (renderVal v ++ ' ' :: substGo .norm cs vs')
      | [] => substGo .norm cs []
    else c :: substGo (nextMode m c) cs vs

def substitute (sql : Str) (vs : List PVal) : Str := substGo .norm sql vs

inductive BErr where
  | paramCount
  | parse
  deriving DecidableEq, Repr

/-- `bind_parameters` (None = no parameter tuple given) -/
def bind (sql : Str) : Option (List PVal) → Except BErr Str
  | none => .ok sql
  | some vs => if countQ sql ≠ vs.length then .error .paramCount else .ok (substitute sql vs)

/-- pieces of the bound values, for the structure theorem -/
def valPieces : PVal → List Piece
  | .num neg body => (if neg then [Piece.ch '-'] else []) ++ body.map Piece.ch
  | .str s => [Piece.str s]
  | .bool b => (if b then "TRUE".toList else "FALSE".toList).map Piece.ch
  | .null => "NULL".toList.map Piece.ch

/-- replace the holes of a piece list by the pieces of the values, in order -/
def fill : List Piece → List PVal → List Piece
  | [], _ => []
  | .hole :: ps, v :: vs => valPieces v ++ fill ps vs
  | .hole :: ps, [] => fill ps []
  | p :: ps, vs => p :: fill ps vs

/-! ### Notions used by the structure theorem (C30-T2) -/

/-- modes in which a `?` stands in code position -/
def codeMode : Mode → Bool
  | .norm => true
  | .dash => true
  | .qq q _ => q ≠ '?'
  | _ => false

/-- what a pending mode contributes when the next character does not continue it -/
def flush : Mode → Except LexErr (List Piece)
  | .dash => .ok [.ch '-']
  | .qq q acc => closeQuoted q acc
  | _ => .ok []

/-- `c` does not continue the pending token of mode `m` -/
def leaves (m : Mode) (c : Char) : Bool :=
  match m with
  | .dash => c ≠ '-'
  | .qq q _ => c ≠ q
  | _ => true

/-- a character that is one piece by itself in code position -/
def plainCode (c : Char) : Bool := !isQuote c && c ≠ '-' && !isWs c

def plainRun (w : Str) : Bool := w.all (fun c => plainCode c && c ≠ '?')

/-- well-formed bound values: a number is a non-empty run of plain characters (digits, '.') -/
def PVal.wf : PVal → Bool
  | .num _ body => !body.isEmpty && plainRun body
  | _ => true

def isStrVal : PVal → Bool
  | .str _ => true
  | _ => false

/-! ### The cursor's statement cache.  `σ` is the parsed statement type, `parse` the parser. -/

structure Cursor (σ : Type) where
  cache : List (Str × σ)
  deriving DecidableEq

def lookup {σ : Type} (k : Str) : List (Str × σ) → Option σ
  | [] => none
  | (k', v) :: rest => if k = k' then some v else lookup k rest

/-- `Cursor::execute` up to the point where the statement is handed to the executor: the
statement that will be run, and the cursor afterwards.  As coded the cache is keyed by the SQL text
*before* binding, and binding happens only on a miss. -/
def prepare {σ : Type} (parse : Str → Option σ) (cur : Cursor σ) (sql : Str)
    (params : Option (List PVal)) : Except BErr (σ × Cursor σ) :=
  match lookup sql cur.cache with
  | some stmt => .ok (stmt, cur)
  | none =>
    match bind sql params with
    | .error e => .error e
    | .ok text =>
      match parse text with
      | none => .error .parse
      | some stmt => .ok (stmt, { cache := (sql, stmt) :: cur.cache })

/-- the repaired design: bind first, key the cache by the text that is parsed -/
def prepareBoundKey {σ : Type} (parse : Str → Option σ) (cur : Cursor σ) (sql : Str)
    (params : Option (List PVal)) : Except BErr (σ × Cursor σ) :=
  match bind sql params with
  | .error e => .error e
  | .ok text =>
    match lookup text cur.cache with
    | some stmt => .ok (stmt, cur)
    | none =>
      match parse text with
      | none => .error .parse
      | some stmt => .ok (stmt, { cache := (text, stmt) :: cur.cache })

/-- schema-changing statements clear the cache -/
def clear {σ : Type} (_ : Cursor σ) : Cursor σ := { cache := [] }

/-! ### An integer bound into an integer column: text → `parse_literal` → sign → `coerce_value` -/

inductive IntTy where
  | smallint | integer | bigint
  deriving DecidableEq, Repr

def IntTy.min : IntTy → Int
  | .smallint => -32768
  | _ => -9223372036854775808

def IntTy.max : IntTy → Int
  | .smallint => 32767
  | _ => 9223372036854775807

/-- the literal the INSERT / UPDATE sees for the decimal text of `n`: the digits of `|n|` parse as
an `Integer` when they fit an i64 and as a `Numeric` otherwise, then the sign is folded in.  (A
`Numeric` is an f64; the only whole number beyond i64 reachable from an i64 is 2^63, which is
exact, so the model keeps the exact value.) -/
inductive NumLit where
  | integer (i : Int)
  | numeric (x : Int)
  deriving DecidableEq, Repr

def parseBound (n : Int) : NumLit :=
  if n.natAbs ≤ 9223372036854775807 then .integer n else .numeric n

inductive CoerceErr where
  | outOfRange
  deriving DecidableEq, Repr

/-- `coerce_value` for the integer column types.  The f64 range test of the `Numeric` arms is
`f >= i64::MIN as f64 && f <= i64::MAX as f64` (both ends inclusive; `i64::MAX as f64` is 2^63 and
the cast saturates). -/
def coerceInt : NumLit → IntTy → Except CoerceErr Int
  | .integer i, .smallint => if -32768 ≤ i ∧ i ≤ 32767 then .ok i else .error .outOfRange
  | .integer i, _ => .ok i
  | .numeric x, .smallint => if -32768 ≤ x ∧ x ≤ 32767 then .ok x else .error .outOfRange
  | .numeric x, _ =>
    if -9223372036854775808 ≤ x ∧ x ≤ 9223372036854775808 then
      .ok (if x ≤ 9223372036854775807 then x else 9223372036854775807)
    else .error .outOfRange

/-- bind the Python int `n` through `?` into a column of type `ty`, then read the column -/
def bindReadInt (ty : IntTy) (n : Int) : Except CoerceErr Int := coerceInt (parseBound n) ty

/-- `py_to_sqlvalue`'s classification of a Python value: bool is tested first (a Python bool is
also an int), NaN and the infinities are refused -/
inductive PyVal where
  | none | bool (b : Bool) | int (neg : Bool) (digits : Str)
  | float (neg : Bool) (body : Str) | nonFinite | str (s : Str)
  deriving DecidableEq, Repr

def pyToSql : PyVal → Option PVal
  | .none => some .null
  | .bool b => some (.bool b)
  | .int neg ds => some (.num neg ds)
  | .float neg body => some (.num neg body)
  | .nonFinite => Option.none
  | .str s => some (.str s)

end Bind

end VibeProof.Text
