# C20: constant tables of the binary expression reader (trigger WHEN conditions), re-read from the
# source on every run: ExprTag discriminants / from_u8 arms (by index in the model's `EK` order),
# the tag sets of the small enums, and the nesting bound.
import re

EK_ORDER = ["Literal", "ColumnRef", "BinaryOp", "UnaryOp", "Function", "AggregateFunction", "IsNull",
            "Wildcard", "Case", "ScalarSubquery", "In", "InList", "Between", "Cast", "Position", "Trim",
            "Like", "Exists", "QuantifiedComparison", "CurrentDate", "CurrentTime", "CurrentTimestamp",
            "Interval", "Default", "DuplicateKeyValue", "WindowFunction", "NextValue", "MatchAgainst",
            "PseudoVariable", "SessionVariable"]


def extract(read):
    base = "crates/vibesql-storage/src/persistence/binary/expression/"
    mod = read(base + "mod.rs")
    out = []
    m = re.search(r"enum\s+ExprTag\s*\{(.*?)\}", mod, re.S)
    enum = re.findall(r"(\w+)\s*=\s*(0x[0-9a-fA-F]+|\d+)", m.group(1)) if m else []
    m = re.search(r"impl ExprTag\s*\{.*?match\s+tag\s*\{(.*?)\n\s*_\s*=>", mod, re.S)
    arms = re.findall(r"(0x[0-9a-fA-F]+|\d+)\s*=>\s*Ok\(ExprTag::(\w+)\)", m.group(1)) if m else []
    out.append("/-- expression/mod.rs `ExprTag::from_u8` arms: (byte, index in the model's EK order) -/")
    out.append("def exprTagFromByte : List (Nat × Nat) := [%s]" % ", ".join(
        "(%d, %d)" % (int(v, 0), EK_ORDER.index(n)) for v, n in arms if n in EK_ORDER))
    out.append("/-- expression/mod.rs `enum ExprTag`: (index in the model's EK order, discriminant) -/")
    out.append("def exprTagToByte : List (Nat × Nat) := [%s]" % ", ".join(
        "(%d, %d)" % (EK_ORDER.index(n), int(v, 0)) for n, v in enum if n in EK_ORDER))
    out.append("def exprTagUnknownVariants : Nat := %d" % len([n for n, _ in enum if n not in EK_ORDER]))
    d = re.search(r"const\s+MAX_EXPRESSION_DEPTH\s*:\s*usize\s*=\s*(\d+)", mod)
    if d:
        out.append("/-- expression/mod.rs `MAX_EXPRESSION_DEPTH` (root is depth 0; error when depth > this) -/")
        out.append("def exprMaxDepth : Nat := %s" % d.group(1))
    # small enums: impl_simple_enum_serialization!(Type, w, r, "name", { A => n, ... })
    src = read(base + "operators.rs") + "\n" + read(base + "types.rs")
    for ty, lean in [("BinaryOperator", "exprBinaryOpTags"), ("UnaryOperator", "exprUnaryOpTags"),
                     ("CharacterUnit", "exprCharacterUnitTags"), ("TrimPosition", "exprTrimPositionTags"),
                     ("IntervalUnit", "exprIntervalUnitTags"), ("FulltextMode", "exprFulltextModeTags"),
                     ("PseudoTable", "exprPseudoTableTags")]:
        m = re.search(r"impl_simple_enum_serialization!\(\s*%s\s*,.*?\{(.*?)\}\s*\);" % ty, src, re.S)
        if m:
            tags = [int(x) for x in re.findall(r"=>\s*(\d+)", m.group(1))]
            out.append("/-- tags accepted by the reader of `%s` -/" % ty)
            out.append("def %s : List Nat := [%s]" % (lean, ", ".join(map(str, tags))))
    win = read(base + "window.rs")
    def arms_of(fn):
        m = re.search(r"fn\s+%s.*?match\s+\w+\s*\{(.*?)\n\s*_\s*=>" % fn, win, re.S)
        return sorted({int(x) for x in re.findall(r"\n\s*(\d+)\s*=>", m.group(1))}) if m else None
    for fn, lean in [("read_window_function_spec", "exprWindowFnSpecTags"), ("read_window_frame", "exprFrameUnitTags"),
                     ("read_frame_bound", "exprFrameBoundTags")]:
        a = arms_of(fn)
        if a is not None:
            out.append("/-- window.rs `%s` match arms -/" % fn)
            out.append("def %s : List Nat := [%s]" % (lean, ", ".join(map(str, a))))
    m = re.search(r"fn\s+read_frame_bound.*?match\s+tag\s*\{(.*?)\n\s*_\s*=>", win, re.S)
    if m:
        with_expr = [int(t) for t, body in re.findall(r"\n\s*(\d+)\s*=>\s*(\{.*?\}|Ok\([^\n]*\)),?", m.group(1), re.S) if "read_expression" in body]
        out.append("/-- window.rs frame bound tags that carry an expression -/")
        out.append("def exprFrameBoundWithExpr : List Nat := [%s]" % ", ".join(map(str, with_expr)))
    return "\n".join(out) + "\n"
