import VibeProof.Props.C13
#print axioms VibeProof.C13.C13_rollback_restores
#print axioms VibeProof.C13.C13_index_ddl_is_rolled_back
#print axioms VibeProof.C13.C13_commit_keeps_last_state
#print axioms VibeProof.C13.step_keeps_snapshot
