//! C04 — results do not depend on the parallelism configuration.
//!
//! `c04 worker <seed> <n_small> <n_large>` executes a deterministic workload and prints one
//! canonical line per query. The parent runs the worker as separate processes under
//! PARALLEL_THRESHOLD ∈ {max, 0, default} × RAYON_NUM_THREADS ∈ {1, 2, 16} (the threshold is read
//! once per process), diffs every configuration against the never-parallel one (direct oracle),
//! runs one configuration twice (repeatability) and compares the small/medium cases with the
//! Lean reference evaluator (which is sequential by construction).
use std::collections::hash_map::DefaultHasher;
use std::hash::{Hash, Hasher};
use std::process::Command;
use vharness::qast::*;
use vharness::sqlast::*;
use vharness::*;

fn h64(s: &str) -> u64 {
    let mut h = DefaultHasher::new();
    s.hash(&mut h);
    h.finish()
}

struct Item {
    id: String,
    sql: String,
    /// ORDER BY output-column indices (key sequence is compared), and whether LIMIT/OFFSET is present
    order_by: Vec<usize>,
    limited: bool,
}

/// canonical line for one executed query
fn line(item: &Item, out: &Out, full: bool) -> String {
    match out {
        Out::Rows(rows) => {
            let keys: Vec<String> = rows.iter().map(|r| item.order_by.iter().map(|i| canon::val(&r[*i])).collect::<Vec<_>>().join(",")).collect();
            let keys_s = keys.join(";");
            if item.limited {
                // ties aside: only the number of rows and the key sequence are determined
                format!("{} n={} keys={}", item.id, rows.len(), if full { keys_s } else { format!("{:016x}", h64(&keys_s)) })
            } else {
                let bag = canon::rows_bag(rows);
                format!(
                    "{} n={} bag={} keys={}",
                    item.id,
                    rows.len(),
                    if full { bag } else { format!("{:016x}", h64(&bag)) },
                    if full { keys_s } else { format!("{:016x}", h64(&keys_s)) }
                )
            }
        }
        Out::Count(n) => format!("{} count={}", item.id, n),
        Out::Err { class, .. } => format!("{} err={}", item.id, class),
        Out::Panic(p) => format!("{} panic={}", item.id, p.replace('\n', " ")),
    }
}

fn small_case(seed: u64, i: u64) -> (DbDef, Query) {
    let mut r = Rng::new(seed.wrapping_mul(1_000_003).wrapping_add(i));
    let medium = i % 7 == 6;
    let dbd = gen_db(&mut r, 3, if medium { 130 } else { 10 });
    let g = QGen { db: &dbd, subqueries: !medium, force_from: if medium { Some(From::Table(0)) } else { None } };
    let q = g.gen_query(&mut r);
    (dbd, q)
}

fn query_item(id: String, q: &Query, dbd: &DbDef) -> Item {
    let (order_by, limited) = match q {
        Query::Core(c) => (c.order_by.iter().map(|x| x.0).collect(), c.limit.is_some() || c.offset > 0),
        _ => (vec![], false),
    };
    Item { id, sql: q.sql(dbd), order_by, limited }
}

fn large_setup(db: &mut Db, seed: u64, k: u64) -> usize {
    let mut r = Rng::new(seed ^ (0xABCD_0000 + k));
    let n = r.range(2400, 4200) as usize;
    db.must("CREATE TABLE l1 (k INTEGER, g INTEGER, s VARCHAR(20))");
    db.must("CREATE TABLE l2 (k INTEGER, v INTEGER)");
    let mut batch = vec![];
    for _ in 0..n {
        let kk = if r.chance(1, 20) { "NULL".to_string() } else { r.range(0, (n / 2) as i64).to_string() };
        let g = if r.chance(1, 25) { "NULL".to_string() } else { r.range(0, 7).to_string() };
        let s = if r.chance(1, 10) { "NULL".to_string() } else { format!("'{}'", r.pick(STR_POOL)) };
        batch.push(format!("({}, {}, {})", kk, g, s));
        if batch.len() == 400 {
            db.must(&format!("INSERT INTO l1 VALUES {}", batch.join(", ")));
            batch.clear();
        }
    }
    if !batch.is_empty() {
        db.must(&format!("INSERT INTO l1 VALUES {}", batch.join(", ")));
        batch.clear();
    }
    let m = r.range(2100, 3000) as usize;
    for _ in 0..m {
        let kk = if r.chance(1, 20) { "NULL".to_string() } else { r.range(0, (n / 2) as i64).to_string() };
        batch.push(format!("({}, {})", kk, r.range(0, 4)));
        if batch.len() == 400 {
            db.must(&format!("INSERT INTO l2 VALUES {}", batch.join(", ")));
            batch.clear();
        }
    }
    if !batch.is_empty() {
        db.must(&format!("INSERT INTO l2 VALUES {}", batch.join(", ")));
    }
    n
}

fn large_items(n: usize) -> Vec<Item> {
    let q = |id: &str, sql: String, order_by: Vec<usize>, limited: bool| Item { id: id.to_string(), sql, order_by, limited };
    vec![
        q("filter", format!("SELECT k, g FROM l1 WHERE g >= 3 AND k < {}", n / 3), vec![], false),
        q("filter_or_null", "SELECT k, g, s FROM l1 WHERE g IS NULL OR s = 'ab' OR k BETWEEN 10 AND 400".into(), vec![], false),
        q("sort", "SELECT k, g, s FROM l1 ORDER BY g DESC, k".into(), vec![1, 0], false),
        q("sort_str", "SELECT s, k FROM l1 ORDER BY s, k DESC".into(), vec![0, 1], false),
        q("group", "SELECT g, COUNT(*), COUNT(k), SUM(k), MIN(k), MAX(s) FROM l1 GROUP BY g".into(), vec![], false),
        q("aggregate", "SELECT COUNT(*), SUM(k), MIN(k), MAX(k) FROM l1 WHERE g < 4".into(), vec![], false),
        q("join", "SELECT l1.k, l1.g, l2.v FROM l1 INNER JOIN l2 ON l1.k = l2.k WHERE l2.v > 1".into(), vec![], false),
        q("join_group", "SELECT l1.g, COUNT(*) FROM l1, l2 WHERE l1.k = l2.k GROUP BY l1.g".into(), vec![], false),
        q("distinct", "SELECT DISTINCT g, s FROM l1".into(), vec![], false),
        q("in_subquery", "SELECT k FROM l1 WHERE k IN (SELECT k FROM l2 WHERE v = 2)".into(), vec![], false),
        q("not_exists", "SELECT k, g FROM l1 WHERE NOT EXISTS (SELECT 1 FROM l2 WHERE l2.k = l1.k)".into(), vec![], false),
        q("order_limit", "SELECT k, g FROM l1 ORDER BY k LIMIT 10 OFFSET 5".into(), vec![0], true),
        q("union", "SELECT k FROM l1 WHERE g = 1 UNION SELECT k FROM l2 WHERE v = 0".into(), vec![], false),
    ]
}

fn worker(seed: u64, n_small: u64, n_large: u64) {
    engine::silence_panics();
    for i in 0..n_small {
        let (dbd, q) = small_case(seed, i);
        let mut db = Db::new();
        db.keep_log = false;
        dbd.load(&mut db);
        let item = query_item(format!("s{}", i), &q, &dbd);
        let o1 = db.query(&item.sql);
        let o2 = db.query(&item.sql);
        let (l1, l2) = (line(&item, &o1, true), line(&item, &o2, true));
        println!("{}", l1);
        if l1 != l2 {
            println!("{} REPEAT-DIFFERS second={}", item.id, l2);
        }
    }
    for k in 0..n_large {
        let mut db = Db::new();
        db.keep_log = false;
        let n = large_setup(&mut db, seed, k);
        for mut item in large_items(n) {
            item.id = format!("L{}-{}", k, item.id);
            let o1 = db.query(&item.sql);
            let o2 = db.query(&item.sql);
            let (l1, l2) = (line(&item, &o1, false), line(&item, &o2, false));
            println!("{}", l1);
            if l1 != l2 {
                println!("{} REPEAT-DIFFERS second={}", item.id, l2);
            }
        }
    }
}

fn run_worker(seed: u64, n_small: u64, n_large: u64, threshold: Option<&str>, threads: &str) -> Result<Vec<String>, String> {
    let exe = std::env::current_exe().map_err(|e| e.to_string())?;
    let mut cmd = Command::new(exe);
    cmd.arg("worker").arg(seed.to_string()).arg(n_small.to_string()).arg(n_large.to_string());
    cmd.env("RAYON_NUM_THREADS", threads);
    match threshold {
        Some(t) => {
            cmd.env("PARALLEL_THRESHOLD", t);
        }
        None => {
            cmd.env_remove("PARALLEL_THRESHOLD");
        }
    }
    let out = cmd.output().map_err(|e| e.to_string())?;
    if !out.status.success() {
        return Err(format!("worker exited with {:?}: {}", out.status, String::from_utf8_lossy(&out.stderr).chars().take(400).collect::<String>()));
    }
    Ok(String::from_utf8_lossy(&out.stdout).lines().map(|s| s.to_string()).collect())
}

fn main() {
    let argv: Vec<String> = std::env::args().collect();
    if argv.get(1).map(|s| s.as_str()) == Some("worker") {
        let p = |i: usize| argv.get(i).and_then(|s| s.parse::<u64>().ok()).unwrap_or(0);
        worker(p(2), p(3), p(4));
        return;
    }
    engine::silence_panics();
    let args = Args::parse("C04");
    let mut rep = Report::new(
        &args,
        "case = one query of the workload (small: generated database ≤3 tables + generated SELECT incl. joins/subqueries/set ops; \
         medium: 100–130-row single-table queries; large: 2400–4200-row tables with filter/sort/group/join/distinct/subquery/limit templates); \
         every case is executed in every process configuration; non-trivial = non-empty result; distinct by hash of the canonical baseline line",
    );
    rep.assumptions.push("real thread interleavings are sampled (process configurations × repetitions), not enumerated: the theorems cover every chunking / merge order, the runs sample real schedules".into());
    rep.assumptions.push("data races inside evaluator caches are outside the model (safe Rust + Sync bounds)".into());
    let n_small = args.n(260, 4000);
    let n_large = args.n(2, 12);
    let seed = args.seed;
    let configs: Vec<(Option<&str>, &str, &str)> = vec![
        (Some("max"), "1", "never-parallel"),
        (Some("0"), "1", "always-parallel/1-thread"),
        (Some("0"), "2", "always-parallel/2-threads"),
        (Some("0"), "16", "always-parallel/16-threads"),
        (Some("0"), "16", "always-parallel/16-threads/again"),
        (None, "16", "default-thresholds/16-threads"),
        (Some("1"), "5", "threshold-1/5-threads"),
    ];
    let mut results: Vec<(String, Vec<String>)> = vec![];
    // the worker processes run concurrently (they are independent processes; extra load only
    // perturbs the schedules further)
    let handles: Vec<_> = configs
        .iter()
        .map(|(th, nt, name)| {
            let (th, nt, name) = (th.map(|s| s.to_string()), nt.to_string(), name.to_string());
            std::thread::spawn(move || (name, run_worker(seed, n_small, n_large, th.as_deref(), &nt)))
        })
        .collect();
    for h in handles {
        let (name, res) = h.join().expect("worker thread");
        match res {
            Ok(lines) => {
                rep.count(&format!("config_{}", name));
                results.push((name, lines));
            }
            Err(e) => rep.fail(FailKind::Oracle, None, &format!("worker failed under configuration {}", name), &format!("configuration {}: {}", name, e)),
        }
    }
    if results.is_empty() {
        std::process::exit(rep.finish());
    }
    let base = results[0].1.clone();
    // the workload, regenerated here for replay texts and for the model comparison
    let mut sql_of: std::collections::HashMap<String, String> = Default::default();
    for i in 0..n_small {
        let (dbd, q) = small_case(seed, i);
        sql_of.insert(format!("s{}", i), format!("{}{};", dbd.script(), q.sql(&dbd)));
    }
    for l in &base {
        let id = l.split(' ').next().unwrap_or("").to_string();
        let nonempty = !l.contains(" n=0 ") && !l.contains("err=");
        rep.case(l, nonempty);
        if l.contains("REPEAT-DIFFERS") {
            rep.fail(FailKind::Oracle, None, "the same query on the same state returned two different results in one process", &format!("{}\n{}", sql_of.get(&id).cloned().unwrap_or_default(), l));
        }
        if l.contains("panic=") {
            rep.fail(FailKind::Oracle, None, "engine panicked", &format!("{}\n{}", sql_of.get(&id).cloned().unwrap_or_default(), l));
        }
    }
    // direct oracle: every configuration prints exactly the baseline lines
    for (name, lines) in results.iter().skip(1) {
        if lines.len() != base.len() {
            rep.fail(FailKind::Oracle, None, &format!("configuration {} produced a different number of result lines", name), &format!("baseline {} lines, {} has {}", base.len(), name, lines.len()));
            continue;
        }
        for (a, b) in base.iter().zip(lines.iter()) {
            if a != b {
                let id = a.split(' ').next().unwrap_or("").to_string();
                rep.fail(
                    FailKind::Oracle,
                    None,
                    "result depends on the parallelism configuration",
                    &format!("{}\n-- never-parallel : {}\n-- {} : {}\n-- large cases: regenerate with `c04 worker {} {} {}` under PARALLEL_THRESHOLD / RAYON_NUM_THREADS", sql_of.get(&id).cloned().unwrap_or_default(), a, name, b, seed, n_small, n_large),
                );
                break;
            }
        }
        rep.add("lines_compared", base.len() as u64);
    }
    // correspondence: small/medium cases vs the (sequential) reference evaluator
    let mut model = args.model();
    let mut db_here = |i: u64| -> (DbDef, Query, Out) {
        let (dbd, q) = small_case(seed, i);
        let mut db = Db::new();
        db.keep_log = false;
        dbd.load(&mut db);
        let out = db.query(&q.sql(&dbd));
        (dbd, q, out)
    };
    let n_model = n_small.min(args.n(260, 1500));
    for i in 0..n_model {
        let (dbd, q, out) = db_here(i);
        let reply = model.ask(&format!("query {} {}", dbd.sx(), q.sx()));
        let item = query_item(format!("s{}", i), &q, &dbd);
        if let (Out::Rows(rows), Ok(mr)) = (&out, parse_ref(&reply)) {
            rep.traces_validated += 1;
            let ob: Vec<(usize, bool)> = match &q {
                Query::Core(c) => c.order_by.clone(),
                _ => vec![],
            };
            if let Err(what) = compare_with_ref(rows, &mr, &ob, item.limited) {
                // recorded C01 findings (NOT IN / name resolution) are C01's to report, not C04's
                let mut f = vec![];
                q.features(&mut f);
                if f.contains(&"not_in_subquery") {
                    rep.count("skipped_known_c01_not_in");
                    continue;
                }
                rep.fail(FailKind::ModelDiff, None, &format!("in-process result differs from the sequential reference: {}", what), &format!("{}{};\n-- engine: {}\n-- model: {}", dbd.script(), item.sql, out.brief(), reply));
            }
        }
    }
    rep.sample(serde_json::json!({"baseline_lines": base.iter().take(3).collect::<Vec<_>>(), "configurations": configs.iter().map(|c| c.2).collect::<Vec<_>>()}));
    rep.sample(serde_json::json!({"large_templates": large_items(3000).iter().map(|i| i.sql.clone()).collect::<Vec<_>>()}));
    std::process::exit(rep.finish());
}
