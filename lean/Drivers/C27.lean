import VibeProof.Model.Proto
import VibeProof.Model.Wire
open VibeProof.Proto VibeProof.Wire

/-! C27 driver.  Byte strings are hex atoms (`-` = empty).
  `(decode HEX)` / `(startup HEX)` →
     `(msg (query HEX) CONSUMED)` `(msg (password HEX) N)` `(msg (terminate) N)`
     `(msg (ssl) N)` `(msg (startup VERSION (K V) …) N)` (parameters in insertion order)
     `(error too-short N)` `(error invalid-string N)` `(error invalid-type BYTE N)`
     `(needmore)` `(panic KIND)`
  `(encode MSG)` / `(encstartup MSG)` → HEX of the client-side encoding (same message syntax)
  `(utf8 HEX)` → `1`/`0` -/

def hexAtom (b : Bytes) : Sx := .atom (if b.isEmpty then "-" else bytesToHex b)

def unhexAtom : Sx → Option Bytes
  | .atom "-" => some []
  | .atom s => hexToBytes s
  | _ => none

def encMsg : FrontendMsg → Sx
  | .query q => .list [.atom "query", hexAtom q]
  | .password p => .list [.atom "password", hexAtom p]
  | .terminate => .list [.atom "terminate"]
  | .sslRequest => .list [.atom "ssl"]
  | .startup v ps =>
    .list (.atom "startup" :: sxInt v :: ps.map (fun kv => .list [hexAtom kv.1, hexAtom kv.2]))

def decMsg : Sx → Option FrontendMsg
  | .list [.atom "query", q] => (unhexAtom q).map .query
  | .list [.atom "password", p] => (unhexAtom p).map .password
  | .list [.atom "terminate"] => some .terminate
  | .list [.atom "ssl"] => some .sslRequest
  | .list (.atom "startup" :: .atom v :: ps) => do
    let ver ← v.toInt?
    let params ← ps.mapM (fun p => match p with
      | .list [k, x] => do pure ((← unhexAtom k), (← unhexAtom x))
      | _ => none)
    pure (.startup ver params)
  | _ => none

def panicName : PanicKind → String
  | .advanceOutOfBounds => "advance" | .splitOutOfBounds => "split" | .getOutOfBounds => "get"
  | .addOverflow => "add-overflow" | .fuel => "fuel"

def encOutcome (total : Nat) : Outcome → Sx
  | .panic k => .list [.atom "panic", .atom (panicName k)]
  | .needMore => .list [.atom "needmore"]
  | .msg m rest => .list [.atom "msg", encMsg m, sxNat (total - rest.length)]
  | .error e rest =>
    let n := sxNat (total - rest.length)
    match e with
    | .messageTooShort => .list [.atom "error", .atom "too-short", n]
    | .invalidString => .list [.atom "error", .atom "invalid-string", n]
    | .invalidMessageType b => .list [.atom "error", .atom "invalid-type", sxNat b.toNat, n]

def handle : List Sx → Sx
  | [.atom "decode", h] =>
    match unhexAtom h with
    | some b => encOutcome b.length (decode b)
    | none => .atom "bad-request"
  | [.atom "startup", h] =>
    match unhexAtom h with
    | some b => encOutcome b.length (decodeStartup b)
    | none => .atom "bad-request"
  | [.atom "encode", m] =>
    match decMsg m with
    | some msg => hexAtom (encodeFrontend msg)
    | none => .atom "bad-request"
  | [.atom "encstartup", m] =>
    match decMsg m with
    | some msg => hexAtom (encodeStartup msg)
    | none => .atom "bad-request"
  | [.atom "utf8", h] =>
    match unhexAtom h with
    | some b => sxBool (utf8Valid b)
    | none => .atom "bad-request"
  | _ => .atom "bad-request"

def main : IO Unit := runDriver handle
