import VibeProof.Model.Proto
import VibeProof.Model.WireBackend
open VibeProof.Proto VibeProof.Wire

/-! C28 driver.
  `encode MSG` → HEX of `encodeBackend`;  `parse HEX` → `(some MSG REST_LEN)` | `(none)`;
  `wf MSG` → `1`/`0` is not offered (wf is a Prop over lists); the harness computes it itself.
  MSG: `(authok)` `(authclear)` `(authmd5 HEX)` `(paramstatus HEX HEX)` `(keydata INT INT)`
       `(ready I|T|E)` `(rowdesc (HEX INT INT INT INT INT INT) …)` `(datarow null|HEX …)`
       `(complete HEX)` `(error (CODE HEX) …)` `(notice (CODE HEX) …)` `(empty)` -/

def hexAtom (b : Bytes) : Sx := .atom (if b.isEmpty then "-" else bytesToHex b)

def unhexAtom : Sx → Option Bytes
  | .atom "-" => some []
  | .atom s => hexToBytes s
  | _ => none

def decField : Sx → Option FieldDesc
  | .list [n, a, b, c, d, e, f] => do
    pure { name := (← unhexAtom n), tableOid := (← a.int?), columnAttr := (← b.int?), typeOid := (← c.int?),
           typeSize := (← d.int?), typeModifier := (← e.int?), formatCode := (← f.int?) }
  | _ => none

def decValue : Sx → Option (Option Bytes)
  | .atom "null" => some none
  | x => (unhexAtom x).map some

def decNF : Sx → Option (UInt8 × Bytes)
  | .list [k, v] => do pure (UInt8.ofNat (← k.nat?), (← unhexAtom v))
  | _ => none

def decMsg : Sx → Option BackendMsg
  | .list [.atom "authok"] => some .authenticationOk
  | .list [.atom "authclear"] => some .authenticationCleartextPassword
  | .list [.atom "authmd5", s] => (unhexAtom s).map .authenticationMD5Password
  | .list [.atom "paramstatus", n, v] => do pure (.parameterStatus (← unhexAtom n) (← unhexAtom v))
  | .list [.atom "keydata", p, k] => do pure (.backendKeyData (← p.int?) (← k.int?))
  | .list [.atom "ready", .atom "I"] => some (.readyForQuery .idle)
  | .list [.atom "ready", .atom "T"] => some (.readyForQuery .inTransaction)
  | .list [.atom "ready", .atom "E"] => some (.readyForQuery .failed)
  | .list (.atom "rowdesc" :: fs) => (fs.mapM decField).map .rowDescription
  | .list (.atom "datarow" :: vs) => (vs.mapM decValue).map .dataRow
  | .list [.atom "complete", t] => (unhexAtom t).map .commandComplete
  | .list (.atom "error" :: fs) => (fs.mapM decNF).map .errorResponse
  | .list (.atom "notice" :: fs) => (fs.mapM decNF).map .noticeResponse
  | .list [.atom "empty"] => some .emptyQueryResponse
  | _ => none

def encField (f : FieldDesc) : Sx :=
  .list [hexAtom f.name, sxInt f.tableOid, sxInt f.columnAttr, sxInt f.typeOid, sxInt f.typeSize,
         sxInt f.typeModifier, sxInt f.formatCode]

def encMsg : BackendMsg → Sx
  | .authenticationOk => .list [.atom "authok"]
  | .authenticationCleartextPassword => .list [.atom "authclear"]
  | .authenticationMD5Password s => .list [.atom "authmd5", hexAtom s]
  | .parameterStatus n v => .list [.atom "paramstatus", hexAtom n, hexAtom v]
  | .backendKeyData p k => .list [.atom "keydata", sxInt p, sxInt k]
  | .readyForQuery .idle => .list [.atom "ready", .atom "I"]
  | .readyForQuery .inTransaction => .list [.atom "ready", .atom "T"]
  | .readyForQuery .failed => .list [.atom "ready", .atom "E"]
  | .rowDescription fs => .list (.atom "rowdesc" :: fs.map encField)
  | .dataRow vs => .list (.atom "datarow" :: vs.map (fun v => match v with
      | none => .atom "null"
      | some b => hexAtom b))
  | .commandComplete t => .list [.atom "complete", hexAtom t]
  | .errorResponse fs => .list (.atom "error" :: fs.map (fun f => .list [sxNat f.1.toNat, hexAtom f.2]))
  | .noticeResponse fs => .list (.atom "notice" :: fs.map (fun f => .list [sxNat f.1.toNat, hexAtom f.2]))
  | .emptyQueryResponse => .list [.atom "empty"]

def handle : List Sx → Sx
  | [.atom "encode", m] =>
    match decMsg m with
    | some msg => hexAtom (encodeBackend msg)
    | none => .atom "bad-request"
  | [.atom "parse", h] =>
    match unhexAtom h with
    | some b =>
      match parseBackend b with
      | some (m, rest) => .list [.atom "some", encMsg m, sxNat rest.length]
      | none => .list [.atom "none"]
    | none => .atom "bad-request"
  | _ => .atom "bad-request"

def main : IO Unit := runDriver handle
