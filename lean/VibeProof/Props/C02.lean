import VibeProof.Model.SecIndex
import VibeProof.Model.Order
import VibeProof.Lemmas.SecIndex
/-
C02 — query results do not depend on which secondary indexes exist.

Theorems about the index model of Model/SecIndex.lean (range scan = filter by the SQL range
predicate; index order vs ORDER BY order; f64 normalisation).  The part of the property that
is about whole queries over twin databases is checked by the direct oracle of the harness.
-/
namespace VibeProof.C02
open VibeProof VibeProof.SecIndex VibeProof.SecIndexLemmas

/-! ### numeric normalisation -/

/-- `i64 as f64` is the identity below 2^53 (the well-formedness region of T1) -/
theorem C02_roundF64_id (x : Int) (h : x.natAbs < 2 ^ 53) : roundF64 x = x := by
  simp [roundF64, h]

/-- above 2^53 neighbouring integers collapse onto one key (outside the region T1 covers) -/
theorem C02_roundF64_collapses : roundF64 (2 ^ 53 + 1) = roundF64 (2 ^ 53) := by decide

def wfValue : Value → Bool
  | .int i => decide (i.natAbs < 2 ^ 53)
  | _ => true

theorem C02_normValue_id (v : Value) (h : wfValue v = true) : normValue v = v := by
  cases v <;> simp_all [normValue, wfValue, C02_roundF64_id]

/-! ### T1: a range scan over a single-column index returns exactly the positions whose key
satisfies the range predicate (and is not NULL) -/

/-- values of one column: same type or NULL -/
def sameTy (t : KTy) (v : Value) : Bool := v.hasTy t

theorem kcmp_single (a b : Value) : kcmp [a] [b] = vcmp a b := by
  simp only [kcmp]
  cases vcmp a b <;> rfl

theorem cmp_some (t : KTy) (a b : Value) (ha : a.hasTy t = true) (hb : b.hasTy t = true)
    (na : a.isNull = false) (nb : b.isNull = false) : ∃ o, Value.cmp? a b = some o := by
  cases t <;> cases a <;> cases b <;> simp_all [Value.hasTy, Value.isNull, Value.cmp?]

theorem vcmp_of_cmp (a b : Value) (o : Ordering) (h : Value.cmp? a b = some o) : vcmp a b = o := by
  cases a <;> cases b <;> simp_all [Value.cmp?, vcmp]

theorem vcmp_null_left (b : Value) (nb : b.isNull = false) : vcmp .null b = .lt := by
  cases b <;> simp_all [vcmp, Value.isNull]

theorem lower_of_cmp (x l : Value) (o : Ordering) (inc : Bool) (h : Value.cmp? x l = some o) :
    (if inc then Bound.incl [l] else Bound.excl [l]).lowerOK [x]
      = (match o with | .gt => true | .eq => inc | .lt => false) := by
  cases inc <;> simp [Bound.lowerOK, kcmp_single, vcmp_of_cmp _ _ _ h] <;> cases o <;> rfl

theorem upper_of_cmp (x h : Value) (o : Ordering) (inc : Bool) (hc : Value.cmp? x h = some o) :
    (if inc then Bound.incl [h] else Bound.excl [h]).upperOK [x]
      = (match o with | .lt => true | .eq => inc | .gt => false) := by
  cases inc <;> simp [Bound.upperOK, kcmp_single, vcmp_of_cmp _ _ _ hc] <;> cases o <;> rfl

/-- per key: the BTreeMap bounds built by `range_scan` for a single-column index select exactly the
keys for which the SQL range predicate is TRUE -/
theorem C02_bounds_eq_predicate (t : KTy) (x : Value) (lo hi : Option Value) (incLo incHi : Bool)
    (hx : x.hasTy t = true)
    (hlo : ∀ l, lo = some l → l.hasTy t = true ∧ l.isNull = false)
    (hhi : ∀ h, hi = some h → h.hasTy t = true ∧ h.isNull = false)
    (hsome : lo.isSome ∨ hi.isSome) :
    ((startBound lo hi incLo).lowerOK [x] && (endBound hi incHi).upperOK [x])
      = inRangeSql x ⟨lo, hi, incLo, incHi⟩ := by
  by_cases nx : x.isNull = true
  · -- NULL key: below every start bound
    have hxn : x = .null := by cases x <;> simp_all [Value.isNull]
    subst hxn
    have : (startBound lo hi incLo).lowerOK [.null] = false := by
      cases lo with
      | none =>
        cases hi with
        | none => simp at hsome
        | some h => simp [startBound, Bound.lowerOK, kcmp, vcmp]
      | some l =>
        obtain ⟨_, nl⟩ := hlo l rfl
        cases incLo <;> simp [startBound, Bound.lowerOK, kcmp_single, vcmp_null_left l nl]
    simp [this, inRangeSql, Value.isNull]
  · have nx' : x.isNull = false := by simpa using nx
    cases lo with
    | none =>
      cases hi with
      | none => simp at hsome
      | some h =>
        obtain ⟨th, nh⟩ := hhi h rfl
        obtain ⟨o, ho⟩ := cmp_some t x h hx th nx' nh
        have hl : (startBound none (some h) incLo).lowerOK [x] = true := by
          cases x <;> simp_all [startBound, Bound.lowerOK, kcmp, vcmp, Value.isNull]
        rw [hl]
        simp only [endBound, upper_of_cmp x h o incHi ho, inRangeSql, nx', ho]
        cases o <;> simp
    | some l =>
      obtain ⟨tl, nl⟩ := hlo l rfl
      obtain ⟨o1, ho1⟩ := cmp_some t x l hx tl nx' nl
      cases hi with
      | none =>
        simp only [startBound, endBound, lower_of_cmp x l o1 incLo ho1, inRangeSql, nx', ho1,
          Bound.upperOK]
        cases o1 <;> simp
      | some h =>
        obtain ⟨th, nh⟩ := hhi h rfl
        obtain ⟨o2, ho2⟩ := cmp_some t x h hx th nx' nh
        simp only [startBound, endBound, lower_of_cmp x l o1 incLo ho1,
          upper_of_cmp x h o2 incHi ho2, inRangeSql, nx', ho1, ho2]
        cases o1 <;> cases o2 <;> simp

/-- membership in the collected positions -/
theorem mem_positions (es : Index) (p : Nat) :
    p ∈ positions es ↔ ∃ kp ∈ es, p ∈ kp.2 := by
  simp [positions, List.mem_flatMap]

/-- T1 (soundness and completeness of the walk): for proper bounds the positions collected from
`BTreeMap::range` over a single-column index are exactly those filed under a key that satisfies
the SQL range predicate; NULL keys are never returned -/
theorem C02_range_walk_is_filter (t : KTy) (idx : Index) (lo hi : Option Value) (incLo incHi : Bool)
    (hidx : ∀ kp ∈ idx, ∃ x, kp.1 = [x] ∧ x.hasTy t = true)
    (hlo : ∀ l, lo = some l → l.hasTy t = true ∧ l.isNull = false)
    (hhi : ∀ h, hi = some h → h.hasTy t = true ∧ h.isNull = false)
    (hsome : lo.isSome ∨ hi.isSome) (p : Nat) :
    p ∈ positions (rangeEntries idx (startBound lo hi incLo) (endBound hi incHi))
      ↔ ∃ x ps, ([x], ps) ∈ idx ∧ p ∈ ps ∧ inRangeSql x ⟨lo, hi, incLo, incHi⟩ = true := by
  rw [mem_positions]
  constructor
  · rintro ⟨⟨k, ps⟩, hmem, hp⟩
    rw [rangeEntries, List.mem_filter] at hmem
    obtain ⟨hin, hok⟩ := hmem
    obtain ⟨x, hk, hx⟩ := hidx _ hin
    simp only at hk
    subst hk
    refine ⟨x, ps, hin, hp, ?_⟩
    rw [← C02_bounds_eq_predicate t x lo hi incLo incHi hx hlo hhi hsome]
    exact hok
  · rintro ⟨x, ps, hin, hp, hr⟩
    refine ⟨([x], ps), ?_, hp⟩
    rw [rangeEntries, List.mem_filter]
    refine ⟨hin, ?_⟩
    obtain ⟨x', hk, hx⟩ := hidx _ hin
    simp only [List.cons.injEq, and_true] at hk
    subst hk
    rw [← C02_bounds_eq_predicate t x lo hi incLo incHi hx hlo hhi hsome] at hr
    exact hr

/-- non-vacuity: an index with a NULL key, duplicates and a range with both bounds -/
example : (∀ kp ∈ ([([.null], [1]), ([.int 1], [0, 3]), ([.int 4], [2])] : Index),
      ∃ x, kp.1 = [x] ∧ x.hasTy .int = true) := by
  intro kp h
  simp at h
  rcases h with h | h | h <;> subst h <;> exact ⟨_, rfl, rfl⟩

/-- NULL keys are never in a range: the SQL predicate is not TRUE for NULL -/
theorem C02_null_never_in_range (r : Range) : inRangeSql .null r = false := by
  simp [inRangeSql, Value.isNull]

/-- the open-lower-bound scan as coded starts after the NULL key (543a6998) -/
theorem C02_open_lower_bound_skips_null (h : Value) (incHi : Bool) (ps : List Nat) (p : Nat) (rest : Index) :
    p ∈ positions (rangeEntries (([.null], ps) :: rest) (Bound.excl [.null])
        (if incHi then Bound.incl [h] else Bound.excl [h])) →
      ∃ kp ∈ rest, p ∈ kp.2 := by
  rw [mem_positions]
  rintro ⟨kp, hmem, hp⟩
  rw [rangeEntries, List.mem_filter] at hmem
  obtain ⟨hin, hok⟩ := hmem
  rcases List.mem_cons.mp hin with h1 | h1
  · subst h1
    simp [Bound.lowerOK, kcmp, vcmp] at hok
  · exact ⟨kp, h1, hp⟩


/-! ### T3: construction and maintenance keep the index equal to a rebuild

The specification `Idx.UOk` and the theorems about it are those of the C15 index algebra
(`Model/Index.lean`, `Lemmas/Index.lean`, imported read-only).  `abs` views the sorted list of this
model in that algebra; the map equations `uGet_abs_insert` / `uGet_abs_remove` make the C15
theorems apply to it.  Rows are represented by their (un-normalised) key columns. -/

/-- the key under which a row is filed -/
def keyOf (r : Row) : Idx.Key := lift (r.map normValue)

/-- `CREATE INDEX` / `rebuild_indexes`: the built index is sorted and files every position under
the normalised key of its row, once, and nothing else -/
theorem C02_build_mirrors_rows (keys : List Key) :
    Sorted (build keys) ∧ Idx.UOk (abs (build keys)) keyOf keys := by
  refine ⟨sorted_build keys, ?_⟩
  induction keys using Idx.snoc_induction with
  | nil => exact Idx.UOk_nil _
  | snoc ks k ih =>
    rw [build_snoc]
    exact UOk_congr _ _ _ _ (uGet_abs_insert _ _ _ (sorted_build ks)) (Idx.UOk_push _ keyOf ks k ih)

/-- INSERT (`add_to_indexes_for_insert`): appending a row and inserting its position keeps the
invariant -/
theorem C02_insert_keeps_index (idx : Index) (rows : List Row) (r : Row)
    (hs : Sorted idx) (h : Idx.UOk (abs idx) keyOf rows) :
    Sorted (idx.insert (r.map normValue) rows.length) ∧
      Idx.UOk (abs (idx.insert (r.map normValue) rows.length)) keyOf (rows ++ [r]) :=
  ⟨sorted_insert _ _ _ hs,
    UOk_congr _ _ _ _ (uGet_abs_insert _ _ _ hs) (Idx.UOk_push _ keyOf rows r h)⟩

/-- UPDATE (`update_indexes_for_update`): patching the entry of the old and the new key keeps the
invariant for the table with the row replaced -/
theorem C02_update_keeps_index (idx : Index) (rows : List Row) (i : Nat) (old new : Row)
    (hs : Sorted idx) (h : Idx.UOk (abs idx) keyOf rows) (hold : rows[i]? = some old) :
    Sorted (idx.update old new i) ∧ Idx.UOk (abs (idx.update old new i)) keyOf (rows.set i new) := by
  have hp := Idx.UOk_patch (abs idx) keyOf rows i old new h hold
  unfold Index.update
  by_cases heq : old.map normValue = new.map normValue
  · have hk : keyOf old = keyOf new := by unfold keyOf; rw [heq]
    simp only [heq, beq_self_eq_true, if_true]
    refine ⟨hs, ?_⟩
    simpa [Idx.uPatch, hk] using hp
  · have hk : ¬ keyOf old = keyOf new := fun hh => heq (lift_inj _ _ hh)
    have hb : (old.map normValue == new.map normValue) = false := by simpa using heq
    simp only [hb, Bool.false_eq_true, if_false]
    refine ⟨sorted_insert _ _ _ (sorted_remove _ _ _ hs), ?_⟩
    simp only [Idx.uPatch, hk, if_false] at hp
    apply UOk_congr _ _ _ _ _ hp
    intro k
    rw [uGet_abs_insert _ _ _ (sorted_remove _ _ _ hs), Idx.uGet_add, Idx.uGet_add]
    simp only [uGet_abs_remove _ _ _ hs]
    rfl

/-- maintenance = rebuild: an index maintained through any history of inserts and updates files,
under every key, the same positions (up to order) as an index built from the current rows — so
index-driven lookups see exactly what a rebuild (the DELETE path) would give -/
theorem C02_maintained_eq_rebuilt (idx : Index) (rows : List Row)
    (h : Idx.UOk (abs idx) keyOf rows) (k : Idx.Key) :
    (Idx.uGet (abs idx) k).Perm (Idx.uGet (abs (build rows)) k) :=
  Idx.UOk_perm _ _ keyOf rows h (C02_build_mirrors_rows rows).2 k

/-- non-vacuity: an index built from rows with a NULL, a duplicate and a 2^53 collision -/
example : build [[.int 3], [.null], [.int 1], [.int 3]]
    = [([.null], [1]), ([.int 1], [2]), ([.int 3], [0, 3])] := by decide

/-! ### the multi-column walk -/

/-- per key: the first-column checks of the multi-column loop are the SQL range predicate -/
theorem C02_multi_check_eq_predicate (t : KTy) (x : Value) (lo hi : Option Value) (incLo incHi : Bool)
    (hx : x.hasTy t = true)
    (hlo : ∀ l, lo = some l → l.hasTy t = true ∧ l.isNull = false)
    (hhi : ∀ h, hi = some h → h.hasTy t = true ∧ h.isNull = false) :
    multiCheck x lo hi incLo incHi = inRangeSql x ⟨lo, hi, incLo, incHi⟩ := by
  unfold multiCheck
  by_cases nx : x.isNull = true
  · have hxn : x = .null := by cases x <;> simp_all [Value.isNull]
    subst hxn
    cases lo with
    | none => simp [inRangeSql, Value.isNull]
    | some l =>
      obtain ⟨_, nl⟩ := hlo l rfl
      cases incLo <;> simp [inRangeSql, Value.isNull, vcmp_null_left l nl]
  · have nx' : x.isNull = false := by simpa using nx
    have hxne : (x == Value.null) = false := by cases x <;> simp_all [Value.isNull]
    cases lo with
    | none =>
      cases hi with
      | none => simp [inRangeSql, nx', hxne]
      | some h =>
        obtain ⟨th, nh⟩ := hhi h rfl
        obtain ⟨o, ho⟩ := cmp_some t x h hx th nx' nh
        simp only [inRangeSql, nx', ho, hxne, vcmp_of_cmp _ _ _ ho]
        cases o <;> cases incHi <;> simp
    | some l =>
      obtain ⟨tl, nl⟩ := hlo l rfl
      obtain ⟨o1, ho1⟩ := cmp_some t x l hx tl nx' nl
      cases hi with
      | none =>
        simp only [inRangeSql, nx', ho1, vcmp_of_cmp _ _ _ ho1]
        cases o1 <;> cases incLo <;> simp
      | some h =>
        obtain ⟨th, nh⟩ := hhi h rfl
        obtain ⟨o2, ho2⟩ := cmp_some t x h hx th nx' nh
        simp only [inRangeSql, nx', ho1, ho2, vcmp_of_cmp _ _ _ ho1, vcmp_of_cmp _ _ _ ho2]
        cases o1 <;> cases o2 <;> cases incLo <;> cases incHi <;> simp

/-- the multi-column branch returns exactly the positions filed under a key whose first column
satisfies the range predicate (sound and complete; d41df521) -/
theorem C02_multi_walk_is_filter (t : KTy) (idx : Index) (lo hi : Option Value) (incLo incHi : Bool)
    (hidx : ∀ kp ∈ idx, ∃ x rest, kp.1 = x :: rest ∧ x.hasTy t = true)
    (hlo : ∀ l, lo = some l → l.hasTy t = true ∧ l.isNull = false)
    (hhi : ∀ h, hi = some h → h.hasTy t = true ∧ h.isNull = false) (p : Nat) :
    p ∈ multiWalk idx lo hi incLo incHi
      ↔ ∃ x rest ps, (x :: rest, ps) ∈ idx ∧ p ∈ ps ∧ inRangeSql x ⟨lo, hi, incLo, incHi⟩ = true := by
  unfold multiWalk
  rw [mem_positions]
  constructor
  · rintro ⟨⟨k, ps⟩, hmem, hp⟩
    rw [List.mem_filter] at hmem
    obtain ⟨hin, hok⟩ := hmem
    obtain ⟨x, rest, hk, hx⟩ := hidx _ hin
    simp only at hk
    subst hk
    refine ⟨x, rest, ps, hin, hp, ?_⟩
    rw [← C02_multi_check_eq_predicate t x lo hi incLo incHi hx hlo hhi]
    exact hok
  · rintro ⟨x, rest, ps, hin, hp, hr⟩
    refine ⟨(x :: rest, ps), ?_, hp⟩
    rw [List.mem_filter]
    refine ⟨hin, ?_⟩
    obtain ⟨x', rest', hk, hx⟩ := hidx _ hin
    simp only [List.cons.injEq] at hk
    obtain ⟨h1, _⟩ := hk
    subst h1
    rw [← C02_multi_check_eq_predicate t x lo hi incLo incHi hx hlo hhi] at hr
    exact hr


/-! ### the equal-bounds (prefix) branch -/

theorem takeWhile_eq_filter {α : Type} (P : α → Bool) (l : List α)
    (h : l.Pairwise (fun a b => P b = true → P a = true)) : l.takeWhile P = l.filter P := by
  induction l with
  | nil => rfl
  | cons a l ih =>
    rw [List.pairwise_cons] at h
    by_cases hp : P a = true
    · rw [List.takeWhile_cons_of_pos hp, List.filter_cons_of_pos hp, ih h.2]
    · rw [List.takeWhile_cons_of_neg hp, List.filter_cons_of_neg hp]
      symm
      rw [List.filter_eq_nil_iff]
      intro b hb hpb
      exact hp (h.1 b hb hpb)

theorem filter_dropWhile {α : Type} (P Q : α → Bool) (l : List α)
    (h : ∀ e ∈ l, Q e = true → P e = false) : (l.dropWhile Q).filter P = l.filter P := by
  induction l with
  | nil => rfl
  | cons a l ih =>
    by_cases hq : Q a = true
    · have hp : ¬ P a = true := by rw [h a List.mem_cons_self hq]; simp
      rw [List.dropWhile_cons_of_pos hq, List.filter_cons_of_neg hp]
      exact ih (fun e he => h e (List.mem_cons_of_mem _ he))
    · rw [List.dropWhile_cons_of_neg hq]

theorem firstIs_ge (v : Value) (k : Key) (h : firstIs v k = true) : kcmp k [v] ≠ .lt := by
  cases k with
  | nil => simp [firstIs] at h
  | cons x xs =>
    have hx : x = v := by simpa [firstIs] using h
    subst hx
    rw [kcmp_cons, (vcmp_eq_iff x x).mpr rfl]
    cases xs <;> simp [kcmp]

theorem firstIs_of_between (v : Value) (a b : Key) (ha : kcmp a [v] ≠ .lt) (hab : kcmp a b = .lt)
    (hb : firstIs v b = true) : firstIs v a = true := by
  cases a with
  | nil => simp [kcmp] at ha
  | cons x xs =>
    cases b with
    | nil => simp [firstIs] at hb
    | cons y ys =>
      have hy : y = v := by simpa [firstIs] using hb
      subst hy
      rw [kcmp_cons] at ha hab
      cases hxy : vcmp x y
      · simp [hxy] at ha
      · have := (vcmp_eq_iff x y).mp hxy
        simp [firstIs, this]
      · simp [hxy] at hab

def ltKey (v : Value) : Key × List Nat → Bool := fun kp => kcmp kp.1 [v] == .lt
def firstKey (v : Value) : Key × List Nat → Bool := fun kp => firstIs v kp.1

theorem prefixMatch_eq (idx : Index) (v : Value) :
    prefixMatch idx v = positions ((idx.dropWhile (ltKey v)).takeWhile (firstKey v)) := rfl

/-- everything that survives the `dropWhile (< [v])` of a sorted index is `≥ [v]` -/
theorem dropWhile_ge (idx : Index) (v : Value) (hs : Sorted idx) :
    ∀ e ∈ idx.dropWhile (ltKey v), kcmp e.1 [v] ≠ .lt := by
  induction idx with
  | nil => intro e he; simp at he
  | cons a l ih =>
    by_cases hq : ltKey v a = true
    · rw [List.dropWhile_cons_of_pos hq]
      exact ih (sorted_tail hs)
    · rw [List.dropWhile_cons_of_neg hq]
      intro e he
      have ha : kcmp a.1 [v] ≠ .lt := by simpa [ltKey] using hq
      rcases List.mem_cons.mp he with h | h
      · rw [h]; exact ha
      · intro hlt
        exact ha (kcmp_lt_trans _ _ _ (sorted_head hs e h) hlt)

theorem sorted_dropWhile (idx : Index) (Q : Key × List Nat → Bool) (hs : Sorted idx) :
    Sorted (idx.dropWhile Q) := by
  unfold Sorted at *
  exact hs.sublist ((List.dropWhile_sublist Q).map _)

/-- equal inclusive bounds: the walk from `[v]` while the first column equals `v` returns exactly
the positions filed under the keys whose first column is `v` (single- and multi-column indexes) -/
theorem C02_prefix_match_is_filter (idx : Index) (v : Value) (hs : Sorted idx) (p : Nat) :
    p ∈ prefixMatch idx v ↔ ∃ kp ∈ idx, firstIs v kp.1 = true ∧ p ∈ kp.2 := by
  rw [prefixMatch_eq, mem_positions]
  have hd := dropWhile_ge idx v hs
  have hsd := sorted_dropWhile idx (ltKey v) hs
  have hpw : (idx.dropWhile (ltKey v)).Pairwise
      (fun a b => firstKey v b = true → firstKey v a = true) := by
    unfold Sorted at hsd
    rw [List.pairwise_map] at hsd
    exact (List.Pairwise.and_mem.mp hsd).imp (fun {a b} hab hb =>
      firstIs_of_between v a.1 b.1 (hd a hab.1) hab.2.2 hb)
  rw [takeWhile_eq_filter (firstKey v) _ hpw,
    filter_dropWhile (firstKey v) (ltKey v) idx
      (by
        intro e _ hq
        cases hf : firstKey v e
        · rfl
        · exact absurd (by simpa [ltKey] using hq) (firstIs_ge v e.1 hf))]
  constructor
  · rintro ⟨kp, hmem, hp⟩
    rw [List.mem_filter] at hmem
    exact ⟨kp, hmem.1, hmem.2, hp⟩
  · rintro ⟨kp, hin, hf, hp⟩
    exact ⟨kp, List.mem_filter.mpr ⟨hin, hf⟩, hp⟩

/-! ### T4: index order versus ORDER BY order -/

/-- on NULL-free keys of one type the index order is the ascending sort order -/
theorem C02_index_order_asc_agrees (t : KTy) (a b : Value) (ha : a.hasTy t = true) (hb : b.hasTy t = true)
    (na : a.isNull = false) (nb : b.isNull = false) :
    vcmp a b = keyCmp .asc a b := by
  cases t <;> cases a <;> cases b <;>
    simp_all [vcmp, keyCmp, cmpNonNull, Value.hasTy, Value.isNull, Value.cmp?]

/-- the reversed index order is the descending sort order, NULLs included (they come last) -/
theorem C02_index_order_desc_agrees (t : KTy) (a b : Value) (ha : a.hasTy t = true) (hb : b.hasTy t = true) :
    (vcmp a b).swap = keyCmp .desc a b := by
  cases t <;> cases a <;> cases b <;>
    simp_all [vcmp, keyCmp, cmpNonNull, Value.hasTy, Value.isNull, Value.cmp?, Ordering.swap]

/-- the full statement "index order = ascending sort order" is false once a key is NULL: the index
puts NULL first, ORDER BY puts it last.  (This is why the engine, after 37985c9a, uses the index
order for ASC only over NOT NULL columns.) -/
def C02_index_order_asc_full : Prop := ∀ a b : Value, vcmp a b = keyCmp .asc a b

theorem C02_index_order_asc_counterexample : ¬ C02_index_order_asc_full := by
  intro h
  have := h .null (.int 1)
  simp [vcmp, keyCmp, Value.isNull] at this


/-! ### the guard of `index_order_equals_sort_order` is necessary and sufficient pointwise -/

/-- forward index order and ascending sort order agree on a pair of column values exactly when both
or neither is NULL: one NULL in the ordered columns breaks the agreement (the ASC rule "every
ordered column NOT NULL", for *every* ordered column, not only the leading one) -/
theorem C02_index_order_asc_iff (t : KTy) (a b : Value) (ha : a.hasTy t = true) (hb : b.hasTy t = true) :
    vcmp a b = keyCmp .asc a b ↔ a.isNull = b.isNull := by
  cases t <;> cases a <;> cases b <;>
    simp_all [vcmp, keyCmp, cmpNonNull, Value.hasTy, Value.isNull, Value.cmp?]

def ascKey (k : Key) : SortKey := k.map (fun v => (v, Dir.asc))
def descKey (k : Key) : SortKey := k.map (fun v => (v, Dir.desc))

def typedKey : List KTy → Key → Bool
  | [], [] => true
  | t :: ts, v :: vs => v.hasTy t && typedKey ts vs
  | _, _ => false

/-- composite keys without NULL: the index order of the key vectors is the ascending
lexicographic sort order of ORDER BY over the same columns -/
theorem C02_composite_order_asc_agrees (tys : List KTy) (ka kb : Key)
    (ha : typedKey tys ka = true) (hb : typedKey tys kb = true)
    (na : ∀ v ∈ ka, v.isNull = false) (nb : ∀ v ∈ kb, v.isNull = false) :
    kcmp ka kb = keysCmp (ascKey ka) (ascKey kb) := by
  induction tys generalizing ka kb with
  | nil =>
    cases ka <;> cases kb <;> simp_all [typedKey, kcmp, keysCmp, ascKey]
  | cons t ts ih =>
    cases ka with
    | nil => simp [typedKey] at ha
    | cons x xs =>
      cases kb with
      | nil => simp [typedKey] at hb
      | cons y ys =>
        simp only [typedKey, Bool.and_eq_true] at ha hb
        have hx := na x (List.mem_cons_self)
        have hy := nb y (List.mem_cons_self)
        have h1 := C02_index_order_asc_agrees t x y ha.1 hb.1 hx hy
        have ih' := ih xs ys ha.2 hb.2 (fun v hv => na v (List.mem_cons_of_mem _ hv))
          (fun v hv => nb v (List.mem_cons_of_mem _ hv))
        simp only [kcmp, ascKey, List.map_cons, keysCmp] at ih' ⊢
        rw [h1]
        cases keyCmp Dir.asc x y <;> simp [ih', ascKey]

/-- the reversed index order of composite keys is the all-DESC sort order, NULLs included -/
theorem C02_composite_order_desc_agrees (tys : List KTy) (ka kb : Key)
    (ha : typedKey tys ka = true) (hb : typedKey tys kb = true) :
    (kcmp ka kb).swap = keysCmp (descKey ka) (descKey kb) := by
  induction tys generalizing ka kb with
  | nil =>
    cases ka <;> cases kb <;> simp_all [typedKey, kcmp, keysCmp, descKey, Ordering.swap]
  | cons t ts ih =>
    cases ka with
    | nil => simp [typedKey] at ha
    | cons x xs =>
      cases kb with
      | nil => simp [typedKey] at hb
      | cons y ys =>
        simp only [typedKey, Bool.and_eq_true] at ha hb
        have h1 := C02_index_order_desc_agrees t x y ha.1 hb.1
        have ih' := ih xs ys ha.2 hb.2
        simp only [kcmp, descKey, List.map_cons, keysCmp] at ih' ⊢
        rw [← h1]
        cases vcmp x y <;> first
          | (simp [Ordering.swap]; done)
          | (simp only [Ordering.swap]; rw [← ih']; cases kcmp xs ys <;> rfl)

/-- a NULL in a NON-leading ordered column already breaks the ascending agreement: index (a, b),
rows (1, NULL) and (1, 2) — the index puts (1, NULL) first, ORDER BY a, b puts it last.  The guard
must therefore look at every ordered column (seeded change C02-4 looked at the first only). -/
theorem C02_composite_null_counterexample :
    kcmp [.int 1, .null] [.int 1, .int 2] = .lt ∧
      keysCmp (ascKey [.int 1, .null]) (ascKey [.int 1, .int 2]) = .gt := by decide

/-- a truncated (prefix-length) key does not order like the value: 'abz' > 'abc' but their 2-character
keys are equal, so the index keeps them in insertion order — in any key position.  The guard must
therefore reject a prefix length on *any* ordered column (seeded changes C08-4 / C21-4). -/
theorem C02_prefix_order_counterexample :
    vcmp (.str "abz") (.str "abc") = .gt ∧
      vcmp (truncValue 2 (.str "abz")) (truncValue 2 (.str "abc")) = .eq ∧
      kcmp [.int 1, truncValue 2 (.str "abz")] [.int 1, truncValue 2 (.str "abc")] = .eq ∧
      keysCmp (ascKey [.int 1, .str "abz"]) (ascKey [.int 1, .str "abc"]) = .gt := by decide

/-! ### extraction of the range from WHERE (samples of the AND-merge; the correspondence run
compares `extractRange` ∘ `rangeScan` with the engine end to end) -/

example : extractRange 0 (.bin .and (.bin .gt (.col 0) (.lit (.int 1))) (.bin .le (.col 0) (.lit (.int 5))))
    = some ⟨some (.int 1), some (.int 5), false, true⟩ := by decide
example : extractRange 0 (.bin .and (.bin .gt (.col 0) (.lit (.int 1))) (.bin .gt (.col 0) (.lit (.int 5))))
    = some ⟨some (.int 1), none, false, false⟩ := by decide
example : extractRange 0 (.bin .lt (.lit (.int 3)) (.col 0)) = some ⟨some (.int 3), none, false, false⟩ := by decide
example : extractRange 0 (.bin .eq (.col 0) (.lit .null)) = none := by decide

/-- T2 for the simple comparison `col op literal`: whenever `fullySatisfied` accepts it, the
extracted range is TRUE on exactly the rows on which the WHERE predicate is TRUE — so skipping
the re-check after a sound and complete range scan loses and adds nothing -/
theorem C02_simple_range_exact (c : Nat) (op : BinOp) (v x : Value) (row : Row) (r : Range)
    (hop : isRangeOp op = true) (hrow : row[c]? = some x)
    (hext : extractRange c (.bin op (.col c) (.lit v)) = some r) :
    inRangeSql x r = true ↔ (Expr.bin op (.col c) (.lit v)).tv row = .ok .t := by
  cases op <;> simp [isRangeOp] at hop <;>
    cases v <;> simp [extractRange, isCol, litOf] at hext <;> subst hext <;>
    cases x <;>
    simp [inRangeSql, Expr.tv, Expr.eval, hrow, evalBin, Value.cmp?, Value.isNull, Value.truthy,
      cmpOp, bind, Except.bind, pure, Except.pure, TV.ofBool] <;>
    (first
      | done
      | (rename_i a b; cases h : compare a b <;> simp_all; done)
      | (rename_i a b; cases h : compare b a <;> simp_all; done)
      | (rename_i a b; cases h : compare b.toNat a.toNat <;> simp_all; done)
      | (rename_i a b; cases h : compare a.toNat b.toNat <;> simp_all; done))



/-! ### the AND-merge of two extracted ranges -/

/-- When the two conjuncts do not both bound the same side, the merged range (bounds *and inclusive
flags* as `extract_range_predicate` copies them) is TRUE on exactly the keys on which both
conjuncts' ranges are TRUE — for all bounds, flags and keys.  (A flag copied from the wrong field
falsifies this statement.) -/
theorem C02_merge_exact (x : Value) (a b : Range)
    (hlo : a.lo.isNone = true ∨ b.lo.isNone = true) (hhi : a.hi.isNone = true ∨ b.hi.isNone = true) :
    inRangeSql x (mergeRange a b) = (inRangeSql x a && inRangeSql x b) := by
  obtain ⟨alo, ahi, ail, aih⟩ := a
  obtain ⟨blo, bhi, bil, bih⟩ := b
  cases alo <;> cases blo <;> cases ahi <;> cases bhi <;>
    simp at hlo hhi <;>
    simp only [mergeRange, inRangeSql, Option.isNone_none, Option.isNone_some, if_true, if_false,
      Bool.false_eq_true] <;>
    cases x.isNull <;> simp [Bool.and_comm, Bool.and_left_comm, Bool.and_assoc]

/-- In general (both conjuncts bound the same side: the left bound is kept) the merged range is a
superset of the conjunction, which is why the engine re-checks WHERE unless `fullySatisfied` -/
theorem C02_merge_superset (x : Value) (a b : Range)
    (h : (inRangeSql x a && inRangeSql x b) = true) : inRangeSql x (mergeRange a b) = true := by
  obtain ⟨alo, ahi, ail, aih⟩ := a
  obtain ⟨blo, bhi, bil, bih⟩ := b
  cases alo <;> cases blo <;> cases ahi <;> cases bhi <;>
    simp only [mergeRange, inRangeSql, Option.isNone_none, Option.isNone_some, if_true, if_false,
      Bool.false_eq_true, Bool.and_eq_true] at h ⊢ <;>
    simp_all

/-- `a < 20 AND a >= 10`: the lower bound comes from the right conjunct with its inclusive flag,
so the key 10 is in the merged range -/
example : mergeRange ⟨none, some (.int 20), false, false⟩ ⟨some (.int 10), none, true, false⟩
      = ⟨some (.int 10), some (.int 20), true, false⟩
    ∧ inRangeSql (.int 10) (mergeRange ⟨none, some (.int 20), false, false⟩ ⟨some (.int 10), none, true, false⟩) = true := by
  decide

/-! ### T2 for BETWEEN and for `col op₁ lit₁ AND col op₂ lit₂` -/

def isCmpOp : BinOp → Bool
  | .eq | .ne | .lt | .le | .gt | .ge => true
  | _ => false

/-- a comparison of two non-NULL values is decided by `Value.cmp?` (type mismatch = error) -/
theorem evalBin_cmp (op : BinOp) (a b : Value) (hop : isCmpOp op = true)
    (na : a.isNull = false) (nb : b.isNull = false) :
    evalBin op a b = (match Value.cmp? a b with
      | some o => .ok (.bool (cmpOp op o))
      | none => .error .typeMismatch) := by
  cases op <;> simp [isCmpOp] at hop <;> cases a <;> cases b <;>
    simp_all [evalBin, Value.isNull, Value.cmp?]

theorem evalBin_cmp_null_left (op : BinOp) (b : Value) (hop : isCmpOp op = true) :
    evalBin op .null b = .ok .null := by
  cases op <;> simp [isCmpOp] at hop <;> simp [evalBin]

theorem cmpOp_ge (o : Ordering) : cmpOp .ge o = (match o with | .lt => false | _ => true) := by
  cases o <;> rfl
theorem cmpOp_le (o : Ordering) : cmpOp .le o = (match o with | .gt => false | _ => true) := by
  cases o <;> rfl
theorem cmpOp_gt (o : Ordering) : cmpOp .gt o = (match o with | .gt => true | _ => false) := by
  cases o <;> rfl
theorem cmpOp_lt (o : Ordering) : cmpOp .lt o = (match o with | .lt => true | _ => false) := by
  cases o <;> rfl

/-- no value lies between `l` and `h` when `l > h` -/
theorem no_value_between (x l h : Value) (o1 o2 : Ordering)
    (h1 : Value.cmp? x l = some o1) (h2 : Value.cmp? x h = some o2) (hlh : Value.cmp? l h = some .gt)
    (hge : o1 ≠ .lt) (hle : o2 ≠ .gt) : False := by
  have L := vcmp_laws
  have v1 := vcmp_of_cmp _ _ _ h1
  have v2 := vcmp_of_cmp _ _ _ h2
  have v3 := vcmp_of_cmp _ _ _ hlh
  have v1' : vcmp l x = o1.swap := by rw [L.swap (a := x) (b := l) trivial trivial, v1]
  have v3' : vcmp h l = .lt := by rw [L.swap (a := l) (b := h) trivial trivial, v3]; rfl
  -- h < l ≤ x ≤ h
  cases o1 <;> cases o2 <;> simp at hge hle
  · -- x = l, x < h : l < h, contradiction with h < l
    have := L.eq_lt (a := l) (b := x) (c := h) trivial trivial trivial (by rw [v1']; rfl) v2
    rw [v3] at this; cases this
  · have := L.eq_eq (a := l) (b := x) (c := h) trivial trivial trivial (by rw [v1']; rfl) v2
    rw [v3] at this; cases this
  · have := L.lt_lt (a := l) (b := x) (c := h) trivial trivial trivial (by rw [v1']; rfl) v2
    rw [v3] at this; cases this
  · have := L.lt_eq (a := l) (b := x) (c := h) trivial trivial trivial (by rw [v1']; rfl) v2
    rw [v3] at this; cases this

/-- T2 for `col BETWEEN l AND h`: the extracted closed range is TRUE on exactly the rows on which
the WHERE predicate is TRUE (an evaluation error is not TRUE) -/
theorem C02_between_exact (c : Nat) (l h x : Value) (row : Row) (r : Range)
    (hrow : row[c]? = some x)
    (hext : extractRange c (.between (.col c) (.lit l) (.lit h) false) = some r) :
    inRangeSql x r = true ↔ (Expr.between (.col c) (.lit l) (.lit h) false).tv row = .ok .t := by
  have nl : l.isNull = false := by
    cases l <;> simp_all [extractRange, isCol, litOf, Value.isNull]
  have nh : h.isNull = false := by
    cases l <;> cases h <;> simp_all [extractRange, isCol, litOf, Value.isNull]
  have hr : r = ⟨some l, some h, true, true⟩ := by
    cases l <;> cases h <;> simp_all [extractRange, isCol, litOf, Value.isNull]
  subst hr
  simp only [Expr.tv, Expr.eval, hrow, betweenV, bind, Except.bind]
  rw [evalBin_cmp .gt l h rfl nl nh]
  by_cases nx : x.isNull = true
  · have hxn : x = .null := by cases x <;> simp_all [Value.isNull]
    subst hxn
    cases hlh : Value.cmp? l h with
    | none => simp (config := { decide := true }) [inRangeSql, Value.isNull]
    | some o =>
      cases o <;>
        simp (config := { decide := true }) [inRangeSql, Value.isNull, cmpOp_ge, cmpOp_le, cmpOp_gt, evalBin_cmp_null_left, evalBin, Value.toTV, TV.and3,
          Value.ofTV, Value.truthy, pure, Except.pure, bind, Except.bind]
  · have nx' : x.isNull = false := by simpa using nx
    rw [evalBin_cmp .ge x l rfl nx' nl, evalBin_cmp .le x h rfl nx' nh]
    cases hlh : Value.cmp? l h with
    | none =>
      -- l and h of different types: x cannot be comparable with both
      have : Value.cmp? x l = none ∨ Value.cmp? x h = none := by
        cases x <;> cases l <;> cases h <;> simp_all [Value.cmp?]
      rcases this with h1 | h1 <;> simp (config := { decide := true }) [inRangeSql, nx', h1]
    | some o =>
      cases h1 : Value.cmp? x l with
      | none => cases o <;> simp (config := { decide := true }) [inRangeSql, nx', h1, cmpOp_ge, cmpOp_le, cmpOp_gt, nx, Value.truthy, TV.ofBool, pure, Except.pure]
      | some o1 =>
        cases h2 : Value.cmp? x h with
        | none =>
          cases o <;> cases o1 <;>
            simp (config := { decide := true }) [inRangeSql, nx', h1, h2, cmpOp_ge, cmpOp_le, cmpOp_gt, nx, Value.truthy, TV.ofBool, pure, Except.pure,
              evalBin, Value.toTV, bind, Except.bind]
        | some o2 =>
          cases o
          · cases o1 <;> cases o2 <;>
              simp (config := { decide := true }) [inRangeSql, nx', h1, h2, cmpOp_ge, cmpOp_le, cmpOp_gt, evalBin, Value.toTV, TV.and3, Value.ofTV,
                Value.truthy, TV.ofBool, pure, Except.pure, bind, Except.bind]
          · cases o1 <;> cases o2 <;>
              simp (config := { decide := true }) [inRangeSql, nx', h1, h2, cmpOp_ge, cmpOp_le, cmpOp_gt, evalBin, Value.toTV, TV.and3, Value.ofTV,
                Value.truthy, TV.ofBool, pure, Except.pure, bind, Except.bind]
          · -- l > h: the engine answers FALSE; the range is empty
            have hno := no_value_between x l h o1 o2 h1 h2 hlh
            cases o1 <;> cases o2 <;>
              simp (config := { decide := true }) [inRangeSql, nx', h1, h2, cmpOp_ge, cmpOp_le, cmpOp_gt, nx, Value.truthy, TV.ofBool, pure, Except.pure] <;>
              exact hno (by decide) (by decide)


/-! ### T2 for `col op₁ v₁ AND col op₂ v₂` -/

/-- value of a comparison `col op literal` on a row: NULL for a NULL key, else decided by `cmp?` -/
theorem simple_eval (c : Nat) (op : BinOp) (v x : Value) (row : Row) (hop : isCmpOp op = true)
    (nv : v.isNull = false) (hrow : row[c]? = some x) :
    (Expr.bin op (.col c) (.lit v)).eval row =
      if x.isNull then .ok .null
      else match Value.cmp? x v with
        | some o => .ok (.bool (cmpOp op o))
        | none => .error .typeMismatch := by
  simp only [Expr.eval, hrow, bind, Except.bind]
  by_cases nx : x.isNull = true
  · have : x = .null := by cases x <;> simp_all [Value.isNull]
    subst this
    simp [evalBin_cmp_null_left op v hop, Value.isNull]
  · have nx' : x.isNull = false := by simpa using nx
    rw [evalBin_cmp op x v hop nx' nv]
    simp [nx']

/-- a conjunction of two comparisons is TRUE iff both are -/
theorem and_tv_simple (c : Nat) (op1 op2 : BinOp) (v1 v2 x : Value) (row : Row)
    (h1 : isCmpOp op1 = true) (h2 : isCmpOp op2 = true)
    (n1 : v1.isNull = false) (n2 : v2.isNull = false) (hrow : row[c]? = some x) :
    (Expr.bin .and (.bin op1 (.col c) (.lit v1)) (.bin op2 (.col c) (.lit v2))).tv row = .ok .t ↔
      ((Expr.bin op1 (.col c) (.lit v1)).tv row = .ok .t ∧
        (Expr.bin op2 (.col c) (.lit v2)).tv row = .ok .t) := by
  have e1 := simple_eval c op1 v1 x row h1 n1 hrow
  have e2 := simple_eval c op2 v2 x row h2 n2 hrow
  simp only [Expr.tv]
  rw [show (Expr.bin BinOp.and (.bin op1 (.col c) (.lit v1)) (.bin op2 (.col c) (.lit v2))).eval row
      = (do let a ← (Expr.bin op1 (.col c) (.lit v1)).eval row
            let b ← (Expr.bin op2 (.col c) (.lit v2)).eval row
            evalBin .and a b) from rfl, e1, e2]
  cases hx : x.isNull
  · cases Value.cmp? x v1 <;> cases Value.cmp? x v2 <;>
      simp [bind, Except.bind, evalBin, Value.toTV, Value.ofTV, Value.truthy, TV.and3, TV.ofBool,
        pure, Except.pure]
    rename_i o1 o2
    cases cmpOp op1 o1 <;> cases cmpOp op2 o2 <;> simp [TV.and3, Value.ofTV, TV.ofBool]
  · simp [bind, Except.bind, evalBin, Value.toTV, Value.ofTV, Value.truthy, TV.and3, pure, Except.pure]

/-- T2 for the AND form accepted by `fullySatisfied`: lower bound in one conjunct, upper bound in the
other, in either order — the merged range is TRUE exactly when the WHERE clause is -/
theorem C02_and_range_exact (c : Nat) (op1 op2 : BinOp) (v1 v2 x : Value) (row : Row) (r1 r2 : Range)
    (h1 : isRangeOp op1 = true) (h2 : isRangeOp op2 = true) (hrow : row[c]? = some x)
    (e1 : extractRange c (.bin op1 (.col c) (.lit v1)) = some r1)
    (e2 : extractRange c (.bin op2 (.col c) (.lit v2)) = some r2)
    (hlo : r1.lo.isNone = true ∨ r2.lo.isNone = true) (hhi : r1.hi.isNone = true ∨ r2.hi.isNone = true) :
    extractRange c (.bin .and (.bin op1 (.col c) (.lit v1)) (.bin op2 (.col c) (.lit v2)))
        = some (mergeRange r1 r2) ∧
      (inRangeSql x (mergeRange r1 r2) = true ↔
        (Expr.bin .and (.bin op1 (.col c) (.lit v1)) (.bin op2 (.col c) (.lit v2))).tv row = .ok .t) := by
  have n1 : v1.isNull = false := by
    cases op1 <;> simp [isRangeOp] at h1 <;> cases v1 <;> simp_all [extractRange, isCol, litOf, Value.isNull]
  have n2 : v2.isNull = false := by
    cases op2 <;> simp [isRangeOp] at h2 <;> cases v2 <;> simp_all [extractRange, isCol, litOf, Value.isNull]
  have c1 : isCmpOp op1 = true := by cases op1 <;> simp_all [isRangeOp, isCmpOp]
  have c2 : isCmpOp op2 = true := by cases op2 <;> simp_all [isRangeOp, isCmpOp]
  refine ⟨?_, ?_⟩
  · show (match extractRange c (.bin op1 (.col c) (.lit v1)), extractRange c (.bin op2 (.col c) (.lit v2)) with
        | some a, some b => some (mergeRange a b)
        | some a, none => some a
        | none, some b => some b
        | none, none => none) = _
    rw [e1, e2]
  · rw [C02_merge_exact x r1 r2 hlo hhi, Bool.and_eq_true, and_tv_simple c op1 op2 v1 v2 x row c1 c2 n1 n2 hrow,
      C02_simple_range_exact c op1 v1 x row r1 h1 hrow e1, C02_simple_range_exact c op2 v2 x row r2 h2 hrow e2]

end VibeProof.C02
