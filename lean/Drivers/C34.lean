import VibeProof.Model.Codec
import VibeProof.Model.Trigger
import VibeProof.Generated.Consts
open VibeProof VibeProof.Proto VibeProof.Codec VibeProof.Trigger

/-
`(run (cfg (bad TIDMIN COL VAL) (ok COL VAL)) (trigs T…) (rows R…) STMT)`
  → `(res (ok n)|(err E) (rows R…) (log (tid OLD NEW)…))`
T    = `(t tid table b|a|i EVENT row|stmt 0|1 WHEN (ACTION…))`
EVENT= `ins` | `del` | `(upd)` | `(updof c…)`
E = `(lit V)` | `(c base|old|new n)` | `(OP E E)` | `(ite E E E)` | `(coal E E)`
WHEN = `(expr E)` | `none` | `(cmp base|old|new c eq|ne|lt|le|gt|ge k)` | `(raw base|old|new c)`
ACTION = `(auditx E)` | `(updx c E E)` | `(delx E)` | `(audit 0|1 0|1)` | `(reinsert)` | `(insrow V…)` | `(decr old|new c)` | `(delkey old|new)`
STMT = `(ins R…)` | `(upd SEL (c set k)|(c add k)|(c null)…)` | `(del SEL)` | `(delall)`
SEL  = `(all)` | `(cmp c op k)`
The depth limit is `MAX_TRIGGER_RECURSION_DEPTH` as extracted from the source.
-/

def decCmp : String → Option Cmp
  | "eq" => some .eq | "ne" => some .ne | "lt" => some .lt
  | "le" => some .le | "gt" => some .gt | "ge" => some .ge
  | _ => none

def decSrc : String → Option Src
  | "base" => some .base | "old" => some .old | "new" => some .new
  | _ => none

def decSel : Sx → Option (Row → Bool)
  | .list [.atom "all"] => some (fun _ => true)
  | .list [.atom "cmp", .atom c, .atom op, .atom k] => do
    let c ← c.toNat?
    let op ← decCmp op
    let k ← k.toInt?
    pure (fun r => match r[c]? with
      | some (.int i) => op.holds i k
      | _ => false)
  | _ => none

def decAsg : Sx → Option (Nat × (Row → Value))
  | .list [.atom c, .atom "set", .atom k] => do
    let c ← c.toNat?
    let k ← k.toInt?
    pure (c, fun _ => .int k)
  | .list [.atom c, .atom "add", .atom k] => do
    let c ← c.toNat?
    let k ← k.toInt?
    pure (c, fun r => match r[c]? with
      | some (.int i) => .int (i + k)
      | _ => .null)
  | .list [.atom c, .atom "null"] => do
    let c ← c.toNat?
    pure (c, fun _ => .null)
  | _ => none

def decStmt : Sx → Option Stmt
  | .list (.atom "ins" :: rows) => do
    let rs ← rows.mapM decRow
    pure (.insert rs)
  | .list (.atom "upd" :: sel :: asgs) => do
    let s ← decSel sel
    let fs ← asgs.mapM decAsg
    -- every right-hand side reads the original row
    pure (.update s (fun r => fs.foldl (fun acc cf => acc.set cf.1 (cf.2 r)) r))
  | .list [.atom "del", sel] => do
    let s ← decSel sel
    pure (.delete (some s))
  | .list [.atom "delall"] => some (.delete none)
  | _ => none

def intAt (r : Row) (c : Nat) : Option Int :=
  match r[c]? with
  | some (.int i) => some i
  | _ => none

def pick (s : Src) (old new : Option Row) : Option Row :=
  match s with
  | .old => old
  | .new => new
  | .base => match new with
    | some r => some r
    | none => old

def decTBin : String → Option TBin
  | "add" => some .add | "sub" => some .sub
  | "eq" => some .eq | "ne" => some .ne | "lt" => some .lt
  | "le" => some .le | "gt" => some .gt | "ge" => some .ge
  | "and" => some .and | "or" => some .or
  | _ => none

/-- `(lit V)` | `(c base|old|new n)` | `(OP a b)` | `(ite c t e)` | `(coal a b)` -/
partial def decTExpr : Sx → Option TExpr
  | .list [.atom "lit", .atom v] => (decValue v).map TExpr.lit
  | .list [.atom "c", .atom s, .atom n] => do pure (.col (← decSrc s) (← n.toNat?))
  | .list [.atom "ite", c, t, e] => do pure (.ite (← decTExpr c) (← decTExpr t) (← decTExpr e))
  | .list [.atom "coal", a, b] => do pure (.coalesce (← decTExpr a) (← decTExpr b))
  | .list [.atom op, a, b] => do pure (.bin (← decTBin op) (← decTExpr a) (← decTExpr b))
  | _ => none

/-- WHERE truth of a body statement's predicate on the scanned row `r` -/
def selOf (e : TExpr) (old new : Option Row) (r : Row) : Bool :=
  match e.evalWith (envOf old new (some r)) with
  | .ok (.bool true) => true
  | _ => false

def decAction (tid : Nat) : Sx → Option Action
  | .list [.atom "auditx", e] => do
    let e ← decTExpr e
    -- INSERT INTO A VALUES (tid, NULL, NULL, NULL, <e>, NULL, NULL)
    pure (.nested (fun old new =>
      match e.evalWith (envOf old new none) with
      | .error er => .error er
      | .ok v => .ok (.audit { tid := tid, old := none, new := some [v, .null, .null] })))
  | .list [.atom "updx", .atom c, se, we] => do
    let c ← c.toNat?
    let se ← decTExpr se
    let we ← decTExpr we
    -- UPDATE T SET Cc = <se> WHERE <we>
    pure (.nested (fun old new =>
      .ok (.update (selOf we old new)
        (fun r => match se.evalWith (envOf old new (some r)) with
          | .ok v => r.set c v
          | .error _ => r))))
  | .list [.atom "delx", we] => do
    let we ← decTExpr we
    pure (.nested (fun old new => .ok (.delete (some (selOf we old new)))))
  | .list [.atom "audit", .atom uo, .atom un] => some (.audit (uo == "1") (un == "1"))
  | .list [.atom "reinsert"] =>
    some (.nested (fun _ new => match new with
      | some r => .ok (.insert [r])
      | none => .error .pseudo))
  | .list (.atom "insrow" :: vs) => do
    let r ← vs.mapM decValueSx
    pure (.nested (fun _ _ => .ok (.insert [r])))
  | .list [.atom "decr", .atom s, .atom c] => do
    let s ← decSrc s
    let c ← c.toNat?
    pure (.nested (fun old new => match pick s old new with
      | none => .error .pseudo
      | some img =>
        .ok (.update
          (fun r => match intAt r 0, intAt img 0, intAt r c with
            | some a, some b, some v => a == b && decide (v > 0)
            | _, _, _ => false)
          (fun r => match intAt r c with
            | some v => r.set c (.int (v - 1))
            | none => r.set c .null))))
  | .list [.atom "delkey", .atom s] => do
    let s ← decSrc s
    pure (.nested (fun old new => match pick s old new with
      | none => .error .pseudo
      | some img =>
        .ok (.delete (some (fun r => match intAt r 0, intAt img 0 with
          | some a, some b => a == b
          | _, _ => false)))))
  | _ => none

def decWhen : Sx → Option (Option WExpr)
  | .atom "none" => some none
  | .list [.atom "cmp", .atom s, .atom c, .atom op, .atom k] => do
    pure (some (.cmp (← decSrc s) (← c.toNat?) (← decCmp op) (← k.toInt?)))
  | .list [.atom "raw", .atom s, .atom c] => do
    pure (some (.raw (← decSrc s) (← c.toNat?)))
  | .list [.atom "expr", e] => do pure (some (.expr (← decTExpr e)))
  | _ => none

def decEvent : Sx → Option Event
  | .atom "ins" => some .insert
  | .atom "del" => some .delete
  | .list [.atom "upd"] => some (.update none)
  | .list (.atom "updof" :: cs) => do
    let cs ← cs.mapM Sx.nat?
    pure (.update (some cs))
  | _ => none

def decTiming : String → Option Timing
  | "b" => some .before | "a" => some .after | "i" => some .insteadOf
  | _ => none

def decTrig : Sx → Option Trig
  | .list [.atom "t", .atom tid, .atom tbl, .atom tm, ev, .atom g, .atom en, w, .list body] => do
    let tidn ← tid.toNat?
    let acts ← body.mapM (decAction tidn)
    pure { tid := tidn, table := ← tbl.toNat?, timing := ← decTiming tm,
           event := ← decEvent ev, gran := if g == "row" then .row else .stmt,
           enabled := en == "1", when := ← decWhen w, body := acts }
  | _ => none

def colIs (r : Option Row) (c : Nat) (v : Int) : Bool :=
  match r with
  | some r => r[c]? == some (.int v)
  | none => false

def encOptRow : Option Row → Sx
  | none => .atom "-"
  | some r => encRow r

def encTErr : TErr → String
  | .recursion => "recursion" | .constraint => "constraint" | .pseudo => "pseudo"
  | .whenNoRow => "whennorow" | .whenType => "whentype" | .storage => "storage"
  | .other => "other"

def handle : List Sx → Sx
  | [.atom "run",
     .list [.atom "cfg", .list [.atom "bad", .atom tmin, .atom bc, .atom bv],
            .list [.atom "ok", .atom oc, .atom ov]],
     .list (.atom "trigs" :: ts), .list (.atom "rows" :: rows), stmt] =>
    match tmin.toNat?, bc.toNat?, bv.toInt?, oc.toNat?, ov.toInt?,
          ts.mapM decTrig, rows.mapM decRow, decStmt stmt with
    | some tmin, some bc, some bv, some oc, some ov, some trigs, some rs, some s =>
      let cfg : Cfg :=
        { trigs := trigs
          bad := fun e => decide (e.tid ≥ tmin) || colIs e.old bc bv || colIs e.new bc bv
          rowOk := fun r => !(colIs (some r) oc ov) }
      let (st, out) := exec cfg VibeProof.Generated.maxTriggerRecursionDepth true
        { rows := rs, log := [] } s
      .list [.atom "res",
        (match out with
          | .ok n => .list [.atom "ok", sxNat n]
          | .err e => .list [.atom "err", .atom (encTErr e)]),
        .list (.atom "rows" :: st.rows.map encRow),
        .list (.atom "log" :: st.log.map (fun e =>
          .list [sxNat e.tid, encOptRow e.old, encOptRow e.new]))]
    | _, _, _, _, _, _, _, _ => .atom "bad-request"
  | _ => .atom "bad-request"

def main : IO Unit := runDriver handle
