//! Shared by the C15 / C13 / C14 harnesses: single-table histories (DML, index DDL,
//! transactions, savepoints), observation of the real index structures through the public
//! accessors, from-scratch rebuild (direct oracle), translation of every statement into the
//! storage-level operation of the Lean table state machine, and comparison of the traces.
#![allow(dead_code)]
use std::collections::BTreeMap;
use vharness::*;
use vibesql_storage::database::IndexData;
use vibesql_types::SqlValue;

pub const TABLE: &str = "T";

#[derive(Clone, Debug, PartialEq, Eq, PartialOrd, Ord)]
pub enum Val {
    Null,
    Int(i64),
    Str(String),
    /// SQL text used as is (DEFAULT, numeric literals with a fraction); never compared
    Raw(String),
}

impl Val {
    pub fn sql(&self) -> String {
        match self {
            Val::Null => "NULL".into(),
            Val::Int(i) => i.to_string(),
            Val::Str(s) => format!("'{}'", s),
            Val::Raw(s) => s.clone(),
        }
    }
    pub fn canon(&self) -> String {
        match self {
            Val::Null => "N".into(),
            Val::Int(i) => format!("I{}", i),
            Val::Str(s) => format!("S{}", sx::hex_str(s)),
            Val::Raw(s) => format!("S{}", sx::hex_str(s)),
        }
    }
    pub fn of(v: &SqlValue) -> Val {
        Val::of_canon(&cv(v))
    }
    pub fn of_canon(c: &str) -> Val {
        if c == "N" {
            Val::Null
        } else if let Some(i) = c.strip_prefix('I') {
            Val::Int(i.parse().unwrap_or(0))
        } else if let Some(h) = c.strip_prefix('S') {
            Val::Str(sx::unhex_str(h).unwrap_or_default())
        } else {
            Val::Str(c.to_string())
        }
    }
}

/// canonical value for this harness and the model: INTEGER / VARCHAR / CHAR / NULL / BOOLEAN as
/// usual; every other type (NUMERIC with a fraction, DATE, ...) as an opaque string of its
/// canonical text
pub fn cv(v: &SqlValue) -> String {
    let c = canon::val(v);
    match c.chars().next() {
        Some('I') | Some('S') | Some('N') | Some('B') => c,
        _ => format!("S{}", sx::hex_str(&c)),
    }
}

pub fn cv_row(r: &[SqlValue]) -> String {
    format!("({})", r.iter().map(cv).collect::<Vec<_>>().join(" "))
}

pub type VRow = Vec<Val>;

pub fn row_canon(r: &VRow) -> String {
    format!("({})", r.iter().map(|v| v.canon()).collect::<Vec<_>>().join(" "))
}

/// column kinds whose stored form may differ from what the executor hands to storage
#[derive(Clone, Debug, PartialEq)]
pub enum Kind {
    /// INT or VARCHAR(20) according to `int_col`
    Plain,
    /// CHAR(n): blank padded / truncated by characters
    Char(usize),
    /// VARCHAR(3)
    Varchar3,
    /// NUMERIC(6,2)
    Numeric,
    /// DATE
    Date,
    /// INT DEFAULT v
    DefInt(i64),
}

#[derive(Clone, Debug)]
pub struct Schema {
    /// per column; empty = all Plain
    pub kinds: Vec<Kind>,
    /// true = INT, false = VARCHAR
    pub int_col: Vec<bool>,
    pub pk: bool,
    /// single-column UNIQUE constraints (column positions, never 0)
    pub uniques: Vec<usize>,
}

impl Schema {
    pub fn create_sql(&self) -> String {
        let mut cols = vec![];
        for (i, is_int) in self.int_col.iter().enumerate() {
            let ty = match self.kind(i) {
                Kind::Plain => (if *is_int { "INT" } else { "VARCHAR(20)" }).to_string(),
                Kind::Char(n) => format!("CHAR({})", n),
                Kind::Varchar3 => "VARCHAR(3)".to_string(),
                Kind::Numeric => "NUMERIC(6,2)".to_string(),
                Kind::Date => "DATE".to_string(),
                Kind::DefInt(v) => format!("INT DEFAULT {}", v),
            };
            let mut c = format!("c{} {}", i, ty);
            if i == 0 && self.pk {
                c.push_str(" PRIMARY KEY");
            }
            if self.uniques.contains(&i) {
                c.push_str(" UNIQUE");
            }
            cols.push(c);
        }
        format!("CREATE TABLE t ({})", cols.join(", "))
    }
    pub fn ncols(&self) -> usize {
        self.int_col.len()
    }
    pub fn kind(&self, c: usize) -> Kind {
        self.kinds.get(c).cloned().unwrap_or(Kind::Plain)
    }
    /// columns on which the harness evaluates predicates itself
    pub fn plain_cols(&self) -> Vec<usize> {
        (0..self.ncols()).filter(|c| matches!(self.kind(*c), Kind::Plain | Kind::DefInt(_))).collect()
    }
}

#[derive(Clone, Debug)]
pub enum Pred {
    All,
    Cmp(usize, &'static str, Val),
    IsNull(usize),
}

impl Pred {
    pub fn sql(&self) -> String {
        match self {
            Pred::All => String::new(),
            Pred::Cmp(c, op, v) => format!(" WHERE c{} {} {}", c, op, v.sql()),
            Pred::IsNull(c) => format!(" WHERE c{} IS NULL", c),
        }
    }
    pub fn holds(&self, r: &VRow) -> bool {
        match self {
            Pred::All => true,
            Pred::IsNull(c) => r[*c] == Val::Null,
            Pred::Cmp(c, op, v) => match (&r[*c], v) {
                (Val::Int(a), Val::Int(b)) => match *op {
                    "=" => a == b,
                    "<" => a < b,
                    ">" => a > b,
                    "<=" => a <= b,
                    ">=" => a >= b,
                    _ => a != b,
                },
                (Val::Str(a), Val::Str(b)) => match *op {
                    "=" => a == b,
                    "<" => a < b,
                    ">" => a > b,
                    "<=" => a <= b,
                    ">=" => a >= b,
                    _ => a != b,
                },
                _ => false,
            },
        }
    }
}

#[derive(Clone, Debug)]
pub enum SetE {
    Const(Val),
    Add(i64),
}

#[derive(Clone, Debug)]
pub enum Stmt {
    Insert(Vec<VRow>),
    Update(Vec<(usize, SetE)>, Pred),
    Delete(Pred),
    Truncate,
    Replace(VRow),
    Upsert(VRow, usize, Val),
    CreateIndex(String, Vec<usize>, bool),
    /// CREATE [UNIQUE] INDEX name ON t (cK(len)): prefix index on a string column
    CreatePrefixIndex(String, usize, u64, bool),
    DropIndex(String),
    Begin,
    Commit,
    Rollback,
    Savepoint(String),
    RollbackTo(String),
    Release(String),
    /// statement on another object (not tracked by the single-table model)
    Raw(String),
}

impl Stmt {
    pub fn sql(&self) -> String {
        let vals = |r: &VRow| format!("({})", r.iter().map(|v| v.sql()).collect::<Vec<_>>().join(", "));
        match self {
            Stmt::Insert(rows) => format!("INSERT INTO t VALUES {}", rows.iter().map(vals).collect::<Vec<_>>().join(", ")),
            Stmt::Update(sets, p) => format!(
                "UPDATE t SET {}{}",
                sets.iter()
                    .map(|(c, e)| match e {
                        SetE::Const(v) => format!("c{} = {}", c, v.sql()),
                        SetE::Add(k) => format!("c{} = c{} + {}", c, c, k),
                    })
                    .collect::<Vec<_>>()
                    .join(", "),
                p.sql()
            ),
            Stmt::Delete(p) => format!("DELETE FROM t{}", p.sql()),
            Stmt::Truncate => "TRUNCATE TABLE t".into(),
            Stmt::Replace(r) => format!("REPLACE INTO t VALUES {}", vals(r)),
            Stmt::Upsert(r, c, v) => format!("INSERT INTO t VALUES {} ON DUPLICATE KEY UPDATE c{} = {}", vals(r), c, v.sql()),
            Stmt::CreateIndex(n, cols, u) => format!(
                "CREATE {}INDEX {} ON t ({})",
                if *u { "UNIQUE " } else { "" },
                n,
                cols.iter().map(|c| format!("c{}", c)).collect::<Vec<_>>().join(", ")
            ),
            Stmt::CreatePrefixIndex(n, c, len, u) => format!("CREATE {}INDEX {} ON t (c{}({}))", if *u { "UNIQUE " } else { "" }, n, c, len),
            Stmt::DropIndex(n) => format!("DROP INDEX {}", n),
            Stmt::Begin => "BEGIN".into(),
            Stmt::Commit => "COMMIT".into(),
            Stmt::Rollback => "ROLLBACK".into(),
            Stmt::Savepoint(n) => format!("SAVEPOINT {}", n),
            Stmt::RollbackTo(n) => format!("ROLLBACK TO SAVEPOINT {}", n),
            Stmt::Release(n) => format!("RELEASE SAVEPOINT {}", n),
            Stmt::Raw(s) => s.clone(),
        }
    }
    pub fn kind(&self) -> &'static str {
        match self {
            Stmt::Insert(r) => {
                if r.len() > 1 {
                    "insert_multi"
                } else {
                    "insert"
                }
            }
            Stmt::Update(..) => "update",
            Stmt::Delete(Pred::All) => "delete_all",
            Stmt::Delete(_) => "delete_where",
            Stmt::Truncate => "truncate",
            Stmt::Replace(_) => "replace",
            Stmt::Upsert(..) => "upsert",
            Stmt::CreateIndex(..) => "create_index",
            Stmt::CreatePrefixIndex(..) => "create_prefix_index",
            Stmt::DropIndex(_) => "drop_index",
            Stmt::Begin => "begin",
            Stmt::Commit => "commit",
            Stmt::Rollback => "rollback",
            Stmt::Savepoint(_) => "savepoint",
            Stmt::RollbackTo(_) => "rollback_to",
            Stmt::Release(_) => "release",
            Stmt::Raw(_) => "other_object",
        }
    }
    pub fn is_txn_op(&self) -> bool {
        matches!(self, Stmt::Begin | Stmt::Commit | Stmt::Rollback | Stmt::Savepoint(_) | Stmt::RollbackTo(_) | Stmt::Release(_))
    }
    /// DML other than plain INSERT (never recorded in the savepoint change log)
    pub fn is_unrecorded_dml(&self) -> bool {
        matches!(self, Stmt::Update(..) | Stmt::Delete(_) | Stmt::Truncate | Stmt::Replace(_) | Stmt::Upsert(..))
    }
}

// ------------------------------------------------------------------------------------------
// observation of index structures (engine) and their canonical form
// ------------------------------------------------------------------------------------------

#[derive(Clone, Debug, PartialEq, Eq, Default)]
pub struct Obs {
    pub rows: Vec<String>,
    /// PRIMARY KEY index first (if any), then the UNIQUE constraint indexes; entries sorted
    pub hidx: Vec<Vec<(String, usize)>>,
    /// upper-cased index name -> sorted (key, sorted positions)
    pub uidx: BTreeMap<String, Vec<(String, Vec<usize>)>>,
    /// prefix indexes (keys truncated to the prefix length); not part of the Lean model
    pub pidx: BTreeMap<String, Vec<(String, Vec<usize>)>>,
}

impl Obs {
    pub fn text(&self) -> String {
        format!("rows {:?}\nhidx {:?}\nuidx {:?}\nprefix idx {:?}", self.rows, self.hidx, self.uidx, self.pidx)
    }
}

pub fn key_canon(k: &[SqlValue]) -> String {
    format!("({})", k.iter().map(cv).collect::<Vec<_>>().join(" "))
}

fn hash_dump(m: &std::collections::HashMap<Vec<SqlValue>, usize>) -> Vec<(String, usize)> {
    let mut v: Vec<(String, usize)> = m.iter().map(|(k, p)| (key_canon(k), *p)).collect();
    v.sort();
    v
}

/// what the public accessors show; None = table missing; Err = an index uses the disk backend
pub fn observe(db: &Db, table: &str) -> Option<Result<Obs, String>> {
    let t = db.db.get_table(table)?;
    let mut o = Obs::default();
    o.rows = t.scan().iter().map(|r| cv_row(&r.values)).collect();
    if let Some(pk) = t.primary_key_index() {
        o.hidx.push(hash_dump(pk));
    }
    for u in t.unique_indexes() {
        o.hidx.push(hash_dump(u));
    }
    for name in db.db.list_indexes() {
        let Some(meta) = db.db.get_index(&name) else { continue };
        if meta.table_name.to_uppercase() != table.to_uppercase() {
            continue;
        }
        match db.db.get_index_data(&name) {
            Some(IndexData::InMemory { data }) => {
                let mut v: Vec<(String, Vec<usize>)> = data
                    .iter()
                    .map(|(k, ps)| {
                        let mut ps = ps.clone();
                        ps.sort();
                        (key_canon(k), ps)
                    })
                    .collect();
                v.sort();
                if meta.columns.iter().any(|c| c.prefix_length.is_some()) {
                    o.pidx.insert(name.to_uppercase(), v);
                } else {
                    o.uidx.insert(name.to_uppercase(), v);
                }
            }
            Some(_) => return Some(Err(format!("index {} is disk backed", name))),
            None => return Some(Err(format!("index {} has metadata but no data", name))),
        }
    }
    Some(Ok(o))
}

/// direct oracle: rebuild every structure from `table.scan()` and the declared columns only
pub fn rebuild_from_scan(db: &Db, table: &str) -> Option<Obs> {
    let t = db.db.get_table(table)?;
    let rows: Vec<&Vec<SqlValue>> = t.scan().iter().map(|r| &r.values).collect();
    let mut o = Obs::default();
    o.rows = rows.iter().map(|r| cv_row(r)).collect();
    let build_hash = |cols: &Vec<usize>, skip_null: bool| -> Vec<(String, usize)> {
        let mut m: BTreeMap<String, usize> = BTreeMap::new();
        for (p, r) in rows.iter().enumerate() {
            let k: Vec<SqlValue> = cols.iter().map(|c| r[*c].clone()).collect();
            if skip_null && k.iter().any(|v| matches!(v, SqlValue::Null)) {
                continue;
            }
            m.insert(key_canon(&k), p);
        }
        m.into_iter().collect()
    };
    if t.primary_key_index().is_some() {
        let cols = t.schema.get_primary_key_indices().unwrap_or_default();
        o.hidx.push(build_hash(&cols, false));
    }
    let ucols = t.schema.get_unique_constraint_indices();
    for (i, _) in t.unique_indexes().iter().enumerate() {
        let cols = ucols.get(i).cloned().unwrap_or_default();
        o.hidx.push(build_hash(&cols, true));
    }
    for name in db.db.list_indexes() {
        let Some(meta) = db.db.get_index(&name) else { continue };
        if meta.table_name.to_uppercase() != table.to_uppercase() {
            continue;
        }
        let cols: Vec<(usize, Option<u64>)> = meta.columns.iter().filter_map(|c| t.schema.get_column_index(&c.column_name).map(|i| (i, c.prefix_length))).collect();
        let is_prefix = cols.iter().any(|(_, p)| p.is_some());
        let mut m: BTreeMap<String, Vec<usize>> = BTreeMap::new();
        for (p, r) in rows.iter().enumerate() {
            // a prefix index keeps the first n CHARACTERS of a string value
            let k: Vec<SqlValue> = cols
                .iter()
                .map(|(c, pre)| match (&r[*c], pre) {
                    (SqlValue::Varchar(x), Some(n)) => SqlValue::Varchar(x.chars().take(*n as usize).collect()),
                    (SqlValue::Character(x), Some(n)) => SqlValue::Character(x.chars().take(*n as usize).collect()),
                    (v, _) => v.clone(),
                })
                .collect();
            m.entry(key_canon(&k)).or_default().push(p);
        }
        if is_prefix {
            o.pidx.insert(name.to_uppercase(), m.into_iter().collect());
        } else {
            o.uidx.insert(name.to_uppercase(), m.into_iter().collect());
        }
    }
    Some(o)
}

/// names of the UNIQUE user-defined indexes of a table in which some NULL-free key is held by
/// more than one row (name -> has duplicate)
pub fn unique_index_dups(db: &Db, table: &str) -> BTreeMap<String, bool> {
    let mut m = BTreeMap::new();
    for name in db.db.list_indexes() {
        let Some(meta) = db.db.get_index(&name) else { continue };
        if !meta.unique || meta.table_name.to_uppercase() != table.to_uppercase() {
            continue;
        }
        if let Some(IndexData::InMemory { data }) = db.db.get_index_data(&name) {
            let dup = data.iter().any(|(k, ps)| ps.len() > 1 && !k.iter().any(|v| matches!(v, SqlValue::Null)));
            m.insert(name.to_uppercase(), dup);
        }
    }
    m
}

pub fn scan_vals(db: &Db, table: &str) -> Vec<VRow> {
    db.scan(table).unwrap_or_default().iter().map(|r| r.iter().map(Val::of).collect()).collect()
}

/// hash-index signatures for the model: (columns, skipNull)
pub fn sigs(db: &Db, table: &str) -> Vec<(Vec<usize>, bool)> {
    let mut v = vec![];
    if let Some(t) = db.db.get_table(table) {
        if t.primary_key_index().is_some() {
            v.push((t.schema.get_primary_key_indices().unwrap_or_default(), false));
        }
        let ucols = t.schema.get_unique_constraint_indices();
        for (i, _) in t.unique_indexes().iter().enumerate() {
            v.push((ucols.get(i).cloned().unwrap_or_default(), true));
        }
    }
    v
}

// ------------------------------------------------------------------------------------------
// model side
// ------------------------------------------------------------------------------------------

fn sx_row(r: &VRow) -> String {
    row_canon(r)
}

/// the storage-level op of the Lean state machine for a statement that the engine executed,
/// derived from the statement and the scans before / after it.  None = nothing to send
/// (failed DML, no-op); Err = the harness cannot explain the change (row selection differs from
/// its own predicate evaluation — not this property's business): model tracking stops.
pub fn model_op(st: &Stmt, out: &Out, pre: &[VRow], post: &[VRow]) -> Result<Option<String>, String> {
    let ok = out.is_ok();
    match st {
        Stmt::Begin => Ok(Some("(begin)".into())),
        Stmt::Commit => Ok(Some("(commit)".into())),
        Stmt::Rollback => Ok(Some("(rollback)".into())),
        Stmt::Savepoint(n) => Ok(Some(format!("(sp {})", n.to_uppercase()))),
        Stmt::RollbackTo(n) => Ok(Some(format!("(rbto {})", n.to_uppercase()))),
        Stmt::Release(n) => Ok(Some(format!("(rel {})", n.to_uppercase()))),
        Stmt::Raw(_) => {
            if pre != post {
                Err("a statement on another object changed the table".into())
            } else {
                Ok(None)
            }
        }
        _ if !ok => {
            if pre != post {
                Err("a failed statement changed the table".into())
            } else {
                Ok(None)
            }
        }
        Stmt::CreateIndex(n, cols, u) => Ok(Some(format!(
            "(cidx {} ({}) {})",
            n.to_uppercase(),
            cols.iter().map(|c| c.to_string()).collect::<Vec<_>>().join(" "),
            if *u { 1 } else { 0 }
        ))),
        Stmt::CreatePrefixIndex(..) => Ok(None),
        Stmt::DropIndex(n) => Ok(Some(format!("(didx {})", n.to_uppercase()))),
        Stmt::Insert(rows) => {
            if post.len() != pre.len() + rows.len() || post[..pre.len()] != *pre {
                return Err("INSERT did not append its rows".into());
            }
            Ok(Some(format!("(ins {})", post[pre.len()..].iter().map(sx_row).collect::<Vec<_>>().join(" "))))
        }
        Stmt::Update(sets, p) => {
            let ps: Vec<usize> = pre.iter().enumerate().filter(|(_, r)| p.holds(r)).map(|(i, _)| i).collect();
            if post.len() != pre.len() {
                return Err("UPDATE changed the row count".into());
            }
            for i in 0..pre.len() {
                if !ps.contains(&i) && pre[i] != post[i] {
                    return Err("UPDATE touched a row outside the predicted selection".into());
                }
            }
            if let Out::Count(n) = out {
                if *n != ps.len() {
                    return Err("UPDATE count differs from the predicted selection".into());
                }
            }
            let ch: Vec<String> = sets.iter().map(|(c, _)| c.to_string()).collect();
            Ok(Some(format!(
                "(upd {})",
                ps.iter().map(|i| format!("({} {} ({}))", i, sx_row(&post[*i]), ch.join(" "))).collect::<Vec<_>>().join(" ")
            )))
        }
        Stmt::Delete(Pred::All) | Stmt::Truncate => {
            if !post.is_empty() {
                return Err("truncate left rows".into());
            }
            Ok(Some("(trunc)".into()))
        }
        Stmt::Delete(p) => {
            let ps: Vec<usize> = pre.iter().enumerate().filter(|(_, r)| p.holds(r)).map(|(i, _)| i).collect();
            let expect: Vec<VRow> = pre.iter().enumerate().filter(|(i, _)| !ps.contains(i)).map(|(_, r)| r.clone()).collect();
            if expect != post {
                return Err("DELETE removed rows other than the predicted selection".into());
            }
            Ok(Some(format!("(del {})", ps.iter().map(|i| i.to_string()).collect::<Vec<_>>().join(" "))))
        }
        Stmt::Replace(_) => match post.last() {
            Some(r) => Ok(Some(format!("(repl {})", sx_row(r)))),
            None => Err("REPLACE left an empty table".into()),
        },
        Stmt::Upsert(..) => {
            if post.len() == pre.len() + 1 && post[..pre.len()] == *pre {
                Ok(Some(format!("(ins {})", sx_row(post.last().unwrap()))))
            } else if post.len() == pre.len() {
                let diff: Vec<usize> = (0..pre.len()).filter(|i| pre[*i] != post[*i]).collect();
                match diff.len() {
                    // the conflicting row was rewritten with identical values: the engine still
                    // records an Update (undo moves the row to the end) — tell the model which row
                    0 => match (st, out) {
                        (Stmt::Upsert(row, _, _), Out::Count(n)) if *n > 0 => match pre.iter().position(|r| r[0] == row[0]) {
                            Some(i) => Ok(Some(format!("(ups {} {})", i, sx_row(&post[i])))),
                            None => Err("upsert rewrote a row with identical values".into()),
                        },
                        _ => Ok(None),
                    },
                    1 => Ok(Some(format!("(ups {} {})", diff[0], sx_row(&post[diff[0]])))),
                    _ => Err("upsert changed several rows".into()),
                }
            } else {
                Err("upsert changed the row count unexpectedly".into())
            }
        }
    }
}

pub fn sigs_sx(sg: &[(Vec<usize>, bool)]) -> String {
    format!(
        "({})",
        sg.iter()
            .map(|(c, s)| format!("(({}) {})", c.iter().map(|x| x.to_string()).collect::<Vec<_>>().join(" "), if *s { 1 } else { 0 }))
            .collect::<Vec<_>>()
            .join(" ")
    )
}

pub struct ModelStep {
    pub err: String,
    pub obs: Obs,
    pub saves: Vec<String>,
}

fn key_of(sx: &Sx) -> String {
    // (comp comp) -> "(comp comp)"; comps are already canonical value atoms
    sx.to_string()
}

pub fn parse_trace(reply: &str) -> Option<Vec<ModelStep>> {
    let sx = Sx::parse(reply)?;
    let l = sx.as_list()?;
    if l.first()?.as_atom()? != "trace" {
        return None;
    }
    let mut steps = vec![];
    for st in &l[1..] {
        let p = st.as_list()?;
        let err = p.first()?.as_atom()?.to_string();
        let mut obs = Obs::default();
        let mut saves = vec![];
        for part in &p[1..] {
            let pl = part.as_list()?;
            match pl.first()?.as_atom()? {
                "rows" => obs.rows = pl[1..].iter().map(|r| r.to_string()).collect(),
                "hidx" => {
                    for h in &pl[1..] {
                        let mut v: Vec<(String, usize)> = vec![];
                        for e in h.as_list()? {
                            let e = e.as_list()?;
                            v.push((key_of(&e[0]), e[1].as_atom()?.parse().ok()?));
                        }
                        v.sort();
                        obs.hidx.push(v);
                    }
                }
                "uidx" => {
                    for u in &pl[1..] {
                        let u = u.as_list()?;
                        let name = u[0].as_atom()?.to_string();
                        let mut v: Vec<(String, Vec<usize>)> = vec![];
                        for e in u[1].as_list()? {
                            let e = e.as_list()?;
                            let mut ps: Vec<usize> = e[1].as_list()?.iter().filter_map(|x| x.as_atom()?.parse().ok()).collect();
                            ps.sort();
                            v.push((key_of(&e[0]), ps));
                        }
                        v.sort();
                        obs.uidx.insert(name, v);
                    }
                }
                "saves" => saves = pl[1..].iter().filter_map(|x| x.as_atom().map(|s| s.to_string())).collect(),
                _ => {}
            }
        }
        steps.push(ModelStep { err, obs, saves });
    }
    Some(steps)
}

// ------------------------------------------------------------------------------------------
// generator
// ------------------------------------------------------------------------------------------

pub struct GenCfg {
    pub txn_weight: u64,
    pub savepoint_weight: u64,
    pub index_ddl_in_txn: bool,
    pub len_lo: i64,
    pub len_hi: i64,
}

pub struct Case {
    pub schema: Schema,
    pub stmts: Vec<Stmt>,
}

pub fn gen_val(r: &mut Rng, is_int: bool, nullable: bool) -> Val {
    if nullable && r.chance(1, 7) {
        return Val::Null;
    }
    if is_int {
        Val::Int(r.range(0, 7))
    } else {
        Val::Str(r.pick(&["a", "b", "c", "dd"]).to_string())
    }
}

/// a value for column `c` (not a key column)
pub fn gen_col_val(r: &mut Rng, s: &Schema, c: usize, nullable: bool, allow_default: bool) -> Val {
    match s.kind(c) {
        Kind::Plain => gen_val(r, s.int_col[c], nullable),
        _ if nullable && r.chance(1, 8) => Val::Null,
        // shorter / equal / longer than n, empty, trailing blanks, 2-, 3-, 4-byte code points incl.
        // the window chars < n < bytes
        Kind::Char(_) => Val::Str(
            r.pick(&["a", "ab", "abcd", "abcdef", "", "a ", "\u{6771}\u{4eac}", "\u{e9}\u{e9}\u{e9}", "\u{e9}", "\u{1f600}b", "\u{65e5}\u{672c}\u{8a9e}\u{65e5}\u{672c}", "\u{e9}\u{e9}\u{e9}\u{e9}", "z\u{1f600}"])
                .to_string(),
        ),
        Kind::Varchar3 => Val::Str(r.pick(&["a", "abc", "ab ", "", "\u{e9}\u{e9}\u{e9}", "\u{6771}\u{4eac}", "abcd"]).to_string()),
        Kind::Numeric => Val::Raw(r.pick(&["1.005", "2.5", "3", "10.999", "0.1", "7.125", "42"]).to_string()),
        Kind::Date => Val::Str(r.pick(&["2024-01-05", "2024-1-5", "1999-12-31", "2024-02-29"]).to_string()),
        Kind::DefInt(_) => {
            if allow_default && r.chance(1, 2) {
                Val::Raw("DEFAULT".into())
            } else {
                gen_val(r, true, nullable)
            }
        }
    }
}

pub fn gen_row(r: &mut Rng, s: &Schema, next_id: &mut i64) -> VRow {
    gen_row_d(r, s, next_id, true)
}

pub fn gen_row_d(r: &mut Rng, s: &Schema, next_id: &mut i64, allow_default: bool) -> VRow {
    (0..s.ncols())
        .map(|c| {
            if c == 0 && s.pk {
                // mostly fresh keys, sometimes a clash
                if r.chance(1, 6) {
                    Val::Int(r.range(0, (*next_id).max(1)))
                } else {
                    *next_id += 1;
                    Val::Int(*next_id)
                }
            } else if s.uniques.contains(&c) {
                if r.chance(1, 8) {
                    Val::Null
                } else if s.int_col[c] {
                    Val::Int(r.range(0, 40))
                } else {
                    Val::Str(format!("u{}", r.range(0, 40)))
                }
            } else {
                gen_col_val(r, s, c, true, allow_default)
            }
        })
        .collect()
}

pub fn gen_pred(r: &mut Rng, s: &Schema, max_id: i64) -> Pred {
    let plain = s.plain_cols();
    let c = *r.pick(&plain);
    if r.chance(1, 10) {
        return Pred::IsNull(c);
    }
    if c == 0 && s.pk {
        let v = Val::Int(r.range(0, max_id.max(1)));
        return Pred::Cmp(0, *r.pick(&["=", "=", "<", ">="]), v);
    }
    let v = if s.uniques.contains(&c) {
        if s.int_col[c] {
            Val::Int(r.range(0, 40))
        } else {
            Val::Str(format!("u{}", r.range(0, 40)))
        }
    } else {
        gen_val(r, s.int_col[c], false)
    };
    let ops: &[&'static str] = if s.int_col[c] { &["=", "=", "<", ">", "<=", ">=", "<>"] } else { &["=", "=", "<>"] };
    Pred::Cmp(c, *r.pick(ops), v)
}

pub fn gen_schema(r: &mut Rng) -> Schema {
    let ncols = r.range(2, 4) as usize;
    let mut int_col = vec![true];
    let mut kinds = vec![Kind::Plain];
    for _ in 1..ncols {
        let is_int = r.chance(3, 5);
        let kind = if is_int {
            if r.chance(1, 6) { Kind::DefInt(7) } else { Kind::Plain }
        } else {
            match r.below(10) {
                0..=3 => Kind::Plain,
                4..=6 => Kind::Char(4),
                7 => Kind::Varchar3,
                8 => Kind::Numeric,
                _ => Kind::Date,
            }
        };
        int_col.push(is_int);
        kinds.push(kind);
    }
    let pk = r.chance(3, 4);
    let mut uniques = vec![];
    for c in 1..ncols {
        if kinds[c] == Kind::Plain && r.chance(1, 4) {
            uniques.push(c);
        }
    }
    Schema { kinds, int_col, pk, uniques }
}

/// mutable generator state shared by the phases of one case
pub struct GenState {
    pub idx_names: Vec<String>,
    pub next_idx: i32,
    pub next_id: i64,
    pub in_txn: bool,
    pub saves: Vec<String>,
}

impl GenState {
    pub fn new() -> GenState {
        GenState { idx_names: vec![], next_idx: 0, next_id: 0, in_txn: false, saves: vec![] }
    }
}

fn gen_index(r: &mut Rng, st: &mut GenState, s: &Schema) -> Stmt {
    st.next_idx += 1;
    let name = format!("ix{}", st.next_idx);
    st.idx_names.push(name.clone());
    let mut cols = vec![r.below(s.ncols() as u64) as usize];
    if r.chance(1, 3) {
        let c2 = r.below(s.ncols() as u64) as usize;
        if c2 != cols[0] {
            cols.push(c2);
        }
    }
    // a UNIQUE user-defined index now and then (the engine may refuse it over existing duplicates)
    let unique = r.chance(1, 5);
    // a prefix index on a string column (values longer than the prefix exist: 'abcdef', 'dd', ...)
    let strings: Vec<usize> = (1..s.ncols()).filter(|c| !s.int_col[*c] && matches!(s.kind(*c), Kind::Plain | Kind::Char(_) | Kind::Varchar3)).collect();
    if !strings.is_empty() && r.chance(1, 4) {
        return Stmt::CreatePrefixIndex(name, *r.pick(&strings), r.range(1, 2) as u64, unique);
    }
    Stmt::CreateIndex(name, cols, unique)
}

pub fn gen_case(r: &mut Rng, cfg: &GenCfg) -> Case {
    let schema = gen_schema(r);
    let mut st = GenState::new();
    let mut stmts = vec![];
    let n_init_idx = r.range(0, 2);
    for _ in 0..n_init_idx {
        stmts.push(gen_index(r, &mut st, &schema));
    }
    let n_init_rows = r.range(0, 6);
    for _ in 0..n_init_rows {
        stmts.push(Stmt::Insert(vec![gen_row(r, &schema, &mut st.next_id)]));
    }
    stmts.extend(gen_stmts(r, cfg, &schema, &mut st));
    Case { schema, stmts }
}

pub fn gen_stmts(r: &mut Rng, cfg: &GenCfg, schema: &Schema, g: &mut GenState) -> Vec<Stmt> {
    let mut stmts = vec![];
    let len = r.range(cfg.len_lo, cfg.len_hi);
    for _ in 0..len {
        let w = r.below(100 + cfg.txn_weight + cfg.savepoint_weight);
        let st = if w < 22 {
            let k = if r.chance(1, 4) { r.range(2, 4) } else { 1 };
            Stmt::Insert((0..k).map(|_| gen_row(r, schema, &mut g.next_id)).collect())
        } else if w < 44 {
            let c = r.below(schema.ncols() as u64) as usize;
            let plain = matches!(schema.kind(c), Kind::Plain | Kind::DefInt(_));
            let e = if plain && schema.int_col[c] && r.chance(1, 2) {
                SetE::Add(r.range(1, 50))
            } else if c == 0 && schema.pk {
                SetE::Const(Val::Int(r.range(0, g.next_id + 3)))
            } else if schema.uniques.contains(&c) {
                SetE::Const(if schema.int_col[c] { Val::Int(r.range(0, 40)) } else { Val::Str(format!("u{}", r.range(0, 40))) })
            } else {
                SetE::Const(gen_col_val(r, schema, c, true, false))
            };
            let mut sets = vec![(c, e)];
            if r.chance(1, 5) {
                let c2 = r.below(schema.ncols() as u64) as usize;
                if c2 != c && !(c2 == 0 && schema.pk) && !schema.uniques.contains(&c2) {
                    sets.push((c2, SetE::Const(gen_col_val(r, schema, c2, true, false))));
                }
            }
            let p = if r.chance(1, 8) { Pred::All } else { gen_pred(r, schema, g.next_id) };
            Stmt::Update(sets, p)
        } else if w < 62 {
            Stmt::Delete(gen_pred(r, schema, g.next_id))
        } else if w < 66 {
            Stmt::Delete(Pred::All)
        } else if w < 69 {
            Stmt::Truncate
        } else if w < 76 {
            Stmt::Replace(gen_row_d(r, schema, &mut g.next_id, false))
        } else if w < 82 {
            let row = gen_row_d(r, schema, &mut g.next_id, false);
            let c = r.range(1, schema.ncols() as i64 - 1) as usize;
            let v = if schema.uniques.contains(&c) {
                if schema.int_col[c] { Val::Int(r.range(0, 40)) } else { Val::Str(format!("u{}", r.range(0, 40))) }
            } else {
                gen_col_val(r, schema, c, false, false)
            };
            Stmt::Upsert(row, c, v)
        } else if w < 92 {
            if g.in_txn && !cfg.index_ddl_in_txn {
                Stmt::Insert(vec![gen_row(r, schema, &mut g.next_id)])
            } else if !g.idx_names.is_empty() && r.chance(2, 5) {
                let i = r.below(g.idx_names.len() as u64) as usize;
                Stmt::DropIndex(g.idx_names.remove(i))
            } else {
                gen_index(r, g, schema)
            }
        } else if w < 100 + cfg.txn_weight {
            if w < 100 && cfg.txn_weight == 0 {
                Stmt::Insert(vec![gen_row(r, schema, &mut g.next_id)])
            } else if !g.in_txn {
                g.in_txn = true;
                g.saves.clear();
                Stmt::Begin
            } else if r.chance(1, 2) {
                g.in_txn = false;
                Stmt::Rollback
            } else if r.chance(2, 3) {
                g.in_txn = false;
                Stmt::Commit
            } else {
                Stmt::Begin
            }
        } else {
            // savepoint operations (mostly inside a transaction)
            let names = ["a", "b", "c", "d"];
            if !g.in_txn && r.chance(4, 5) {
                g.in_txn = true;
                g.saves.clear();
                Stmt::Begin
            } else {
                let k = r.below(10);
                if k < 5 || g.saves.is_empty() {
                    let n = r.pick(&names).to_string();
                    g.saves.push(n.clone());
                    Stmt::Savepoint(n)
                } else if k < 8 {
                    let n = if r.chance(5, 6) { r.pick(&g.saves).clone() } else { r.pick(&names).to_string() };
                    Stmt::RollbackTo(n)
                } else {
                    let n = if r.chance(5, 6) { r.pick(&g.saves).clone() } else { r.pick(&names).to_string() };
                    if let Some(i) = g.saves.iter().position(|x| *x == n) {
                        g.saves.remove(i);
                    }
                    Stmt::Release(n)
                }
            }
        };
        stmts.push(st);
    }
    stmts
}

pub fn script(c: &Case, upto: usize) -> String {
    let mut s = format!("{};\n", c.schema.create_sql());
    for st in c.stmts.iter().take(upto) {
        s.push_str(&st.sql());
        s.push_str(";\n");
    }
    s
}

// ------------------------------------------------------------------------------------------
// one history: direct oracle (indexes = rebuild of scan()) + correspondence with the model
// ------------------------------------------------------------------------------------------

pub fn run_case(c: &Case, model: &mut model::Model, rep: &mut Report, label: &str) {
    run_case_opts(c, model, rep, label, true)
}

pub fn run_case_opts(c: &Case, model: &mut model::Model, rep: &mut Report, label: &str, count_case: bool) {
    let mut db = Db::new();
    db.must(&c.schema.create_sql());
    let sg = sigs(&db, TABLE);
    let mut ops: Vec<String> = vec![];
    let mut expected: Vec<(usize, Obs, bool, bool)> = vec![]; // (stmt idx, engine obs, engine ok, is txn op)
    let mut tracking = true;
    let mut changed_with_index = 0u64;
    let mut any_index = !sg.is_empty();
    let case_id = format!("{}|{}", c.schema.create_sql(), c.stmts.iter().map(|s| s.sql()).collect::<Vec<_>>().join(";"));
    let mut oracle_failed = false;
    let mut unique_clean: BTreeMap<String, bool> = BTreeMap::new();
    for (k, st) in c.stmts.iter().enumerate() {
        let pre = scan_vals(&db, TABLE);
        let drops_prefix_index = match st {
            Stmt::DropIndex(n) => db.db.get_index(n).map(|m| m.columns.iter().any(|c| c.prefix_length.is_some())).unwrap_or(false),
            _ => false,
        };
        let out = db.exec(&st.sql());
        rep.count(&format!("stmt_{}", st.kind()));
        if !out.is_ok() {
            rep.count(&format!("stmt_error_{}", out.err_class().unwrap_or("panic")));
        }
        if out.is_panic() {
            rep.fail(FailKind::Oracle, None, "engine panicked", &format!("{}-- last statement: {}", script(c, k + 1), out.brief()));
            oracle_failed = true;
            break;
        }
        let post = scan_vals(&db, TABLE);
        let obs = match observe(&db, TABLE) {
            Some(Ok(o)) => o,
            Some(Err(e)) => {
                rep.fail(FailKind::Oracle, None, "an index of the table cannot be read through the accessors", &format!("{}-- {}", script(c, k + 1), e));
                oracle_failed = true;
                break;
            }
            None if matches!(st, Stmt::Raw(_)) => {
                // the history itself dropped the table: nothing more to compare for this table
                rep.count("table_dropped_by_history");
                break;
            }
            None => {
                rep.fail(FailKind::Oracle, None, "table disappeared", &script(c, k + 1));
                oracle_failed = true;
                break;
            }
        };
        if !obs.uidx.is_empty() {
            any_index = true;
        }
        if out.is_ok() && pre != post && any_index {
            changed_with_index += 1;
        }
        // ---- direct oracle: accessors = rebuild of scan() ----
        let rb = rebuild_from_scan(&db, TABLE).unwrap();
        if obs != rb {
            rep.fail(
                FailKind::Oracle,
                None,
                &format!("index structures differ from a rebuild of the table after {}", st.kind()),
                &format!("{}-- after the last statement ({}):\n-- accessors:\n{}\n-- rebuild from scan():\n{}", script(c, k + 1), out.brief(), obs.text(), rb.text()),
            );
            oracle_failed = true;
            break;
        }
        // ---- direct oracle (T3): a statement never enters a second row under a key a UNIQUE
        // user-defined index already holds (the uniqueness check consults the index and must see
        // exactly the keys of the current rows) ----
        let dups = unique_index_dups(&db, TABLE);
        for (name, dup) in &dups {
            let was_clean = unique_clean.get(name).copied();
            if was_clean == Some(true) && *dup && !matches!(st, Stmt::Rollback | Stmt::RollbackTo(_)) {
                rep.fail(
                    FailKind::Oracle,
                    None,
                    &format!("{} entered a duplicate key into a UNIQUE user-defined index", st.kind()),
                    &format!("{}-- index {} now holds a key with several rows:\n{}", script(c, k + 1), name, obs.text()),
                );
                oracle_failed = true;
            }
        }
        unique_clean = dups.into_iter().map(|(n, d)| (n, !d)).collect();
        if oracle_failed {
            break;
        }
        // ---- prefix indexes: an equality lookup (index-driven when the prefix index is chosen)
        // returns what a filter of the scan returns ----
        if !obs.pidx.is_empty() {
            if let Some(t) = db.db.get_table(TABLE) {
                let names: Vec<String> = t.schema.columns.iter().map(|c| c.name.clone()).collect();
                let mut probes: Vec<(String, String, usize)> = vec![];
                let prefixed: std::collections::BTreeSet<String> = db
                    .db
                    .list_indexes()
                    .iter()
                    .filter_map(|i| db.db.get_index(i))
                    .flat_map(|m| m.columns.iter().filter(|c| c.prefix_length.is_some()).map(|c| c.column_name.to_uppercase()).collect::<Vec<_>>())
                    .collect();
                for (ci, name) in names.iter().enumerate() {
                    if !prefixed.contains(&name.to_uppercase()) {
                        continue;
                    }
                    let mut seen = std::collections::BTreeSet::new();
                    for r in post.iter() {
                        if let Val::Str(x) = &r[ci] {
                            if !x.contains('\'') && seen.insert(x.clone()) && seen.len() <= 3 {
                                let want = post.iter().filter(|q| q[ci] == r[ci]).count();
                                probes.push((name.clone(), x.clone(), want));
                            }
                        }
                    }
                }
                let keep = db.keep_log;
                db.keep_log = false;
                for (name, x, want) in probes {
                    let q = db.exec(&format!("SELECT * FROM t WHERE {} = '{}'", name, x));
                    if let Some(rows) = q.rows() {
                        if rows.len() != want {
                            rep.fail(
                                FailKind::Oracle,
                                None,
                                "an equality lookup on a column with a prefix index disagrees with the stored rows",
                                &format!("{}-- SELECT * FROM t WHERE {} = '{}' => {} rows, the table holds {}\n{}", script(c, k + 1), name, x, rows.len(), want, obs.text()),
                            );
                            oracle_failed = true;
                            break;
                        }
                    }
                }
                db.keep_log = keep;
                if oracle_failed {
                    break;
                }
            }
        }
        if tracking && !drops_prefix_index {
            match model_op(st, &out, &pre, &post) {
                Ok(Some(op)) => {
                    ops.push(op);
                    let mut modelled = obs;
                    modelled.pidx.clear();
                    expected.push((k, modelled, out.is_ok(), st.is_txn_op()));
                }
                Ok(None) => {}
                Err(why) => {
                    tracking = false;
                    rep.count(&format!("model_tracking_stopped_{}", why.replace(' ', "_")));
                }
            }
        }
    }
    if count_case {
        rep.case(&case_id, changed_with_index >= 2);
    }
    rep.add("statements", c.stmts.len() as u64);
    rep.count(&format!("hash_indexes_{}", sg.len()));
    if oracle_failed {
        return;
    }
    // ---- correspondence with the Lean model ----
    let req = format!("trace {} ({})", sigs_sx(&sg), ops.join(" "));
    let reply = model.ask(&req);
    let Some(steps) = parse_trace(&reply) else {
        rep.fail(FailKind::ModelDiff, None, "model rejected the trace request", &format!("{}-- request: {}\n-- reply: {}", script(c, c.stmts.len()), req, reply));
        return;
    };
    if steps.len() != expected.len() + 1 {
        rep.fail(FailKind::ModelDiff, None, "model trace has the wrong length", &format!("{}-- request: {}\n-- reply: {}", script(c, c.stmts.len()), req, reply));
        return;
    }
    for (j, (k, obs, eng_ok, is_txn)) in expected.iter().enumerate() {
        let m = &steps[j + 1];
        let model_ok = m.err == "ok";
        let flag_diff = if *is_txn { model_ok != *eng_ok } else { !model_ok };
        if m.obs != *obs || flag_diff {
            rep.fail(
                FailKind::ModelDiff,
                None,
                &format!("model and engine disagree after {} ({})", c.stmts[*k].kind(), label),
                &format!(
                    "{}-- model request: {}\n-- op #{}: {}\n-- engine ok={} model status={}\n-- engine:\n{}\n-- model:\n{}",
                    script(c, k + 1),
                    req,
                    j,
                    ops[j],
                    eng_ok,
                    m.err,
                    obs.text(),
                    m.obs.text()
                ),
            );
            return;
        }
    }
    rep.traces_validated += 1;
    rep.add("model_ops_compared", expected.len() as u64);
}

