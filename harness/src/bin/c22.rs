use std::panic::catch_unwind;
use std::str::FromStr;
use vibesql_types::{Date, Time, Timestamp, Interval};
fn main() {
    vharness::engine::silence_panics();
    for s in ["12:00:00.aéééé", "12:00:00.ééééé", "12:00:00.é"] {
        let r = catch_unwind(|| Time::from_str(s));
        println!("time {:?} -> {:?}", s, r.map_err(|e| vharness::engine::panic_text(e)));
    }
    for s in ["2024-01-01 00:00:00+aé:b", "2024-01-01 00:00:00+é:ab", "2024-01-01 00:00:00+ab:é"] {
        let r = catch_unwind(|| Timestamp::from_str(s));
        println!("ts {:?} -> {:?}", s, r.map_err(|e| vharness::engine::panic_text(e)));
    }
    for s in ["1.aéééé SECOND", "1.ééé SECOND", "999999999 YEAR", "9223372036854 HOUR", "1 YEAR TO", "1 TO", "1-1 YEAR TO MONTH", "999999999-1 YEAR TO MONTH","178956970-8 YEAR TO MONTH", "9223372036854775807 SECOND", "9223372036854 MINUTE", "1 2562047788015:0:0 DAY TO SECOND", "2562047788015:0:0 HOUR TO SECOND", "2562047788015:153722867280:9223372036854 HOUR TO SECOND", "1 ſECOND", "1 mınute", "9223372036854.9 SECOND", "-9223372036854.9 SECOND", "-9223372036855.0 SECOND"] {
        let s2 = s.to_string();
        let r = catch_unwind(move || format!("{:?}", Interval::new(s2)));
        println!("iv {:?} -> {:?}", s, r.map_err(|e| vharness::engine::panic_text(e)));
    }
    println!("{}", Date::new(-5,1,1).unwrap());
    println!("{:?}", Date::from_str("-005-01-01"));
    println!("{:?}", "+5".parse::<u8>());
    println!("{:?}", "-0".parse::<u8>());
    println!("{:?} {:?}", "-0".parse::<i32>(), "+".parse::<i32>());
    println!("{:?}", format!("{:04}|{:04}|{:02}", -5, i32::MIN, 7u8));
}
