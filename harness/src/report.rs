//! Per-run bookkeeping: measured coverage, classification of failures against
//! /verif/known_findings.json, replay files, VIOLATION / KNOWN-FINDING lines, result JSON.
use std::collections::hash_map::DefaultHasher;
use std::collections::{BTreeMap, HashSet};
use std::hash::{Hash, Hasher};
use std::path::PathBuf;
use std::time::Instant;

use serde_json::{json, Map, Value};

#[derive(Clone, Copy, Debug, PartialEq, Eq)]
pub enum Tier {
    Quick,
    Thorough,
}

pub struct Args {
    pub prop: String,
    pub tier: Tier,
    pub seed: u64,
    pub driver: Option<String>,
    pub out: Option<String>,
    pub replay: Option<String>,
    pub verif: PathBuf,
    pub scratch: PathBuf,
    pub rest: Vec<String>,
}

impl Args {
    /// `cNN --tier quick --seed 1 --driver <path> --out <json> [--replay <file>]`
    pub fn parse(prop: &str) -> Args {
        let mut a = Args {
            prop: prop.to_string(),
            tier: Tier::Quick,
            seed: 1,
            driver: None,
            out: None,
            replay: None,
            verif: PathBuf::from(std::env::var("VERIF_DIR").unwrap_or_else(|_| "/verif".into())),
            scratch: PathBuf::new(),
            rest: vec![],
        };
        let argv: Vec<String> = std::env::args().skip(1).collect();
        let mut i = 0;
        while i < argv.len() {
            let take = |i: &mut usize| -> String {
                *i += 1;
                argv.get(*i).cloned().unwrap_or_default()
            };
            match argv[i].as_str() {
                "--tier" => {
                    a.tier = if take(&mut i) == "thorough" { Tier::Thorough } else { Tier::Quick }
                }
                "--seed" => a.seed = take(&mut i).parse().unwrap_or(1),
                "--driver" => a.driver = Some(take(&mut i)),
                "--out" => a.out = Some(take(&mut i)),
                "--replay" => a.replay = Some(take(&mut i)),
                other => a.rest.push(other.to_string()),
            }
            i += 1;
        }
        a.scratch = a.verif.join(".run").join(format!("{}-{}", prop, std::process::id()));
        let _ = std::fs::create_dir_all(&a.scratch);
        a
    }
    pub fn quick(&self) -> bool {
        self.tier == Tier::Quick
    }
    /// n for quick, m for thorough
    pub fn n(&self, quick: u64, thorough: u64) -> u64 {
        if self.quick() {
            quick
        } else {
            thorough
        }
    }
    pub fn model(&self) -> crate::model::Model {
        crate::model::Model::spawn(self.driver.as_deref().expect("--driver <path> required"))
    }
}

#[derive(Clone, Copy, Debug, PartialEq, Eq)]
pub enum FailKind {
    /// the real code violates the property's direct oracle (no model involved)
    Oracle,
    /// model and code disagree (correspondence broken)
    ModelDiff,
}

pub struct Report {
    pub prop: String,
    pub tier: Tier,
    pub seed: u64,
    start: Instant,
    verif: PathBuf,
    scratch: PathBuf,
    out: Option<String>,
    pub evaluations: u64,
    nontrivial: HashSet<u64>,
    pub rule: String,
    samples: Vec<Value>,
    max_samples: usize,
    pub dist: BTreeMap<String, u64>,
    pub oracle_failures: u64,
    pub model_disagreements: u64,
    violations: Vec<(String, String)>, // (what, replay path)
    violation_keys: HashSet<String>,
    known: Vec<Value>,
    known_hits: BTreeMap<String, u64>,
    pub assumptions: Vec<String>,
    pub extra: Map<String, Value>,
    pub traces_validated: u64,
}

impl Report {
    pub fn new(a: &Args, rule: &str) -> Report {
        let kf = a.verif.join("known_findings.json");
        let known: Vec<Value> = std::fs::read_to_string(&kf)
            .ok()
            .and_then(|s| serde_json::from_str::<Value>(&s).ok())
            .and_then(|v| v.get("findings").and_then(|f| f.as_array().cloned()))
            .unwrap_or_default()
            .into_iter()
            .filter(|f| f.get("property").and_then(|p| p.as_str()) == Some(a.prop.as_str()))
            .collect();
        Report {
            prop: a.prop.clone(),
            tier: a.tier,
            seed: a.seed,
            start: Instant::now(),
            verif: a.verif.clone(),
            scratch: a.scratch.clone(),
            out: a.out.clone(),
            evaluations: 0,
            nontrivial: HashSet::new(),
            rule: rule.to_string(),
            samples: vec![],
            max_samples: 6,
            dist: BTreeMap::new(),
            oracle_failures: 0,
            model_disagreements: 0,
            violations: vec![],
            violation_keys: HashSet::new(),
            known,
            known_hits: BTreeMap::new(),
            assumptions: vec![],
            extra: Map::new(),
            traces_validated: 0,
        }
    }

    /// one explored case; `canonical` identifies it (for distinctness), `nontrivial` by the rule
    pub fn case(&mut self, canonical: &str, nontrivial: bool) {
        self.evaluations += 1;
        if nontrivial {
            let mut h = DefaultHasher::new();
            canonical.hash(&mut h);
            self.nontrivial.insert(h.finish());
        }
    }
    pub fn count(&mut self, key: &str) {
        *self.dist.entry(key.to_string()).or_insert(0) += 1;
    }
    pub fn add(&mut self, key: &str, n: u64) {
        *self.dist.entry(key.to_string()).or_insert(0) += n;
    }
    pub fn sample<V: Into<Value>>(&mut self, v: V) {
        if self.samples.len() < self.max_samples {
            self.samples.push(v.into());
        }
    }
    pub fn is_known(&self, signature: &str) -> bool {
        self.known.iter().any(|f| f.get("signature").and_then(|s| s.as_str()) == Some(signature))
    }

    /// Report a failing case. `signature` is the narrow class the case falls into (a
    /// predicate the caller evaluated on the shrunk case), or None when it matches no class.
    /// Listed in known_findings.json → KNOWN-FINDING; otherwise → VIOLATION with replay file.
    pub fn fail(&mut self, kind: FailKind, signature: Option<&str>, what: &str, replay: &str) {
        match kind {
            FailKind::Oracle => self.oracle_failures += 1,
            FailKind::ModelDiff => self.model_disagreements += 1,
        }
        if let Some(sig) = signature {
            if self.is_known(sig) {
                *self.known_hits.entry(sig.to_string()).or_insert(0) += 1;
                return;
            }
        }
        let key = format!("{:?}|{}|{}", kind, signature.unwrap_or(""), what);
        if !self.violation_keys.insert(key) || self.violations.len() >= 8 {
            // same kind of failure already reported in this run (or enough distinct reports)
            self.count("suppressed_duplicate_violation_reports");
            return;
        }
        let dir = self.verif.join("replays");
        let _ = std::fs::create_dir_all(&dir);
        let path = dir.join(format!("{}-{}-{}.txt", self.prop, self.seed, self.violations.len()));
        let body = format!(
            "property: {}\nseed: {}\ntier: {:?}\nkind: {:?}\nsignature: {}\nwhat: {}\n--- replay ---\n{}\n",
            self.prop,
            self.seed,
            self.tier,
            kind,
            signature.unwrap_or("-"),
            what,
            replay
        );
        let _ = std::fs::write(&path, body);
        self.violations.push((what.to_string(), path.display().to_string()));
    }

    pub fn violations(&self) -> usize {
        self.violations.len()
    }

    /// print the lines, write the result JSON, remove scratch, return the exit code
    pub fn finish(mut self) -> i32 {
        for f in &self.known {
            let sig = f.get("signature").and_then(|s| s.as_str()).unwrap_or("");
            if let Some(n) = self.known_hits.get(sig) {
                let what = f.get("what").and_then(|s| s.as_str()).unwrap_or("");
                println!("KNOWN-FINDING: property={} {} — {} [{} case(s) this run]", self.prop, sig, what, n);
            }
        }
        for (what, path) in &self.violations {
            println!("VIOLATION property={} replay={}", self.prop, path);
            eprintln!("  {}: {}", self.prop, what);
        }
        let wall = self.start.elapsed().as_secs_f64();
        let mut cov = Map::new();
        cov.insert("evaluations".into(), json!(self.evaluations));
        cov.insert("distinct_nontrivial".into(), json!(self.nontrivial.len()));
        cov.insert("rule".into(), json!(self.rule));
        cov.insert("samples".into(), Value::Array(std::mem::take(&mut self.samples)));
        cov.insert("input_distribution".into(), json!(self.dist));
        cov.insert("oracle_failures".into(), json!(self.oracle_failures));
        cov.insert("model_vs_code_disagreements".into(), json!(self.model_disagreements));
        cov.insert("known_findings_hit".into(), json!(self.known_hits));
        cov.insert("traces_validated_against_impl".into(), json!(self.traces_validated));
        for (k, v) in std::mem::take(&mut self.extra) {
            cov.insert(k, v);
        }
        let res = json!({
            "property_id": self.prop,
            "tier": if self.tier == Tier::Quick { "quick" } else { "thorough" },
            "seed": self.seed,
            "coverage": Value::Object(cov),
            "assumptions": self.assumptions,
            "wall_s": wall,
            "violations": self.violations.len(),
            "violation_list": self.violations.iter().map(|(w, p)| json!({"what": w, "replay": p})).collect::<Vec<_>>(),
        });
        if let Some(out) = &self.out {
            let _ = std::fs::write(out, serde_json::to_string_pretty(&res).unwrap());
        } else {
            println!("{}", serde_json::to_string_pretty(&res).unwrap());
        }
        let _ = std::fs::remove_dir_all(&self.scratch);
        if self.violations.is_empty() {
            0
        } else {
            1
        }
    }
}
