import VibeProof.Model.Proto
import VibeProof.Model.BTree
open VibeProof VibeProof.Proto VibeProof.BTree

/-!
`(run D INIT (OP …))` → `(ok (init TREE) (ANS TREE) …)`; stops at the first error with `(err panic|io)`.
INIT = `(new)` | `(bulk (K R) …)`;  OP = `(ins K R)` `(del K)` `(dels K R)` `(get K)` `(mget K …)`
`(range S E incS incE)` with S, E = `N` or an integer.
TREE = `(H NODE)`, NODE = `(L (K R …) …)` | `(I (K …) NODE …)`; ANS = `u` | `b0` | `b1` | `(r R …)`.
-/

def encEntry (e : Entry) : Sx := .list (sxInt e.1 :: e.2.map sxNat)

def encNode : Nat → Node → Sx
  | _, .leaf es => .list (.atom "L" :: es.map encEntry)
  | 0, .internal _ _ => .atom "too-deep"
  | h + 1, .internal c0 r =>
    .list (.atom "I" :: .list (r.map (fun p => sxInt p.1)) :: encNode h c0 :: r.map (fun p => encNode h p.2))

def encTree (t : BTree) : Sx := .list [sxNat t.h, encNode (t.h + 1) t.root]

def encAns : Ans → Sx
  | .unit => .atom "u"
  | .bool b => .atom (if b then "b1" else "b0")
  | .rows rs => .list (.atom "r" :: rs.map sxNat)

def encErr : Err → Sx
  | .panic => .list [.atom "err", .atom "panic"]
  | .io => .list [.atom "err", .atom "io"]

def decBound : Sx → Option (Option Int)
  | .atom "N" => some none
  | s => s.int?.map some

def decBool : Sx → Option Bool
  | .atom "1" => some true
  | .atom "0" => some false
  | _ => none

def decOp : Sx → Option Op
  | .list [.atom "ins", k, r] => do pure (.insert (← k.int?) (← r.nat?))
  | .list [.atom "del", k] => do pure (.delete (← k.int?))
  | .list [.atom "dels", k, r] => do pure (.deleteSpecific (← k.int?) (← r.nat?))
  | .list [.atom "get", k] => do pure (.lookup (← k.int?))
  | .list (.atom "mget" :: ks) => do pure (.multiLookup (← ks.mapM Sx.int?))
  | .list [.atom "range", s, e, a, b] => do
    pure (.rangeScan (← decBound s) (← decBound e) (← decBool a) (← decBool b))
  | _ => none

def decPair : Sx → Option (Int × Nat)
  | .list [k, r] => do pure (← k.int?, ← r.nat?)
  | _ => none

def runOps (d : Nat) : BTree → List Op → List Sx → List Sx
  | _, [], acc => acc.reverse
  | t, op :: ops, acc =>
    match step d t op with
    | .error e => (encErr e :: acc).reverse
    | .ok (t', a) => runOps d t' ops (.list [encAns a, encTree t'] :: acc)

def handle : List Sx → Sx
  | [.atom "run", d, init, .list ops] =>
    match d.nat?, ops.mapM decOp with
    | some d, some ops =>
      let t0 : Option (Except Err BTree) :=
        match init with
        | .list [.atom "new"] => some (.ok BTree.empty)
        | .list (.atom "bulk" :: ps) => (ps.mapM decPair).map (bulkLoad d)
        | _ => none
      match t0 with
      | none => .atom "bad-request"
      | some (.error e) => .list [.atom "ok", encErr e]
      | some (.ok t) => .list (.atom "ok" :: .list [.atom "init", encTree t] :: runOps d t ops [])
    | _, _ => .atom "bad-request"
  | _ => .atom "bad-request"

def main : IO Unit := runDriver handle
