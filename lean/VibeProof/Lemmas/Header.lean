import VibeProof.Model.Text
import VibeProof.Lemmas.Text
import VibeProof.Lemmas.Csv
/-
C31: the header `validate_csv_columns` checks (line 1, split at commas) is the header
`import_csv` uses (first RFC 4180 record) whenever line 1 contains no double quote.
-/
namespace VibeProof.Text.Csv

/-- `split(',')` in accumulator form: finished pieces (most recent first) and the current piece
(reversed) -/
def splitAcc (cells : List Str) (cur : Str) : Str → List Str × Str
  | [] => (cells, cur)
  | c :: cs => if c = ',' then splitAcc (cur.reverse :: cells) [] cs else splitAcc cells (c :: cur) cs

def piecesOf (p : List Str × Str) : List Str := p.1.reverse ++ [p.2.reverse]

theorem splitOnAux_acc (raw : Str) : ∀ (cells : List Str) (cur : Str),
    cells.reverse ++ splitOnAux ',' cur raw = piecesOf (splitAcc cells cur raw) := by
  induction raw with
  | nil => intro cells cur; simp [splitOnAux, splitAcc, piecesOf]
  | cons c cs ih =>
    intro cells cur
    by_cases hc : c = ','
    · simp only [splitOnAux, splitAcc, hc, if_true]
      rw [← ih]; simp
    · simp only [splitOnAux, splitAcc, hc, if_false]
      exact ih cells (c :: cur)

theorem splitOn_acc (raw : Str) : splitOn ',' raw = piecesOf (splitAcc [] [] raw) := by
  have := splitOnAux_acc raw [] []
  simpa [splitOn] using this

theorem splitAcc_snoc (raw : Str) (x : Char) : ∀ (cells : List Str) (cur : Str),
    splitAcc cells cur (raw ++ [x]) =
      if x = ',' then ((splitAcc cells cur raw).2.reverse :: (splitAcc cells cur raw).1, [])
      else ((splitAcc cells cur raw).1, x :: (splitAcc cells cur raw).2) := by
  induction raw with
  | nil => intro cells cur; by_cases hx : x = ',' <;> simp [splitAcc, hx]
  | cons c cs ih =>
    intro cells cur
    by_cases hc : c = ','
    · simp only [List.cons_append, splitAcc, hc, if_true]; exact ih _ _
    · simp only [List.cons_append, splitAcc, hc, if_false]; exact ih _ _

/-- the reader's mode for a current field -/
def modeOf (cur : Str) : RMode := if cur.isEmpty then .fieldStart else .unq cur

/-- reading a piece of a line that has neither a line break nor a double quote is splitting it
at the commas -/
theorem rRun_line (raw : Str) (hn : ∀ c ∈ raw, c ≠ '\n' ∧ c ≠ '"') : ∀ (st : RSt) (cur X : Str),
    st.mode = modeOf cur → (cur ≠ [] → st.fresh = false) →
    rRun st (raw ++ X) =
      rRun { st with cells := (splitAcc st.cells cur raw).1, mode := modeOf (splitAcc st.cells cur raw).2,
                     fresh := st.fresh && raw.isEmpty } X := by
  induction raw with
  | nil => intro st cur X hm _; cases st; simp_all [splitAcc]
  | cons c cs ih =>
    intro st cur X hm hfr
    obtain ⟨h1, h2⟩ := hn c (by simp)
    have hcs : ∀ c' ∈ cs, c' ≠ '\n' ∧ c' ≠ '"' := fun c' h => hn c' (by simp [h])
    by_cases hc : c = ','
    · subst hc
      have hstep : rStep st ',' = .ok (endCell st cur.reverse) := by
        cases hcur : cur with
        | nil => simp [rStep, hm, hcur, modeOf]
        | cons x xs => simp [rStep, hm, hcur, modeOf]
      simp only [List.cons_append, rRun, hstep, splitAcc, if_true]
      rw [ih hcs (endCell st cur.reverse) [] X (by simp [endCell, modeOf]) (by simp)]
      simp [endCell]
    · have hstep : rStep st c = .ok { st with mode := .unq (c :: cur), fresh := false } := by
        cases hcur : cur with
        | nil => simp [rStep, hm, hcur, modeOf, h1, h2, hc]
        | cons x xs =>
          have hmode : st.mode = .unq (x :: xs) := by simp [hm, hcur, modeOf]
          have hf : st.fresh = false := hfr (by simp [hcur])
          cases st; simp_all [rStep]
      simp only [List.cons_append, rRun, hstep, splitAcc, hc, if_false]
      rw [ih hcs { st with mode := .unq (c :: cur), fresh := false } (c :: cur) X (by simp [modeOf]) (by simp)]
      simp

/-- records already finished are never touched again -/
theorem rStep_keeps_rows (st st' : RSt) (c : Char) (h : rStep st c = .ok st') :
    ∃ more, st'.rows = more ++ st.rows := by
  unfold rStep at h
  split at h <;> (repeat' split at h) <;>
    first
      | (injection h with h; subst h; first | exact ⟨[], rfl⟩ | exact ⟨[_], rfl⟩)
      | cases h

theorem rRun_keeps_rows (text : Str) : ∀ (st st' : RSt), rRun st text = .ok st' →
    ∃ more, st'.rows = more ++ st.rows := by
  induction text with
  | nil => intro st st' h; injection h with h; subst h; exact ⟨[], rfl⟩
  | cons c cs ih =>
    intro st st' h
    simp only [rRun] at h
    cases hs : rStep st c with
    | error e => simp [hs] at h
    | ok s1 =>
      simp only [hs] at h
      obtain ⟨m1, e1⟩ := rStep_keeps_rows st s1 c hs
      obtain ⟨m2, e2⟩ := ih s1 st' h
      exact ⟨m2 ++ m1, by rw [e2, e1]; simp⟩

theorem rFinish_keeps_rows (st : RSt) (r : List (List Str)) (h : rFinish st = .ok r) :
    ∃ more, r = st.rows.reverse ++ more := by
  unfold rFinish at h
  split at h
  · cases h
  · split at h
    · injection h with h; subst h; exact ⟨[], by simp⟩
    · injection h with h; subst h; simp only [endRow, List.reverse_cons]; exact ⟨_, rfl⟩
  all_goals (injection h with h; subst h; simp only [endRow, List.reverse_cons]; exact ⟨_, rfl⟩)

/-- every character of the current piece and every finished piece ends up in the result -/
theorem splitAcc_keeps (raw : Str) : ∀ (cells : List Str) (cur : Str),
    (∀ q ∈ cells, q ∈ piecesOf (splitAcc cells cur raw)) ∧
    (∃ p ∈ piecesOf (splitAcc cells cur raw), ∀ x ∈ cur, x ∈ p) := by
  induction raw with
  | nil =>
    intro cells cur
    refine ⟨fun q hq => by simp [splitAcc, piecesOf, hq], ⟨cur.reverse, by simp [splitAcc, piecesOf], fun x hx => by simpa using hx⟩⟩
  | cons c cs ih =>
    intro cells cur
    by_cases hc : c = ','
    · simp only [splitAcc, hc, if_true]
      obtain ⟨h1, _⟩ := ih (cur.reverse :: cells) []
      exact ⟨fun q hq => h1 q (by simp [hq]), ⟨cur.reverse, h1 _ (by simp), fun x hx => by simpa using hx⟩⟩
    · simp only [splitAcc, hc, if_false]
      obtain ⟨h1, p, hp, h2⟩ := ih cells (c :: cur)
      exact ⟨h1, ⟨p, hp, fun x hx => h2 x (by simp [hx])⟩⟩

/-- if no piece contains a character with property `bad`, the text contains it only as a comma -/
theorem splitAcc_chars (bad : Char → Prop) (raw : Str) : ∀ (cells : List Str) (cur : Str),
    (∀ p ∈ piecesOf (splitAcc cells cur raw), ∀ x ∈ p, ¬ bad x) → ∀ c ∈ raw, c = ',' ∨ ¬ bad c := by
  induction raw with
  | nil => intro _ _ _ c hc; simp at hc
  | cons a cs ih =>
    intro cells cur h c hc
    by_cases ha : a = ','
    · simp only [splitAcc, ha, if_true] at h
      simp only [List.mem_cons] at hc
      rcases hc with hc | hc
      · left; rw [hc, ha]
      · exact ih _ _ h c hc
    · simp only [splitAcc, ha, if_false] at h
      simp only [List.mem_cons] at hc
      rcases hc with hc | hc
      · right
        obtain ⟨_, p, hp, h2⟩ := splitAcc_keeps cs cells (a :: cur)
        rw [hc]
        exact h p hp a (h2 a (by simp))
      · exact ih _ _ h c hc

theorem mem_trimStart (s : Str) (x : Char) (hx : x ∈ s) : isWs x = true ∨ x ∈ trimStart s := by
  induction s with
  | nil => simp at hx
  | cons c cs ih =>
    by_cases hc : isWs c = true
    · simp only [List.mem_cons] at hx
      rcases hx with hx | hx
      · left; rw [hx]; exact hc
      · simpa [trimStart, hc] using ih hx
    · right; simpa [trimStart, hc] using hx

theorem mem_trim (s : Str) (x : Char) (hx : x ∈ s) : isWs x = true ∨ x ∈ trim s := by
  rcases mem_trimStart s x hx with h | h
  · exact Or.inl h
  · rcases mem_trimStart (trimStart s).reverse x (by simpa using h) with h2 | h2
    · exact Or.inl h2
    · right; simpa [trim, trimEnd] using h2

/-- the first line as `validate_csv_columns` reads it -/
theorem firstLineAux_split (text : Str) : ∀ (lineCur : Str),
    ∃ raw, (∀ c ∈ raw, c ≠ '\n') ∧
      ((text = raw ∧ firstLineAux lineCur text = (raw.reverse ++ lineCur).reverse) ∨
       (∃ rest, text = raw ++ '\n' :: rest ∧
          firstLineAux lineCur text = (stripCr (raw.reverse ++ lineCur)).reverse)) := by
  induction text with
  | nil => intro lineCur; exact ⟨[], by simp, Or.inl ⟨rfl, by simp [firstLineAux]⟩⟩
  | cons c cs ih =>
    intro lineCur
    by_cases hc : c = '\n'
    · subst hc
      exact ⟨[], by simp, Or.inr ⟨cs, rfl, by simp [firstLineAux]⟩⟩
    · obtain ⟨raw, hraw, h⟩ := ih (c :: lineCur)
      refine ⟨c :: raw, ?_, ?_⟩
      · intro x hx
        simp only [List.mem_cons] at hx
        rcases hx with hx | hx
        · rw [hx]; exact hc
        · exact hraw x hx
      · rcases h with ⟨e1, e2⟩ | ⟨rest, e1, e2⟩
        · left; refine ⟨by rw [e1], ?_⟩
          simp only [firstLineAux, hc, if_false, e2]; simp
        · right; refine ⟨rest, by rw [e1]; rfl, ?_⟩
          simp only [firstLineAux, hc, if_false, e2]; simp

/-- stripping the CR of a CRLF from the line, then splitting, is splitting and stripping the CR
from the last piece -/
theorem split_stripCr (raw : Str) :
    piecesOf ((splitAcc [] [] raw).1, stripCr (splitAcc [] [] raw).2) =
      piecesOf (splitAcc [] [] (stripCr raw.reverse).reverse) := by
  cases hr : raw.reverse with
  | nil =>
    have : raw = [] := by simpa using hr
    subst this; simp [splitAcc, stripCr]
  | cons x t =>
    have hraw : raw = t.reverse ++ [x] := by
      have := congrArg List.reverse hr; simpa using this
    rw [hraw, splitAcc_snoc]
    by_cases hx : x = '\r'
    · subst hx
      simp [stripCr]
    · have hs : stripCr (x :: t) = x :: t := by
        unfold stripCr; split
        · rename_i heq; injection heq with h1 _; exact absurd h1 hx
        · rfl
      rw [hs]
      by_cases hcomma : x = ','
      · subst hcomma; simp [stripCr, splitAcc_snoc]
      · have hs2 : ∀ u, stripCr (x :: u) = x :: u := by
          intro u; unfold stripCr; split
          · rename_i heq; injection heq with h1 _; exact absurd h1 hx
          · rfl
        simp [hcomma, hs2, splitAcc_snoc]

end VibeProof.Text.Csv
