import VibeProof.Model.BinCodec
import VibeProof.Lemmas.BinCodec
import VibeProof.Model.BinTypes
import VibeProof.Lemmas.BinTypes
/-
C20 — loading damaged database files fails cleanly (binary format, byte level).

For *every* byte string the model loader ends in `ok` or in one of the `Err` values (there is
no panic outcome in the transliterated readers), what it leaves unread is a suffix of the
input, and no buffer whose size comes from the file is requested larger than the input that is
still there.
-/
namespace VibeProof.C20
open VibeProof.BinCodec VibeProof.Generated

theorem safe_readBody (t : Tag) : Safe (readBody t) := by
  cases t <;> unfold readBody <;>
    first
    | exact Safe.pure _
    | exact Safe.bind (Safe.iN _) (fun _ => Safe.pure _)
    | exact Safe.bind (Safe.uN _) (fun _ => Safe.pure _)
    | exact Safe.bind Safe.readString (fun _ => Safe.pure _)
    | exact Safe.bind Safe.rbool (fun _ => Safe.pure _)

/-- **T2/T3 for values.** `read_sql_value` on arbitrary bytes -/
theorem C20_readValue_safe : Safe readValue := by
  unfold readValue
  refine Safe.bind Safe.u8 (fun b => ?_)
  cases Tag.fromNat? b.toNat with
  | none => exact Safe.fail _
  | some t => exact safe_readBody t

/-- a byte that is no arm of `TypeTag::from_u8` is rejected as such, whatever follows -/
theorem C20_unknown_tag_rejected (b : UInt8) (rest : Bytes) (h : Tag.fromNat? b.toNat = none) :
    (readValue (b :: rest)).res = .error (.badTag b.toNat) := by
  unfold readValue
  rw [bind_def, bind_res_ok (a := b) (rest := rest) rfl]
  simp only [h]; rfl

example : Tag.fromNat? (0x09 : UInt8).toNat = none := by decide

/-- **T3 for strings (repaired reader).** the buffer `read_string` asks for never exceeds the
    bytes that are still in the input, and it leaves a suffix -/
theorem C20_readString_alloc_bounded : Safe readString := Safe.readString

/-- the same statement is false for `read_string` as it was before the repair:
    a 4-byte input asks for 4 GiB -/
theorem C20_readString_alloc_counterexample_before_fix :
    ¬ (∀ inp, ∀ n ∈ (readStringOld inp).ledger, n ≤ inp.length) := by
  intro h
  have := h [0xff, 0xff, 0xff, 0xff] 4294967295 (by decide)
  exact absurd this (by decide)

/-- ... and the repaired reader on the same input asks for nothing and reports end of input -/
theorem C20_readString_ffffffff :
    (readString [0xff, 0xff, 0xff, 0xff]).ledger = [0] ∧
    (readString [0xff, 0xff, 0xff, 0xff]).res = .error .eof := ⟨rfl, rfl⟩

theorem C20_readRows_safe (n k : Nat) : Safe (readRows n k) :=
  Safe.many (Safe.many C20_readValue_safe k) n

theorem safe_counted {rd : Reader α} (h : Safe rd) : Safe (readCounted rd) :=
  Safe.bind (Safe.uN 4) (fun k => Safe.many h k)

theorem safe_readCol : Safe readCol :=
  Safe.bind Safe.readString (fun _ => Safe.bind Safe.readString (fun _ =>
    Safe.bind Safe.rbool (fun _ => Safe.pure _)))

theorem safe_readTableDef : Safe readTableDef :=
  Safe.bind Safe.readString (fun _ => Safe.bind (Safe.uN 4) (fun k =>
    Safe.bind (Safe.many safe_readCol k) (fun _ => Safe.pure _)))

theorem safe_readIdxCol : Safe readIdxCol :=
  Safe.bind Safe.readString (fun _ => Safe.bind Safe.u8 (fun _ =>
    Safe.ite (Safe.pure _) (Safe.ite (Safe.pure _) (Safe.fail _))))

theorem safe_readIdxDef : Safe readIdxDef :=
  Safe.bind Safe.readString (fun _ => Safe.bind Safe.readString (fun _ =>
    Safe.bind Safe.rbool (fun _ => Safe.bind (Safe.uN 4) (fun k =>
      Safe.bind (Safe.many safe_readIdxCol k) (fun _ => Safe.pure _)))))

theorem safe_readTrig : Safe readTrig := by
  unfold readTrig
  refine Safe.bind Safe.readString (fun _ => Safe.bind Safe.readString (fun _ =>
    Safe.bind Safe.u8 (fun _ => Safe.ite (Safe.fail _) ?_)))
  refine Safe.bind Safe.u8 (fun _ => Safe.ite (Safe.fail _) ?_)
  refine Safe.bind (Safe.ite (Safe.bind (Safe.uN 4) (fun k => Safe.many Safe.readString k))
    (Safe.pure _)) (fun _ => ?_)
  refine Safe.bind Safe.u8 (fun _ => Safe.ite (Safe.fail _) ?_)
  refine Safe.bind Safe.rbool (fun _ => Safe.ite (Safe.fail _) ?_)
  refine Safe.bind Safe.u8 (fun _ => Safe.ite (Safe.fail _) ?_)
  exact Safe.bind Safe.readString (fun _ => Safe.pure _)

/-- **T2/T3 for the catalog section** -/
theorem C20_readCatalog_safe : Safe readCatalog :=
  Safe.bind (safe_counted Safe.readString) (fun _ =>
  Safe.bind (safe_counted Safe.readString) (fun _ =>
  Safe.bind (safe_counted safe_readTableDef) (fun _ =>
  Safe.bind (safe_counted safe_readIdxDef) (fun _ =>
  Safe.bind (safe_counted safe_readTrig) (fun _ => Safe.pure _)))))

theorem safe_readHeader : Safe readHeader := by
  unfold readHeader
  refine Safe.bind (Safe.takeN _) (fun _ => Safe.ite (Safe.fail _) ?_)
  refine Safe.bind Safe.u8 (fun _ => Safe.ite (Safe.fail _) ?_)
  exact Safe.bind Safe.u8 (fun _ => Safe.bind (Safe.takeN _) (fun _ => Safe.pure _))

theorem safe_readTableData (tables : List TableDef) : Safe (readTableData tables) := by
  unfold readTableData
  refine Safe.bind Safe.readString (fun name => Safe.bind (Safe.uN 8) (fun n => ?_))
  cases findCols tables name with
  | none => exact Safe.fail _
  | some k => exact Safe.bind (C20_readRows_safe n k) (fun _ => Safe.pure _)

theorem safe_loadFile : Safe loadFile :=
  Safe.bind safe_readHeader (fun _ => Safe.bind C20_readCatalog_safe (fun c =>
    Safe.bind (Safe.many (safe_readTableData c.tables) c.tables.length) (fun _ => Safe.pure _)))

/-- **T1 + T2 + T3, whole file.** For every byte string `b`: the loader ends in `ok` (leaving a
    suffix of `b` unread) or in an `Err`; and every length-prefixed buffer it asks for on the way
    — also on the failing paths — is at most `|b|` bytes. -/
theorem C20_load_total_consumes_prefix_alloc_bounded (b : Bytes) :
    ((∃ f rest, (loadFile b).res = .ok (f, rest) ∧ rest <:+ b) ∨ (∃ e, (loadFile b).res = .error e)) ∧
    (∀ n ∈ (loadFile b).ledger, n ≤ b.length) := by
  refine ⟨?_, (safe_loadFile b).1⟩
  cases h : (loadFile b).res with
  | error e => exact Or.inr ⟨e, rfl⟩
  | ok p => exact Or.inl ⟨p.1, p.2, rfl, (safe_loadFile b).2 p.1 p.2 h⟩

/-- the empty input and a wrong magic number are errors -/
theorem C20_empty_and_bad_magic :
    (loadFile []).res = .error .eof ∧
    (loadFile ([0x56, 0x42, 0x53, 0x51, 0x4D] ++ List.replicate 11 0)).res = .error .badMagic :=
  ⟨rfl, rfl⟩

/-- **work is not bounded by the input when a table has no columns**: a zero-column row
    consumes no input, so the row loop runs `n` times for any row count `n` found in the file -/
theorem C20_zero_column_rows_consume_nothing (n : Nat) (inp : Bytes) :
    (readRows n 0 inp).res = .ok (List.replicate n [], inp) := by
  induction n with
  | zero => rfl
  | succ n ih =>
    unfold readRows at *
    unfold readMany
    rw [bind_def, bind_res_ok (a := ([] : Row)) (rest := inp) rfl,
      bind_def, bind_res_ok ih]
    rfl

/-! ### column type texts read from a (possibly damaged) catalog: `parse_data_type`

`parseDataType` (Model/BinTypes.lean) is total by construction: every branch of the code uses
`parts.first()` / `parts.get(1)` / `unwrap_or`, mirrored by `[i]?` / `getD`.  The theorems below
say what that buys: whatever follows a recognised prefix, the result is a type (never a failure
inside the branch), and the texts `format_data_type` writes for the re-readable types come back
as the same type for every parameter value. -/

open VibeProof.BinTypes

/-- `split(',')` always yields at least one part — why `parts.first()` cannot fail -/
theorem C20_split_nonempty (s : List Char) : splitComma s ≠ [] := splitComma_nonempty s

/-- … but without a comma there is no second part: `parts.get(1)` is `None`, and an
    unconditional `parts[1]` would be out of bounds exactly on these inputs -/
theorem C20_split_second_part_absent (s : List Char) (h : ∀ c ∈ s, (c == ',') = false) :
    (splitComma s)[1]? = none := by
  rw [splitComma_noComma s h]; rfl

example : (splitComma "10  2".toList)[1]? = none := by decide

/-- whatever bytes follow `NUMERIC(` / `DECIMAL(` (missing comma, missing digits, garbage), the
    branch yields a NUMERIC / DECIMAL type with both parameters in `u8` range -/
theorem C20_parseType_numeric_prefix_total (rest : List Char) :
    (∃ p s, parseDataType ("NUMERIC(".toList ++ rest) = some (.numeric p s) ∧ p ≤ 255 ∧ s ≤ 255) ∧
    (∃ p s, parseDataType ("DECIMAL(".toList ++ rest) = some (.decimal p s) ∧ p ≤ 255 ∧ s ≤ 255) := by
  refine ⟨⟨_, _, parse_numeric_prefix rest, precScale_le _⟩, ⟨_, _, parse_decimal_prefix rest, precScale_le _⟩⟩

/-- the same for the one-parameter prefixes: always a type, never a failure -/
theorem C20_parseType_single_prefix_total (rest : List Char) :
    (∃ m, parseDataType ("VARCHAR(".toList ++ rest) = some (.varchar m)) ∧
    (∃ n, parseDataType ("CHAR(".toList ++ rest) = some (.character n)) ∧
    (∃ n, parseDataType ("FLOAT(".toList ++ rest) = some (.float n)) :=
  ⟨⟨_, parse_varchar_prefix rest⟩, ⟨_, parse_char_prefix rest⟩, ⟨_, parse_float_prefix rest⟩⟩

/-- the column types whose catalog text identifies them, with the parameter ranges of the Rust
    fields (`u8` precision / scale, `usize` lengths) -/
def Rereadable : DataType → Prop
  | .integer | .smallint | .bigint | .unsigned | .real | .double | .boolean | .date => True
  | .time tz => tz = false
  | .timestamp _ => True
  | .varchar none => True
  | .varchar (some n) => n ≤ usizeMax
  | .character n => n ≤ usizeMax
  | .float p => p ≤ 255
  | .numeric p s => p ≤ 255 ∧ s ≤ 255
  | .decimal p s => p ≤ 255 ∧ s ≤ 255
  | _ => False

/-- **round trip of the catalog type text, all parameter values**:
    `parse_data_type (format_data_type t) = t` for every re-readable type -/
theorem C20_type_text_roundtrip (t : DataType) (h : Rereadable t) :
    parseDataType (formatDataType t) = some t := by
  cases t with
  | numeric p s => exact roundtrip_numeric p s h.1 h.2
  | decimal p s => exact roundtrip_decimal p s h.1 h.2
  | float p => exact roundtrip_float p h
  | character n => exact roundtrip_char n h
  | varchar m =>
    cases m with
    | none => decide
    | some n => exact roundtrip_varchar n h
  | time tz => cases tz <;> first | decide | exact absurd h (by simp [Rereadable])
  | timestamp tz => cases tz <;> decide
  | integer => decide
  | smallint => decide
  | bigint => decide
  | unsigned => decide
  | real => decide
  | double => decide
  | boolean => decide
  | date => decide
  | clob => exact absurd h (by simp [Rereadable])
  | name => exact absurd h (by simp [Rereadable])
  | interval a b => exact absurd h (by simp [Rereadable])
  | blob => exact absurd h (by simp [Rereadable])
  | bit l => exact absurd h (by simp [Rereadable])
  | userDefined n => exact absurd h (by simp [Rereadable])
  | null => exact absurd h (by simp [Rereadable])

example : Rereadable (.numeric 255 0) ∧ Rereadable (.varchar (some usizeMax)) ∧
    Rereadable (.timestamp true) :=
  ⟨⟨by decide, by decide⟩, Nat.le_refl _, trivial⟩

/-- outside that class the statement is false (the C18 findings): the text of these types is
    rejected or read as another type -/
theorem C20_type_text_roundtrip_counterexample :
    ¬ (∀ t : DataType, parseDataType (formatDataType t) = some t) := by
  intro h
  exact absurd (h (.interval .year (some .month))) (by decide)

/-- near-miss texts of the corruption dictionary: each is a type or a clean rejection -/
theorem C20_near_miss_texts :
    parseDataType "NUMERIC(10  2)".toList = some (.numeric 38 0) ∧
    parseDataType "NUMERIC(10".toList = some (.numeric 10 0) ∧
    parseDataType "NUMERIC(".toList = some (.numeric 38 0) ∧
    parseDataType "DECIMAL(,)".toList = some (.decimal 38 0) ∧
    parseDataType "NUMERIC(999, 2)".toList = some (.numeric 38 2) ∧
    parseDataType "VARCHAR(".toList = some (.varchar none) ∧
    parseDataType "CHAR(x)".toList = some (.character 1) ∧
    parseDataType "FLOAT(256)".toList = some (.float 53) ∧
    parseDataType "TIMESTAMP(".toList = none ∧
    parseDataType "INTERVAL YEAR TO".toList = none ∧
    parseDataType "".toList = none := by decide

end VibeProof.C20
