import VibeProof.Model.SqlCodec
import VibeProof.Model.View
open VibeProof VibeProof.Proto VibeProof.Codec VibeProof.Sql VibeProof.SqlCodec VibeProof.View

/-- `chain DB (BODY…) OUTER` → the outer query over a chain of definitions (`View.evalChain`:
    definition k is table `|db| + k`).
    `named KIND DB BODY OUTER` (KIND = view | cte | derived) → `(rows DET (R…))`: the outer query
    over the definition, resolved through the environment as a view / CTE, or inlined. -/
def handle : List Sx → Sx
  | [.atom "named", .atom kind, db, body, outer] =>
    match decDb db, decCore body, decCore outer with
    | some d, some b, some o =>
      let name : Name := ['v']
      let res := match kind with
        | "view" => evalNamed { ctes := [], views := [(['V'], b)], tables := [] } d name o
        | "cte" => evalNamed { ctes := [(name, b)], views := [], tables := [] } d name o
        | _ => evalDerived d b o
      match res with
      | .ok rows =>
        let fullRes := evalDerived d b { o with limit := none, offset := 0 }
        let det := match fullRes with
          | .ok full => orderDetermined o.orderBy full
          | .error _ => false
        let full := match fullRes with
          | .ok f => f
          | .error _ => rows
        .list [.atom "rows", .atom (if det then "1" else "0"), encRows rows, encRows full]
      | .error e => encErr e
    | _, _, _ => .atom "bad-request"
  | [.atom "chain", db, .list bodies, outer] =>
    match decDb db, bodies.mapM decCore, decCore outer with
    | some d, some bs, some o =>
      match evalChain d bs o with
      | .ok rows =>
        let fullRes := evalChain d bs { o with limit := none, offset := 0 }
        let det := match fullRes with
          | .ok full => orderDetermined o.orderBy full
          | .error _ => false
        let full := match fullRes with
          | .ok f => f
          | .error _ => rows
        .list [.atom "rows", .atom (if det then "1" else "0"), encRows rows, encRows full]
      | .error e => encErr e
    | _, _, _ => .atom "bad-request"
  | _ => .atom "bad-request"

def main : IO Unit := runDriver handle
