import VibeProof.Model.Order
import VibeProof.Lemmas.Order
import VibeProof.Model.SqlOrd
import VibeProof.Props.C21
/-
C08 — ORDER BY, LIMIT/OFFSET and DISTINCT return correct sequences.

Kernel statements hold for every element type, every list and every comparator that is a
total preorder on the elements of the list; the SQL statements instantiate them with the
comparison closure of `apply_order_by` on same-typed keys.
-/
namespace VibeProof.C08
open VibeProof VibeProof.OrderLemmas

/-! ### sorting -/

/-- the sorted sequence is a permutation of the input (every comparator, no hypothesis) -/
theorem C08_sort_perm {α : Type} (le : α → α → Bool) (l : List α) : (l.mergeSort le).Perm l :=
  List.mergeSort_perm l le

/-- the sorted sequence is pairwise ordered, for every comparator that is transitive and total on
the elements of the list -/
theorem C08_sort_sorted {α : Type} (le : α → α → Bool) (P : α → Prop)
    (trans : ∀ a b c, P a → P b → P c → le a b = true → le b c = true → le a c = true)
    (total : ∀ a b, P a → P b → (le a b || le b a) = true)
    (l : List α) (hl : ∀ x ∈ l, P x) :
    (l.mergeSort le).Pairwise (fun a b => le a b = true) :=
  pairwise_mergeSort_on le P trans total l hl

/-- stability: an already ordered subsequence of the input (in particular, rows with equal keys)
keeps its relative order -/
theorem C08_sort_stable {α : Type} (le : α → α → Bool)
    (trans : ∀ a b c, le a b = true → le b c = true → le a c = true)
    (total : ∀ a b, (le a b || le b a) = true)
    (l ys : List α) (hs : ys.Pairwise (fun a b => le a b = true)) (hsub : ys.Sublist l) :
    ys.Sublist (l.mergeSort le) :=
  List.sublist_mergeSort trans total hs hsub

/-- the comparison of `apply_order_by` is total on keys of one typing -/
theorem C08_keysLe_total (tys : List (KTy × Dir)) (a b : SortKey)
    (ha : wellTyped tys a = true) (hb : wellTyped tys b = true) :
    (keysLe a b || keysLe b a) = true :=
  (keysCmp_laws tys).le_total ha hb

/-- … and transitive -/
theorem C08_keysLe_trans (tys : List (KTy × Dir)) (a b c : SortKey)
    (ha : wellTyped tys a = true) (hb : wellTyped tys b = true) (hc : wellTyped tys c = true)
    (h1 : keysLe a b = true) (h2 : keysLe b c = true) : keysLe a c = true :=
  (keysCmp_laws tys).le_trans ha hb hc h1 h2

/-- non-vacuity: keys with NULLs, both directions, two columns -/
example : wellTyped [(.int, .desc), (.str, .asc)] [(.int 3, .desc), (.null, .asc)] = true
    ∧ wellTyped [(.int, .desc), (.str, .asc)] [(.null, .desc), (.str "a", .asc)] = true := by decide

/-- without the typing hypothesis the comparison is not transitive: values of different types
compare as equal (`partial_cmp = None → Equal`) -/
theorem C08_cross_type_not_transitive :
    ¬ (∀ a b c : SortKey, keysLe a b = true → keysLe b c = true → keysLe a c = true) := by
  intro h
  have := h [(.int 1, .asc)] [(.str "x", .asc)] [(.int 0, .asc)] (by decide) (by decide)
  exact absurd this (by decide)

/-- NULL keys sort last in both directions -/
theorem C08_null_last (d : Dir) (v : Value) (hv : v.isNull = false) :
    keyCmp d v .null = .lt ∧ keyCmp d .null v = .gt := by
  cases v with
  | null => simp [Value.isNull] at hv
  | _ => simp [keyCmp, Value.isNull]

/-- ORDER BY (plain, aggregate and set-operation queries run the same closure): the result is
a permutation of the input rows -/
theorem C08_orderBy_perm {α : Type} (rows : List (α × SortKey)) :
    (sortByKeys rows).Perm rows :=
  List.mergeSort_perm _ _

/-- … and sorted by the keys, whenever the keys of all rows have one typing -/
theorem C08_orderBy_sorted {α : Type} (tys : List (KTy × Dir)) (rows : List (α × SortKey))
    (h : ∀ r ∈ rows, wellTyped tys r.2 = true) :
    (sortByKeys rows).Pairwise (fun x y => keysLe x.2 y.2 = true) :=
  pairwise_mergeSort_on (fun x y => keysLe x.2 y.2) (fun r => wellTyped tys r.2 = true)
    (fun a b c pa pb pc => C08_keysLe_trans tys a.2 b.2 c.2 pa pb pc)
    (fun a b pa pb => C08_keysLe_total tys a.2 b.2 pa pb) rows h

/-- the result is the same set of rows with the same multiplicities, after dropping the keys -/
theorem C08_orderBy_rows_perm {α : Type} (rows : List (α × SortKey)) :
    ((sortByKeys rows).map (·.1)).Perm (rows.map (·.1)) :=
  (C08_orderBy_perm rows).map _

/-- non-vacuity: rows with a NULL key and a tie satisfy the typing hypothesis -/
example : ∀ r ∈ [("r1", [(Value.int 1, Dir.desc)]), ("r2", [(Value.null, Dir.desc)]),
      ("r3", [(Value.int 2, Dir.desc)]), ("r4", [(Value.int 1, Dir.desc)])],
    wellTyped [(.int, .desc)] r.2 = true := by decide


/-! ### sort keys of every stored type (TIME / TIMESTAMP / DATE / NUMERIC / DOUBLE / CHAR / …)

The reference comparator is the model of `SqlValue`'s ordering of C21 (`Model/SqlOrd.lean`, all 16
variants).  `apply_order_by` compares two non-NULL keys with `partial_cmp(..).unwrap_or(Equal)`;
whenever the partial comparison is defined (same variant, no NaN) it is `SV.cmp`. -/

open VibeProof.SqlOrd in
/-- the engine's comparison of two non-NULL keys -/
def engineCmp (a b : SqlOrd.SV) : Ordering :=
  match SqlOrd.SV.partialCmp a b with
  | some o => o
  | none => .eq

def svIsNull : SqlOrd.SV → Bool
  | .null => true
  | _ => false

/-- where the SQL comparison of two values is defined, the engine's ORDER BY comparison is the total
order `SV.cmp` -/
theorem C08_engine_cmp_is_total_order (a b : SqlOrd.SV) (o : Ordering)
    (h : SqlOrd.SV.partialCmp a b = some o) : engineCmp a b = SqlOrd.SV.cmp a b := by
  unfold engineCmp SqlOrd.SV.cmp
  cases a <;> cases b <;> simp_all [SqlOrd.SV.partialCmp]

theorem sv_cmp_laws : CmpLaws (fun _ : SqlOrd.SV => True) SqlOrd.SV.cmp where
  swap := by intro a b _ _; exact C21.C21_cmp_swap a b
  lt_lt := by intro a b c _ _ _ h1 h2; exact C21.C21_cmp_lt_trans a b c h1 h2
  lt_eq := by
    intro a b c _ _ _ h1 h2
    have hcb : SqlOrd.SV.cmp c b = .eq := by rw [C21.C21_cmp_swap b c, h2]; rfl
    have := C21.C21_cmp_congr c b a hcb
    rw [C21.C21_cmp_swap a b, h1] at this
    rw [C21.C21_cmp_swap c a, this]; rfl
  eq_lt := by
    intro a b c _ _ _ h1 h2
    rw [C21.C21_cmp_congr a b c h1]; exact h2
  eq_eq := by
    intro a b c _ _ _ h1 h2
    rw [C21.C21_cmp_congr a b c h1]; exact h2

/-- one ORDER BY item over any stored type: NULL last in both directions, else `SV.cmp` / reversed -/
def svKeyCmp (d : Dir) : SqlOrd.SV → SqlOrd.SV → Ordering :=
  nullLastG svIsNull (match d with
    | .asc => SqlOrd.SV.cmp
    | .desc => fun a b => (SqlOrd.SV.cmp a b).swap)

def svKeysLe (a b : List (SqlOrd.SV × Dir)) : Bool := lexCmp svKeyCmp a b != .gt

theorem svKeyCmp_laws (d : Dir) : CmpLaws (fun _ : SqlOrd.SV => True) (svKeyCmp d) := by
  unfold svKeyCmp
  cases d
  · exact nullLastG_laws sv_cmp_laws
  · exact nullLastG_laws sv_cmp_laws.flip

theorem C08_svKeysLe_trans (dirs : List Dir) (a b c : List (SqlOrd.SV × Dir))
    (pa : shaped dirs a = true) (pb : shaped dirs b = true) (pc : shaped dirs c = true)
    (h1 : svKeysLe a b = true) (h2 : svKeysLe b c = true) : svKeysLe a c = true :=
  (lexCmp_laws svKeyCmp svKeyCmp_laws dirs).le_trans pa pb pc h1 h2

theorem C08_svKeysLe_total (dirs : List Dir) (a b : List (SqlOrd.SV × Dir))
    (pa : shaped dirs a = true) (pb : shaped dirs b = true) :
    (svKeysLe a b || svKeysLe b a) = true :=
  (lexCmp_laws svKeyCmp svKeyCmp_laws dirs).le_total pa pb

/-- ORDER BY over keys of any stored type (every variant of `SqlValue`, every direction list): the
stable sort returns a sequence that is pairwise ordered by the keys — in particular two TIME /
TIMESTAMP keys of the same second are ordered by their nanoseconds -/
theorem C08_orderBy_sorted_all_types {α : Type} (dirs : List Dir) (rows : List (α × List (SqlOrd.SV × Dir)))
    (h : ∀ r ∈ rows, shaped dirs r.2 = true) :
    (rows.mergeSort (fun x y => svKeysLe x.2 y.2)).Pairwise (fun x y => svKeysLe x.2 y.2 = true) :=
  pairwise_mergeSort_on (fun x y => svKeysLe x.2 y.2) (fun r => shaped dirs r.2 = true)
    (fun a b c pa pb pc => C08_svKeysLe_trans dirs a.2 b.2 c.2 pa pb pc)
    (fun a b pa pb => C08_svKeysLe_total dirs a.2 b.2 pa pb) rows h

/-- … and is a permutation of the input -/
theorem C08_orderBy_perm_all_types {α : Type} (rows : List (α × List (SqlOrd.SV × Dir))) :
    (rows.mergeSort (fun x y => svKeysLe x.2 y.2)).Perm rows := List.mergeSort_perm _ _

/-- two times of the same second are ordered by the fraction (the comparison the seeded change
C08-2 breaks): strictly less, in the key order used by ORDER BY -/
example : svKeyCmp .asc (.time ⟨10, 0, 0, 100000000⟩) (.time ⟨10, 0, 0, 100000001⟩) = .lt := by decide

/-! ### alias / position resolution -/

/-- `ORDER BY n` (1 ≤ n ≤ length of the select list) orders by the n-th select expression -/
theorem C08_resolve_position (cols : List String) (sel : List SelItem) (i : Nat) (it : SelItem)
    (h : sel[i]? = some it) :
    resolveOrderExpr cols sel (.pos (Int.ofNat (i + 1))) = .ok it.expr := by
  have hlen : i < sel.length := by
    rcases List.getElem?_eq_some_iff.mp h with ⟨hl, _⟩
    exact hl
  have h1 : (0 : Int) < Int.ofNat (i + 1) := by simp <;> omega
  have h2 : (Int.ofNat (i + 1)).toNat ≤ sel.length := by simp <;> omega
  simp only [resolveOrderExpr, h1, h2, and_self, if_true]
  have : (Int.ofNat (i + 1)).toNat - 1 = i := by simp
  rw [this, h]

/-- an integer that is not a position is the constant itself (the sort then keeps the input order) -/
theorem C08_resolve_out_of_range (cols : List String) (sel : List SelItem) (n : Int)
    (h : n ≤ 0 ∨ (sel.length : Int) < n) :
    resolveOrderExpr cols sel (.pos n) = .ok (.lit (.int n)) := by
  have : ¬ (0 < n ∧ n.toNat ≤ sel.length) := by
    intro ⟨h1, h2⟩
    rcases h with h | h
    · omega
    · have : n.toNat = n := Int.toNat_of_nonneg (by omega)
      omega
  simp only [resolveOrderExpr]
  rw [if_neg this]

/-- `ORDER BY x` where `x` is the alias of a select item orders by that item's expression (the
first such item) -/
theorem C08_resolve_alias (cols : List String) (sel : List SelItem) (s : String) (it : SelItem)
    (h : sel.find? (fun it => it.alias == some s) = some it) :
    resolveOrderExpr cols sel (.name s) = .ok it.expr := by
  simp [resolveOrderExpr, h]

/-- a name that is no alias is the FROM column of that name -/
theorem C08_resolve_column (cols : List String) (sel : List SelItem) (s : String) (i : Nat)
    (h : sel.find? (fun it => it.alias == some s) = none) (hc : cols.idxOf? s = some i) :
    resolveOrderExpr cols sel (.name s) = .ok (.col i) := by
  simp [resolveOrderExpr, h, hc]

example : resolveOrderExpr ["a", "b"] [⟨.col 1, some "x"⟩, ⟨.col 0, none⟩] (.pos 2) = .ok (.col 0)
    ∧ resolveOrderExpr ["a", "b"] [⟨.col 1, some "x"⟩, ⟨.col 0, none⟩] (.name "x") = .ok (.col 1)
    ∧ resolveOrderExpr ["a", "b"] [⟨.col 1, some "x"⟩, ⟨.col 0, none⟩] (.name "b") = .ok (.col 1)
    ∧ resolveOrderExpr ["a", "b"] [⟨.col 1, some "x"⟩, ⟨.col 0, none⟩] (.pos 3) = .ok (.lit (.int 3)) :=
  ⟨rfl, rfl, rfl, rfl⟩

/-! ### LIMIT / OFFSET -/

def offsetOf : Option Nat → Nat
  | some m => m
  | none => 0

/-- `apply_limit_offset` as coded is the slice `[m, m+n)` -/
theorem C08_limit_offset_is_slice {α : Type} (rows : List α) (limit offset : Option Nat) :
    applyLimitOffset rows limit offset = limitOffset limit (offsetOf offset) rows := by
  have key : ∀ m : Nat,
      (if m ≥ rows.length then ([] : List α)
        else (rows.drop m).take (match limit with
          | some n => min n (rows.length - m)
          | none => rows.length - m)) = limitOffset limit m rows := by
    intro m
    by_cases h : m ≥ rows.length
    · rw [if_pos h]
      cases limit <;> simp [limitOffset, List.drop_eq_nil_of_le h]
    · rw [if_neg h]
      cases limit with
      | none =>
        simp only [limitOffset]
        exact List.take_of_length_le (by simp)
      | some n =>
        simp only [limitOffset]
        rw [List.take_eq_take_iff, List.length_drop]
        omega
  cases offset with
  | none => exact key 0
  | some m => exact key m

theorem C08_limit_offset_slice_eq {α : Type} (n m : Nat) (l : List α) :
    limitOffset (some n) m l = (l.drop m).take n := rfl

/-- the slice has `min n (len − m)` rows -/
theorem C08_limit_offset_length {α : Type} (n m : Nat) (l : List α) :
    (limitOffset (some n) m l).length = min n (l.length - m) := by
  simp [limitOffset, List.length_take, List.length_drop]

/-- without LIMIT everything after the offset is returned -/
theorem C08_offset_only_length {α : Type} (m : Nat) (l : List α) :
    (limitOffset none m l).length = l.length - m := by
  simp [limitOffset]

/-- the i-th row of the slice is row `m + i` of the full sequence -/
theorem C08_limit_offset_get {α : Type} (n m i : Nat) (l : List α) (h : i < n) :
    (limitOffset (some n) m l)[i]? = l[m + i]? := by
  simp [limitOffset, h]

theorem applyLimitOffset_none {α : Type} (l : List α) : applyLimitOffset l none none = l := by
  rw [C08_limit_offset_is_slice]; simp [limitOffset, offsetOf]

/-- LIMIT/OFFSET of a query = slice of the same query without LIMIT/OFFSET (result-level queries:
aggregates, set operations) -/
theorem C08_runOnResult_limit_is_slice (order : List (Nat × Dir)) (distinct : Bool)
    (limit offset : Option Nat) (rows full : List Row)
    (h : runOnResult order distinct none none rows = .ok full) :
    runOnResult order distinct limit offset rows = .ok (limitOffset limit (offsetOf offset) full) := by
  unfold runOnResult at *
  cases hs : resultOrdered order distinct rows with
  | error e => simp [hs, bind, Except.bind] at h
  | ok d =>
    simp only [hs, bind, Except.bind, pure, Except.pure, Except.ok.injEq, applyLimitOffset_none] at h ⊢
    rw [← h, C08_limit_offset_is_slice]

/-- the same for plain (non-aggregate) queries -/
theorem C08_runPlain_limit_is_slice (q : PlainQuery) (rows full : List Row)
    (h : runPlain { q with limit := none, offset := none } rows = .ok full) :
    runPlain q rows = .ok (limitOffset q.limit (offsetOf q.offset) full) := by
  unfold runPlain at *
  have hp : plainOrdered { q with limit := none, offset := none } rows = plainOrdered q rows := rfl
  rw [hp] at h
  cases hs : plainOrdered q rows with
  | error e => simp [hs, bind, Except.bind] at h
  | ok d =>
    simp only [hs, bind, Except.bind, pure, Except.pure, Except.ok.injEq, applyLimitOffset_none] at h ⊢
    rw [← h, C08_limit_offset_is_slice]

/-! ### DISTINCT -/

/-- `apply_distinct` as coded (one pass with a seen-set) is first-occurrence DISTINCT -/
theorem C08_distinct_as_coded {α : Type} [DecidableEq α] (l : List α) :
    applyDistinct l = distinct l := by
  unfold applyDistinct
  rw [distinctLoop_eq]
  have : l.filter (fun x => decide (x ∉ ([] : List α))) = l := by
    apply List.filter_eq_self.mpr
    intro a _
    simp
  rw [this]
  rfl

/-- each distinct row exactly once -/
theorem C08_distinct_nodup {α : Type} [DecidableEq α] (l : List α) : (applyDistinct l).Nodup := by
  rw [C08_distinct_as_coded]; exact nodup_distinct l

/-- the same set of rows -/
theorem C08_distinct_mem {α : Type} [DecidableEq α] (l : List α) (x : α) :
    x ∈ applyDistinct l ↔ x ∈ l := by
  rw [C08_distinct_as_coded]; exact mem_distinct l x

/-- in the order of the input (so DISTINCT after ORDER BY stays sorted) -/
theorem C08_distinct_sublist {α : Type} [DecidableEq α] (l : List α) :
    (applyDistinct l).Sublist l := by
  rw [C08_distinct_as_coded]; exact distinct_sublist l

/-- DISTINCT of a sorted sequence is sorted -/
theorem C08_distinct_keeps_sorted {α : Type} [DecidableEq α] (R : α → α → Prop) (l : List α)
    (h : l.Pairwise R) : (applyDistinct l).Pairwise R :=
  h.sublist (C08_distinct_sublist l)

example : applyDistinct [3, 1, 3, 2, 1] = [3, 1, 2] := by decide

end VibeProof.C08
