import VibeProof.Model.Value
/-
Relational kernel: operators on `List Row` parameterised by functions, so that every theorem
about them holds for *every* predicate / key / comparator, not only those of an AST
(DESIGN.md §3).  This file holds the definitional operators; algorithm models (hash join,
counting set operations, …) live next to the property that needs them.
-/
namespace VibeProof

/-- WHERE: keep exactly the rows on which the predicate is TRUE (`apply_where_filter_*`). -/
def filter3 {α : Type} (p : α → TV) (rows : List α) : List α :=
  rows.filter (fun r => p r == TV.t)

/-- LIMIT n OFFSET m (`apply_limit_offset`). -/
def limitOffset {α : Type} (limit : Option Nat) (offset : Nat) (rows : List α) : List α :=
  match limit with
  | none => rows.drop offset
  | some n => (rows.drop offset).take n

/-- DISTINCT: first occurrence kept (`apply_distinct`). -/
def distinct {α : Type} [BEq α] : List α → List α
  | [] => []
  | r :: rs => r :: (distinct rs).filter (fun x => !(x == r))

end VibeProof
