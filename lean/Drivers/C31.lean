import VibeProof.Model.TextCodec
open VibeProof VibeProof.Proto VibeProof.Text VibeProof.TextCodec

/-- `(key null)` for a JSON null, `(key HEX)` for the text of any other value -/
def decPairs : Sx → Option (List (Str × Option Str))
  | .list xs => xs.mapM (fun
      | .list [k, .atom "null"] => do pure (← decChars k, none)
      | .list [k, v] => do pure (← decChars k, some (← decChars v))
      | _ => none)
  | _ => none

/-- `(writecsv ROWS)` → text; `(parsecsv T)` → `(ok ROWS)`; `(importcsv TABLE T)` → `(ok S…)`;
`(importjson TABLE ((k v)…))` → statement text; `(scan T)`; `(lexstr T)` -/
def handle : List Sx → Sx
  | [.atom "writecsv", rows] =>
    match decRows rows with
    | some rs => sxChars (Csv.writeCsv rs)
    | none => .atom "bad-request"
  | [.atom "parsecsv", t] =>
    match decChars t with
    | some cs =>
      match Csv.parseCsv cs with
      | .ok rows => .list [.atom "ok", encRows rows]
      | .error .badQuote => .list [.atom "err", .atom "badquote"]
      | .error .unterminated => .list [.atom "err", .atom "unterminated"]
    | none => .atom "bad-request"
  | [.atom "importcsv", tbl, t] =>
    match decChars tbl, decChars t with
    | some tb, some cs =>
      match Csv.importCsv tb cs with
      | .ok stmts => .list (.atom "ok" :: stmts.map sxChars)
      | .error .empty => .list [.atom "err", .atom "empty"]
      | .error (.malformed _) => .list [.atom "err", .atom "malformed"]
      | .error (.columnCount n) => .list [.atom "err", .atom "count", sxNat n]
    | _, _ => .atom "bad-request"
  | [.atom "importjson", tbl, obj] =>
    match decChars tbl, decPairs obj with
    | some tb, some kv => sxChars (Csv.importJsonObj tb kv)
    | _, _ => .atom "bad-request"
  | [.atom "validate", cols, t] =>
    match decStrList cols, decChars t with
    | some cs, some tx => sxBool (Csv.validateHeader cs tx)
    | _, _ => .atom "bad-request"
  | [.atom "scan", t] =>
    match decChars t with
    | some cs => encScan (scan cs)
    | none => .atom "bad-request"
  | [.atom "lexstr", t] =>
    match decChars t with
    | some cs =>
      match lexString cs with
      | .ok (s, r) => .list [.atom "ok", sxChars s, sxChars r]
      | .error e => encLexErr e
    | none => .atom "bad-request"
  | _ => .atom "bad-request"

def main : IO Unit := runDriver handle
