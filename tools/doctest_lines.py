#!/usr/bin/env python3
"""The pinned suite identifies doc-tests by file + line: a fix that shifts a doc comment makes a
stable test id disappear.  For every doc-test id in BASELINE.json's stable_pass, compare the line
(and its neighbours) at the base commit with the working tree; print the ids whose line moved."""
import json, re, subprocess, sys
BASE = "b65a993d"
b = json.load(open('/root/.vp/BASELINE.json'))
bad = 0
for t in b['stable_pass']:
    if not t.startswith('doctest:'):
        continue
    m = re.match(r"doctest:\w+::(\S+) - .*\(line (\d+)\)", t)
    if not m:
        continue
    f, ln = m.group(1), int(m.group(2))
    try:
        old = subprocess.run(['git', '-C', '/repo', 'show', '%s:%s' % (BASE, f)], capture_output=True, text=True).stdout.splitlines()
        new = open('/repo/' + f).read().splitlines()
    except Exception as e:
        print('??', t, e); bad += 1; continue
    o = old[ln - 2:ln + 1]
    n = new[ln - 2:ln + 1]
    if o != n:
        bad += 1
        print('MOVED', t)
        # where is it now?
        key = old[ln - 1] if ln - 1 < len(old) else ''
        print('   base line %d: %r ; tree line %d: %r' % (ln, key, ln, new[ln - 1] if ln - 1 < len(new) else ''))
print('doc-test ids checked; moved: %d' % bad)
sys.exit(1 if bad else 0)
