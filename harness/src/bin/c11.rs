//! C11 — failed DML statements leave the database unchanged.
//!
//! Direct oracle: full snapshot (all tables' rows, hash-index key sets, catalog listings, one
//! index-driven and one full-scan query per value) before and after every statement that returns
//! an error; the failure is injected at every row position of multi-row statements.
//! Correspondence: outcome class and final rows vs the Lean model (`Dml.step`).
#[path = "dmlcommon/mod.rs"]
mod common;
use common::*;
use vharness::qast::{Lit, Op, E};
use vharness::*;
use vibesql_ast::*;

fn snapshot(db: &mut Db) -> String {
    let mut tables = db.db.catalog.list_tables();
    tables.sort();
    let mut s = format!("tables={:?}\n", tables);
    for t in &tables {
        let (rows, idx, _) = real_state(db, t);
        let mut ix = db.db.list_indexes_for_table(t);
        ix.sort();
        s.push_str(&format!("{}: rows={} hash={:?} indexes={:?}\n", t, canon::rows_seq(&rows), idx, ix));
    }
    if tables.iter().any(|t| t == "T") {
        let keep = db.keep_log;
        db.keep_log = false;
        for v in 0..7 {
            let a = db.exec(&format!("SELECT * FROM T WHERE C1 = {}", v));
            let b = db.exec(&format!("SELECT * FROM T WHERE C1 + 0 = {}", v));
            let f = |o: &Out| o.rows().map(|r| canon::rows_bag(r)).unwrap_or_else(|| o.brief());
            s.push_str(&format!("C1={}: index {} scan {}\n", v, f(&a), f(&b)));
        }
        if db.db.catalog.get_table("T").map(|t| t.has_column("S")).unwrap_or(false) {
            for v in ["abcX", "abcY", "abc1", "xyzX", "qqq1", "gaa1"] {
                let a = db.exec(&format!("SELECT * FROM T WHERE S = '{}'", v));
                let b = db.exec(&format!("SELECT * FROM T WHERE S || '' = '{}'", v));
                let f = |o: &Out| o.rows().map(|r| canon::rows_bag(r)).unwrap_or_else(|| o.brief());
                s.push_str(&format!("S={}: index {} scan {}\n", v, f(&a), f(&b)));
            }
        }
        db.keep_log = keep;
    }
    s
}

fn li(v: &[i64]) -> Vec<Lit> {
    v.iter().map(|i| if *i < 0 { Lit::Null } else { Lit::I(*i) }).collect()
}

fn schema() -> TSchema {
    TSchema {
        ncols: 3,
        not_null: vec![0, 1],
        pk: Some(vec![0]),
        uniq: vec![vec![2]],
        checks: vec![E::Bin(Op::Ge, Box::new(E::Col(1)), Box::new(E::Lit(Lit::I(1))))],
    }
}

fn trigger(db: &mut Db, name: &str, timing: TriggerTiming, event: TriggerEvent, row: bool, body: &str) {
    let stmt = CreateTriggerStmt {
        trigger_name: name.into(),
        timing,
        event,
        table_name: "T".into(),
        granularity: if row { TriggerGranularity::Row } else { TriggerGranularity::Statement },
        when_condition: None,
        triggered_action: TriggerAction::RawSql(body.into()),
    };
    vibesql_executor::TriggerExecutor::create_trigger(&mut db.db, &stmt).expect("create trigger");
    db.log.push(format!("-- trigger {} registered through TriggerExecutor::create_trigger: {}", name, body));
}

struct Case {
    name: String,
    setup: Vec<St>,
    stmt: St,
    /// narrow class of a recorded finding this case falls in (if the snapshot changes)
    sig: Option<&'static str>,
    fail_pos: usize,
    nrows: usize,
}

fn run(c: &Case, model: &mut model::Model, rep: &mut Report) {
    let s = schema();
    let mut db = Db::new();
    db.must(&s.create_sql("T", true));
    db.must(&s.create_sql("S", false));
    db.must("CREATE INDEX IX ON T (C1)");
    for st in &c.setup {
        for q in st.sql(3) {
            db.exec(&q);
        }
    }
    let sqls = c.stmt.sql(3);
    for q in &sqls[..sqls.len() - 1] {
        db.must(q);
    }
    let before = snapshot(&mut db);
    let out = db.exec(sqls.last().unwrap());
    let after = snapshot(&mut db);
    let class = out_class(&out);
    rep.count(&format!("stmt_{}", c.stmt.kind()));
    rep.count(&format!("outcome_{}", class.replace(' ', "_").trim_end_matches(char::is_numeric)));
    rep.count(&format!("fail_position_{}_of_{}", c.fail_pos, c.nrows));
    let replay = format!("{}\n--- before ---\n{}--- after `{}` => {} ---\n{}", db.log.join(";\n"), before, sqls.last().unwrap(), out.brief(), after);
    if out.is_panic() {
        rep.fail(FailKind::Oracle, None, "executor panicked", &replay);
    }
    if out.is_err() && before != after {
        rep.fail(FailKind::Oracle, c.sig, &format!("database changed by a failing {} statement", c.stmt.kind()), &replay);
    }
    // correspondence (statements the model has)
    if !matches!(c.stmt, St::InsBadColumn { .. }) {
        let mut all = c.setup.clone();
        all.push(c.stmt.clone());
        let req = format!("hist {} {}", s.sx(), all.iter().map(|h| h.sx().to_string()).collect::<Vec<_>>().join(" "));
        let reply = model.ask(&req);
        let last = Sx::parse(&reply).and_then(|x| x.as_list().and_then(|v| v.last().cloned()));
        match last.as_ref().and_then(model_state) {
            Some(m) => {
                let (rows, idx, _) = real_state(&db, "T");
                if m.0 != class || m.1 != canon::rows_seq(&rows) || m.2 != idx {
                    rep.fail(FailKind::ModelDiff, None, &format!("model and code disagree on a {} statement", c.stmt.kind()),
                        &format!("{}\nmodel request: {}\ncode: {} rows {} idx {:?}\nmodel: {} rows {} idx {:?}", replay, req, class, canon::rows_seq(&rows), idx, m.0, m.1, m.2));
                } else {
                    rep.traces_validated += 1;
                }
            }
            None => rep.fail(FailKind::ModelDiff, None, "model driver rejected the request", &format!("{}\n{}", req, reply)),
        }
    }
    rep.case(&c.name, out.is_err() && c.nrows >= 2);
    rep.sample(serde_json::json!({"case": c.name, "statement": sqls.last().unwrap(), "outcome": class, "fail_position": c.fail_pos}));
}

/// deterministic reproductions of the recorded non-atomic paths (triggers, cascades)
fn trigger_probes(rep: &mut Report) {
    let mk = || {
        let mut db = Db::new();
        db.must("CREATE TABLE T (C0 INT PRIMARY KEY, C1 INT)");
        db.must("CREATE TABLE AUDIT (K INT PRIMARY KEY, O INT, N INT)");
        db.must("INSERT INTO T VALUES (1, 10), (2, 20), (3, 30)");
        db
    };
    let mut check = |db: &mut Db, sql: &str, sig: &'static str, rep: &mut Report| {
        let before = snapshot(db);
        let out = db.exec(sql);
        let after = snapshot(db);
        rep.count("trigger_and_cascade_probes");
        rep.case(&format!("probe {} {}", sig, sql), true);
        if !out.is_err() {
            rep.fail(FailKind::Oracle, None, "probe statement was expected to fail", &format!("{}\n=> {}", db.log.join(";\n"), out.brief()));
        } else if before != after {
            rep.fail(FailKind::Oracle, Some(sig), "database changed by a failing statement with triggers / cascades",
                &format!("{}\n--- before ---\n{}--- after => {} ---\n{}", db.log.join(";\n"), before, out.brief(), after));
        }
    };
    // (a) multi-row INSERT, AFTER ROW trigger fails at row 2: row 1 and its audit entry stay
    let mut db = mk();
    trigger(&mut db, "TA", TriggerTiming::After, TriggerEvent::Insert, true, "INSERT INTO AUDIT VALUES (NEW.C0, NULL, NEW.C1)");
    db.must("INSERT INTO AUDIT VALUES (5, 0, 0)");
    check(&mut db, "INSERT INTO T VALUES (4, 40), (5, 50), (6, 60)", "C11/trigger-side-effects-kept", rep);
    // (a') BEFORE ROW trigger fails at row 2: row 1 stays inserted
    let mut db = mk();
    trigger(&mut db, "TB", TriggerTiming::Before, TriggerEvent::Insert, true, "INSERT INTO AUDIT VALUES (NEW.C0, NULL, NEW.C1)");
    db.must("INSERT INTO AUDIT VALUES (5, 0, 0)");
    check(&mut db, "INSERT INTO T VALUES (4, 40), (5, 50), (6, 60)", "C11/trigger-side-effects-kept", rep);
    // (b) UPDATE with a failing AFTER ROW trigger: all rows already written
    let mut db = mk();
    trigger(&mut db, "TU", TriggerTiming::After, TriggerEvent::Update(None), true, "INSERT INTO AUDIT VALUES (OLD.C0, OLD.C1, NEW.C1)");
    db.must("INSERT INTO AUDIT VALUES (2, 0, 0)");
    check(&mut db, "UPDATE T SET C1 = C1 + 1", "C11/trigger-side-effects-kept", rep);
    // (b') DELETE with a failing AFTER ROW trigger: rows already deleted
    let mut db = mk();
    trigger(&mut db, "TD", TriggerTiming::After, TriggerEvent::Delete, true, "INSERT INTO AUDIT VALUES (OLD.C0, OLD.C1, NULL)");
    db.must("INSERT INTO AUDIT VALUES (2, 0, 0)");
    check(&mut db, "DELETE FROM T WHERE C0 >= 1", "C11/trigger-side-effects-kept", rep);
    // regression (repaired): an UPDATE value of another integer storage type is coerced like INSERT
    // does, and a value that cannot be stored fails before the first write
    let mut db = Db::new();
    db.must("CREATE TABLE T (ID BIGINT PRIMARY KEY, C1 INTEGER, C2 INTEGER)");
    db.must("CREATE TABLE W (ID INTEGER PRIMARY KEY, S SMALLINT, V VARCHAR(10))");
    db.must("INSERT INTO T VALUES (1, 1, 1), (2, 2, 2), (3, 3, NULL), (4, 4, 4)");
    db.must("INSERT INTO W VALUES (1, 1, 'a'), (2, 2, 'b'), (3, 30000, 'c')");
    for (sql, must_be_ok) in [
        ("UPDATE T SET C2 = COALESCE(C2 + 1, ID) WHERE C1 > 0", Some(true)),
        ("UPDATE T SET ID = 5 WHERE ID = 4", Some(true)),
        ("UPDATE W SET S = S + 10000", None),
        ("UPDATE W SET S = CASE WHEN ID < 3 THEN S + 1 ELSE 40000 END", None),
        ("UPDATE W SET ID = CASE WHEN ID < 3 THEN ID + 10 ELSE 'x' END", None),
        ("UPDATE W SET V = CASE WHEN ID < 3 THEN 'zz' ELSE 5 END", None),
    ] {
        let before = snapshot(&mut db);
        let out = db.exec(sql);
        let after = snapshot(&mut db);
        rep.count("update_storage_type_probes");
        rep.case(&format!("probe update-type {}", sql), true);
        if out.is_panic() || (out.is_err() && before != after) || (must_be_ok == Some(true) && !out.is_ok()) {
            rep.fail(FailKind::Oracle, None, "UPDATE with a value of another storage type: partially applied, or an in-range integer refused",
                &format!("{}\n--- before ---\n{}--- after => {} ---\n{}", db.log.join(";\n"), before, out.brief(), after));
        }
    }
    // (c) DELETE: row 1 cascades into C1T, then row 2 is restricted by C2T
    let mut db = Db::new();
    db.must("CREATE TABLE T (C0 INT PRIMARY KEY, C1 INT)");
    db.must("CREATE TABLE K1 (ID INT PRIMARY KEY, P INT, FOREIGN KEY (P) REFERENCES T (C0) ON DELETE CASCADE)");
    db.must("CREATE TABLE K2 (ID INT PRIMARY KEY, P INT, FOREIGN KEY (P) REFERENCES T (C0))");
    db.must("INSERT INTO T VALUES (1, 10), (2, 20)");
    db.must("INSERT INTO K1 VALUES (1, 1), (2, 2)");
    db.must("INSERT INTO K2 VALUES (1, 2)");
    check(&mut db, "DELETE FROM T WHERE C0 >= 1", "C11/delete-cascade-then-restrict", rep);
}

/// several unique indexes: an erroring statement leaves the snapshot unchanged; scenario statements
/// that must be rejected are rejected
fn run_ucase(c: &UCase, rep: &mut Report) {
    let mut db = uidx_db(c);
    let mut failed = 0;
    for (prelude, stmt, must_reject) in &c.stmts {
        if !prelude.iter().all(|q| db.exec(q).is_ok()) {
            continue;
        }
        let before = snapshot(&mut db);
        let out = db.exec(stmt);
        let after = snapshot(&mut db);
        rep.count(&format!("{}{}_{}", if c.prefix_len.is_some() { "prefixidx" } else { "uidx" }, c.idx_cols.len(), if stmt.contains("SELECT * FROM S") { "bulk" } else if stmt.starts_with("INSERT") { if c.trigger { "insert_trigger" } else { "insert_values" } } else if stmt.starts_with("UPDATE") { "update" } else { "delete" }));
        if out.is_err() {
            failed += 1;
        }
        if out.is_panic() || (out.is_err() && before != after) || (*must_reject && out.is_ok()) {
            rep.fail(FailKind::Oracle, None, "table with several unique indexes: database changed by a failing statement (or a violating statement accepted)",
                &format!("{}\n--- before ---\n{}--- after => {} ---\n{}", db.log.join(";\n"), before, out.brief(), after));
            break;
        }
    }
    rep.case(&c.name, failed > 0);
}

/// INSERT … SELECT * over staging tables whose columns differ from the destination in nullability /
/// DEFAULT in every combination, a NULL at every row position of the source: the statement either
/// stores all its rows or changes nothing
fn select_insert_nullability_family(rep: &mut Report) {
    let dests = ["A INT", "A INT NOT NULL", "A INT DEFAULT 7 NOT NULL", "A INT DEFAULT 7"];
    let srcs = ["A INT", "A INT NOT NULL", "A INT DEFAULT 3"];
    for (di, dest) in dests.iter().enumerate() {
        for (si, src) in srcs.iter().enumerate() {
            for k in 1..=4usize {
                for null_pos in (0..k).map(Some).chain(std::iter::once(None)) {
                    if null_pos.is_some() && src.contains("NOT NULL") {
                        continue;
                    }
                    for form in ["INSERT INTO D SELECT * FROM SRC", "INSERT INTO D SELECT * FROM SRC WHERE ID > 0", "INSERT INTO D (ID, A, B) SELECT ID, A, B FROM SRC"] {
                        let mut db = Db::new();
                        db.must(&format!("CREATE TABLE D (ID INT PRIMARY KEY, {}, B INT)", dest));
                        db.must(&format!("CREATE TABLE SRC (ID INT PRIMARY KEY, {}, B INT)", src));
                        db.must("INSERT INTO D VALUES (100, 1, 1)");
                        let rows: Vec<String> = (0..k).map(|j| format!("({}, {}, {})", j + 1, if Some(j) == null_pos { "NULL".to_string() } else { (j + 10).to_string() }, j)).collect();
                        db.must(&format!("INSERT INTO SRC VALUES {}", rows.join(", ")));
                        let before = snapshot(&mut db);
                        let n0 = db.scan("D").map(|r| r.len()).unwrap_or(0);
                        let out = db.exec(form);
                        let after = snapshot(&mut db);
                        let n1 = db.scan("D").map(|r| r.len()).unwrap_or(0);
                        rep.count(&format!("select_insert_dest{}_src{}", di, si));
                        rep.count(if out.is_ok() { "select_insert_accepted" } else { "select_insert_rejected" });
                        rep.case(&format!("select-insert D({}) SRC({}) k={} null={:?} {}", dest, src, k, null_pos, form), k >= 2);
                        let bad_null = db.scan("D").unwrap_or_default().iter().any(|r| dest.contains("NOT NULL") && r[1] == vibesql_types::SqlValue::Null);
                        if out.is_panic() || (out.is_err() && before != after) || (out.is_ok() && n1 != n0 + k) || bad_null {
                            rep.fail(FailKind::Oracle, None, "INSERT … SELECT from a staging table with other nullability / DEFAULT: partially applied, rows missing, or NULL stored in a NOT NULL column",
                                &format!("{}\n--- before ---\n{}--- after => {} ---\n{}", db.log.join(";\n"), before, out.brief(), after));
                        }
                    }
                }
            }
        }
    }
}

fn main() {
    // the engine frees a large top-of-heap buffer per query; keep glibc from returning it to the kernel
    // every time (brk thrash made the quick tier many times slower under load)
    unsafe {
        libc::mallopt(libc::M_TRIM_THRESHOLD, 1 << 30);
        libc::mallopt(libc::M_TOP_PAD, 64 << 20);
    }
    let args = Args::parse("C11");
    engine::silence_panics();
    let mut rep = Report::new(&args, "erroring multi-row statement (>= 2 rows) with the failure injected at a chosen row position");
    let mut model = args.model();
    let mut rng = Rng::new(args.seed);
    trigger_probes(&mut rep);
    select_insert_nullability_family(&mut rep);
    for c in uidx_scenarios() {
        run_ucase(&c, &mut rep);
        rep.count("multi_unique_index_scenarios");
    }
    for c in prefix_scenarios() {
        run_ucase(&c, &mut rep);
        rep.count("prefix_index_scenarios");
    }
    for (what, replay) in storage_batch_probe() {
        rep.fail(FailKind::Oracle, None, &format!("{}: a refused row left earlier rows inserted (or was accepted)", what.split(',').next().unwrap_or("")), &format!("{}\n{}", what, replay));
    }
    rep.count("storage_batch_probe");
    rep.case("storage insert_rows_batch atomicity probe", true);
    for k in 0..args.n(120, 8000) {
        let mut r = rng.fork();
        run_ucase(&gen_uidx(&mut r, k), &mut rep);
        run_ucase(&gen_prefix(&mut r, k), &mut rep);
    }
    let rounds = args.n(40, 800);
    for round in 0..rounds {
        let mut r = rng.fork();
        // base content: k0 rows with keys 1..k0, C1 in 1..5, C2 distinct or NULL
        let k0 = 2 + r.below(4) as i64;
        let base: Vec<Vec<Lit>> = (1..=k0).map(|i| li(&[i, r.range(1, 5), if r.chance(1, 4) { -1 } else { 10 + i }])).collect();
        let setup = vec![St::Ins { rows: base.clone(), replace: false }];
        let n = 1 + r.below(6) as usize;
        for pos in 0..n {
            let good = |j: usize| li(&[100 + j as i64, 1 + (j as i64 % 5), 200 + j as i64]);
            let bads: Vec<(&str, Vec<Lit>)> = vec![
                ("dup_pk_existing", li(&[1, 2, 300])),
                ("dup_pk_in_batch", li(&[100, 2, 300])),
                ("null_in_not_null", li(&[150, -1, 300])),
                ("check_false", li(&[150, 0, 300])),
                ("dup_unique", li(&[150, 2, 11 + (k0 - 1)])),
                ("type_error", vec![Lit::I(150), Lit::S("abc".into()), Lit::I(300)]),
                ("arity", li(&[150, 2])),
            ];
            for (what, bad) in bads {
                if what == "dup_pk_in_batch" && pos == 0 {
                    continue;
                }
                if what == "dup_unique" && matches!(base[(k0 - 1) as usize][2], Lit::Null) {
                    continue;
                }
                let rows: Vec<Vec<Lit>> = (0..n).map(|j| if j == pos { bad.clone() } else { good(j) }).collect();
                let bulk_ok = !matches!(what, "type_error" | "arity" | "null_in_not_null");
                let mut variants: Vec<(St, Option<&'static str>)> = vec![
                    (St::Ins { rows: rows.clone(), replace: false }, None),
                ];
                if matches!(what, "null_in_not_null" | "check_false" | "type_error" | "arity") {
                    variants.push((St::Ins { rows: rows.clone(), replace: true }, None));
                    variants.push((St::InsDup { rows: rows.clone(), asg: vec![(1, E::Lit(Lit::I(3)))] }, None));
                }
                if bulk_ok {
                    // row-by-row transfer was repaired (d3142986): a change is a violation
                    variants.push((St::Bulk { rows: rows.clone() }, None));
                }
                if what == "dup_pk_existing" {
                    // the conflicting row is updated to a key that exists: rejected after the earlier rows were written
                    variants.push((St::InsDup { rows: rows.clone(), asg: vec![(0, E::Lit(Lit::I(2)))] }, if pos > 0 { Some("C11/on-duplicate-key-partial") } else { None }));
                }
                for (stmt, sig) in variants {
                    let c = Case { name: format!("r{} n{} p{} {} {}", round, n, pos, what, stmt.kind()), setup: setup.clone(), stmt, sig, fail_pos: pos, nrows: n };
                    rep.count(&format!("fault_{}", what));
                    run(&c, &mut model, &mut rep);
                }
            }
        }
        // UPDATE failing at the first / a later matched row
        let last_c2 = base.iter().rev().find_map(|b| if let Lit::I(v) = b[2] { Some(v) } else { None });
        let mut ups: Vec<(St, &str)> = vec![
            (St::Upd { w: None, asg: vec![(1, E::Lit(Lit::Null))] }, "upd_null"),
            (St::Upd { w: None, asg: vec![(1, E::Bin(Op::Add, Box::new(E::Col(1)), Box::new(E::Lit(Lit::I(-9)))))] }, "upd_check"),
            (St::Upd { w: None, asg: vec![(0, E::Lit(Lit::I(77)))] }, "upd_same_pk_all_rows"),
            (St::Upd { w: Some(E::Bin(Op::Ge, Box::new(E::Col(0)), Box::new(E::Lit(Lit::I(2))))), asg: vec![(0, E::Bin(Op::Add, Box::new(E::Col(0)), Box::new(E::Lit(Lit::I(-1)))))] }, "upd_pk_shift_conflict"),
        ];
        if let Some(v) = last_c2 {
            ups.push((St::Upd { w: None, asg: vec![(2, E::Lit(Lit::I(v)))] }, "upd_unique_conflict_later_row"));
        }
        for (stmt, what) in ups {
            let c = Case { name: format!("r{} {}", round, what), setup: setup.clone(), stmt, sig: None, fail_pos: 0, nrows: k0 as usize };
            rep.count(&format!("fault_{}", what));
            run(&c, &mut model, &mut rep);
        }
        let c = Case { name: format!("r{} bad_column", round), setup: setup.clone(), stmt: St::InsBadColumn { row: li(&[200, 2, 3]) }, sig: None, fail_pos: 0, nrows: 1 };
        rep.count("fault_missing_column");
        run(&c, &mut model, &mut rep);
    }
    rep.assumptions.push("DELETE cannot fail without triggers or foreign keys; its failing forms are the deterministic trigger / cascade probes".into());
    rep.extra.insert("model_requests".into(), serde_json::json!(model.requests));
    std::process::exit(rep.finish());
}
