//! C15 — index structures always mirror table contents.
//!
//! Direct oracle (real engine only): after EVERY statement of a history the public accessors
//! `Table::primary_key_index()`, `Table::unique_indexes()`, `Database::get_index_data(name)`
//! must equal a from-scratch rebuild computed by the harness from `table.scan()`.
//! Correspondence: the same history, translated statement by statement into the storage-level
//! operations of the Lean table state machine (`Model/TableSM.lean`), must produce the same rows
//! and the same index structures after every operation.
mod common;
use common::*;
use vharness::*;

fn v(i: i64) -> Val {
    Val::Int(i)
}

/// deterministic probes: one per maintenance path, including every path that was found broken
fn probes() -> Vec<(&'static str, Case)> {
    let s2 = Schema { kinds: vec![], int_col: vec![true, true], pk: true, uniques: vec![] };
    let s3u = Schema { kinds: vec![], int_col: vec![true, true, false], pk: true, uniques: vec![1] };
    let s_nopk = Schema { kinds: vec![], int_col: vec![true, true], pk: false, uniques: vec![] };
    let base = |extra: Vec<Stmt>| -> Vec<Stmt> {
        let mut v0 = vec![
            Stmt::CreateIndex("qv".into(), vec![1], false),
            Stmt::Insert(vec![vec![v(1), v(1)]]),
            Stmt::Insert(vec![vec![v(2), v(2)]]),
            Stmt::Insert(vec![vec![v(3), v(2)], vec![v(4), Val::Null]]),
        ];
        v0.extend(extra);
        v0
    };
    vec![
        ("delete-where-rebuild", Case { schema: s2.clone(), stmts: base(vec![Stmt::Delete(Pred::Cmp(0, "=", v(1))), Stmt::Insert(vec![vec![v(9), v(2)]]), Stmt::Delete(Pred::Cmp(1, "=", v(2)))]) }),
        ("delete-all-shortcut", Case { schema: s2.clone(), stmts: base(vec![Stmt::Delete(Pred::All), Stmt::Insert(vec![vec![v(5), v(2)]])]) }),
        ("truncate", Case { schema: s2.clone(), stmts: base(vec![Stmt::Truncate, Stmt::Insert(vec![vec![v(5), v(7)]]), Stmt::Insert(vec![vec![v(6), v(2)]])]) }),
        ("replace", Case { schema: s2.clone(), stmts: base(vec![Stmt::Replace(vec![v(1), v(5)]), Stmt::Replace(vec![v(8), v(5)])]) }),
        ("upsert", Case { schema: s2.clone(), stmts: base(vec![Stmt::Upsert(vec![v(2), v(9)], 1, v(9)), Stmt::Upsert(vec![v(7), v(7)], 1, v(0))]) }),
        ("rollback", Case { schema: s2.clone(), stmts: base(vec![Stmt::Begin, Stmt::Delete(Pred::Cmp(0, "=", v(1))), Stmt::Insert(vec![vec![v(7), v(1)]]), Stmt::Rollback, Stmt::Insert(vec![vec![v(8), v(2)]])]) }),
        ("savepoint-undo", Case { schema: s2.clone(), stmts: base(vec![Stmt::Begin, Stmt::Savepoint("s".into()), Stmt::Insert(vec![vec![v(7), v(2)]]), Stmt::RollbackTo("s".into()), Stmt::Insert(vec![vec![v(8), v(2)]]), Stmt::Commit]) }),
        ("update-keys", Case { schema: s3u.clone(), stmts: vec![
            Stmt::CreateIndex("i1".into(), vec![1, 2], false),
            Stmt::CreateIndex("i2".into(), vec![2], false),
            Stmt::Insert(vec![vec![v(1), v(10), Val::Str("a".into())], vec![v(2), Val::Null, Val::Str("a".into())], vec![v(3), v(30), Val::Null]]),
            Stmt::Update(vec![(0, SetE::Add(10))], Pred::All),
            Stmt::Update(vec![(1, SetE::Const(v(20)))], Pred::Cmp(0, "=", v(12))),
            Stmt::Update(vec![(1, SetE::Const(Val::Null))], Pred::Cmp(0, "=", v(11))),
            Stmt::Update(vec![(2, SetE::Const(Val::Str("b".into())))], Pred::Cmp(2, "=", Val::Str("a".into()))),
            Stmt::Update(vec![(1, SetE::Const(v(20)))], Pred::Cmp(0, "=", v(13))),
            Stmt::Delete(Pred::Cmp(0, "=", v(11))),
            Stmt::Update(vec![(0, SetE::Const(v(1)))], Pred::Cmp(0, "=", v(13))),
        ] }),
        ("no-pk-duplicates", Case { schema: s_nopk.clone(), stmts: vec![
            Stmt::CreateIndex("d".into(), vec![0], false),
            Stmt::Insert(vec![vec![v(1), v(1)], vec![v(1), v(1)], vec![v(2), v(1)]]),
            Stmt::Update(vec![(0, SetE::Const(v(2)))], Pred::Cmp(1, "=", v(1))),
            Stmt::Delete(Pred::Cmp(0, "=", v(2))),
            Stmt::Begin, Stmt::Savepoint("a".into()), Stmt::Insert(vec![vec![v(1), v(1)]]), Stmt::Insert(vec![vec![v(1), v(1)]]),
            Stmt::RollbackTo("a".into()), Stmt::Commit,
        ] }),
        // repaired defects 59f86921 / c6ce8972: keys that collide only after normalization
        ("multi-row-insert-duplicate-after-truncation", Case { schema: Schema { kinds: vec![Kind::Plain, Kind::Varchar3, Kind::Char(4)], int_col: vec![true, false, false], pk: true, uniques: vec![] }, stmts: vec![
            Stmt::CreateIndex("u1".into(), vec![1], true),
            Stmt::CreateIndex("u2".into(), vec![2, 1], true),
            Stmt::Insert(vec![vec![v(4), Val::Str("abc".into()), Val::Str("y".into())], vec![v(5), Val::Str("abcd".into()), Val::Str("y".into())]]),
            Stmt::Insert(vec![vec![v(6), Val::Str("xyz".into()), Val::Str("y".into())]]),
            Stmt::Insert(vec![vec![v(7), Val::Str("q".into()), Val::Str("y".into())]]),
            Stmt::Update(vec![(1, SetE::Const(Val::Str("xyzw".into())))], Pred::Cmp(0, "=", v(7))),
            Stmt::Upsert(vec![v(7), Val::Str("q".into()), Val::Str("y".into())], 1, Val::Str("xyzw".into())),
        ] }),
        ("upsert-date-key-normalised", Case { schema: Schema { kinds: vec![Kind::Plain, Kind::Plain, Kind::Date], int_col: vec![true, true, false], pk: true, uniques: vec![] }, stmts: vec![
            Stmt::CreateIndex("u2".into(), vec![2], true),
            Stmt::Insert(vec![vec![v(10), v(4), Val::Str("2024-01-05".into())]]),
            Stmt::Insert(vec![vec![v(11), v(4), Val::Str("2024-02-29".into())]]),
            Stmt::Upsert(vec![v(11), v(5), Val::Str("2024-1-5".into())], 2, Val::Str("2024-1-5".into())),
            Stmt::Update(vec![(2, SetE::Const(Val::Str("2024-1-5".into())))], Pred::Cmp(0, "=", v(11))),
        ] }),
        ("create-drop-index", Case { schema: s2.clone(), stmts: base(vec![Stmt::CreateIndex("z".into(), vec![1, 0], false), Stmt::DropIndex("qv".into()), Stmt::Delete(Pred::Cmp(1, "=", v(2))), Stmt::CreateIndex("qv".into(), vec![0], false)]) }),
    ]
}

/// Two tables linked by a FOREIGN KEY with a referential action: the action changes the CHILD
/// table behind the statement's back, so the child's indexes must be maintained there too.
/// Direct oracle only (the Lean table model has one table): after every statement the index
/// structures of BOTH tables equal a rebuild from their scan().
fn run_fk_case(script: &[String], rep: &mut Report, label: &str) {
    let mut db = Db::new();
    let mut changed = 0u64;
    let mut child_changed_by_parent_stmt = 0u64;
    for (k, sql) in script.iter().enumerate() {
        let before_child = db.scan("CH");
        let before_parent = db.scan("P");
        let out = db.exec(sql);
        if out.is_panic() {
            rep.fail(FailKind::Oracle, None, "engine panicked (foreign-key history)", &format!("{};\n-- {}", script[..=k].join(";\n"), out.brief()));
            break;
        }
        if !out.is_ok() {
            rep.count(&format!("fk_stmt_error_{}", out.err_class().unwrap_or("?")));
        }
        if db.scan("CH") != before_child || db.scan("P") != before_parent {
            changed += 1;
        }
        let upper = sql.to_uppercase();
        if db.scan("CH") != before_child && (upper.starts_with("DELETE FROM P") || upper.starts_with("UPDATE P")) {
            child_changed_by_parent_stmt += 1;
        }
        let mut bad = false;
        for t in ["P", "CH"] {
            let (Some(Ok(obs)), Some(rb)) = (observe(&db, t), rebuild_from_scan(&db, t)) else { continue };
            if obs != rb {
                rep.fail(
                    FailKind::Oracle,
                    None,
                    &format!("index structures of table {} differ from a rebuild after a statement of a foreign-key history ({})", t, label),
                    &format!("{};\n-- table {} accessors:\n{}\n-- rebuild from scan():\n{}", script[..=k].join(";\n"), t, obs.text(), rb.text()),
                );
                bad = true;
            }
        }
        if bad {
            break;
        }
    }
    rep.case(&script.join(";"), changed >= 2 && child_changed_by_parent_stmt >= 1);
    rep.add("fk_child_changes_by_referential_action", child_changed_by_parent_stmt);
    rep.count("fk_cases");
}

fn gen_fk_script(r: &mut Rng) -> Vec<String> {
    let action = *r.pick(&[
        "ON DELETE CASCADE",
        "ON DELETE CASCADE",
        "ON DELETE SET NULL",
        "ON DELETE CASCADE ON UPDATE CASCADE",
        "ON DELETE SET NULL ON UPDATE CASCADE",
    ]);
    let mut s = vec![
        "CREATE TABLE p (id INT PRIMARY KEY, v INT)".to_string(),
        format!("CREATE TABLE ch (id INT PRIMARY KEY, pid INT, w INT, FOREIGN KEY (pid) REFERENCES p(id) {})", action),
    ];
    let idx = ["CREATE INDEX chp ON ch (pid)", "CREATE INDEX chw ON ch (w)", "CREATE INDEX chpw ON ch (pid, w)", "CREATE UNIQUE INDEX chu ON ch (id, w)", "CREATE INDEX pv ON p (v)"];
    let mut pending: Vec<&str> = idx.iter().filter(|_| r.chance(2, 3)).cloned().collect();
    if pending.is_empty() {
        pending.push(idx[0]);
    }
    for id in 1..=r.range(2, 5) {
        s.push(format!("INSERT INTO p VALUES ({}, {})", id, r.range(0, 3)));
    }
    let mut next_c = 100;
    let n = r.range(8, 22);
    for i in 0..n {
        if !pending.is_empty() && (i < 2 || r.chance(1, 5)) {
            s.push(pending.remove(0).to_string());
            continue;
        }
        let w = r.below(100);
        let st = if w < 20 {
            format!("INSERT INTO p VALUES ({}, {})", r.range(1, 6), r.range(0, 3))
        } else if w < 50 {
            next_c += 1;
            let pid = if r.chance(1, 8) { "NULL".to_string() } else { r.range(1, 6).to_string() };
            format!("INSERT INTO ch VALUES ({}, {}, {})", next_c, pid, r.range(0, 3))
        } else if w < 65 {
            format!("DELETE FROM p WHERE id = {}", r.range(1, 6))
        } else if w < 72 {
            format!("DELETE FROM p WHERE v = {}", r.range(0, 3))
        } else if w < 80 {
            format!("UPDATE p SET id = id + 10 WHERE id = {}", r.range(1, 6))
        } else if w < 86 {
            format!("UPDATE ch SET w = {} WHERE pid = {}", r.range(0, 3), r.range(1, 6))
        } else if w < 90 {
            format!("DELETE FROM ch WHERE w = {}", r.range(0, 3))
        } else if w < 93 {
            "BEGIN".to_string()
        } else if w < 95 {
            "SAVEPOINT a".to_string()
        } else if w < 97 {
            "ROLLBACK TO SAVEPOINT a".to_string()
        } else if w < 99 {
            "ROLLBACK".to_string()
        } else {
            "COMMIT".to_string()
        };
        s.push(st);
    }
    s
}

fn fk_probes() -> Vec<(&'static str, Vec<String>)> {
    let base = |action: &str, tail: &[&str]| -> Vec<String> {
        let mut v = vec![
            "CREATE TABLE p (id INT PRIMARY KEY, v INT)".to_string(),
            format!("CREATE TABLE ch (id INT PRIMARY KEY, pid INT, w INT, FOREIGN KEY (pid) REFERENCES p(id) {})", action),
            "CREATE INDEX chp ON ch (pid)".into(),
            "CREATE INDEX chw ON ch (w)".into(),
            "CREATE INDEX pv ON p (v)".into(),
            "INSERT INTO p VALUES (1, 1)".into(),
            "INSERT INTO p VALUES (2, 2)".into(),
            "INSERT INTO ch VALUES (10, 1, 5)".into(),
            "INSERT INTO ch VALUES (11, 2, 5)".into(),
            "INSERT INTO ch VALUES (12, 1, 6)".into(),
        ];
        v.extend(tail.iter().map(|s| s.to_string()));
        v
    };
    vec![
        ("on-delete-cascade", base("ON DELETE CASCADE", &["DELETE FROM p WHERE id = 1", "INSERT INTO ch VALUES (13, 2, 6)", "DELETE FROM p WHERE v = 2"])),
        ("on-delete-set-null", base("ON DELETE SET NULL", &["DELETE FROM p WHERE id = 1", "INSERT INTO ch VALUES (13, 2, 6)"])),
        ("on-update-cascade", base("ON DELETE CASCADE ON UPDATE CASCADE", &["UPDATE p SET id = 7 WHERE id = 1", "DELETE FROM p WHERE id = 7"])),
        ("cascade-inside-savepoint", base("ON DELETE CASCADE", &["BEGIN", "SAVEPOINT a", "DELETE FROM p WHERE id = 1", "ROLLBACK TO SAVEPOINT a", "DELETE FROM p WHERE id = 2", "ROLLBACK"])),
    ]
}

fn main() {
    engine::silence_panics();
    let args = Args::parse("C15");
    let mut rep = Report::new(
        &args,
        "case = one table (optional PRIMARY KEY, UNIQUE columns) + a history of DML / index DDL / transaction / savepoint \
         statements; after every statement all index structures are compared with a rebuild from scan() and with the Lean model. \
         non-trivial = at least two successful statements changed the rows while an index existed; distinct by (schema, history)",
    );
    rep.assumptions.push("user-defined indexes use the in-memory backend (tables far below DISK_BACKED_THRESHOLD); the disk-backed backend is C16/C17".into());
    rep.assumptions.push("INTEGER / VARCHAR / NULL values, no prefix indexes; key normalisation of numeric types is compared by value".into());
    rep.assumptions.push("row selection of UPDATE/DELETE is predicted by the harness for simple comparisons; a history whose selection the harness cannot explain is still checked by the direct oracle but no longer against the model".into());
    rep.assumptions.push("load from file is not part of this check (C18 owns the reload of index data)".into());
    let mut model = args.model();
    for (name, c) in probes() {
        run_case(&c, &mut model, &mut rep, name);
        rep.count("probe_cases");
    }
    for (name, sc) in fk_probes() {
        run_fk_case(&sc, &mut rep, name);
        rep.count("probe_cases");
    }
    let mut rng = Rng::new(args.seed);
    let n_fk = args.n(150, 6000);
    for _ in 0..n_fk {
        let mut r = rng.fork();
        let sc = gen_fk_script(&mut r);
        run_fk_case(&sc, &mut rep, "generated");
    }
    let n = args.n(700, 30000);
    let cfg = GenCfg { txn_weight: 10, savepoint_weight: 10, index_ddl_in_txn: true, len_lo: 6, len_hi: 24 };
    for i in 0..n {
        let mut r = rng.fork();
        let c = gen_case(&mut r, &cfg);
        if i < 3 {
            rep.sample(serde_json::json!({"schema": c.schema.create_sql(), "history": c.stmts.iter().map(|s| s.sql()).collect::<Vec<_>>()}));
        }
        run_case(&c, &mut model, &mut rep, "generated");
    }
    std::process::exit(rep.finish());
}
