import VibeProof.Model.Text
import VibeProof.Lemmas.Text
import VibeProof.Lemmas.Bind
/-
C30 — Python DB-API parameter binding is faithful.

 T1  quoting: a bound string is read back by the lexer as exactly that string;
 T2  structure preservation (full, for the repaired `substitute_placeholders`): the pieces of the
     bound text are the pieces of the SQL text with each placeholder replaced by the pieces of its
     value — values never alter the statement's structure, and a `?` inside a literal, a delimited
     identifier or a comment is not a placeholder;
 T3  history independence: false as coded — the statement cache is keyed by the SQL text before
     binding, so a second call with other values runs the first call's statement; proved for the
     design that keys the cache by the bound text.
-/
namespace VibeProof.C30
open VibeProof.Text VibeProof.Text.Bind

/-! ## T1 -/

theorem C30_quote_roundtrip (s r : Str) (hr : ∀ c r', r = c :: r' → c ≠ '\'') :
    lexString (renderVal (.str s) ++ r) = .ok (s, r) :=
  lexString_renderStr s r hr

example : lexString (renderVal (.str "x' OR '1'='1".toList) ++ " AND b = 2".toList)
    = .ok ("x' OR '1'='1".toList, " AND b = 2".toList) :=
  C30_quote_roundtrip _ _ (by intro c r' h; injection h with h1 _; subst h1; decide)

/-- the same at the scanner's level, for every string — U+0000 and every other code point
included (the model's end of input is the end of the list, as the lexer's `is_eof()` is a position
test; no character value is reserved as a sentinel): a bound string is exactly one string piece -/
theorem C30_scan_quote (s : Str) : scan (renderVal (.str s)) = .ok [.str s] := by
  have := scanGo_str false s [] (by intro c T' h; cases h)
  simpa [scan, scanWith, renderVal, scanGo, finishMode, Except.map] using this

example : scan (renderVal (.str ['x', Char.ofNat 0, 'y', '\'', Char.ofNat 0])) =
    .ok [.str ['x', Char.ofNat 0, 'y', '\'', Char.ofNat 0]] := C30_scan_quote _

/-! ## T2 -/

theorem scanQ_hole (m : Mode) (cs : Str) (hm : codeMode m = true) :
    scanGo true m ('?' :: cs) =
      (flush m).bind (fun f => (scanGo true .norm cs).map (fun rest => f ++ Piece.hole :: rest)) := by
  have hl : leaves m '?' = true := by
    cases m with
    | qq q acc =>
      simp only [codeMode, decide_eq_true_eq] at hm
      simp only [leaves, decide_eq_true_eq]
      exact fun h => hm h.symm
    | norm => rfl
    | dash => decide
    | comment => rfl
    | inq q acc => rfl
  rw [scanGo_leave true m '?' cs hm hl, scanGo_cons]
  simp only [stepMode, normStep, show isQuote '?' = false by decide, show ('?' = '-') = False by decide,
    show isWs '?' = false by decide, Bool.false_eq_true, if_false, Bool.true_and, decide_true, if_true,
    Except.bind]
  cases flush m with
  | error e => rfl
  | ok f => cases scanGo true .norm cs <;> simp [Except.map]

/-- a character that is copied: both scanners make the same step, and the substitution scanner
moves to the mode the lexer moves to -/
theorem copy_step (c : Char) (cs : Str) (m : Mode) (vs : List PVal)
    (hstep : stepMode true m c = stepMode false m c)
    (ih : ∀ m', modeOk m' → countGo m' cs = vs.length →
      scanGo false m' (substGo m' cs vs) = (scanGo true m' cs).map (fill · vs))
    (hok : modeOk m) (hcount : countGo (nextMode m c) cs = vs.length) :
    scanGo false m (c :: substGo (nextMode m c) cs vs) =
      (scanGo true m (c :: cs)).map (fill · vs) := by
  rw [scanGo_cons, scanGo_cons, hstep]
  cases hs : stepMode false m c with
  | error e => rfl
  | ok pm =>
    obtain ⟨ps, m'⟩ := pm
    have hm' : m' = nextMode m c := stepMode_mode false m c ps m' hs
    subst hm'
    have hn := stepMode_false_noHoles m c ps _ hs
    simp only [Except.bind]
    rw [ih _ (modeOk_next m c hok) hcount]
    cases scanGo true (nextMode m c) cs with
    | error e => rfl
    | ok rest => simp [Except.map, fill_noHoles_append ps rest vs hn]

theorem structure_gen (sql : Str) : ∀ (m : Mode) (vs : List PVal), modeOk m →
    countGo m sql = vs.length → (∀ v ∈ vs, v.wf = true) →
    scanGo false m (substGo m sql vs) = (scanGo true m sql).map (fill · vs) := by
  induction sql with
  | nil =>
    intro m vs _ hcount _
    have hvs : vs = [] := by
      cases vs with
      | nil => rfl
      | cons v vs' => simp [countGo] at hcount
    subst hvs
    simp only [substGo, scanGo]
    cases hf : finishMode m with
    | error e => rfl
    | ok ps => simp [Except.map, fill_noHoles ps [] (finishMode_noHoles m ps hf)]
  | cons c cs ih =>
    intro m vs hok hcount hwf
    by_cases hc : c = '?'
    · subst hc
      by_cases hal : placeholderAllowed m = true
      · -- a placeholder: the value's literal with a blank on either side
        simp only [countGo, hal, Bool.and_true, decide_true, if_true] at hcount
        cases vs with
        | nil => simp at hcount
        | cons v vs' =>
          have hcount' : countGo .norm cs = vs'.length := by simpa using hcount
          have hm := allowed_codeMode m hok hal
          have ih' := ih .norm vs' trivial hcount' (fun v' h => hwf v' (by simp [h]))
          have hval := scanGo_val false v (hwf v (by simp)) (' ' :: substGo .norm cs vs')
            (by intro _ c T' e; injection e with e1 _; subst e1; decide)
          simp only [substGo, hal, Bool.and_true, decide_true, if_true]
          rw [scanGo_leave false m ' ' _ hm (leaves_space m hok), scanGo_space, hval, scanGo_space, ih',
            scanQ_hole m cs hm]
          cases hf : flush m with
          | error e => rfl
          | ok f =>
            have hnf := flush_noHoles m f hf
            cases scanGo true .norm cs with
            | error e => rfl
            | ok rest =>
              simp only [Except.bind, Except.map]
              rw [fill_noHoles_append f _ _ hnf]
              simp [fill]
      · -- a `?` inside a literal, a delimited identifier or a comment is copied
        have hal' : placeholderAllowed m = false := by simpa using hal
        simp only [countGo, hal', Bool.and_false, Bool.false_eq_true, if_false] at hcount
        simp only [substGo, hal', Bool.and_false, Bool.false_eq_true, if_false]
        exact copy_step '?' cs m vs (stepMode_q_inert m hal') (fun m' h1 h2 => ih m' vs h1 h2 hwf) hok hcount
    · have hcq : (decide (c = '?') && placeholderAllowed m) = false := by simp [hc]
      simp only [countGo, hcq, Bool.false_eq_true, if_false] at hcount
      simp only [substGo, hcq, Bool.false_eq_true, if_false]
      exact copy_step c cs m vs (stepMode_noQ m c hc) (fun m' h1 h2 => ih m' vs h1 h2 hwf) hok hcount

/-- **T2 (full).** Whenever the number of values equals the number of placeholders (which
`bind_parameters` checks) the pieces of the bound text are the pieces of the SQL text with every
placeholder replaced by the pieces of its value: a value can neither end a literal, nor start a
comment, nor merge with a neighbouring token, and a `?` inside a literal, a delimited identifier
or a comment stays what it is. -/
theorem C30_structure (sql : Str) (vs : List PVal) (hcount : countQ sql = vs.length)
    (hwf : ∀ v ∈ vs, v.wf = true) :
    scan (substitute sql vs) = (scanQ sql).map (fill · vs) :=
  structure_gen sql .norm vs trivial hcount hwf

/-- non-vacuity: a hostile string and a negative number bound into an INSERT -/
example : scan (substitute "INSERT INTO t VALUES (?, ?)".toList
      [.str "x'); DROP TABLE t; --".toList, .num true ['5']])
    = (scanQ "INSERT INTO t VALUES (?, ?)".toList).map
        (fill · [.str "x'); DROP TABLE t; --".toList, .num true ['5']]) :=
  C30_structure _ _ (by decide +kernel) (by decide +kernel)

/-- the situations that used to go wrong: `?` inside a literal is not a placeholder, a negative
number after a minus sign stays a number, a string before a quote stays a literal of its own -/
theorem C30_placeholder_in_literal :
    bind "SELECT '?', ?".toList (some [.num false ['2']]) = .ok "SELECT '?',  2 ".toList := by
  decide +kernel

theorem C30_negative_after_minus :
    scan (substitute "SELECT 7-?".toList [.num true ['5']]) = scan "SELECT 7 - -5".toList := by
  decide +kernel

theorem C30_string_before_quote :
    scan (substitute "SELECT ?'b'".toList [.str ['a']]) = scan "SELECT 'a' 'b'".toList := by
  decide +kernel

/-! ## T3 -/

/-- what a call is meant to run: the parse of its own bound text -/
def intended {σ : Type} (parse : Str → Option σ) (sql : Str) (ps : Option (List PVal)) : Except BErr σ :=
  match bind sql ps with
  | .ok text => (match parse text with | some s => .ok s | none => .error .parse)
  | .error e => .error e

/-- the full statement: what `execute` runs depends only on this call's SQL text and values,
whatever the earlier calls on the cursor were (the cache holds statements of earlier calls) -/
def C30_full : Prop :=
  ∀ (σ : Type) (parse : Str → Option σ) (cur : Cursor σ) (sql : Str) (ps : Option (List PVal)),
    (∀ k s, (k, s) ∈ cur.cache → ∃ ps', (intended parse k ps') = .ok s) →
    (prepare parse cur sql ps).map (·.1) = intended parse sql ps

def sqlIns : Str := "INSERT INTO t VALUES (?)".toList
def cacheAfterFirst : Cursor Str := ⟨[(sqlIns, "INSERT INTO t VALUES ( 1 )".toList)]⟩

/-- **T3 counterexample.** Two calls with the same text and different values: the second call
runs the statement of the first (the parser is the identity here, so a statement is its text). -/
theorem C30_history_counterexample :
    prepare some ⟨[]⟩ sqlIns (some [.num false ['1']]) = .ok ("INSERT INTO t VALUES ( 1 )".toList, cacheAfterFirst) ∧
    (prepare some cacheAfterFirst sqlIns (some [.num false ['2']])).map (·.1) = .ok "INSERT INTO t VALUES ( 1 )".toList ∧
    intended some sqlIns (some [.num false ['2']]) = .ok "INSERT INTO t VALUES ( 2 )".toList := by
  refine ⟨?_, ?_, ?_⟩ <;> decide +kernel

/-- as coded, a wrong number of parameters is not even noticed on a cache hit -/
theorem C30_count_unchecked_on_hit :
    (prepare (σ := Str) some ⟨[("SELECT ?".toList, "SELECT 1".toList)]⟩ "SELECT ?".toList (some [])).map (·.1)
      = .ok "SELECT 1".toList := by decide +kernel

/-- invariant of the bound-key design: every cached statement is the parse of its key -/
def CacheOk {σ : Type} (parse : Str → Option σ) (cur : Cursor σ) : Prop :=
  ∀ k s, lookup k cur.cache = some s → parse k = some s

theorem cacheOk_empty {σ : Type} (parse : Str → Option σ) : CacheOk parse ⟨[]⟩ := by
  intro k s h; simp [lookup] at h

/-- **T3 for the bound-key design.** With the cache keyed by the text that is parsed, every call
runs exactly the parse of *its own* bound text whatever was executed before, and the invariant is
kept (so the statement holds along every history of calls and cache clears). -/
theorem C30_history_independent_boundKey {σ : Type} (parse : Str → Option σ) (cur : Cursor σ)
    (hc : CacheOk parse cur) (sql : Str) (ps : Option (List PVal)) :
    (∀ text, bind sql ps = .ok text →
      (∀ s, parse text = some s → ∃ cur', prepareBoundKey parse cur sql ps = .ok (s, cur') ∧ CacheOk parse cur') ∧
      (parse text = none → prepareBoundKey parse cur sql ps = .error .parse)) ∧
    (∀ e, bind sql ps = .error e → prepareBoundKey parse cur sql ps = .error e) := by
  refine ⟨?_, ?_⟩
  · intro text hb
    refine ⟨?_, ?_⟩
    · intro s hp
      cases hl : lookup text cur.cache with
      | some s' =>
        have : s' = s := by
          have := hc text s' hl
          rw [hp] at this
          exact (Option.some.inj this).symm
        subst this
        exact ⟨cur, by simp [prepareBoundKey, hb, hl], hc⟩
      | none =>
        refine ⟨⟨(text, s) :: cur.cache⟩, by simp [prepareBoundKey, hb, hl, hp], ?_⟩
        intro k s' hk
        simp only [lookup] at hk
        split at hk
        · rename_i heq
          injection hk with hk
          subst hk; subst heq; exact hp
        · exact hc k s' hk
    · intro hp
      cases hl : lookup text cur.cache with
      | some s' =>
        have := hc text s' hl
        rw [hp] at this
        cases this
      | none => simp [prepareBoundKey, hb, hl, hp]
  · intro e hb
    simp [prepareBoundKey, hb]

/-- the full statement is false of the code as it is -/
theorem C30_full_counterexample : ¬ C30_full := by
  intro h
  have h2 := h Str some cacheAfterFirst sqlIns (some [.num false ['2']])
    (by
      intro k s hk
      simp only [cacheAfterFirst, List.mem_singleton, Prod.mk.injEq] at hk
      obtain ⟨h1, h2⟩ := hk
      subst h1; subst h2
      exact ⟨some [.num false ['1']], by decide +kernel⟩)
  rw [C30_history_counterexample.2.1, C30_history_counterexample.2.2] at h2
  revert h2
  decide +kernel

/-! ## values -/

/-- a Python bool binds as TRUE / FALSE; NaN and the infinities are refused -/
theorem C30_bool_binds_as_bool : (pyToSql (.bool true)).map renderVal = some "TRUE".toList ∧
    (pyToSql (.bool false)).map renderVal = some "FALSE".toList ∧ pyToSql .nonFinite = none := by
  decide +kernel

/-- **Read-back of integers.** Every integer of the column's range — both endpoints included —
bound through `?` into a SMALLINT / INTEGER / BIGINT column is stored as itself.  (i64::MIN takes
the `Numeric` path: `-9223372036854775808` is a minus sign applied to a literal too large for an
i64, and the range test of `coerce_value` must include the lower bound.) -/
theorem C30_int_roundtrip (ty : IntTy) (n : Int) (hlo : ty.min ≤ n) (hhi : n ≤ ty.max) :
    bindReadInt ty n = .ok n := by
  cases ty <;> simp only [IntTy.min, IntTy.max] at hlo hhi <;>
    simp only [bindReadInt, parseBound] <;> split <;> simp only [coerceInt] <;>
    first
      | rfl
      | (rw [if_pos (by omega)]; try (rw [if_pos (by omega)]))
      | omega

/-- outside the range of a SMALLINT column the value is refused, not wrapped -/
theorem C30_smallint_out_of_range (n : Int) (h : n < -32768 ∨ 32767 < n)
    (h64 : -9223372036854775808 ≤ n ∧ n ≤ 9223372036854775807) :
    bindReadInt .smallint n = .error .outOfRange := by
  simp only [bindReadInt, parseBound]
  split <;> simp only [coerceInt] <;> rw [if_neg (by omega)]

example : bindReadInt .bigint (-9223372036854775808) = .ok (-9223372036854775808) :=
  C30_int_roundtrip _ _ (by decide) (by decide)

end VibeProof.C30
