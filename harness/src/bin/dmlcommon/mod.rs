//! Shared by c10 / c11: one constrained table T(C0..Cn-1 INT), statements, SQL and model
//! renderings, real-state extraction, direct constraint oracle.
#![allow(dead_code)]
use vharness::qast::{Lit, Op, E};
use vharness::*;
use vibesql_types::SqlValue;

#[derive(Clone, Debug)]
pub struct TSchema {
    pub ncols: usize,
    pub not_null: Vec<usize>,
    pub pk: Option<Vec<usize>>,
    pub uniq: Vec<Vec<usize>>,
    pub checks: Vec<E>,
}

#[derive(Clone, Debug)]
pub enum St {
    Ins { rows: Vec<Vec<Lit>>, replace: bool },
    InsDup { rows: Vec<Vec<Lit>>, asg: Vec<(usize, E)> },
    Bulk { rows: Vec<Vec<Lit>> },
    Upd { w: Option<E>, asg: Vec<(usize, E)> },
    Del { w: Option<E> },
    Trunc,
    AddPk(Vec<usize>),
    AddUniq(Vec<usize>),
    AddCheck(E),
    /// INSERT naming a column that does not exist (C11)
    InsBadColumn { row: Vec<Lit> },
}

pub fn names(n: usize) -> Vec<String> {
    (0..n).map(|i| format!("C{}", i)).collect()
}
fn cols(c: &[usize]) -> String {
    c.iter().map(|i| format!("C{}", i)).collect::<Vec<_>>().join(", ")
}
fn nats(tag: &str, c: &[usize]) -> Sx {
    let mut v = vec![Sx::a(tag)];
    v.extend(c.iter().map(|i| Sx::int(*i as i128)));
    Sx::List(v)
}
fn rows_sql(rows: &[Vec<Lit>]) -> String {
    rows.iter().map(|r| format!("({})", r.iter().map(|v| v.sql()).collect::<Vec<_>>().join(", "))).collect::<Vec<_>>().join(", ")
}
fn rows_sx(rows: &[Vec<Lit>]) -> Sx {
    let mut v = vec![Sx::a("rows")];
    v.extend(rows.iter().map(|r| Sx::List(r.iter().map(|x| Sx::a(x.proto())).collect())));
    Sx::List(v)
}
fn asg_sx(asg: &[(usize, E)]) -> Sx {
    let mut v = vec![Sx::a("asg")];
    v.extend(asg.iter().map(|(c, e)| Sx::List(vec![Sx::int(*c as i128), e.sx()])));
    Sx::List(v)
}

impl TSchema {
    pub fn create_sql(&self, table: &str, with_constraints: bool) -> String {
        let mut parts: Vec<String> = (0..self.ncols)
            .map(|i| format!("C{} INT{}", i, if self.not_null.contains(&i) { " NOT NULL" } else { "" }))
            .collect();
        if with_constraints {
            if let Some(pk) = &self.pk {
                parts.push(format!("PRIMARY KEY ({})", cols(pk)));
            }
            for u in &self.uniq {
                parts.push(format!("UNIQUE ({})", cols(u)));
            }
            for c in &self.checks {
                parts.push(format!("CHECK ({})", c.sql(&names(self.ncols))));
            }
        }
        format!("CREATE TABLE {} ({})", table, parts.join(", "))
    }
    pub fn sx(&self) -> Sx {
        let mut uq = vec![Sx::a("uniq")];
        uq.extend(self.uniq.iter().map(|u| Sx::List(u.iter().map(|i| Sx::int(*i as i128)).collect())));
        let mut ck = vec![Sx::a("checks")];
        ck.extend(self.checks.iter().map(|c| c.sx()));
        Sx::List(vec![
            Sx::a("schema"),
            Sx::int(self.ncols as i128),
            nats("nn", &self.not_null),
            match &self.pk {
                Some(p) => nats("pk", p),
                None => Sx::List(vec![Sx::a("nopk")]),
            },
            Sx::List(uq),
            Sx::List(ck),
        ])
    }
}

impl St {
    /// SQL statements to run (the last one is the statement itself; earlier ones are setup)
    pub fn sql(&self, n: usize) -> Vec<String> {
        let nm = names(n);
        let mut nm2 = nm.clone();
        nm2.extend((0..n).map(|i| format!("VALUES(C{})", i)));
        let w = |w: &Option<E>| w.as_ref().map(|e| format!(" WHERE {}", e.sql(&nm))).unwrap_or_default();
        match self {
            St::Ins { rows, replace } => {
                vec![format!("{} INTO T VALUES {}", if *replace { "REPLACE" } else { "INSERT" }, rows_sql(rows))]
            }
            St::InsDup { rows, asg } => vec![format!(
                "INSERT INTO T VALUES {} ON DUPLICATE KEY UPDATE {}",
                rows_sql(rows),
                asg.iter().map(|(c, e)| format!("C{} = {}", c, e.sql(&nm2))).collect::<Vec<_>>().join(", ")
            )],
            St::Bulk { rows } => {
                let mut v = vec!["DELETE FROM S".to_string()];
                if !rows.is_empty() {
                    v.push(format!("INSERT INTO S VALUES {}", rows_sql(rows)));
                }
                v.push("INSERT INTO T SELECT * FROM S".into());
                v
            }
            St::Upd { w: wh, asg } => vec![format!(
                "UPDATE T SET {}{}",
                asg.iter().map(|(c, e)| format!("C{} = {}", c, e.sql(&nm))).collect::<Vec<_>>().join(", "),
                w(wh)
            )],
            St::Del { w: wh } => vec![format!("DELETE FROM T{}", w(wh))],
            St::Trunc => vec!["TRUNCATE TABLE T".into()],
            St::AddPk(c) => vec![format!("ALTER TABLE T ADD CONSTRAINT APK PRIMARY KEY ({})", cols(c))],
            St::AddUniq(c) => vec![format!("ALTER TABLE T ADD CONSTRAINT AUQ{} UNIQUE ({})", c.iter().map(|i| i.to_string()).collect::<String>(), cols(c))],
            St::AddCheck(e) => {
                use std::sync::atomic::{AtomicUsize, Ordering};
                static K: AtomicUsize = AtomicUsize::new(0);
                vec![format!("ALTER TABLE T ADD CONSTRAINT ACK{} CHECK ({})", K.fetch_add(1, Ordering::Relaxed), e.sql(&nm))]
            }
            St::InsBadColumn { row } => vec![format!(
                "INSERT INTO T ({}, ZZ) VALUES ({})",
                nm[..row.len() - 1].join(", "),
                row.iter().map(|v| v.sql()).collect::<Vec<_>>().join(", ")
            )],
        }
    }
    pub fn sx(&self) -> Sx {
        let l = Sx::List;
        let wsx = |w: &Option<E>| w.as_ref().map(|e| e.sx()).unwrap_or(Sx::a("all"));
        match self {
            St::Ins { rows, replace } => l(vec![Sx::a("ins"), Sx::a(if *replace { "replace" } else { "plain" }), rows_sx(rows)]),
            St::InsDup { rows, asg } => l(vec![Sx::a("insdup"), rows_sx(rows), asg_sx(asg)]),
            St::Bulk { rows } => l(vec![Sx::a("bulk"), rows_sx(rows)]),
            St::Upd { w, asg } => l(vec![Sx::a("upd"), wsx(w), asg_sx(asg)]),
            St::Del { w } => l(vec![Sx::a("del"), wsx(w)]),
            St::Trunc => l(vec![Sx::a("trunc")]),
            St::AddPk(c) => nats("addpk", c),
            St::AddUniq(c) => nats("adduniq", c),
            St::AddCheck(e) => l(vec![Sx::a("addcheck"), e.sx()]),
            St::InsBadColumn { .. } => l(vec![Sx::a("badcolumn")]),
        }
    }
    pub fn kind(&self) -> &'static str {
        match self {
            St::Ins { replace: false, rows } => if rows.len() > 1 { "insert_multi" } else { "insert_single" },
            St::Ins { replace: true, .. } => "replace",
            St::InsDup { .. } => "on_duplicate_key",
            St::Bulk { .. } => "bulk_insert_select",
            St::Upd { .. } => "update",
            St::Del { .. } => "delete",
            St::Trunc => "truncate",
            St::AddPk(_) => "alter_add_pk",
            St::AddUniq(_) => "alter_add_unique",
            St::AddCheck(_) => "alter_add_check",
            St::InsBadColumn { .. } => "insert_bad_column",
        }
    }
}

/// `ok <n>` / `err <class>` at the granularity the model uses
pub fn out_class(o: &Out) -> String {
    match o {
        Out::Count(n) => format!("ok {}", n),
        Out::Rows(_) => "ok rows".into(),
        Out::Panic(m) => format!("panic {}", m),
        Out::Err { class, msg } => {
            let c = if class == "ConstraintViolation" || msg.contains("NOT NULL constraint") || msg.contains("UNIQUE constraint") {
                "constraint"
            } else if msg.contains("Type mismatch") {
                "type"
            } else if msg.contains("column count mismatch") {
                "arity"
            } else if class == "ColumnNotFound" {
                "column"
            } else {
                "other"
            };
            format!("err {}", c)
        }
    }
}

fn keyset(m: &std::collections::HashMap<Vec<SqlValue>, usize>) -> Vec<String> {
    let mut v: Vec<String> = m.keys().map(|k| canon::row(k)).collect();
    v.sort();
    v.dedup();
    v
}

/// (rows in storage order, key sets of pk index + unique indexes, append mode)
pub fn real_state(db: &Db, table: &str) -> (Vec<Vec<SqlValue>>, Vec<Vec<String>>, bool) {
    let rows = db.scan(table).unwrap_or_default();
    let t = db.db.get_table(table);
    let mut idx = vec![];
    let mut am = false;
    if let Some(t) = t {
        if let Some(p) = t.primary_key_index() {
            idx.push(keyset(p));
        }
        for u in t.unique_indexes() {
            idx.push(keyset(u));
        }
        am = t.is_in_append_mode();
    }
    (rows, idx, am)
}

/// parse one `R` of the model reply → (class, rows canon seq, key sets, active)
pub fn model_state(r: &Sx) -> Option<(String, String, Vec<Vec<String>>, bool)> {
    let v = r.as_list()?;
    let o = v.first()?.as_list()?;
    let class = format!("{} {}", o.first()?.as_atom()?, o.get(1)?.as_atom()?);
    let rows = v.get(1)?.as_list()?;
    let rows_s = format!("({})", rows[1..].iter().map(|x| x.to_string()).collect::<Vec<_>>().join(" "));
    let mut idx = vec![];
    for u in &v.get(2)?.as_list()?[1..] {
        let keys = u.as_list()?.get(2)?.as_list()?;
        let mut ks: Vec<String> = keys.iter().map(|k| k.to_string()).collect();
        ks.sort();
        ks.dedup();
        idx.push(ks);
    }
    let active = v.get(3)?.as_atom()? == "1";
    Some((class, rows_s, idx, active))
}

fn ival(v: &SqlValue) -> Option<Option<i64>> {
    match v {
        SqlValue::Null => Some(None),
        SqlValue::Integer(i) | SqlValue::Bigint(i) => Some(Some(*i)),
        SqlValue::Smallint(i) => Some(Some(*i as i64)),
        _ => None,
    }
}

/// three-valued evaluation of the small CHECK language (independent of engine and model):
/// Some(Some(b)) = boolean, Some(None) = NULL, None = not evaluable here
pub fn eval_check(e: &E, row: &[SqlValue]) -> Option<Option<bool>> {
    fn num(e: &E, row: &[SqlValue]) -> Option<Option<i64>> {
        match e {
            E::Col(i) => ival(row.get(*i)?),
            E::Lit(Lit::I(i)) => Some(Some(*i)),
            E::Lit(Lit::Null) => Some(None),
            E::Bin(Op::Add, a, b) => Some(match (num(a, row)?, num(b, row)?) {
                (Some(x), Some(y)) => Some(x + y),
                _ => None,
            }),
            _ => None,
        }
    }
    match e {
        E::Bin(op, a, b) => {
            let (x, y) = (num(a, row)?, num(b, row)?);
            Some(match (x, y) {
                (Some(x), Some(y)) => Some(match op {
                    Op::Eq => x == y,
                    Op::Ne => x != y,
                    Op::Lt => x < y,
                    Op::Le => x <= y,
                    Op::Gt => x > y,
                    Op::Ge => x >= y,
                    _ => return None,
                }),
                _ => None,
            })
        }
        _ => None,
    }
}

/// Direct oracle: every declared constraint checked on the stored rows, and the hash indexes
/// against the rows.  Returns the list of violated constraints (empty = fine).
pub fn check_constraints(
    rows: &[Vec<SqlValue>],
    idx: &[Vec<String>],
    not_null: &[usize],
    pk: &Option<Vec<usize>>,
    uniq: &[Vec<usize>],
    checks: &[E],
) -> Vec<String> {
    let mut bad = vec![];
    let key = |r: &Vec<SqlValue>, c: &Vec<usize>| -> Vec<SqlValue> { c.iter().map(|i| r[*i].clone()).collect() };
    for c in not_null {
        if rows.iter().any(|r| r[*c] == SqlValue::Null) {
            bad.push(format!("NOT NULL C{} holds a NULL", c));
        }
    }
    let mut expected_idx: Vec<Vec<String>> = vec![];
    if let Some(p) = pk {
        let mut ks: Vec<String> = rows.iter().map(|r| canon::row(&key(r, p))).collect();
        ks.sort();
        let n = ks.len();
        ks.dedup();
        if ks.len() != n {
            bad.push(format!("PRIMARY KEY ({:?}) has duplicate keys", p));
        }
        expected_idx.push(ks);
    }
    for u in uniq {
        let mut ks: Vec<String> =
            rows.iter().map(|r| key(r, u)).filter(|k| !k.contains(&SqlValue::Null)).map(|k| canon::row(&k)).collect();
        ks.sort();
        let n = ks.len();
        ks.dedup();
        if ks.len() != n {
            bad.push(format!("UNIQUE ({:?}) has duplicate non-NULL keys", u));
        }
        expected_idx.push(ks);
    }
    for c in checks {
        for r in rows {
            if eval_check(c, r) == Some(Some(false)) {
                bad.push(format!("CHECK {:?} is FALSE on row {}", c, canon::row(r)));
                break;
            }
        }
    }
    if bad.is_empty() && idx != expected_idx.as_slice() {
        bad.push(format!("hash indexes do not mirror the rows: have {:?}, rows give {:?}", idx, expected_idx));
    }
    bad
}
