// probe (temporary)
#![allow(dead_code)]
mod commands {
    #[derive(Debug, Clone, Copy)]
    pub enum CopyDirection { Export, Import }
    #[derive(Debug, Clone, Copy)]
    pub enum CopyFormat { Csv, Json }
}
#[path = "/repo/crates/vibesql-cli/src/data_io.rs"]
mod data_io;
#[path = "/repo/crates/vibesql-cli/src/executor/mod.rs"]
mod executor;
use commands::*;
use executor::SqlExecutor;

fn show(ex: &mut SqlExecutor, t: &str) {
    match ex.execute(&format!("SELECT * FROM {}", t)) {
        Ok(r) => println!("  {} rows: {:?}", t, r.rows),
        Err(e) => println!("  select error: {}", e),
    }
}

fn main() {
    let dir = "/tmp/agent-c19";
    let mut ex = SqlExecutor::new(None).unwrap();
    ex.execute("CREATE TABLE t (a INTEGER, b VARCHAR(50))").unwrap();
    ex.execute("INSERT INTO t VALUES (1, 'x,y')").unwrap();
    ex.execute("INSERT INTO t VALUES (2, 'q\"r')").unwrap();
    let p = format!("{}/t.csv", dir);
    println!("export: {:?}", ex.handle_copy("t", &p, CopyDirection::Export, CopyFormat::Csv).map_err(|e| e.to_string()));
    println!("{}", std::fs::read_to_string(&p).unwrap());
    let pj = format!("{}/t.json", dir);
    println!("export json: {:?}", ex.handle_copy("t", &pj, CopyDirection::Export, CopyFormat::Json).map_err(|e| e.to_string()));
    println!("{}", std::fs::read_to_string(&pj).unwrap());
    let mut ex2 = SqlExecutor::new(None).unwrap();
    ex2.execute("CREATE TABLE t (a INTEGER, b VARCHAR(50))").unwrap();
    println!("import: {:?}", ex2.handle_copy("t", &p, CopyDirection::Import, CopyFormat::Csv).map_err(|e| e.to_string()));
    show(&mut ex2, "t");
    println!("import json: {:?}", ex2.handle_copy("t", &pj, CopyDirection::Import, CopyFormat::Json).map_err(|e| e.to_string()));
    show(&mut ex2, "t");
    // proper csv into typed table
    std::fs::write(&p, "a,b\n1,hello\n2,\"x,y\"\n3, pad \n4,NULL\n5,it's\n").unwrap();
    println!("import2: {:?}", ex2.handle_copy("t", &p, CopyDirection::Import, CopyFormat::Csv).map_err(|e| e.to_string()));
    show(&mut ex2, "t");
    let mut ex3 = SqlExecutor::new(None).unwrap();
    ex3.execute("CREATE TABLE s (a VARCHAR(50), b VARCHAR(50))").unwrap();
    std::fs::write(&p, "a,b\n1,hello\n2,\"x,y\"\n3, pad \n4,NULL\n5,it's\n6,\"q\"\"r\"\n7,'); DROP TABLE s; --\n").unwrap();
    println!("import3: {:?}", ex3.handle_copy("s", &p, CopyDirection::Import, CopyFormat::Csv).map_err(|e| e.to_string()));
    show(&mut ex3, "s");
    std::fs::write(&pj, r#"[{"a":"1","b":"NULL"},{"a":"2","b":null},{"a":3,"b":true},{"a":"x","b":[1,2]}]"#).unwrap();
    println!("import json3: {:?}", ex3.handle_copy("s", &pj, CopyDirection::Import, CopyFormat::Json).map_err(|e| e.to_string()));
    show(&mut ex3, "s");
    std::fs::write(&pj, r#"[{"a":"1","b":"ok"},{"a) VALUES ('INJECTED'); DROP TABLE s; --":"2","b":"z"}]"#).unwrap();
    println!("import json4: {:?}", ex3.handle_copy("s", &pj, CopyDirection::Import, CopyFormat::Json).map_err(|e| e.to_string()));
    show(&mut ex3, "s");
    std::fs::write(&pj, r#"[{"a":"1","b":"ok"},{"a, b) VALUES ('INJ', 'ECTED') --":"2"}]"#).unwrap();
    println!("import json5: {:?}", ex3.handle_copy("s", &pj, CopyDirection::Import, CopyFormat::Json).map_err(|e| e.to_string()));
    show(&mut ex3, "s");
    // csv header injection
    std::fs::write(&p, "a,b\n1,2\n").unwrap();
    std::fs::write(&p, "a, b\nx,y\n").unwrap();
    println!("import hdr-space: {:?}", ex3.handle_copy("s", &p, CopyDirection::Import, CopyFormat::Csv).map_err(|e| e.to_string()));
    show(&mut ex3, "s");
    std::fs::write(&p, "a\nonly\n").unwrap();
    println!("import subset: {:?}", ex3.handle_copy("s", &p, CopyDirection::Import, CopyFormat::Csv).map_err(|e| e.to_string()));
    show(&mut ex3, "s");
    // empty table export
    let mut ex4 = SqlExecutor::new(None).unwrap();
    ex4.execute("CREATE TABLE e (a VARCHAR(5))").unwrap();
    println!("export empty: {:?}", ex4.handle_copy("e", &p, CopyDirection::Export, CopyFormat::Csv).map_err(|e| e.to_string()));
    println!("{:?}", std::fs::read_to_string(&p).unwrap());
    println!("import empty: {:?}", ex4.handle_copy("e", &p, CopyDirection::Import, CopyFormat::Csv).map_err(|e| e.to_string()));
}
