import VibeProof.Model.Codec
import VibeProof.Model.Order
open VibeProof VibeProof.Proto VibeProof.Codec

def decDir : Sx → Option Dir
  | .atom "asc" => some .asc
  | .atom "desc" => some .desc
  | _ => none

def decOptNat : Sx → Option (Option Nat)
  | .atom "-" => some none
  | .atom s => s.toNat?.map some
  | _ => none

def decOrderExpr : Sx → Option OrderExpr
  | .list [.atom "pos", .atom n] => n.toInt?.map OrderExpr.pos
  | .list [.atom "name", .atom h] => (hexToStr h).map OrderExpr.name
  | .list [.atom "expr", e] => (decExpr e).map OrderExpr.expr
  | _ => none

def decOrderItem : Sx → Option (OrderExpr × Dir)
  | .list [k, d] => do pure (← decOrderExpr k, ← decDir d)
  | _ => none

def decSelItem : Sx → Option SelItem
  | .list [e, .atom "-"] => (decExpr e).map (fun x => ⟨x, none⟩)
  | .list [e, .atom h] => do pure ⟨← decExpr e, some (← hexToStr h)⟩
  | _ => none

def decPosItem : Sx → Option (Nat × Dir)
  | .list [.atom i, d] => do pure (← i.toNat?, ← decDir d)
  | _ => none

def reply : Except Err (List Row) → Sx
  | .ok rs => .list [.atom "rows", encRows rs]
  | .error e => encErr e

/-- `(plain (cols NAME…) (rows R…) (sel (E ALIAS)…) (order (K DIR)…) D LIMIT OFFSET)`
    `(result (rows R…) (order (I DIR)…) D LIMIT OFFSET)`             → `(rows (R…))` -/
def handle : List Sx → Sx
  | [.atom "plain", .list (.atom "cols" :: cols), .list [.atom "rows", rows], .list (.atom "sel" :: sel),
      .list (.atom "order" :: ord), .atom d, lim, off] =>
    match cols.mapM (fun c => c.atom?.bind hexToStr), decRows rows, sel.mapM decSelItem,
        ord.mapM decOrderItem, decOptNat lim, decOptNat off with
    | some cs, some rs, some sl, some od, some l, some o =>
      reply (runPlain { cols := cs, sel := sl, order := od, distinct := d == "1", limit := l, offset := o } rs)
    | _, _, _, _, _, _ => .atom "bad-request"
  | [.atom "result", .list [.atom "rows", rows], .list (.atom "order" :: ord), .atom d, lim, off] =>
    match decRows rows, ord.mapM decPosItem, decOptNat lim, decOptNat off with
    | some rs, some od, some l, some o => reply (runOnResult od (d == "1") l o rs)
    | _, _, _, _ => .atom "bad-request"
  | _ => .atom "bad-request"

def main : IO Unit := runDriver handle
