//! C10 — declared integrity constraints hold after every statement.
//!
//! Per history on a constrained table T: every statement goes through the real executors and
//! through the Lean model (`Dml.step`); after each statement
//!   * direct oracle (no model): scan T and check every declared PRIMARY KEY / UNIQUE / NOT NULL
//!     / CHECK constraint, and that the table's hash indexes hold exactly the keys of the rows;
//!   * correspondence: accept/reject class and count, rows, index key sets, append-mode flag.
#[path = "dmlcommon/mod.rs"]
mod common;
use common::*;
use vharness::qast::{Lit, Op, E};
use vharness::*;

fn lit(r: &mut Rng, null_ok: bool) -> Lit {
    if null_ok && r.chance(1, 6) {
        Lit::Null
    } else {
        Lit::I(r.range(0, 5))
    }
}

fn gen_schema(r: &mut Rng) -> TSchema {
    let ncols = 3 + r.below(2) as usize;
    let pk = match r.below(5) {
        0 => None,
        1 => Some(vec![0, 1]),
        _ => Some(vec![0]),
    };
    let mut not_null: Vec<usize> = pk.clone().unwrap_or_default();
    if r.chance(1, 2) && !not_null.contains(&1) {
        not_null.push(1);
    }
    let mut uniq = vec![];
    if r.chance(2, 3) {
        uniq.push(vec![2]);
    }
    if r.chance(1, 4) {
        uniq.push(vec![1, 2]);
    }
    let mut checks = vec![];
    if r.chance(1, 2) {
        checks.push(E::Bin(Op::Ge, Box::new(E::Col(1)), Box::new(E::Lit(Lit::I(1)))));
    }
    if r.chance(1, 3) {
        checks.push(E::Bin(Op::Ne, Box::new(E::Col(1)), Box::new(E::Col(2))));
    }
    TSchema { ncols, not_null, pk, uniq, checks }
}

fn gen_row(r: &mut Rng, s: &TSchema, honor_nn: bool, next_seq: &mut i64, sequential: bool) -> Vec<Lit> {
    (0..s.ncols)
        .map(|c| {
            if c == 0 && sequential {
                *next_seq += 1;
                Lit::I(*next_seq)
            } else {
                lit(r, !(honor_nn && s.not_null.contains(&c)))
            }
        })
        .collect()
}

fn gen_where(r: &mut Rng, s: &TSchema) -> Option<E> {
    let c = r.below(s.ncols as u64) as usize;
    match r.below(6) {
        0 => None,
        1 => Some(E::IsNull(Box::new(E::Col(c)), r.chance(1, 2))),
        2 => Some(E::Bin(Op::Gt, Box::new(E::Col(c)), Box::new(E::Lit(Lit::I(r.range(0, 4)))))),
        3 => Some(E::Bin(Op::Le, Box::new(E::Col(c)), Box::new(E::Lit(Lit::I(r.range(0, 4)))))),
        _ => Some(E::Bin(Op::Eq, Box::new(E::Col(c)), Box::new(E::Lit(Lit::I(r.range(0, 5)))))),
    }
}

fn gen_asg(r: &mut Rng, s: &TSchema, dup: bool) -> Vec<(usize, E)> {
    let n = 1 + r.below(2) as usize;
    let mut v: Vec<(usize, E)> = vec![];
    for _ in 0..n {
        let c = r.below(s.ncols as u64) as usize;
        if v.iter().any(|(x, _)| *x == c) {
            continue;
        }
        let _ = dup;
        let e = match r.below(4) {
            0 => E::Lit(lit(r, true)),
            1 => E::Bin(Op::Add, Box::new(E::Col(c)), Box::new(E::Lit(Lit::I(1)))),
            2 => E::Col(r.below(s.ncols as u64) as usize),
            _ => E::Lit(Lit::I(r.range(0, 6))),
        };
        v.push((c, e));
    }
    v
}

fn gen_history(r: &mut Rng, s: &TSchema, len: usize) -> Vec<St> {
    let mut out = vec![];
    let mut seq = 5i64;
    let sequential_phase = r.chance(1, 3);
    for i in 0..len {
        let k = r.below(100);
        let st = if sequential_phase && i < 5 {
            St::Ins { rows: vec![gen_row(r, s, true, &mut seq, true)], replace: false }
        } else if k < 30 {
            let n = 1 + r.below(4) as usize;
            St::Ins { rows: (0..n).map(|_| { let h = r.chance(9, 10); gen_row(r, s, h, &mut seq, false) }).collect(), replace: false }
        } else if k < 38 {
            let n = 1 + r.below(3) as usize;
            St::Ins { rows: (0..n).map(|_| gen_row(r, s, true, &mut seq, false)).collect(), replace: true }
        } else if k < 48 {
            let n = 1 + r.below(3) as usize;
            St::InsDup { rows: (0..n).map(|_| gen_row(r, s, true, &mut seq, false)).collect(), asg: gen_asg(r, s, true) }
        } else if k < 56 {
            let n = 1 + r.below(3) as usize;
            St::Bulk { rows: (0..n).map(|_| gen_row(r, s, true, &mut seq, false)).collect() }
        } else if k < 80 {
            St::Upd { w: gen_where(r, s), asg: gen_asg(r, s, false) }
        } else if k < 90 {
            St::Del { w: gen_where(r, s).or(Some(E::Bin(Op::Eq, Box::new(E::Col(0)), Box::new(E::Lit(Lit::I(1)))))) }
        } else if k < 92 {
            St::Trunc
        } else if k < 95 {
            St::AddUniq(vec![r.below(s.ncols as u64) as usize])
        } else if k < 97 {
            St::AddPk(vec![0])
        } else if k < 99 {
            St::AddCheck(E::Bin(Op::Le, Box::new(E::Col(2)), Box::new(E::Lit(Lit::I(r.range(2, 5))))))
        } else {
            St::Ins { rows: vec![vec![Lit::S("abc".into()); s.ncols]], replace: false }
        };
        out.push(st);
    }
    out
}

fn script(s: &TSchema, done: &[String], model_req: &str) -> String {
    format!("{};\n{};\n{}\n-- model request:\n{}\n", s.create_sql("T", true), s.create_sql("S", false), done.join(";\n"), model_req)
}

fn run_case(name: &str, s: &TSchema, hist: &[St], model: &mut model::Model, rep: &mut Report) {
    let mut db = Db::new();
    db.must(&s.create_sql("T", true));
    db.must(&s.create_sql("S", false));
    let req = format!("hist {} {}", s.sx(), hist.iter().map(|h| h.sx().to_string()).collect::<Vec<_>>().join(" "));
    let reply = model.ask(&req);
    let msx = Sx::parse(&reply);
    let mreplies: Vec<Sx> = match &msx {
        Some(Sx::List(v)) if v.first().and_then(|x| x.as_atom()) == Some("hist") => v[1..].to_vec(),
        _ => {
            rep.fail(FailKind::ModelDiff, None, "model driver rejected the request", &format!("{}\nreply: {}", req, reply));
            vec![]
        }
    };
    let (mut nn, mut pk, mut uq, mut ck) = (s.not_null.clone(), s.pk.clone(), s.uniq.clone(), s.checks.clone());
    let mut done: Vec<String> = vec![];
    let (mut accepted, mut rejected, mut max_rows) = (0, 0, 0usize);
    for (i, st) in hist.iter().enumerate() {
        let sqls = st.sql(s.ncols);
        for q in &sqls[..sqls.len() - 1] {
            db.must(q);
            done.push(q.clone());
        }
        let q = sqls.last().unwrap();
        let out = db.exec(q);
        done.push(format!("{}  -- => {}", q, out.brief().chars().take(120).collect::<String>()));
        let class = out_class(&out);
        rep.count(&format!("stmt_{}", st.kind()));
        rep.count(&format!("outcome_{}", class.split(' ').take(if class.starts_with("ok") { 1 } else { 2 }).collect::<Vec<_>>().join("_")));
        if out.is_ok() {
            accepted += 1;
            match st {
                St::AddPk(c) => pk = Some(c.clone()),
                St::AddUniq(c) => uq.push(c.clone()),
                St::AddCheck(e) => ck.push(e.clone()),
                _ => {}
            }
        } else {
            rejected += 1;
        }
        if out.is_panic() {
            rep.fail(FailKind::Oracle, None, "executor panicked", &script(s, &done, &req));
            break;
        }
        let (rows, idx, am) = real_state(&db, "T");
        max_rows = max_rows.max(rows.len());
        if am {
            rep.count("states_in_append_mode");
        }
        // ---- direct oracle
        let bad = check_constraints(&rows, &idx, &nn, &pk, &uq, &ck);
        if !bad.is_empty() {
            rep.fail(
                FailKind::Oracle,
                None,
                &format!("declared constraint violated after a {} statement: {}", st.kind(), bad[0].split(" C").next().unwrap_or("")),
                &format!("{}violations: {:?}\nrows: {}", script(s, &done, &req), bad, canon::rows_seq(&rows)),
            );
            break;
        }
        // ---- correspondence
        if let Some(m) = mreplies.get(i).and_then(model_state) {
            let real_rows = canon::rows_seq(&rows);
            let pk_has_null = pk.as_ref().map(|p| rows.iter().any(|r| p.iter().any(|c| r[*c] == vibesql_types::SqlValue::Null))).unwrap_or(true);
            let mut diffs = vec![];
            if m.0 != class {
                diffs.push(format!("outcome: code `{}` model `{}`", class, m.0));
            }
            if m.1 != real_rows {
                diffs.push(format!("rows: code {} model {}", real_rows, m.1));
            }
            if m.2 != idx {
                diffs.push(format!("index keys: code {:?} model {:?}", idx, m.2));
            }
            if !pk_has_null && m.3 != am {
                diffs.push(format!("append mode: code {} model {}", am, m.3));
            }
            if !diffs.is_empty() {
                rep.fail(
                    FailKind::ModelDiff,
                    None,
                    &format!("model and code disagree after a {} statement ({})", st.kind(), diffs[0].split(':').next().unwrap_or("")),
                    &format!("{}statement #{}\n{}", script(s, &done, &req), i, diffs.join("\n")),
                );
                break;
            }
            rep.traces_validated += 1;
        }
    }
    rep.count(&format!("max_rows_{}", match max_rows { 0 => "0", 1..=3 => "1-3", 4..=8 => "4-8", _ => ">8" }));
    rep.case(&format!("{} {}", name, req), accepted > 0 && rejected > 0 && max_rows >= 2);
    rep.sample(serde_json::json!({"case": name, "create": s.create_sql("T", true), "statements": done.iter().take(8).collect::<Vec<_>>() }));
}

/// table with a CREATE UNIQUE INDEX: direct oracle only
fn run_unique_index_case(r: &mut Rng, rep: &mut Report, k: u64, fixed: Option<Vec<St>>) {
    let mut db = Db::new();
    db.must("CREATE TABLE T (C0 INT PRIMARY KEY, C1 INT, C2 INT)");
    db.must("CREATE UNIQUE INDEX UX ON T (C2)");
    let s = TSchema { ncols: 3, not_null: vec![0], pk: Some(vec![0]), uniq: vec![], checks: vec![] };
    let mut done = vec![];
    let mut seq = 0i64;
    let steps = fixed.as_ref().map(|f| f.len()).unwrap_or(10);
    for step in 0..steps {
        let st = if let Some(f) = &fixed { f[step].clone() } else { match r.below(10) {
            0..=4 => St::Ins { rows: (0..1 + r.below(3)).map(|_| gen_row(r, &s, true, &mut seq, false)).collect(), replace: false },
            5..=8 => St::Upd { w: gen_where(r, &s), asg: vec![(2, if r.chance(1, 2) { E::Lit(Lit::I(r.range(0, 5))) } else { E::Bin(Op::Add, Box::new(E::Col(2)), Box::new(E::Lit(Lit::I(1)))) })] },
            _ => St::Del { w: gen_where(r, &s) },
        } };
        let q = st.sql(3).pop().unwrap();
        let out = db.exec(&q);
        done.push(format!("{}  -- => {}", q, out.brief().chars().take(100).collect::<String>()));
        rep.count(&format!("uidx_stmt_{}", st.kind()));
        let rows = db.scan("T").unwrap_or_default();
        let mut ks: Vec<String> = rows.iter().filter(|x| x[2] != vibesql_types::SqlValue::Null).map(|x| canon::val(&x[2])).collect();
        ks.sort();
        let n = ks.len();
        ks.dedup();
        if n != ks.len() {
            // both ways this used to happen were repaired (d95cabf8, 95b3853a): any recurrence is a violation
            let sig: Option<&str> = None;
            rep.fail(FailKind::Oracle, sig, &format!("UNIQUE INDEX holds duplicate non-NULL keys after a {} statement", st.kind()),
                &format!("CREATE TABLE T (C0 INT PRIMARY KEY, C1 INT, C2 INT);\nCREATE UNIQUE INDEX UX ON T (C2);\n{}\nrows: {}", done.join(";\n"), canon::rows_seq(&rows)));
            break;
        }
    }
    rep.case(&format!("uidx {}", k), true);
}

/// several unique indexes: no duplicate non-NULL key after any statement; scenario statements that
/// must be rejected are rejected
fn run_ucase(c: &UCase, rep: &mut Report) {
    let mut db = uidx_db(c);
    let mut rejected = 0;
    for (prelude, stmt, must_reject) in &c.stmts {
        let mut ok_prelude = true;
        for q in prelude {
            if !db.exec(q).is_ok() {
                ok_prelude = false; // e.g. the staging table refuses a duplicate primary key
            }
        }
        if !ok_prelude {
            continue;
        }
        let out = db.exec(stmt);
        rep.count(&format!("{}{}_{}", if c.prefix_len.is_some() { "prefixidx" } else { "uidx" }, c.idx_cols.len(), if stmt.contains("SELECT * FROM S") { "bulk" } else if stmt.starts_with("INSERT") { if c.trigger { "insert_trigger" } else { "insert_values" } } else if stmt.starts_with("UPDATE") { "update" } else { "delete" }));
        if !out.is_ok() {
            rejected += 1;
        }
        let bad = uidx_dups(&db, &c.idx_cols);
        if out.is_panic() || !bad.is_empty() || (*must_reject && out.is_ok()) {
            rep.fail(FailKind::Oracle, None, "table with several unique indexes: duplicate non-NULL key stored (or a violating statement accepted)",
                &format!("{}\n=> {}\nduplicates in: {:?}\nrows: {}", db.log.join(";\n"), out.brief(), bad, canon::rows_seq(&db.scan("T").unwrap_or_default())));
            break;
        }
    }
    rep.case(&c.name, rejected > 0);
}

// ---------------------------------------------------------------------------------------------
// constraints ADDED BY ALTER to non-empty tables, with a violating stored row at every position
// ---------------------------------------------------------------------------------------------

/// predicate shapes over T(C0 INT PRIMARY KEY, X INT, Y INT, S VARCHAR(10)) with an evaluator that is
/// independent of the engine and of the Lean model (three-valued: None = NULL)
#[derive(Clone, Debug)]
enum P {
    Cmp(&'static str, usize, i64),      // col op const
    CmpCols(&'static str),              // X op Y
    Between(usize, i64, i64, bool),     // col [NOT] BETWEEN lo AND hi
    In(usize, Vec<i64>, bool),          // col [NOT] IN (...)
    IsNull(usize, bool),                // col IS [NOT] NULL
    Arith(&'static str, i64),           // X + Y op const
    Like(&'static str, bool),           // S [NOT] LIKE 'pat' (prefix% patterns)
    And(Box<P>, Box<P>),
    Or(Box<P>, Box<P>),
    Not(Box<P>),
}

type ARow = (i64, Option<i64>, Option<i64>, Option<String>);

fn cmp(op: &str, a: i64, b: i64) -> bool {
    match op {
        "=" => a == b,
        "<>" => a != b,
        "<" => a < b,
        "<=" => a <= b,
        ">" => a > b,
        _ => a >= b,
    }
}

impl P {
    fn sql(&self) -> String {
        let c = |i: &usize| ["C0", "X", "Y"][*i];
        match self {
            P::Cmp(op, i, k) => format!("{} {} {}", c(i), op, k),
            P::CmpCols(op) => format!("X {} Y", op),
            P::Between(i, lo, hi, neg) => format!("{} {}BETWEEN {} AND {}", c(i), if *neg { "NOT " } else { "" }, lo, hi),
            P::In(i, vs, neg) => format!("{} {}IN ({})", c(i), if *neg { "NOT " } else { "" }, vs.iter().map(|v| v.to_string()).collect::<Vec<_>>().join(", ")),
            P::IsNull(i, neg) => format!("{} IS {}NULL", c(i), if *neg { "NOT " } else { "" }),
            P::Arith(op, k) => format!("X + Y {} {}", op, k),
            P::Like(pat, neg) => format!("S {}LIKE '{}'", if *neg { "NOT " } else { "" }, pat),
            P::And(a, b) => format!("(({}) AND ({}))", a.sql(), b.sql()),
            P::Or(a, b) => format!("(({}) OR ({}))", a.sql(), b.sql()),
            P::Not(a) => format!("(NOT ({}))", a.sql()),
        }
    }
    fn eval(&self, r: &ARow) -> Option<bool> {
        let col = |i: &usize| match i { 0 => Some(r.0), 1 => r.1, _ => r.2 };
        match self {
            P::Cmp(op, i, k) => col(i).map(|v| cmp(op, v, *k)),
            P::CmpCols(op) => Some(cmp(op, r.1?, r.2?)),
            P::Between(i, lo, hi, neg) => col(i).map(|v| (v >= *lo && v <= *hi) != *neg),
            P::In(i, vs, neg) => col(i).map(|v| vs.contains(&v) != *neg),
            P::IsNull(i, neg) => Some(col(i).is_none() != *neg),
            P::Arith(op, k) => Some(cmp(op, r.1? + r.2?, *k)),
            P::Like(pat, neg) => r.3.as_ref().map(|s| s.starts_with(pat.trim_end_matches('%')) != *neg),
            P::And(a, b) => match (a.eval(r), b.eval(r)) {
                (Some(false), _) | (_, Some(false)) => Some(false),
                (Some(true), Some(true)) => Some(true),
                _ => None,
            },
            P::Or(a, b) => match (a.eval(r), b.eval(r)) {
                (Some(true), _) | (_, Some(true)) => Some(true),
                (Some(false), Some(false)) => Some(false),
                _ => None,
            },
            P::Not(a) => a.eval(r).map(|b| !b),
        }
    }
    fn kind(&self) -> &'static str {
        match self {
            P::Cmp(..) => "cmp", P::CmpCols(..) => "cmp_cols", P::Between(_, _, _, false) => "between", P::Between(..) => "not_between",
            P::In(_, _, false) => "in", P::In(..) => "not_in", P::IsNull(..) => "is_null", P::Arith(..) => "arith",
            P::Like(_, false) => "like", P::Like(..) => "not_like", P::And(..) => "and", P::Or(..) => "or", P::Not(..) => "not",
        }
    }
}

fn arow_sql(r: &ARow) -> String {
    let o = |v: &Option<i64>| v.map(|i| i.to_string()).unwrap_or_else(|| "NULL".into());
    format!("({}, {}, {}, {})", r.0, o(&r.1), o(&r.2), r.3.as_ref().map(|s| format!("'{}'", s)).unwrap_or_else(|| "NULL".into()))
}

fn gen_pred(r: &mut Rng, depth: u32) -> P {
    let ops = ["=", "<>", "<", "<=", ">", ">="];
    let k = r.below(if depth == 0 { 9 } else { 12 });
    match k {
        0 => P::Cmp(*r.pick(&ops), 1 + r.below(2) as usize, r.range(0, 6)),
        1 => P::CmpCols(*r.pick(&ops)),
        2 | 3 => { let lo = r.range(0, 4); P::Between(1 + r.below(2) as usize, lo, lo + r.range(0, 3), r.chance(1, 3)) }
        4 => P::In(1 + r.below(2) as usize, (0..1 + r.below(3)).map(|_| r.range(0, 6)).collect(), r.chance(1, 3)),
        5 => P::IsNull(1 + r.below(2) as usize, r.chance(1, 2)),
        6 => P::Arith(*r.pick(&ops), r.range(0, 10)),
        7 | 8 => P::Like(*r.pick(&["ab%", "a%", "xy%"]), r.chance(1, 3)),
        9 => P::And(Box::new(gen_pred(r, depth - 1)), Box::new(gen_pred(r, depth - 1))),
        10 => P::Or(Box::new(gen_pred(r, depth - 1)), Box::new(gen_pred(r, depth - 1))),
        _ => P::Not(Box::new(gen_pred(r, depth - 1))),
    }
}

fn gen_arow(r: &mut Rng, id: i64) -> ARow {
    let v = |r: &mut Rng| if r.chance(1, 7) { None } else { Some(r.range(0, 6)) };
    (id, v(r), v(r), if r.chance(1, 7) { None } else { Some(r.pick(&["abc", "abd", "axy", "xyz", "b"]).to_string()) })
}

/// ALTER TABLE T ADD CONSTRAINT … CHECK (pred) over `rows`: accepted iff no stored row makes it FALSE;
/// afterwards the declared CHECK holds for every stored row (independent evaluator and
/// `SELECT COUNT(*) … WHERE NOT (pred)`), and a rejected ALTER left the schema unchanged
fn run_alter_check(name: &str, rows: &[ARow], pred: &P, rep: &mut Report) {
    let mut db = Db::new();
    db.must("CREATE TABLE T (C0 INT PRIMARY KEY, X INT, Y INT, S VARCHAR(10))");
    if !rows.is_empty() {
        db.must(&format!("INSERT INTO T VALUES {}", rows.iter().map(arow_sql).collect::<Vec<_>>().join(", ")));
    }
    let first_bad = rows.iter().position(|r| pred.eval(r) == Some(false));
    let out = db.exec(&format!("ALTER TABLE T ADD CONSTRAINT CK CHECK ({})", pred.sql()));
    rep.count(&format!("alter_check_{}", pred.kind()));
    rep.count(&format!("alter_check_first_violating_row_{}", match first_bad { None => "none".to_string(), Some(0) => "first".to_string(), Some(p) if p + 1 == rows.len() => "last".to_string(), Some(_) => "middle".to_string() }));
    let cnt = db.exec(&format!("SELECT COUNT(*) FROM T WHERE NOT ({})", pred.sql()));
    let cnt_false = cnt.rows().and_then(|r| r.first().and_then(|x| x.first().cloned())).map(|v| canon::val(&v));
    let script = |db: &Db| format!("{}\nfirst violating row (independent evaluation): {:?}", db.log.join(";\n"), first_bad);
    if out.is_panic() {
        rep.fail(FailKind::Oracle, None, "ALTER TABLE ADD CHECK panicked", &script(&db));
    } else if out.is_ok() && (first_bad.is_some() || cnt_false.as_deref() != Some("I0")) {
        rep.fail(FailKind::Oracle, None, &format!("ALTER TABLE ADD CHECK accepted although a stored row violates it ({} predicate)", pred.kind()),
            &format!("{}\nSELECT COUNT(*) WHERE NOT (check) = {:?}", script(&db), cnt_false));
    } else if !out.is_ok() && first_bad.is_none() && out_class(&out) == "err constraint" {
        rep.fail(FailKind::ModelDiff, None, &format!("ALTER TABLE ADD CHECK refused although every stored row satisfies it ({} predicate)", pred.kind()), &script(&db));
    }
    // the schema after the ALTER: enforced iff accepted
    if let Some(probe) = (0..40).map(|i| gen_arow(&mut Rng::new(1000 + i), 900)).find(|r| pred.eval(r) == Some(false)) {
        let ins = db.exec(&format!("INSERT INTO T VALUES {}", arow_sql(&probe)));
        if out.is_ok() && ins.is_ok() {
            rep.fail(FailKind::Oracle, None, "row violating a CHECK added by an accepted ALTER was stored", &script(&db));
        } else if out.is_err() && !ins.is_ok() && out_class(&ins) == "err constraint" {
            rep.fail(FailKind::Oracle, None, "a rejected ALTER TABLE ADD CHECK left the constraint in the schema", &script(&db));
        }
    }
    rep.case(&format!("{} {} {:?}", name, pred.sql(), rows), rows.len() >= 2);
}

/// ADD PRIMARY KEY / UNIQUE / FOREIGN KEY / SET NOT NULL over existing rows, the violating row at `pos`
fn run_alter_key(kind: &str, n: usize, pos: Option<usize>, rep: &mut Report) {
    let mut db = Db::new();
    db.must("CREATE TABLE P (ID INT PRIMARY KEY)");
    db.must("INSERT INTO P VALUES (1), (2), (3), (4), (5), (6)");
    db.must("CREATE TABLE T (C0 INT, X INT, Y INT)");
    // row j: C0 = j+1, X = j+1 (distinct, a P key); the violating row duplicates row 0's X / has X = NULL / X = 99
    let rows: Vec<String> = (0..n)
        .map(|j| {
            let x = match (kind, pos) {
                ("pk", Some(p)) | ("unique", Some(p)) if j == p => if p == 0 { "2".to_string() } else { "1".to_string() },
                ("pk_null", Some(p)) | ("not_null", Some(p)) if j == p => "NULL".to_string(),
                ("fk", Some(p)) if j == p => "99".to_string(),
                _ => (j + 1).to_string(),
            };
            format!("({}, {}, {})", j + 1, x, j)
        })
        .collect();
    db.must(&format!("INSERT INTO T VALUES {}", rows.join(", ")));
    if kind == "unique" || kind == "fk" || kind == "not_null" {
        // NULL keys never violate UNIQUE / FOREIGN KEY
        if kind != "not_null" {
            db.must("INSERT INTO T VALUES (50, NULL, 0), (51, NULL, 0)");
        }
    }
    let sql = match kind {
        "pk" | "pk_null" => "ALTER TABLE T ADD CONSTRAINT APK PRIMARY KEY (X)",
        "unique" => "ALTER TABLE T ADD CONSTRAINT AUQ UNIQUE (X)",
        "fk" => "ALTER TABLE T ADD CONSTRAINT AFK FOREIGN KEY (X) REFERENCES P (ID)",
        _ => "ALTER TABLE T ALTER COLUMN X SET NOT NULL",
    };
    let before = db.scan("T").unwrap_or_default();
    let out = db.exec(sql);
    rep.count(&format!("alter_{}_violating_row_{}", kind, match pos { None => "none".to_string(), Some(0) => "first".into(), Some(p) if p + 1 == n => "last".into(), _ => "middle".into() }));
    let violating = pos.is_some() && n >= if kind == "pk" || kind == "unique" { 2 } else { 1 };
    let script = format!("{}\n=> {}", db.log.join(";\n"), out.brief());
    if out.is_panic() || (out.is_ok() && violating) {
        rep.fail(FailKind::Oracle, None, &format!("ALTER TABLE ({}) accepted although a stored row violates the new constraint", kind), &script);
    } else if !out.is_ok() && !violating {
        rep.fail(FailKind::ModelDiff, None, &format!("ALTER TABLE ({}) refused although the stored rows satisfy the new constraint", kind), &script);
    } else if db.scan("T").unwrap_or_default() != before {
        rep.fail(FailKind::Oracle, None, "ALTER TABLE ADD CONSTRAINT changed the rows", &script);
    }
    // enforcement afterwards: only if accepted
    let viol = match kind { "fk" => "INSERT INTO T VALUES (70, 99, 0)", "not_null" | "pk_null" => "INSERT INTO T VALUES (70, NULL, 0)", _ => "INSERT INTO T VALUES (70, 1, 0)" };
    if kind != "pk_null" {
        let ins = db.exec(viol);
        if out.is_ok() && ins.is_ok() {
            rep.fail(FailKind::Oracle, None, &format!("row violating the constraint added by an accepted ALTER ({}) was stored", kind), &format!("{}\n{} => {}", script, viol, ins.brief()));
        } else if out.is_err() && !ins.is_ok() {
            rep.fail(FailKind::Oracle, None, &format!("a rejected ALTER ({}) left the constraint in the schema", kind), &format!("{}\n{} => {}", script, viol, ins.brief()));
        }
    }
    rep.case(&format!("alter {} n={} pos={:?}", kind, n, pos), n >= 2);
}

fn alter_probes(rep: &mut Report) {
    let s = |x: &str| Some(x.to_string());
    // (predicate, a row that satisfies it, a row that makes it FALSE, a row that makes it NULL)
    let shapes: Vec<(P, ARow, ARow)> = vec![
        (P::Between(1, 1, 3, false), (0, Some(2), Some(0), s("abc")), (0, Some(5), Some(0), s("abc"))),
        (P::Between(2, 0, 2, true), (0, Some(2), Some(5), s("abc")), (0, Some(2), Some(1), s("abc"))),
        (P::In(1, vec![1, 2, 3], false), (0, Some(3), Some(0), s("abc")), (0, Some(4), Some(0), s("abc"))),
        (P::In(1, vec![4, 5], true), (0, Some(3), Some(0), s("abc")), (0, Some(4), Some(0), s("abc"))),
        (P::Like("ab%", false), (0, Some(1), Some(0), s("abc")), (0, Some(1), Some(0), s("xyz"))),
        (P::Like("ab%", true), (0, Some(1), Some(0), s("xyz")), (0, Some(1), Some(0), s("abd"))),
        (P::Cmp(">", 1, 0), (0, Some(1), Some(0), s("abc")), (0, Some(0), Some(0), s("abc"))),
        (P::CmpCols("<="), (0, Some(1), Some(2), s("abc")), (0, Some(3), Some(2), s("abc"))),
        (P::Arith("<", 6), (0, Some(1), Some(2), s("abc")), (0, Some(4), Some(4), s("abc"))),
        (P::IsNull(1, true), (0, Some(1), Some(2), s("abc")), (0, None, Some(2), s("abc"))),
        (P::IsNull(2, false), (0, Some(1), None, s("abc")), (0, Some(1), Some(2), s("abc"))),
        (P::And(Box::new(P::Between(1, 1, 3, false)), Box::new(P::Cmp(">=", 2, 0))), (0, Some(2), Some(0), s("abc")), (0, Some(9), Some(0), s("abc"))),
        (P::Or(Box::new(P::Between(1, 1, 3, false)), Box::new(P::Cmp(">", 2, 7))), (0, Some(2), Some(0), s("abc")), (0, Some(9), Some(0), s("abc"))),
        (P::Not(Box::new(P::Between(1, 4, 6, false))), (0, Some(2), Some(0), s("abc")), (0, Some(5), Some(0), s("abc"))),
        (P::Not(Box::new(P::Or(Box::new(P::In(1, vec![5], false)), Box::new(P::Like("x%", false))))), (0, Some(2), Some(0), s("abc")), (0, Some(5), Some(0), s("abc"))),
    ];
    for (pred, good, bad) in &shapes {
        assert!(pred.eval(good) == Some(true) && pred.eval(bad) == Some(false), "probe table wrong for {}", pred.sql());
        for n in 1..=4usize {
            for pos in (0..n).map(Some).chain(std::iter::once(None)) {
                let mut rows: Vec<ARow> = (0..n).map(|j| { let mut r = if Some(j) == pos { bad.clone() } else { good.clone() }; r.0 = j as i64 + 1; r }).collect();
                // a NULL-valued row never violates
                let mut nullrow = good.clone();
                nullrow = (n as i64 + 1, None, None, None);
                if pred.eval(&nullrow) != Some(false) {
                    rows.push(nullrow);
                }
                run_alter_check("alter-check-probe", &rows, pred, rep);
                rep.count("alter_check_probes");
            }
        }
    }
    for kind in ["pk", "pk_null", "unique", "fk", "not_null"] {
        for n in 1..=4usize {
            for pos in (0..n).map(Some).chain(std::iter::once(None)) {
                if (kind == "pk" || kind == "unique") && n == 1 && pos.is_some() {
                    continue;
                }
                run_alter_key(kind, n, pos, rep);
                rep.count("alter_key_probes");
            }
        }
    }
}

fn li(v: &[i64]) -> Vec<Lit> {
    v.iter().map(|i| if *i < 0 { Lit::Null } else { Lit::I(*i) }).collect()
}

fn probes() -> Vec<(&'static str, TSchema, Vec<St>)> {
    let col = |i| Box::new(E::Col(i));
    let int = |i| Box::new(E::Lit(Lit::I(i)));
    let p = TSchema { ncols: 2, not_null: vec![0], pk: Some(vec![0]), uniq: vec![], checks: vec![] };
    let u = TSchema { ncols: 3, not_null: vec![0], pk: Some(vec![0]), uniq: vec![vec![1]], checks: vec![] };
    let k = TSchema { ncols: 3, not_null: vec![0, 1], pk: Some(vec![0]), uniq: vec![], checks: vec![E::Bin(Op::Gt, col(2), int(0))] };
    let a = TSchema { ncols: 2, not_null: vec![], pk: None, uniq: vec![], checks: vec![] };
    let seq4: Vec<St> = (1..=4).map(|i| St::Ins { rows: vec![li(&[i, 1])], replace: false }).collect();
    vec![
        ("update-sets-same-pk", p.clone(), vec![
            St::Ins { rows: vec![li(&[1, 1]), li(&[2, 1]), li(&[3, 1]), li(&[4, 2]), li(&[5, 1])], replace: false },
            St::Upd { w: Some(E::Bin(Op::Eq, col(1), int(1))), asg: vec![(0, E::Lit(Lit::I(7)))] },
            St::Upd { w: Some(E::Bin(Op::Eq, col(0), int(4))), asg: vec![(0, E::Lit(Lit::I(7)))] },
            St::Upd { w: Some(E::Bin(Op::Eq, col(0), int(1))), asg: vec![(0, E::Lit(Lit::I(7)))] },
        ]),
        ("update-sets-same-unique", u.clone(), vec![
            St::Ins { rows: vec![li(&[1, 10, 1]), li(&[2, 20, 1]), li(&[3, 30, 2]), li(&[4, -1, 1])], replace: false },
            St::Upd { w: Some(E::Bin(Op::Eq, col(2), int(1))), asg: vec![(1, E::Lit(Lit::I(99)))] },
            St::Upd { w: Some(E::Bin(Op::Eq, col(2), int(1))), asg: vec![(1, E::Lit(Lit::Null))] },
            St::Upd { w: None, asg: vec![(1, E::Bin(Op::Add, col(1), int(10)))] },
        ]),
        ("append-mode-then-bulk-duplicate", p.clone(), {
            let mut v = seq4.clone();
            v.push(St::Bulk { rows: vec![li(&[2, 9])] });
            v.push(St::Bulk { rows: vec![li(&[9, 9]), li(&[3, 9])] });
            v.push(St::Ins { rows: vec![li(&[5, 1])], replace: false });
            v.push(St::Ins { rows: vec![li(&[2, 5])], replace: false });
            v.push(St::Ins { rows: vec![li(&[100, 1])], replace: false });
            v
        }),
        ("append-mode-large-key-first", p.clone(), {
            let mut v = vec![St::Ins { rows: vec![li(&[100, 1])], replace: false }];
            v.extend(seq4.clone());
            v.push(St::Bulk { rows: vec![li(&[100, 9])] });
            v.push(St::Ins { rows: vec![li(&[100, 9])], replace: false });
            v
        }),
        ("on-duplicate-key-update", k.clone(), vec![
            St::Ins { rows: vec![li(&[1, 1, 1]), li(&[2, 2, 2])], replace: false },
            St::InsDup { rows: vec![li(&[1, 5, 5])], asg: vec![(0, E::Lit(Lit::I(2)))] },
            St::InsDup { rows: vec![li(&[2, 5, 5])], asg: vec![(1, E::Lit(Lit::Null))] },
            St::InsDup { rows: vec![li(&[2, 5, 5])], asg: vec![(2, E::Lit(Lit::I(0)))] },
            St::InsDup { rows: vec![li(&[2, 5, 5]), li(&[3, 3, 3])], asg: vec![(1, E::Lit(Lit::I(8))), (2, E::Bin(Op::Add, col(2), int(1)))] },
        ]),
        ("replace", u.clone(), vec![
            St::Ins { rows: vec![li(&[1, 10, 1]), li(&[2, 20, 1]), li(&[3, 30, 2])], replace: false },
            St::Ins { rows: vec![li(&[1, 20, 7])], replace: true },
            St::Ins { rows: vec![li(&[5, 30, 7]), li(&[5, 31, 8]), li(&[6, -1, 8])], replace: true },
        ]),
        ("alter-add-constraints", a.clone(), vec![
            St::Ins { rows: vec![li(&[1, 1]), li(&[1, 2]), li(&[-1, 3])], replace: false },
            St::AddPk(vec![0]),
            St::AddUniq(vec![0]),
            St::AddCheck(E::Bin(Op::Gt, col(1), int(1))),
            St::Del { w: Some(E::Bin(Op::Eq, col(1), int(1))) },
            St::AddCheck(E::Bin(Op::Gt, col(1), int(1))),
            St::Ins { rows: vec![li(&[7, 1])], replace: false },
            St::AddUniq(vec![0]),
            St::Ins { rows: vec![li(&[1, 9])], replace: false },
            St::Del { w: Some(E::IsNull(col(0), false)) },
            St::AddPk(vec![0]),
            St::Ins { rows: vec![li(&[1, 9])], replace: false },
            St::Upd { w: None, asg: vec![(0, E::Lit(Lit::I(3)))] },
        ]),
        ("not-null-check-type-arity", k.clone(), vec![
            St::Ins { rows: vec![li(&[3, -1, 1])], replace: false },
            St::Ins { rows: vec![li(&[3, 1, 0])], replace: false },
            St::Ins { rows: vec![li(&[3, 1, -1])], replace: false },
            St::Ins { rows: vec![li(&[-1, 1, 1])], replace: false },
            St::Ins { rows: vec![li(&[4, 1, 1]), vec![Lit::S("abc".into()), Lit::I(1), Lit::I(1)]], replace: false },
            St::Ins { rows: vec![li(&[4, 1, 1]), li(&[5, 1])], replace: false },
            St::Upd { w: None, asg: vec![(2, E::Lit(Lit::I(0)))] },
            St::Upd { w: None, asg: vec![(1, E::Lit(Lit::Null))] },
            St::Trunc,
            St::Ins { rows: vec![li(&[3, 1, 1])], replace: false },
        ]),
    ]
}

fn main() {
    // the engine frees a large top-of-heap buffer per query; keep glibc from returning it to the kernel
    // every time (brk thrash made the quick tier many times slower under load)
    unsafe {
        libc::mallopt(libc::M_TRIM_THRESHOLD, 1 << 30);
        libc::mallopt(libc::M_TOP_PAD, 64 << 20);
    }
    let args = Args::parse("C10");
    engine::silence_panics();
    let mut rep = Report::new(&args, "history with at least one accepted and one rejected statement and >= 2 stored rows at some point");
    let mut model = args.model();
    let mut rng = Rng::new(args.seed);
    for (name, s, h) in probes() {
        run_case(name, &s, &h, &mut model, &mut rep);
        rep.count("deterministic_probes");
    }
    // regression probes of the two repaired unique-index defects (UPDATE to an existing key, in-batch duplicate)
    {
        let mut r = rng.fork();
        run_unique_index_case(&mut r, &mut rep, 100000, Some(vec![
            St::Ins { rows: vec![li(&[1, 4, 6]), li(&[2, 0, 4]), li(&[3, 3, 3])], replace: false },
            St::Upd { w: Some(E::Bin(Op::Eq, Box::new(E::Col(1)), Box::new(E::Lit(Lit::I(0))))), asg: vec![(2, E::Lit(Lit::I(3)))] },
        ]));
        run_unique_index_case(&mut r, &mut rep, 100001, Some(vec![
            St::Ins { rows: vec![li(&[1, 2, 3]), li(&[5, 0, 3]), li(&[4, 0, 0])], replace: false },
        ]));
    }
    alter_probes(&mut rep);
    for k in 0..args.n(4000, 80000) {
        let mut r = rng.fork();
        let n = 1 + r.below(5) as usize;
        let rows: Vec<ARow> = (0..n).map(|j| gen_arow(&mut r, j as i64 + 1)).collect();
        // bias towards "first row fine, a later row violates"
        let mut pred = gen_pred(&mut r, 2);
        for _ in 0..6 {
            let fb = rows.iter().position(|x| pred.eval(x) == Some(false));
            if matches!(fb, Some(p) if p > 0) || r.chance(1, 3) {
                break;
            }
            pred = gen_pred(&mut r, 2);
        }
        run_alter_check(&format!("alter-check-gen{}", k), &rows, &pred, &mut rep);
    }
    for c in uidx_scenarios() {
        run_ucase(&c, &mut rep);
        rep.count("multi_unique_index_scenarios");
    }
    for c in prefix_scenarios() {
        run_ucase(&c, &mut rep);
        rep.count("prefix_index_scenarios");
    }
    for (what, replay) in storage_batch_probe() {
        rep.fail(FailKind::Oracle, None, &format!("{}: a refused row left earlier rows inserted (or was accepted)", what.split(',').next().unwrap_or("")), &format!("{}\n{}", what, replay));
    }
    rep.count("storage_batch_probe");
    rep.case("storage insert_rows_batch atomicity probe", true);
    for k in 0..args.n(3000, 60000) {
        let mut r = rng.fork();
        run_ucase(&gen_uidx(&mut r, k), &mut rep);
        run_ucase(&gen_prefix(&mut r, k), &mut rep);
    }
    let n = args.n(6000, 120000);
    for k in 0..n {
        let mut r = rng.fork();
        let s = gen_schema(&mut r);
        let len = 8 + r.below(8) as usize;
        let h = gen_history(&mut r, &s, len);
        run_case(&format!("gen{}", k), &s, &h, &mut model, &mut rep);
    }
    for k in 0..args.n(1500, 30000) {
        let mut r = rng.fork();
        run_unique_index_case(&mut r, &mut rep, k, None);
    }
    rep.assumptions.push("columns are INTEGER; values 0..6 and NULL; CHECK language: comparisons of columns/literals".into());
    rep.extra.insert("model_requests".into(), serde_json::json!(model.requests));
    std::process::exit(rep.finish());
}
