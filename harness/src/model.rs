//! The Lean model driver as a child process speaking the line protocol.
use std::io::{BufRead, BufReader, Write};
use std::process::{Child, ChildStdin, ChildStdout, Command, Stdio};

pub struct Model {
    child: Child,
    stdin: ChildStdin,
    stdout: BufReader<ChildStdout>,
    pub requests: u64,
}

impl Model {
    pub fn spawn(path: &str) -> Model {
        let mut child = Command::new(path)
            .stdin(Stdio::piped())
            .stdout(Stdio::piped())
            .stderr(Stdio::inherit())
            .spawn()
            .unwrap_or_else(|e| panic!("cannot start model driver {}: {}", path, e));
        let stdin = child.stdin.take().unwrap();
        let stdout = BufReader::new(child.stdout.take().unwrap());
        Model { child, stdin, stdout, requests: 0 }
    }

    /// one request line → one reply line (trimmed)
    pub fn ask(&mut self, line: &str) -> String {
        debug_assert!(!line.contains('\n'));
        self.requests += 1;
        self.stdin.write_all(line.as_bytes()).unwrap();
        self.stdin.write_all(b"\n").unwrap();
        self.stdin.flush().unwrap();
        let mut reply = String::new();
        let n = self.stdout.read_line(&mut reply).unwrap();
        if n == 0 {
            panic!("model driver closed its output after request: {}", line);
        }
        reply.trim_end().to_string()
    }
}

impl Drop for Model {
    fn drop(&mut self) {
        let _ = self.child.kill();
        let _ = self.child.wait();
    }
}
