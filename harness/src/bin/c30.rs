//! C30 — Python DB-API parameter binding is faithful.
//!
//! Tie (preferred one of DESIGN §7 C30): the extension module is built from /repo's working tree
//! (`cargo build -p vibesql-python-bindings --offline`), copied to `<scratch>/vibesql.so` and driven
//! from python3 with generated call sequences.  Three runs per session:
//!   real      the calls with their parameter tuples on one cursor;
//!   as-coded  the texts the model's cursor machine (cache keyed by the unbound text) says are run,
//!             executed as plain SQL on a fresh cursor  -> must equal `real`   (model vs code);
//!   intended  the bound text of every call (`substitute`), executed as plain SQL on a fresh cursor
//!             -> `real` must equal it                                        (direct oracle).
//! Also: model `substitute`/`scan` vs the real lexer on bound texts, and read-back of bound values.
use serde_json::{json, Value};
use vharness::sx::{hex_str, unhex_str};
use vharness::*;
use vibesql_parser::{Lexer, Parser, Token};

#[derive(Clone, Debug)]
enum Py {
    None,
    Bool(bool),
    Int(i64),
    Float(f64),
    Str(String),
}

impl Py {
    fn json(&self) -> Value {
        match self {
            Py::None => json!({"t": "none"}),
            Py::Bool(b) => json!({"t": "bool", "v": b}),
            Py::Int(i) => json!({"t": "int", "v": i.to_string()}),
            Py::Float(f) => json!({"t": "float", "v": if f.is_nan() { "nan".to_string() } else if f.is_infinite() { if *f > 0.0 { "inf".into() } else { "-inf".into() } } else { format!("{:?}", f) }}),
            Py::Str(s) => json!({"t": "str", "v": s}),
        }
    }
    /// the model's view of the value after `py_to_sqlvalue` (how it is printed into the SQL text)
    fn pval(&self) -> String {
        fn num(text: &str) -> String {
            match text.strip_prefix('-') {
                Some(b) => format!("(num 1 {})", hex_str(b)),
                None => format!("(num 0 {})", hex_str(text)),
            }
        }
        match self {
            Py::None => "null".into(),
            Py::Bool(b) => format!("(bool {})", if *b { 1 } else { 0 }),
            Py::Int(i) => num(&i.to_string()),
            // NaN / ±inf are refused by py_to_sqlvalue and never reach the SQL text
            Py::Float(f) => num(&f.to_string()),
            Py::Str(s) => format!("(str {})", hex_str(s)),
        }
    }
    fn special(&self) -> bool {
        matches!(self, Py::Float(f) if !f.is_finite())
    }
}

#[derive(Clone, Debug)]
struct Call {
    sql: String,
    params: Option<Vec<Py>>,
}

const PY_SCRIPT: &str = r#"
import sys, json, math
sys.path.insert(0, sys.argv[1])
import vibesql

def dec(p):
    t = p["t"]
    if t == "none": return None
    if t == "bool": return bool(p["v"])
    if t == "int": return int(p["v"])
    if t == "float": return float(p["v"])
    return p["v"]

def enc(v):
    if v is None: return ["none", ""]
    if isinstance(v, bool): return ["bool", str(v)]
    if isinstance(v, int): return ["int", str(v)]
    if isinstance(v, float): return ["float", repr(v)]
    return ["str", v]

def same(a, b):
    if a is None or b is None: return a is None and b is None
    if isinstance(a, str) != isinstance(b, str): return False
    if isinstance(a, bool) != isinstance(b, bool): return False
    if isinstance(a, float) and isinstance(b, float) and math.isnan(a) and math.isnan(b): return True
    return a == b

sessions = json.load(open(sys.argv[2]))
out = []
for sess in sessions:
    db = vibesql.connect(); cur = db.cursor()
    res = []
    for call in sess:
        if "raise" in call:
            res.append({"ok": False, "exc": call["raise"]}); continue
        try:
            params = call.get("params")
            if params is None: cur.execute(call["sql"])
            else:
                vals = tuple(dec(p) for p in params)
                cur.execute(call["sql"], vals)
            r = {"ok": True}
            try:
                rows = cur.fetchall()
                r["rows"] = sorted([[enc(v) for v in row] for row in rows])
                if call.get("echo") and params is not None and len(rows) == 1:
                    r["echo_same"] = len(rows[0]) == len(vals) and all(same(a, b) for a, b in zip(rows[0], vals))
            except Exception:
                r["rowcount"] = cur.rowcount
            res.append(r)
        except BaseException as e:
            res.append({"ok": False, "exc": type(e).__name__, "msg": str(e)[:160]})
    out.append(res)
json.dump(out, open(sys.argv[3], "w"))
"#;


const TYPED_SCRIPT: &str = r#"
import sys, json, math
sys.path.insert(0, sys.argv[1])
import vibesql

def dec(p):
    t = p["t"]
    if t == "none": return None
    if t == "bool": return bool(p["v"])
    if t == "int": return int(p["v"])
    if t == "float": return float(p["v"])
    return p["v"]

def enc(v):
    if v is None: return ["none", ""]
    if isinstance(v, bool): return ["bool", str(v)]
    if isinstance(v, int): return ["int", str(v)]
    if isinstance(v, float): return ["float", repr(v)]
    return ["str", v]

def same(a, b):
    if a is None or b is None: return a is None and b is None
    if isinstance(a, bool) != isinstance(b, bool): return False
    if isinstance(a, str) != isinstance(b, str): return False
    if isinstance(a, float) != isinstance(b, float): return False
    return a == b

def attempt(f):
    try:
        return {"ok": True, "v": f()}
    except BaseException as e:
        return {"ok": False, "exc": type(e).__name__, "msg": str(e)[:160]}

probes = json.load(open(sys.argv[2]))
out = []
for i, p in enumerate(probes):
    v = dec(p["value"]); ty = p["type"]
    tag = (" -- probe %d" % i) if p["distinct"] else ""
    db = vibesql.connect(); cur = db.cursor()      # fresh cursor: no statement cached from another probe
    cur.execute("CREATE TABLE t (k INTEGER, c %s)" % ty)
    r = {}
    def ins():
        cur.execute("INSERT INTO t VALUES (1, ?)" + tag, (v,)); return cur.rowcount
    r["insert"] = attempt(ins)
    def rd():
        cur.execute("SELECT c FROM t WHERE k = 1" + tag); rows = cur.fetchall()
        return {"n": len(rows), "same": len(rows) == 1 and same(rows[0][0], v), "got": [enc(x[0]) for x in rows]}
    r["read_after_insert"] = attempt(rd)
    cur.execute("DELETE FROM t"); cur.execute("INSERT INTO t VALUES (2, NULL)")
    def upd():
        cur.execute("UPDATE t SET c = ? WHERE k = 2" + tag, (v,)); return cur.rowcount
    r["update"] = attempt(upd)
    def rd2():
        cur.execute("SELECT c FROM t WHERE k = 2" + tag); rows = cur.fetchall()
        return {"n": len(rows), "same": len(rows) == 1 and same(rows[0][0], v), "got": [enc(x[0]) for x in rows]}
    r["read_after_update"] = attempt(rd2)
    def wh():
        cur.execute("SELECT k FROM t WHERE c = ?" + tag, (v,)); return len(cur.fetchall())
    r["where"] = attempt(wh)
    out.append(r)
json.dump(out, open(sys.argv[3], "w"))
"#;

fn run_python(dir: &std::path::Path, sessions: &Value, tag: &str) -> Vec<Vec<Value>> {
    serde_json::from_value(run_script(dir, "drive.py", sessions, tag)).unwrap()
}

fn run_script(dir: &std::path::Path, script: &str, sessions: &Value, tag: &str) -> Value {
    let inp = dir.join(format!("in-{}.json", tag));
    let outp = dir.join(format!("out-{}.json", tag));
    std::fs::write(&inp, serde_json::to_string(sessions).unwrap()).unwrap();
    let st = std::process::Command::new("python3")
        .arg(dir.join(script))
        .arg(dir)
        .arg(&inp)
        .arg(&outp)
        .stdout(std::process::Stdio::null())
        .stderr(std::process::Stdio::piped())
        .output()
        .expect("python3 not runnable");
    if !st.status.success() {
        panic!("python driver failed ({}): {}", st.status, String::from_utf8_lossy(&st.stderr).chars().take(600).collect::<String>());
    }
    serde_json::from_str(&std::fs::read_to_string(&outp).unwrap()).unwrap()
}

/// observable outcome of one call: ok + rows / rowcount, or the exception class
fn outcome(v: &Value) -> String {
    if v["ok"].as_bool() == Some(true) {
        if let Some(r) = v.get("rows") {
            format!("rows {}", r)
        } else {
            format!("count {}", v["rowcount"])
        }
    } else {
        format!("raise {}", v["exc"].as_str().unwrap_or("?"))
    }
}

fn params_sx(p: &Option<Vec<Py>>) -> String {
    match p {
        None => "none".into(),
        Some(v) => format!("({})", v.iter().map(|x| x.pval()).collect::<Vec<_>>().join(" ")),
    }
}

fn clears_cache(sql: &str) -> bool {
    let u = sql.trim_start().to_uppercase();
    u.starts_with("CREATE TABLE") || u.starts_with("DROP TABLE") || u.starts_with("CREATE VIEW") || u.starts_with("DROP VIEW")
}

fn parses(text: &str) -> bool {
    let t = text.to_string();
    matches!(std::panic::catch_unwind(move || Parser::parse_sql(&t)), Ok(Ok(_)))
}

fn gen_str(r: &mut Rng) -> String {
    // every class of code point, U+0000 included (the lexer's end-of-input sentinel is '\0')
    let pieces = [
        "'", "''", "?", ";", "--", " ", "a", "b", "x'); DROP TABLE t; --", "\\", "\"", "é", "漢", "%", "\n", "1", "NULL", "' OR '1'='1", "\0", "\0", "\0\0", "\\\0", "'\0", "\0'", "\u{1}", "\u{8}",
        "\t", "\r", "\u{1b}", "\u{1f}", "\u{7f}", "\u{80}", "\u{85}", "\u{9f}", "\u{a0}", "\u{feff}", "\u{2028}", "\u{2029}", "\u{301}", "\u{200d}", "😀", "𝄞",
    ];
    let n = r.below(5);
    (0..n).map(|_| *r.pick(&pieces)).collect()
}

fn gen_int(r: &mut Rng) -> i64 {
    match r.below(6) {
        0 => *r.pick(&[0, 1, -1, i64::MAX, i64::MIN + 1, 32767, 32768, -32768, -32769, 2147483647, 2147483648, -2147483649]),
        1 => r.next() as i64,
        _ => r.range(-50, 50),
    }
}

fn gen_float(r: &mut Rng, special: bool) -> f64 {
    match r.below(if special { 8 } else { 6 }) {
        0 => 0.5,
        1 => -2.5,
        2 => r.range(-1000, 1000) as f64 / 8.0,
        3 => *r.pick(&[1e300, -1e300, 1e-7, 5e-324, 0.1, 3.0, -0.0, 1e19]),
        4 => r.range(-9, 9) as f64 * 10f64.powi(r.range(-20, 20) as i32),
        5 => 1.0 / (r.range(1, 999) as f64),
        6 => f64::NAN,
        _ => *r.pick(&[f64::INFINITY, f64::NEG_INFINITY]),
    }
}

fn gen_py(r: &mut Rng, special: bool) -> Py {
    match r.below(8) {
        0 => Py::None,
        1 => Py::Bool(r.chance(1, 2)),
        2 | 3 => Py::Int(gen_int(r)),
        4 => Py::Float(gen_float(r, special)),
        _ => Py::Str(gen_str(r)),
    }
}

/// a session over table t(a INTEGER, b VARCHAR(200)); `distinct` makes every SQL text unique
fn gen_session(r: &mut Rng, distinct: bool) -> Vec<Call> {
    let mut calls = vec![Call { sql: "CREATE TABLE t (a INTEGER, b VARCHAR(200))".into(), params: None }];
    let n = r.range(2, 7);
    for i in 0..n {
        let (sql, params): (&str, Vec<Py>) = match r.below(9) {
            0 | 1 | 2 => ("INSERT INTO t VALUES (?, ?)", vec![Py::Int(r.range(-9, 9)), Py::Str(gen_str(r))]),
            3 => ("SELECT a, b FROM t WHERE a = ?", vec![Py::Int(r.range(-9, 9))]),
            4 => ("SELECT a FROM t WHERE b = ?", vec![Py::Str(gen_str(r))]),
            5 => ("UPDATE t SET b = ? WHERE a = ?", vec![Py::Str(gen_str(r)), Py::Int(r.range(-9, 9))]),
            6 => ("DELETE FROM t WHERE a = ?", vec![Py::Int(r.range(-9, 9))]),
            7 => ("SELECT ?, ?", vec![gen_py(r, false), gen_py(r, false)]),
            _ => ("SELECT a + ? FROM t WHERE a < ?", vec![Py::Int(r.range(0, 5)), Py::Int(r.range(-9, 9))]),
        };
        let sql = if distinct { format!("{} -- call {}", sql, i) } else { sql.to_string() };
        calls.push(Call { sql, params: Some(params) });
    }
    calls.push(Call { sql: "SELECT a, b FROM t".into(), params: None });
    calls
}

fn session_json(calls: &[Call]) -> Value {
    Value::Array(
        calls
            .iter()
            .map(|c| match &c.params {
                None => json!({"sql": c.sql}),
                Some(p) => json!({"sql": c.sql, "params": p.iter().map(|x| x.json()).collect::<Vec<_>>(), "echo": c.sql.starts_with("SELECT ?")}),
            })
            .collect(),
    )
}

fn describe(calls: &[Call]) -> String {
    calls.iter().map(|c| format!("cursor.execute({:?}{})", c.sql, match &c.params {
        None => String::new(),
        Some(p) => format!(", {:?}", p),
    })).collect::<Vec<_>>().join("\n")
}

fn texts_session(results: &[Sx]) -> Value {
    Value::Array(
        results
            .iter()
            .map(|r| match r.as_list() {
                Some([Sx::Atom(k), Sx::Atom(h)]) if k == "ran" => json!({"sql": unhex_str(h).unwrap_or_default()}),
                _ => json!({"raise": "ProgrammingError"}),
            })
            .collect(),
    )
}

fn coarse_real(toks: &[Token]) -> Vec<String> {
    let mut out = vec![];
    let mut other = String::new();
    let flush = |o: &mut String, out: &mut Vec<String>| {
        if !o.is_empty() {
            out.push(format!("(o {})", hex_str(&std::mem::take(o))));
        }
    };
    for t in toks {
        match t {
            Token::String(s) => {
                flush(&mut other, &mut out);
                out.push(format!("(s {})", hex_str(s)));
            }
            Token::DelimitedIdentifier(s) => {
                flush(&mut other, &mut out);
                out.push(format!("(i {})", hex_str(s)));
            }
            Token::Eof => {}
            Token::Keyword(k) => other.push_str(&format!("{}", k).to_uppercase()),
            Token::Identifier(s) => other.push_str(&s.to_uppercase()),
            Token::Number(n) => other.push_str(&n.to_uppercase()),
            Token::Symbol(c) => other.push(*c),
            Token::Operator(o) => other.push_str(o),
            Token::Semicolon => other.push(';'),
            Token::Comma => other.push(','),
            Token::LParen => other.push('('),
            Token::RParen => other.push(')'),
            Token::SessionVariable(v) => other.push_str(&format!("@@{}", v.to_uppercase())),
            Token::UserVariable(v) => other.push_str(&format!("@{}", v.to_uppercase())),
        }
    }
    flush(&mut other, &mut out);
    out
}

fn pieces_upper(reply: &str) -> Option<Vec<String>> {
    match Sx::parse(reply) {
        Some(Sx::List(l)) if l.first().and_then(|x| x.as_atom()) == Some("pieces") => Some(
            l[1..]
                .iter()
                .map(|p| match p.as_list() {
                    Some([Sx::Atom(k), Sx::Atom(h)]) if k == "o" => format!("(o {})", hex_str(&unhex_str(h).unwrap_or_default().to_uppercase())),
                    _ => p.to_string(),
                })
                .collect(),
        ),
        _ => None,
    }
}

fn main() {
    std::panic::set_hook(Box::new(|info| {
        if std::env::var("VERIF_SHOW_PANICS").is_ok() || info.location().map(|l| !l.file().starts_with('/') || l.file().contains("/verif/")).unwrap_or(false) {
            eprintln!("harness panic: {}", info);
        }
    }));
    let args = Args::parse("C30");
    let mut rep = Report::new(
        &args,
        "cases: session = sequence of cursor.execute(sql, params) calls on one cursor; text = (sql, values) pair for the substitution / lexer tie; \
         echo = value bound into SELECT ?. Non-trivial: the session repeats an SQL text with other values or binds a string with a quote / `?` / `--`; \
         the value is negative, beyond 32 bits, a float or such a string. Distinct by hash of the case.",
    );
    rep.assumptions.push("tie = the compiled extension module (cargo build -p vibesql-python-bindings --offline, copied to vibesql.so) driven from python3; observable = fetched rows (as multisets), rowcount, exception class".into());
    rep.assumptions.push("read-back equality is Python's == (an int bound as True reads back as 1; i64::MIN reads back as a float of the same value)".into());

    // ---- build and install the extension from the working tree
    let t0 = std::time::Instant::now();
    let out = std::process::Command::new("cargo")
        .args(["build", "-p", "vibesql-python-bindings", "--offline", "--quiet"])
        .current_dir("/repo")
        .env("RUSTC_WRAPPER", "")
        .output()
        .expect("cargo not runnable");
    if !out.status.success() {
        let err = String::from_utf8_lossy(&out.stderr);
        let errs: String = err.lines().filter(|l| !l.starts_with("warning")).take(40).collect::<Vec<_>>().join("\n");
        rep.fail(FailKind::ModelDiff, None, "the Python extension no longer builds from the working tree", &errs);
        std::process::exit(rep.finish());
    }
    std::fs::copy("/repo/target/debug/libvibesql.so", args.scratch.join("vibesql.so")).expect("extension library not found");
    std::fs::write(args.scratch.join("drive.py"), PY_SCRIPT).unwrap();
    std::fs::write(args.scratch.join("typed.py"), TYPED_SCRIPT).unwrap();
    rep.extra.insert("extension_build_s".into(), json!(t0.elapsed().as_secs_f64()));
    rep.extra.insert("tie".into(), json!("compiled extension driven from python3"));

    let mut model = args.model();
    let mut rng = Rng::new(args.seed);

    // ---- sessions
    let mut sessions: Vec<(Vec<Call>, &str)> = vec![];
    let i1 = |v: i64| Some(vec![Py::Int(v)]);
    let ct = || Call { sql: "CREATE TABLE t (a INTEGER, b VARCHAR(200))".into(), params: None };
    let fin = || Call { sql: "SELECT a, b FROM t".into(), params: None };
    // deterministic probes
    sessions.push((vec![ct(), Call { sql: "INSERT INTO t VALUES (?, ?)".into(), params: Some(vec![Py::Int(1), Py::Str("x".into())]) }, Call { sql: "INSERT INTO t VALUES (?, ?)".into(), params: Some(vec![Py::Int(2), Py::Str("y".into())]) }, fin()], "probe-cache-replay"));
    sessions.push((vec![Call { sql: "SELECT ?".into(), params: i1(1) }, Call { sql: "SELECT ?".into(), params: i1(2) }], "probe-cache-replay"));
    sessions.push((vec![Call { sql: "SELECT ?".into(), params: i1(1) }, Call { sql: "SELECT ?".into(), params: Some(vec![]) }, Call { sql: "SELECT ?".into(), params: Some(vec![Py::Int(1), Py::Int(2)]) }], "probe-count-unchecked"));
    sessions.push((vec![Call { sql: "SELECT ?".into(), params: i1(1) }, Call { sql: "SELECT ?".into(), params: i1(1) }], "probe-same-values"));
    sessions.push((vec![ct(), Call { sql: "INSERT INTO t VALUES (?, ?)".into(), params: Some(vec![Py::Int(1), Py::Str("x".into())]) }, Call { sql: "DROP TABLE t".into(), params: None }, ct(), Call { sql: "INSERT INTO t VALUES (?, ?)".into(), params: Some(vec![Py::Int(2), Py::Str("y".into())]) }, fin()], "probe-clear-on-ddl"));
    sessions.push((vec![ct(), Call { sql: "INSERT INTO t VALUES (?, ?)".into(), params: Some(vec![Py::Int(-5), Py::Str("x'); DROP TABLE t; --".into())]) }, fin()], "probe-hostile-string"));
    sessions.push((vec![Call { sql: "SELECT ?, ?".into(), params: Some(vec![Py::Int(1)]) }], "probe-count-mismatch"));
    sessions.push((vec![Call { sql: "SELECT 1".into(), params: Some(vec![]) }, Call { sql: "SELECT 1".into(), params: None }], "probe-no-placeholders"));
    let n_probe = sessions.len();
    for _ in 0..args.n(400, 6000) {
        let mut r = rng.fork();
        let distinct = r.chance(1, 2);
        sessions.push((gen_session(&mut r, distinct), if distinct { "gen-distinct-texts" } else { "gen-repeating-texts" }));
    }

    // model: what is run per call, as coded and with every call bound on its own
    let mut ascoded: Vec<Vec<Sx>> = vec![];
    let mut intended: Vec<Vec<Sx>> = vec![];
    for (calls, _) in &sessions {
        // texts that do not parse (the cache is not filled on a parse error)
        let mut bad = vec![];
        for c in calls {
            let reply = model.ask(&format!("bind {} {}", hex_str(&c.sql), params_sx(&c.params)));
            if let Some(Sx::List(l)) = Sx::parse(&reply) {
                if l.first().and_then(|x| x.as_atom()) == Some("ok") {
                    let t = unhex_str(l[1].as_atom().unwrap()).unwrap_or_default();
                    if !parses(&t) {
                        bad.push(hex_str(&t));
                    }
                }
            }
        }
        let ops: String = calls.iter().map(|c| format!(" (call {} {} {})", hex_str(&c.sql), params_sx(&c.params), if clears_cache(&c.sql) { 1 } else { 0 })).collect();
        let get = |model: &mut model::Model, key: &str| -> Vec<Sx> {
            let reply = model.ask(&format!("session {} (bad {}){}", key, bad.join(" "), ops));
            match Sx::parse(&reply) {
                Some(Sx::List(l)) if l.first().and_then(|x| x.as_atom()) == Some("results") => l[1..].to_vec(),
                _ => panic!("model: bad session reply {}", reply),
            }
        };
        ascoded.push(get(&mut model, "unbound"));
        intended.push(get(&mut model, "bound"));
    }
    let real = run_python(&args.scratch, &Value::Array(sessions.iter().map(|(c, _)| session_json(c)).collect()), "real");
    let ref_coded = run_python(&args.scratch, &Value::Array(ascoded.iter().map(|r| texts_session(r)).collect()), "ascoded");
    let ref_intended = run_python(&args.scratch, &Value::Array(intended.iter().map(|r| texts_session(r)).collect()), "intended");

    for (i, (calls, kind)) in sessions.iter().enumerate() {
        let o_real: Vec<String> = real[i].iter().map(outcome).collect();
        let o_coded: Vec<String> = ref_coded[i].iter().map(outcome).collect();
        let o_int: Vec<String> = ref_intended[i].iter().map(outcome).collect();
        // does the session repeat an SQL text whose bound text differs (the cache replay situation)?
        let mut replay = false;
        let mut seen: std::collections::HashMap<&str, String> = std::collections::HashMap::new();
        for (c, it) in calls.iter().zip(intended[i].iter()) {
            if clears_cache(&c.sql) {
                seen.clear();
                continue;
            }
            let t = it.to_string();
            match seen.get(c.sql.as_str()) {
                Some(prev) if *prev != t => replay = true,
                Some(_) => {}
                None => {
                    seen.insert(&c.sql, t);
                }
            }
        }
        let hostile = calls.iter().flat_map(|c| c.params.iter().flatten()).any(|p| matches!(p, Py::Str(s) if s.contains('\'') || s.contains('?') || s.contains("--")));
        rep.case(&format!("session {:?}", calls), replay || hostile);
        rep.count(&format!("session_{}", kind));
        rep.add("calls", calls.len() as u64);
        if replay {
            rep.count("sessions_repeating_a_text_with_other_values");
        }
        if i < n_probe + 2 {
            rep.sample(json!({"kind": kind, "calls": describe(calls), "real": o_real}));
        }
        rep.traces_validated += 1;
        let show = |m: &[Sx]| m.iter().map(|r| match r.as_list() { Some([_, Sx::Atom(h)]) => format!("{:?}", unhex_str(h).unwrap_or_default()), _ => r.to_string() }).collect::<Vec<_>>().join("\n  ");
        if o_real != o_coded {
            rep.fail(
                FailKind::ModelDiff,
                None,
                "session: the model's cursor machine (cache keyed by the unbound text) does not predict what the extension does",
                &format!("{}\nreal outcomes: {:#?}\nmodel says these texts are run:\n  {}\noutcomes of those texts: {:#?}", describe(calls), o_real, show(&ascoded[i]), o_coded),
            );
        }
        if o_real != o_int {
            let sig = if replay && o_real == o_coded { Some("C30/stmt-cache-replays-first-binding") } else { None };
            rep.fail(
                FailKind::Oracle,
                sig,
                "a call does not behave as executing its SQL with its own values bound",
                &format!("{}\nreal outcomes: {:#?}\nintended texts:\n  {}\nintended outcomes: {:#?}", describe(calls), o_real, show(&intended[i]), o_int),
            );
        }
    }

    // ---- substitution / lexer tie on (sql, values): model `substitute` then real lexer vs model pieces,
    //      and the structure theorem's conclusion checked on the real lexer where `bindSafe` holds
    let templates = [
        "SELECT ?", "SELECT ?, ?", "INSERT INTO t VALUES (?, ?)", "SELECT a FROM t WHERE b = ? AND a < ?", "SELECT '?', ?", "SELECT 7-?", "SELECT 7 - ?", "SELECT ?'b'", "SELECT ? 'b'",
        "SELECT \"?\", ?", "SELECT 1 -- ?\n, ?", "SELECT ?-?", "SELECT a?", "SELECT ? ?", "SELECT ??", "UPDATE t SET b=? WHERE a=?", "SELECT 'it''s ?', ?",
    ];
    let mut echo_calls: Vec<Call> = vec![];
    let mut text_calls: Vec<Call> = vec![];
    let mut text_bound: Vec<String> = vec![];
    for i in 0..args.n(2500, 40000) {
        let mut r = rng.fork();
        let sql = *r.pick(&templates);
        // number of placeholders as `bind_parameters` counts them (not every `?` character)
        let k: usize = model.ask(&format!("count {}", hex_str(sql))).parse().expect("model: count");
        let vals: Vec<Py> = (0..k).map(|_| gen_py(&mut r, false)).collect();
        let vs = format!("({})", vals.iter().map(|x| x.pval()).collect::<Vec<_>>().join(" "));
        let bound = unhex_str(&model.ask(&format!("substitute {} {}", hex_str(sql), vs))).unwrap_or_default();
        rep.case(&format!("text {} {}", sql, vs), vals.iter().any(|v| matches!(v, Py::Str(s) if !s.is_empty()) || matches!(v, Py::Int(i) if *i < 0) || matches!(v, Py::Float(_))));
        rep.count(if k == sql.matches('?').count() { "text_all_marks_are_placeholders" } else { "text_with_question_mark_in_literal_or_comment" });
        if i < 2 {
            rep.sample(json!({"kind": "text", "sql": sql, "values": format!("{:?}", vals), "bound": bound}));
        }
        text_calls.push(Call { sql: format!("{} -- text {}", sql, i), params: Some(vals.clone()) });
        text_bound.push(format!("{} -- text {}", bound, i));
        // real lexer on the bound text vs model scan
        let b2 = bound.clone();
        let real_toks = std::panic::catch_unwind(move || Lexer::new(&b2).tokenize()).unwrap_or_else(|_| Err(vibesql_parser::LexerError { message: "panic".into(), position: 0 }));
        let m_scan = model.ask(&format!("scan {}", hex_str(&bound)));
        rep.traces_validated += 1;
        match (&real_toks, pieces_upper(&m_scan)) {
            (Ok(t), Some(p)) => {
                if coarse_real(t) != p {
                    rep.fail(FailKind::ModelDiff, None, "scanner: model pieces and Lexer tokens disagree on a bound text", &format!("text: {:?}\ncode: {:?}\nmodel: {}", bound, t, m_scan));
                } else {
                    // direct oracle (T2 on the real lexer): tokens of the bound text = pieces of the SQL with the holes filled
                    let filled = pieces_upper(&model.ask(&format!("filled {} {}", hex_str(sql), vs)));
                    if filled.as_ref() != Some(&coarse_real(t)) {
                        rep.fail(FailKind::Oracle, None, "binding changed the structure of the statement", &format!("sql: {:?}\nvalues: {:?}\nbound: {:?}\ntokens: {:?}\nexpected pieces: {:?}", sql, vals, bound, t, filled));
                    }
                }
            }
            (Err(e), Some(_)) => {
                if e.message.contains("Unterminated") || e.message.contains("Empty delimited") {
                    rep.fail(FailKind::ModelDiff, None, "scanner: Lexer reports a quoting error the model does not", &format!("text: {:?}\ncode: {}\nmodel: {}", bound, e.message, m_scan));
                } else {
                    rep.count("text_real_lexer_error_outside_model");
                }
            }
            (Ok(t), None) => rep.fail(FailKind::ModelDiff, None, "scanner: model reports an error where Lexer succeeds", &format!("text: {:?}\ncode: {:?}\nmodel: {}", bound, t, m_scan)),
            (Err(_), None) => rep.count("text_both_error"),
        }
        // collect read-back probes: SELECT ?, … with these values
        if sql == "SELECT ?" || sql == "SELECT ?, ?" {
            echo_calls.push(Call { sql: format!("{} -- echo {}", sql, i), params: Some(vals) });
        }
    }
    // boundary values read back
    // integers at the type boundaries of py_to_sqlvalue (i16 / u16 / i32 / u32 / i64) and their neighbours
    let mut bints: Vec<i64> = vec![];
    for b in [1i64 << 15, 1 << 16, 1 << 31, 1 << 32] {
        for d in [-2i64, -1, 0, 1, 2] {
            bints.push(b + d);
            bints.push(-b + d);
        }
    }
    bints.extend([40000, 50000, 65535, -40000, 3_000_000_000, -3_000_000_000, i64::MAX - 1, i64::MIN + 2]);
    for (j, b) in bints.iter().enumerate() {
        echo_calls.push(Call { sql: format!("SELECT ? -- int boundary {}", j), params: Some(vec![Py::Int(*b)]) });
    }
    for (j, st) in ["\0", "\0x", "x\0y", "x\0", "\0\0", "\\\0", "'\0", "\0'", "\u{1}\u{1f}\u{7f}", "\u{80}\u{9f}", "\u{feff}", "\u{2028}\u{2029}", "\u{301}", "𝄞"].iter().enumerate() {
        echo_calls.push(Call { sql: format!("SELECT ? -- str boundary {}", j), params: Some(vec![Py::Str(st.to_string())]) });
        echo_calls.push(Call { sql: format!("SELECT ?, ? -- str boundary pair {}", j), params: Some(vec![Py::Str(st.to_string()), Py::Str(format!("{}'", st))]) });
    }
    for (j, v) in [Py::Int(i64::MAX), Py::Int(i64::MIN), Py::Int(i64::MIN + 1), Py::Int(-1), Py::Int(32768), Py::Int(-32769), Py::Float(-0.0), Py::Float(1e300), Py::Float(5e-324), Py::Float(f64::NAN), Py::Float(f64::INFINITY), Py::Bool(true), Py::Bool(false), Py::None, Py::Str("".into()), Py::Str("'".into()), Py::Str("?".into()), Py::Str("a?b'c".into())].iter().enumerate() {
        echo_calls.push(Call { sql: format!("SELECT ? -- boundary {}", j), params: Some(vec![v.clone()]) });
    }
    let echo_real = run_python(&args.scratch, &Value::Array(vec![session_json(&echo_calls)]), "echo");
    for (c, r) in echo_calls.iter().zip(echo_real[0].iter()) {
        let vals = c.params.as_ref().unwrap();
        let special = vals.iter().any(|v| v.special());
        rep.case(&format!("echo {:?}", c), vals.iter().any(|v| !matches!(v, Py::None)));
        rep.count(if special { "echo_special_float" } else { "echo_finite" });
        let ok = if special {
            // NaN / ±inf have no SQL literal: binding them must be refused cleanly
            r["ok"].as_bool() == Some(false) && r["exc"].as_str() == Some("ProgrammingError")
        } else {
            r["ok"].as_bool() == Some(true) && r["echo_same"].as_bool() == Some(true)
        };
        if !ok {
            rep.fail(FailKind::Oracle, None, if special { "a non-finite float parameter is not refused with ProgrammingError" } else { "a bound value does not read back equal (value and bool-ness)" }, &format!("cursor.execute({:?}, {:?})\nresult: {}", c.sql, vals, r));
        }
    }

    // ---- the real extension binds exactly the text the model's `substitute` produces: the call with
    //      parameters and the model's bound text as plain SQL give the same observable result
    {
        let real: Vec<Vec<Value>> = run_python(&args.scratch, &Value::Array(text_calls.iter().map(|c| session_json(std::slice::from_ref(c))).collect()), "textreal");
        let refr: Vec<Vec<Value>> = run_python(&args.scratch, &Value::Array(text_bound.iter().map(|t| json!([{"sql": t}])).collect()), "textref");
        for ((c, a), b) in text_calls.iter().zip(real.iter()).zip(refr.iter()) {
            rep.traces_validated += 1;
            if outcome(&a[0]) != outcome(&b[0]) {
                rep.fail(FailKind::ModelDiff, None, "the extension does not run the text the model's substitute produces", &format!("cursor.execute({:?}, {:?})\nreal: {}\nmodel's bound text run as plain SQL: {}", c.sql, c.params, outcome(&a[0]), outcome(&b[0])));
            }
        }
    }

    // ---- typed read-back: a value bound into a column of each type through INSERT, UPDATE and WHERE,
    //      read back and compared with the Python value (type and value); once with SQL texts that are
    //      distinct per probe and once with the same texts on a fresh cursor (no cached statement)
    {
        let mut ints: Vec<i64> = vec![0, 1, -1, 7, -7];
        for b in [1i64 << 15, 1 << 16, 1 << 31, 1 << 32, 1 << 53] {
            for d in [-2i64, -1, 0, 1, 2] {
                ints.push(b + d);
                ints.push(-b + d);
            }
        }
        ints.extend([i64::MAX, i64::MAX - 1, i64::MIN, i64::MIN + 1, i64::MIN + 2, i16::MIN as i64, i16::MAX as i64, i32::MIN as i64, i32::MAX as i64]);
        for _ in 0..args.n(20, 2000) {
            ints.push(gen_int(&mut rng));
        }
        ints.sort();
        ints.dedup();
        let mut probes: Vec<(String, Py, Option<bool>)> = vec![]; // (column type, value, expected acceptance if the model decides it)
        for ty in ["SMALLINT", "INTEGER", "BIGINT"] {
            for n in &ints {
                // SMALLINT gets the values near its own range only (plus a few far ones)
                if ty == "SMALLINT" && n.unsigned_abs() > 70000 && n.unsigned_abs() != i64::MIN.unsigned_abs() {
                    continue;
                }
                let reply = model.ask(&format!("bindint {} {}", ty.to_lowercase(), n));
                let want = match Sx::parse(&reply) {
                    Some(Sx::List(l)) if l.first().and_then(|x| x.as_atom()) == Some("ok") => {
                        assert_eq!(l[1].as_atom(), Some(n.to_string().as_str()), "model stores another value: {}", reply);
                        true
                    }
                    _ => false,
                };
                probes.push((ty.to_string(), Py::Int(*n), Some(want)));
            }
        }
        for f in [0.0, -0.0, 0.5, -2.5, 0.1, 1e300, -1e300, f64::MAX, f64::MIN, f64::MIN_POSITIVE, 5e-324, -5e-324, 1e-7, 3.0, 9007199254740993.0, 1e19, -9.223372036854775808e18] {
            probes.push(("DOUBLE PRECISION".into(), Py::Float(f), Some(true)));
        }
        for _ in 0..args.n(15, 1500) {
            let f = gen_float(&mut rng, false);
            probes.push(("DOUBLE PRECISION".into(), Py::Float(f), Some(true)));
        }
        let c0: String = (1u8..0x20).map(|b| b as char).collect();
        let special_strings: Vec<String> = ["\0", "\0x", "x\0y", "x\0", "\0\0\0", "\\\0", "\0\\", "'\0", "\0'", "\0'\0", "a\0'; --", "\u{7f}", "\u{80}\u{9f}", "\u{85}", "\u{feff}x", "\u{2028}\u{2029}", "\u{301}", "e\u{301}", "𝄞😀", "\u{10ffff}", "\u{fffd}"]
            .iter()
            .map(|x| x.to_string())
            .chain(std::iter::once(c0))
            .collect();
        for st in &special_strings {
            probes.push(("VARCHAR(200)".into(), Py::Str(st.clone()), Some(true)));
        }
        for st in ["", "a", "'", "''", "?", "a?b'c", "\\", "\\'", "\"", "--", "; DROP TABLE t; --", "x' OR '1'='1", "é漢😀", "\n", " lead", "trail ", "%_", "NULL", "TRUE"] {
            probes.push(("VARCHAR(200)".into(), Py::Str(st.to_string()), Some(true)));
        }
        for _ in 0..args.n(25, 2500) {
            probes.push(("VARCHAR(200)".into(), Py::Str(gen_str(&mut rng)), Some(true)));
        }
        probes.push(("BOOLEAN".into(), Py::Bool(true), Some(true)));
        probes.push(("BOOLEAN".into(), Py::Bool(false), Some(true)));
        for ty in ["SMALLINT", "INTEGER", "BIGINT", "DOUBLE PRECISION", "VARCHAR(200)", "BOOLEAN"] {
            probes.push((ty.into(), Py::None, Some(true)));
        }
        for distinct in [true, false] {
            let req = Value::Array(probes.iter().map(|(ty, v, _)| json!({"type": ty, "value": v.json(), "distinct": distinct})).collect());
            let res = run_script(&args.scratch, "typed.py", &req, if distinct { "typed-d" } else { "typed-r" });
            for ((ty, v, want), r) in probes.iter().zip(res.as_array().unwrap().iter()) {
                let id = format!("typed {} {:?} {}", ty, v, distinct);
                rep.case(&id, !matches!(v, Py::None));
                rep.count(&format!("typed_{}", ty.split(|c: char| !c.is_ascii_alphabetic()).next().unwrap_or("").to_lowercase()));
                let ins_ok = r["insert"]["ok"].as_bool() == Some(true);
                let upd_ok = r["update"]["ok"].as_bool() == Some(true);
                rep.traces_validated += 1;
                let want = want.unwrap_or(true);
                // model vs code: the model's coercion accepts the value  <=>  INSERT and UPDATE accept it
                if ins_ok != want || upd_ok != want {
                    rep.fail(FailKind::ModelDiff, None, "typed binding: model and extension disagree on whether the column accepts the value", &format!("column type {} value {:?} (distinct texts: {})\nmodel accepts: {}\nresult: {}", ty, v, distinct, want, r));
                }
                // direct oracle: a value of the column's range is stored and read back as itself,
                // and is found again by WHERE c = ? (NULL never matches)
                if want {
                    let same1 = r["read_after_insert"]["v"]["same"].as_bool() == Some(true);
                    let same2 = r["read_after_update"]["v"]["same"].as_bool() == Some(true);
                    let where_n = r["where"]["v"].as_i64();
                    let where_ok = if matches!(v, Py::None) { where_n == Some(0) } else { where_n == Some(1) };
                    if !(ins_ok && upd_ok && same1 && same2 && where_ok) {
                        rep.fail(FailKind::Oracle, None, "a value bound into a column of its type does not read back equal (INSERT / UPDATE / WHERE)", &format!("column type {} value {:?} (distinct texts: {})\nresult: {}", ty, v, distinct, r));
                    }
                }
            }
        }
    }

    // ---- deterministic probes of the structure findings, on the real extension
    let probes: Vec<(Vec<Call>, Vec<&str>, &str)> = vec![
        // (calls, intended outcome per call, signature)
        (vec![Call { sql: "SELECT '?', ?".into(), params: Some(vec![Py::Int(2)]) }], vec!["rows [[[\"str\",\"?\"],[\"int\",\"2\"]]]"], "C30/placeholder-in-literal"),
        (vec![Call { sql: "SELECT 7-?".into(), params: Some(vec![Py::Int(-5)]) }], vec!["rows [[[\"int\",\"12\"]]]"], "C30/negative-after-minus"),
        // `SELECT 'a' 'b'` (what separate tokens would give) returns a; the bound text is the single literal 'a''b'
        (vec![Call { sql: "SELECT ?'b'".into(), params: Some(vec![Py::Str("a".into())]) }], vec!["rows [[[\"str\",\"a\"]]]"], "C30/string-before-quote"),
        (vec![Call { sql: "SELECT \"?\", ? -- ?".into(), params: Some(vec![Py::Int(1)]) }], vec!["raise OperationalError"], "question marks in a delimited identifier and a comment are text"),
        (vec![Call { sql: "CREATE TABLE b (x BOOLEAN, y INTEGER)".into(), params: None }, Call { sql: "INSERT INTO b VALUES (?, ?)".into(), params: Some(vec![Py::Bool(true), Py::Int(5)]) }, Call { sql: "SELECT x, y FROM b".into(), params: None }], vec!["count 0", "count 1", "rows [[[\"bool\",\"True\"],[\"int\",\"5\"]]]"], "bool into BOOLEAN column"),
    ];
    let probe_real = run_python(&args.scratch, &Value::Array(probes.iter().map(|(c, _, _)| session_json(c)).collect()), "probe");
    for ((calls, want, sig), got) in probes.iter().zip(probe_real.iter()) {
        let o: Vec<String> = got.iter().map(outcome).collect();
        rep.case(&format!("probe {:?}", calls), true);
        rep.count("structure_probe");
        let _ = sig;
        if o.iter().map(|s| s.as_str()).collect::<Vec<_>>() != *want {
            rep.fail(FailKind::Oracle, None, "a value bound in this position does not give the intended statement", &format!("{}\nreal: {:?}\nintended: {:?}", describe(calls), o, want));
        }
    }
    rep.extra.insert("model_requests".into(), json!(model.requests));
    std::process::exit(rep.finish());
}
