//! C18 — native save/load round-trips the database.
//!
//! (A) codec tie, both directions: real `write_sql_value` bytes == model `writeValue` bytes, the
//!     model decodes them to the same value, the real `read_sql_value` decodes the model's bytes
//!     to the same value; plus arbitrary bytes through both decoders.
//! (B) deterministic probes: special values, every column type, the recorded findings.
//! (C) direct oracle on generated databases: save_binary / save_compressed / save_json → load →
//!     same tables, columns (name, type, nullability), rows (bit-exact), index definitions, and the
//!     same answers for full-scan and index-driven queries.
mod common;
use common::*;
use std::collections::BTreeMap;
use vharness::*;
use vibesql_storage::persistence::binary::value::{read_sql_value, write_sql_value};
use vibesql_types::{DataType, SqlValue as V};

const SIG_JSON_NONFINITE: &str = "C18/json-nonfinite-float-becomes-null";
const SIG_BIN_TYPE_UNLOADABLE: &str = "C18/binary-type-not-reloadable";
const SIG_BIN_TYPE_LOSSY: &str = "C18/binary-type-lossy";
const SIG_JSON_TYPE_LOSSY: &str = "C18/json-type-lossy";

fn real_write(v: &V) -> Vec<u8> {
    let mut buf = vec![];
    write_sql_value(&mut buf, v).expect("write to Vec cannot fail");
    buf
}
/// (value, bytes consumed) or error text / panic
fn real_read(b: &[u8]) -> Result<(V, usize), String> {
    let r = std::panic::catch_unwind(|| {
        let mut rd = b;
        read_sql_value(&mut rd).map(|v| (v, b.len() - rd.len()))
    });
    match r {
        Ok(Ok(x)) => Ok(x),
        Ok(Err(e)) => Err(format!("{:?}", e)),
        Err(p) => Err(format!("PANIC {}", engine::panic_text(p))),
    }
}

fn codec_case(v: &V, junk: &[u8], m: &mut model::Model, rep: &mut Report) {
    let sx = val_sx(v);
    rep.case(&format!("codec {} {}", sx, junk.len()), !matches!(v, V::Null));
    rep.count(&format!("codec_{}", sx[1..].split(' ').next().unwrap_or("?").trim_end_matches(')')));
    let real = real_write(v);
    // model encodes
    let enc = m.ask(&format!("encval {}", sx));
    let enc_hex = Sx::parse(&enc).and_then(|s| s.as_list().and_then(|l| l.get(1).and_then(|x| x.as_atom().map(|a| a.to_string()))));
    if enc_hex.as_deref() != Some(hex(&real).as_str()) {
        rep.fail(FailKind::ModelDiff, None, "write_sql_value bytes differ from the model's writeValue", &format!("value: {:?}\nmodel request: encval {}\nreal bytes: {}\nmodel reply: {}", v, sx, hex(&real), enc));
        return;
    }
    // model decodes the real bytes (followed by junk)
    let mut inp = real.clone();
    inp.extend_from_slice(junk);
    let dec = m.ask(&format!("decval {}", hex(&inp)));
    let want = format!("(ok {} {} ", sx, junk.len());
    if !dec.starts_with(&want) {
        rep.fail(FailKind::ModelDiff, None, "model readValue does not return the value write_sql_value encoded", &format!("value: {:?}\nbytes: {}\nmodel reply: {}\nexpected prefix: {}", v, hex(&inp), dec, want));
    }
    // real decodes the model's bytes: direct oracle of T1 on the real code
    let model_bytes = unhex(enc_hex.as_deref().unwrap()).unwrap();
    let mut inp2 = model_bytes.clone();
    inp2.extend_from_slice(junk);
    match real_read(&inp2) {
        Ok((v2, used)) if same_val(v, &v2) && used == model_bytes.len() => {}
        other => rep.fail(FailKind::Oracle, None, "read_sql_value(write_sql_value(v)) is not v (or consumes a different number of bytes)", &format!("value: {:?}\nbytes: {}\nread_sql_value: {:?}", v, hex(&inp2), other)),
    }
}

fn bytes_case(b: &[u8], m: &mut model::Model, rep: &mut Report) {
    let dec = m.ask(&format!("decval {}", hex(b)));
    let real = real_read(b);
    rep.case(&format!("bytes {}", hex(b)), b.len() > 1);
    let model_ok = dec.starts_with("(ok ");
    match (&real, model_ok) {
        (Ok((v, used)), true) => {
            rep.count("bytes_both_ok");
            if is_temporal(v) {
                return; // the model keeps the text, the real code parses it (C22)
            }
            let want = format!("(ok {} {} ", val_sx(v), b.len() - used);
            if !dec.starts_with(&want) {
                rep.fail(FailKind::ModelDiff, None, "decoders disagree on arbitrary bytes", &format!("bytes: {}\nreal: {:?} used {}\nmodel: {}", hex(b), v, used, dec));
            }
        }
        (Err(e), false) => {
            rep.count("bytes_both_err");
            if e.starts_with("PANIC") {
                rep.fail(FailKind::Oracle, None, "read_sql_value panicked", &format!("bytes: {}\n{}", hex(b), e));
            }
        }
        (Err(e), true) => {
            // acceptable only when the model decoded a temporal string the real parser rejects
            let temporal = ["(ok (date", "(ok (time", "(ok (timestamp", "(ok (interval"].iter().any(|p| dec.starts_with(p));
            if e.starts_with("PANIC") {
                let sig = if temporal && dec.starts_with("(ok (time") { Some("C20/time-fraction-non-ascii-panic") } else { None };
                let _ = sig;
                rep.count("bytes_temporal_parser_panic_seen(C20/C22)");
            } else if !(temporal && e.contains("Invalid")) {
                rep.fail(FailKind::ModelDiff, None, "real decoder rejects bytes the model decodes", &format!("bytes: {}\nreal: {}\nmodel: {}", hex(b), e, dec));
            } else {
                rep.count("bytes_temporal_text_rejected");
            }
        }
        (Ok((v, _)), false) => {
            rep.fail(FailKind::ModelDiff, None, "real decoder accepts bytes the model rejects", &format!("bytes: {}\nreal: {:?}\nmodel: {}", hex(b), v, dec));
        }
    }
}

// ---------------------------------------------------------------------------------------------

struct Diff {
    what: String,
    detail: String,
    sig: Option<&'static str>,
}

fn type_unloadable_in_binary(t: &DataType) -> bool {
    matches!(
        t,
        DataType::Interval { .. } | DataType::Bit { .. } | DataType::UserDefined { .. } | DataType::CharacterLargeObject | DataType::BinaryLargeObject | DataType::Null
    )
}

fn lit_for(v: &V) -> Option<String> {
    match v {
        V::Integer(i) | V::Bigint(i) if i.unsigned_abs() < (1 << 31) => Some(if *i < 0 { format!("(0{})", i) } else { i.to_string() }),
        V::Smallint(i) => Some(if *i < 0 { format!("(0{})", i) } else { i.to_string() }),
        V::Varchar(s) if !s.chars().any(|c| c.is_control() || c == '\\') => Some(format!("'{}'", s.replace('\'', "''"))),
        // temporal literals are spelled from the fields, not through Display
        V::Time(t) => Some(format!("TIME '{}'", time_text(t))),
        V::Date(d) if d.year >= 1 => Some(format!("DATE '{}'", date_text(d))),
        V::Timestamp(ts) if ts.date.year >= 1 => Some(format!("TIMESTAMP '{} {}'", date_text(&ts.date), time_text(&ts.time))),
        V::Boolean(b) => Some(if *b { "TRUE".into() } else { "FALSE".into() }),
        _ => None,
    }
}

/// class of a value under the sort key's equality: all NaNs together, -0.0 with 0.0, everything else exact
fn sort_class(v: &V) -> String {
    let f = match v {
        V::Double(f) | V::Numeric(f) => Some(*f),
        V::Float(f) | V::Real(f) => Some(*f as f64),
        _ => None,
    };
    match f {
        Some(f) if f.is_nan() => "nan".into(),
        Some(f) if f == 0.0 => "zero".into(),
        _ => val_struct(v),
    }
}

fn bag(rows: &[Vec<V>]) -> Vec<String> {
    let mut v: Vec<String> = rows.iter().map(|r| r.iter().map(val_struct).collect::<Vec<_>>().join(" ")).collect();
    v.sort();
    v
}

/// rows of `scan` with column `ci` equal to `probe` (same variant; the generator stores exactly one variant per column)
fn truth_eq(scan: &[Vec<V>], ci: usize, probe: &V) -> Vec<String> {
    let rows: Vec<Vec<V>> = scan.iter().filter(|r| same_val(&r[ci], probe)).cloned().collect();
    bag(&rows)
}

fn compare_dbs(orig: &mut Db, loaded: &mut Db, fmt: Fmt, rep: &mut Report) -> Vec<Diff> {
    let mut d = vec![];
    let mut t1 = orig.db.catalog.list_tables();
    let mut t2 = loaded.db.catalog.list_tables();
    t1.sort();
    t2.sort();
    if t1 != t2 {
        d.push(Diff { what: "table names differ".into(), detail: format!("{:?} vs {:?}", t1, t2), sig: None });
        return d;
    }
    for t in &t1 {
        let (Some(a), Some(b)) = (orig.db.get_table(t), loaded.db.get_table(t)) else {
            d.push(Diff { what: "table missing after load".into(), detail: t.clone(), sig: None });
            continue;
        };
        let ca: Vec<_> = a.schema.columns.iter().map(|c| (c.name.clone(), c.data_type.clone(), c.nullable)).collect();
        let cb: Vec<_> = b.schema.columns.iter().map(|c| (c.name.clone(), c.data_type.clone(), c.nullable)).collect();
        if ca.len() != cb.len() {
            d.push(Diff { what: "column count differs".into(), detail: format!("{}: {:?} vs {:?}", t, ca, cb), sig: None });
            continue;
        }
        for (x, y) in ca.iter().zip(&cb) {
            if x.0 != y.0 || x.2 != y.2 {
                d.push(Diff { what: "column name / nullability differs".into(), detail: format!("{}: {:?} vs {:?}", t, x, y), sig: None });
            } else if x.1 != y.1 {
                let sig = match fmt {
                    Fmt::Json if matches!(x.1, DataType::Interval { .. } | DataType::Bit { .. } | DataType::UserDefined { .. }) => Some(SIG_JSON_TYPE_LOSSY),
                    Fmt::Binary | Fmt::Compressed
                        if matches!((&x.1, &y.1), (DataType::Time { with_timezone: true }, DataType::Time { with_timezone: false }) | (DataType::Name, DataType::Varchar { max_length: Some(128) })) =>
                    {
                        Some(SIG_BIN_TYPE_LOSSY)
                    }
                    _ => None,
                };
                d.push(Diff { what: format!("column type differs after {} round trip", fmt.name()), detail: format!("{}.{}: {:?} vs {:?}", t, x.0, x.1, y.1), sig });
            }
        }
        let ra: Vec<Vec<V>> = a.scan().iter().map(|r| r.values.clone()).collect();
        let rb: Vec<Vec<V>> = b.scan().iter().map(|r| r.values.clone()).collect();
        if ra.len() != rb.len() {
            d.push(Diff { what: "row count differs".into(), detail: format!("{}: {} vs {}", t, ra.len(), rb.len()), sig: None });
            continue;
        }
        let mut bad = vec![];
        let mut only_nonfinite = true;
        for (i, (x, y)) in ra.iter().zip(&rb).enumerate() {
            for (j, (p, q)) in x.iter().zip(y).enumerate() {
                if !same_val(p, q) {
                    if !(is_nonfinite(p) && matches!(q, V::Null)) {
                        only_nonfinite = false;
                    }
                    if bad.len() < 4 {
                        bad.push(format!("{} row {} col {}: {} vs {}", t, i, j, val_struct(p), val_struct(q)));
                    }
                }
            }
        }
        if !bad.is_empty() {
            let sig = if fmt == Fmt::Json && only_nonfinite { Some(SIG_JSON_NONFINITE) } else { None };
            d.push(Diff { what: format!("row values differ after {} round trip", fmt.name()), detail: bad.join("\n"), sig });
        }
    }
    // index definitions
    let mut i1 = orig.db.list_indexes();
    let mut i2 = loaded.db.list_indexes();
    i1.sort();
    i2.sort();
    if i1 != i2 {
        d.push(Diff { what: "index names differ".into(), detail: format!("{:?} vs {:?}", i1, i2), sig: None });
        return d;
    }
    for ix in &i1 {
        let (a, b) = (orig.db.get_index(ix).unwrap().clone(), loaded.db.get_index(ix).unwrap().clone());
        let ka: Vec<_> = a.columns.iter().map(|c| (c.column_name.clone(), format!("{:?}", c.direction))).collect();
        let kb: Vec<_> = b.columns.iter().map(|c| (c.column_name.clone(), format!("{:?}", c.direction))).collect();
        if a.table_name.to_uppercase() != b.table_name.to_uppercase() || a.unique != b.unique || ka != kb {
            d.push(Diff { what: "index definition differs".into(), detail: format!("{:?} vs {:?}", a, b), sig: None });
        }
        let pa: Vec<_> = a.columns.iter().map(|c| c.prefix_length).collect();
        let pb: Vec<_> = b.columns.iter().map(|c| c.prefix_length).collect();
        if pa != pb {
            d.push(Diff { what: "index prefix length differs".into(), detail: format!("{:?} vs {:?}", a, b), sig: None });
        }
    }
    if d.iter().any(|x| x.what.starts_with("row") || x.what.starts_with("column")) {
        return d; // queries would only repeat the difference
    }
    // queries: full scan and index-driven
    for t in &t1 {
        let q = format!("SELECT * FROM {}", t);
        let (a, b) = (orig.query(&q), loaded.query(&q));
        rep.count("queries_full_scan");
        match (a.rows(), b.rows()) {
            (Some(x), Some(y)) if bag(x) == bag(y) => {}
            _ if a.is_panic() && b.is_panic() => rep.count("query_panics_in_both_databases(not C18)"),
            _ => d.push(Diff { what: "full-scan query differs".into(), detail: format!("{}\n{}\n{}", q, a.brief(), b.brief()), sig: None }),
        }
    }
    for ix in &i1 {
        let meta = orig.db.get_index(ix).unwrap().clone();
        let t = meta.table_name.clone();
        let Some(tab) = orig.db.get_table(&t) else { continue };
        let c = meta.columns[0].column_name.clone();
        let Some(ci) = tab.schema.columns.iter().position(|x| x.name == c) else { continue };
        let scan: Vec<Vec<V>> = tab.scan().iter().map(|r| r.values.clone()).collect();
        let mut qs: Vec<(String, Option<Vec<String>>)> = vec![(format!("SELECT {} FROM {} ORDER BY {}", c, t, c), None)];
        for r in scan.iter().take(3) {
            if let Some(l) = lit_for(&r[ci]) {
                qs.push((format!("SELECT * FROM {} WHERE {} = {}", t, c, l), Some(truth_eq(&scan, ci, &r[ci]))));
                qs.push((format!("SELECT * FROM {} WHERE {} >= {}", t, c, l), None));
            }
        }
        for (q, truth) in qs {
            rep.count("queries_index_driven");
            let (a, b) = (orig.query(&q), loaded.query(&q));
            let same = match (a.rows(), b.rows()) {
                (Some(x), Some(y)) => {
                    if q.contains("ORDER BY") {
                        // ORDER BY fixes the order only up to ties under the engine's key equality
                        // (-0.0 = 0.0, NaN vs NaN): compare the sequence of sort-key classes, and the
                        // exact bit patterns as a multiset
                        x.iter().map(|r| sort_class(&r[0])).collect::<Vec<_>>() == y.iter().map(|r| sort_class(&r[0])).collect::<Vec<_>>() && bag(x) == bag(y)
                    } else {
                        bag(x) == bag(y)
                    }
                }
                _ => (a.is_err() && b.is_err()) || (a.is_panic() && b.is_panic()),
            };
            if a.is_panic() {
                rep.count("query_panics_in_both_databases(not C18)");
            }
            if b.rows().map(|r| !r.is_empty()).unwrap_or(false) {
                rep.count("queries_index_driven_nonempty");
            }
            if !same {
                // the original's own index may be stale (another property's defect): not C18's failure
                if let (Some(tr), Some(x), Some(y)) = (&truth, a.rows(), b.rows()) {
                    if bag(y) == *tr && bag(x) != *tr {
                        rep.count("original_db_index_inconsistent_with_its_rows(not C18)");
                        continue;
                    }
                }
                d.push(Diff { what: format!("index-driven query differs after {} round trip", fmt.name()), detail: format!("{}\noriginal: {}\nloaded:   {}", q, a.brief(), b.brief()), sig: None });
            }
        }
    }
    // one value-dependent query per column: WHERE col = <literal of an original value> (served by an
    // index where the column has one); the literal is spelled by the harness from the original value's
    // fields, so a value that changed in the file no longer matches it
    for t in &t1 {
        let Some(tab) = orig.db.get_table(t) else { continue };
        let scan: Vec<Vec<V>> = tab.scan().iter().map(|r| r.values.clone()).collect();
        let names: Vec<String> = tab.schema.columns.iter().map(|c| c.name.clone()).collect();
        for (ci, c) in names.iter().enumerate() {
            let Some(probe) = scan.iter().map(|r| &r[ci]).find(|v| lit_for(v).is_some()) else { continue };
            let q = format!("SELECT * FROM {} WHERE {} = {}", t, c, lit_for(probe).unwrap());
            rep.count("queries_value_dependent");
            let (a, b) = (orig.query(&q), loaded.query(&q));
            let same = match (a.rows(), b.rows()) {
                (Some(x), Some(y)) => bag(x) == bag(y),
                _ => (a.is_err() && b.is_err()) || (a.is_panic() && b.is_panic()),
            };
            if let Some(y) = b.rows() {
                if !y.is_empty() {
                    rep.count("queries_value_dependent_nonempty");
                }
            }
            if !same {
                let tr = truth_eq(&scan, ci, probe);
                if let (Some(x), Some(y)) = (a.rows(), b.rows()) {
                    if bag(y) == tr && bag(x) != tr {
                        rep.count("original_db_index_inconsistent_with_its_rows(not C18)");
                        continue;
                    }
                }
                d.push(Diff { what: format!("value-dependent query differs after {} round trip", fmt.name()), detail: format!("{}\noriginal: {}\nloaded:   {}", q, a.brief(), b.brief()), sig: None });
            }
        }
    }
    d
}

fn roundtrip(g: &mut GenDb, id: &str, args: &Args, rep: &mut Report) {
    let mut types = BTreeMap::new();
    let mut nrows = 0usize;
    let mut special = false;
    let mut unloadable = false;
    let mut nonfinite_in_not_null = false;
    for t in &g.tables {
        if let Some(tab) = g.db.db.get_table(t) {
            for c in &tab.schema.columns {
                *types.entry(format!("{:?}", c.data_type).split([' ', '{']).next().unwrap_or("?").to_string()).or_insert(0u64) += 1;
                unloadable |= type_unloadable_in_binary(&c.data_type);
            }
            nrows += tab.row_count();
            for (ci, c) in tab.schema.columns.iter().enumerate() {
                if !c.nullable && tab.scan().iter().any(|r| is_nonfinite(&r.values[ci])) {
                    nonfinite_in_not_null = true;
                }
            }
            special |= tab.scan().iter().any(|r| r.values.iter().any(|v| is_nonfinite(v) || matches!(v, V::Varchar(s) | V::Character(s) if !s.is_ascii() || s.contains('\''))));
        }
    }
    let nidx = g.db.db.list_indexes().len();
    rep.count(&format!("db_rows_{}", match nrows { 0 => "0", 1..=9 => "1-9", 10..=99 => "10-99", _ => ">=100" }));
    rep.count(&format!("db_indexes_{}", nidx.min(3)));
    for (k, n) in &types {
        rep.add(&format!("coltype_{}", k), *n);
    }
    for fmt in [Fmt::Binary, Fmt::Compressed, Fmt::Json] {
        let path = args.scratch.join(format!("c18.{}", fmt.ext()));
        let _ = std::fs::remove_file(&path);
        rep.case(&format!("{} {}", id, fmt.name()), nrows > 0 && (nidx > 0 || special));
        rep.count(&format!("roundtrip_{}", fmt.name()));
        let replay = |extra: &str| format!("-- format: {}\n{}\n-- then save_{f} / load_{f} and compare\n{}", fmt.name(), g.script.join("\n"), extra, f = fmt.name());
        if let Err(e) = fmt.save(&g.db.db, &path) {
            rep.fail(FailKind::Oracle, None, &format!("save_{} failed", fmt.name()), &replay(&e));
            continue;
        }
        let loaded = match fmt.load(&path) {
            Ok(d) => d,
            Err(e) => {
                let sig = if fmt != Fmt::Json && unloadable && e.contains("Unsupported data type") {
                    Some(SIG_BIN_TYPE_UNLOADABLE)
                } else if fmt == Fmt::Json && nonfinite_in_not_null && e.contains("NullConstraintViolation") {
                    Some(SIG_JSON_NONFINITE) // the NULL that replaced NaN/Inf lands in a NOT NULL column
                } else {
                    None
                };
                rep.fail(FailKind::Oracle, sig, &format!("load_{} of a file written by save_{} failed", fmt.name(), fmt.name()), &replay(&e));
                continue;
            }
        };
        let mut loaded = Db::from(loaded);
        loaded.keep_log = false;
        let diffs = compare_dbs(&mut g.db, &mut loaded, fmt, rep);
        for df in diffs {
            rep.fail(FailKind::Oracle, df.sig, &df.what, &replay(&df.detail));
        }
    }
}

fn probe_db(ddl: &[&str], rows: &[(&str, Vec<V>)]) -> GenDb {
    let mut g = GenDb { db: Db::new(), script: vec![], tables: vec![] };
    g.db.keep_log = false;
    for s in ddl {
        g.script.push(format!("{};", s));
        let o = g.db.exec(s);
        if !o.is_ok() {
            g.script.push(format!("-- ^ {}", o.brief()));
        }
    }
    for (t, vals) in rows {
        insert_row(&mut g, t, vals.clone());
    }
    g.tables = g.db.db.catalog.list_tables();
    g
}

fn main() {
    let args = Args::parse("C18");
    let mut rep = Report::new(&args, "codec case: non-NULL value; round-trip case: database with rows and (an index or a special value: non-finite float, non-ASCII or quote-containing string)");
    if std::env::var("VERIF_SHOW_PANICS").is_err() { engine::silence_panics(); }
    let mut m = args.model();
    let mut rng = Rng::new(args.seed);

    // ---- (A) codec tie: boundary values first, then generated --------------------------------
    let fixed: Vec<V> = vec![
        V::Null,
        V::Smallint(i16::MIN),
        V::Smallint(i16::MAX),
        V::Smallint(-1),
        V::Integer(i64::MIN),
        V::Integer(i64::MAX),
        V::Integer(-1),
        V::Integer(255),
        V::Integer(256),
        V::Bigint(i64::MIN),
        V::Bigint(i64::MAX),
        V::Unsigned(u64::MAX),
        V::Unsigned(0),
        V::Unsigned(1 << 63),
        V::Numeric(f64::NAN),
        V::Numeric(-0.0),
        V::Float(f32::NAN),
        V::Float(f32::NEG_INFINITY),
        V::Real(-0.0),
        V::Real(f32::from_bits(0x7fc0_1234)),
        V::Double(f64::NAN),
        V::Double(f64::from_bits(0xfff8_0000_0000_0001)),
        V::Double(f64::INFINITY),
        V::Double(f64::NEG_INFINITY),
        V::Double(-0.0),
        V::Double(5e-324),
        V::Character("".into()),
        V::Character("x".into()),
        V::Varchar("".into()),
        V::Varchar("it's \"quoted\"".into()),
        V::Varchar("é漢😀\u{10ffff}\u{0}".into()),
        V::Varchar("x".repeat(300)),
        V::Varchar("y".repeat(70000)),
        V::Boolean(true),
        V::Boolean(false),
        V::Date(vibesql_types::Date::new(1, 1, 1).unwrap()),
        V::Date(vibesql_types::Date::new(9999, 12, 31).unwrap()),
        V::Time(vibesql_types::Time::new(23, 59, 59, 999_999_999).unwrap()),
        V::Time(vibesql_types::Time::new(0, 0, 0, 0).unwrap()),
        V::Time(vibesql_types::Time::new(12, 0, 0, 50_000_000).unwrap()),
        V::Time(vibesql_types::Time::new(12, 0, 0, 1).unwrap()),
        V::Time(vibesql_types::Time::new(1, 2, 3, 99_999_999).unwrap()),
        V::Time(vibesql_types::Time::new(1, 2, 3, 100_000_000).unwrap()),
        V::Time(vibesql_types::Time::new(1, 2, 3, 1_000).unwrap()),
        V::Timestamp(vibesql_types::Timestamp::new(vibesql_types::Date::new(1, 1, 1).unwrap(), vibesql_types::Time::new(0, 0, 0, 10).unwrap())),
        V::Timestamp(vibesql_types::Timestamp::new(vibesql_types::Date::new(9999, 12, 31).unwrap(), vibesql_types::Time::new(23, 59, 59, 999).unwrap())),
        V::Date(vibesql_types::Date::new(999, 9, 9).unwrap()),
        V::Interval(vibesql_types::Interval::new("1-6".into())),
        V::Interval(vibesql_types::Interval::new("3 04:05:06.007".into())),
        V::Numeric(0.05),
        V::Numeric(0.001),
        V::Double(5e-300),
        V::Double(1e-5),
        V::Varchar("007".into()),
        V::Character("0.050".into()),
        V::Timestamp(vibesql_types::Timestamp::new(vibesql_types::Date::new(2024, 2, 29).unwrap(), vibesql_types::Time::new(12, 0, 0, 500_000_000).unwrap())),
        V::Interval(vibesql_types::Interval::new("5".into())),
    ];
    for v in &fixed {
        codec_case(v, &[], &mut m, &mut rep);
        codec_case(v, &[0xff, 0x00, 0x11], &mut m, &mut rep);
    }
    for _ in 0..args.n(500, 8000) {
        let v = gen_any_value(&mut rng);
        let junk: Vec<u8> = (0..rng.below(4)).map(|_| rng.next() as u8).collect();
        codec_case(&v, &junk, &mut m, &mut rep);
    }
    // arbitrary / mutated bytes through both decoders
    let fixed_bytes: Vec<Vec<u8>> = vec![
        vec![],
        vec![0x09],
        vec![0x34],
        vec![0xff],
        vec![0x01, 0x00],
        vec![0x02, 1, 2, 3, 4, 5, 6, 7],
        vec![0x11, 0xff, 0xff, 0xff, 0xff],
        vec![0x11, 2, 0, 0, 0, 0xc3],
        vec![0x11, 2, 0, 0, 0, 0xc3, 0x28],
        vec![0x11, 3, 0, 0, 0, 0xed, 0xa0, 0x80],
        vec![0x11, 4, 0, 0, 0, 0xf4, 0x90, 0x80, 0x80],
        vec![0x11, 2, 0, 0, 0, 0xc0, 0x80],
        vec![0x20, 0x02],
        vec![0x20, 0x00],
        vec![0x30, 3, 0, 0, 0, b'a', b'b', b'c'],
    ];
    for b in &fixed_bytes {
        bytes_case(b, &mut m, &mut rep);
    }
    for _ in 0..args.n(400, 8000) {
        let b: Vec<u8> = if rng.chance(1, 2) {
            let mut b = real_write(&gen_any_value(&mut rng));
            if !b.is_empty() {
                match rng.below(3) {
                    0 => {
                        let i = rng.below(b.len() as u64) as usize;
                        b[i] ^= 1 << rng.below(8);
                    }
                    1 => b.truncate(rng.below(b.len() as u64) as usize),
                    _ => {
                        let i = rng.below(b.len() as u64) as usize;
                        b[i] = rng.next() as u8;
                    }
                }
            }
            b
        } else {
            let tags = [0u8, 1, 2, 3, 4, 5, 6, 7, 8, 0x10, 0x11, 0x20, 0x30, 0x31, 0x32, 0x33, 0x09, 0x12, 0x34, 0xff];
            let mut b = vec![*rng.pick(&tags)];
            for _ in 0..rng.below(14) {
                b.push(if rng.chance(1, 3) { rng.below(4) as u8 } else { rng.next() as u8 });
            }
            b
        };
        bytes_case(&b, &mut m, &mut rep);
    }

    // ---- (B) deterministic probes --------------------------------------------------------------
    // B1 special values in every float column kind + extreme integers + strings, one index per kind
    let mut g = probe_db(
        &[
            "CREATE TABLE P (ID INTEGER PRIMARY KEY, D DOUBLE PRECISION, F REAL, FL FLOAT, N NUMERIC(10,2), SM SMALLINT, BG BIGINT, S VARCHAR(40), C CHAR(4), B BOOLEAN, DT DATE, TM TIME, TS TIMESTAMP)",
            "CREATE INDEX PIX_BG ON P (BG)",
            "CREATE INDEX PIX_S ON P (S DESC, ID)",
            "CREATE UNIQUE INDEX PIX_ID ON P (ID)",
            "CREATE INDEX PIX_TM ON P (TM)",
            "CREATE INDEX PIX_TS ON P (TS, ID)",
        ],
        &[],
    );
    let specials: Vec<(f64, f32)> = vec![(-0.0, -0.0), (5e-324, 1e-45), (f64::MAX, f32::MAX), (1.5, 2.5), (f64::MIN, f32::MIN)];
    for (i, (d, f)) in specials.iter().enumerate() {
        insert_row(
            &mut g,
            "P",
            vec![
                V::Integer(i as i64),
                V::Double(*d),
                V::Real(*f),
                V::Float(*f),
                V::Numeric(*d),
                V::Smallint(if i % 2 == 0 { i16::MIN } else { i16::MAX }),
                V::Bigint(if i % 2 == 0 { i64::MIN } else { i64::MAX }),
                V::Varchar(["it's", "é漢😀", "", "a\"b;--", "line\nbreak"][i % 5].into()),
                V::Character("ab".into()),
                V::Boolean(i % 2 == 0),
                V::Date(vibesql_types::Date::new(2024, 2, 29).unwrap()),
                V::Time(vibesql_types::Time::new(23, 59, 59, [50_000_000u32, 1, 999, 99_999_999, 100_000_000][i % 5]).unwrap()),
                V::Timestamp(vibesql_types::Timestamp::new(vibesql_types::Date::new(1999, 12, 31).unwrap(), vibesql_types::Time::new(0, 0, 0, [1_000u32, 10, 0, 5_000_000, 123_456_789][i % 5]).unwrap())),
            ],
        );
    }
    insert_row(&mut g, "P", vec![V::Integer(100), V::Null, V::Null, V::Null, V::Null, V::Null, V::Bigint(7), V::Null, V::Null, V::Null, V::Null, V::Null, V::Null]);
    g.db.exec("DELETE FROM P WHERE ID = 3");
    g.script.push("DELETE FROM P WHERE ID = 3;".into());
    roundtrip(&mut g, "probe-specials", &args, &mut rep);

    // B2 non-finite floats: binary formats keep them, JSON turns them into NULL (recorded finding)
    let mut g = probe_db(&["CREATE TABLE NF (ID INTEGER, D DOUBLE PRECISION, F REAL)"], &[]);
    insert_row(&mut g, "NF", vec![V::Integer(1), V::Double(f64::NAN), V::Real(f32::INFINITY)]);
    insert_row(&mut g, "NF", vec![V::Integer(2), V::Double(f64::NEG_INFINITY), V::Real(f32::from_bits(0x7fc0_0001))]);
    roundtrip(&mut g, "probe-nonfinite", &args, &mut rep);

    // B3 column types the binary catalog cannot re-read / re-reads as another type
    for ty in ["INTERVAL YEAR", "INTERVAL DAY TO SECOND", "BIT(4)", "TINYINT"] {
        let mut g = probe_db(&[&format!("CREATE TABLE U (A INTEGER, X {})", ty)], &[]);
        roundtrip(&mut g, &format!("probe-type-{}", ty), &args, &mut rep);
    }
    for ty in ["TIME WITH TIME ZONE", "NAME"] {
        let mut g = probe_db(&[&format!("CREATE TABLE L (A INTEGER, X {})", ty)], &[]);
        roundtrip(&mut g, &format!("probe-type-{}", ty), &args, &mut rep);
    }
    // B4 prefix index
    let mut g = probe_db(&["CREATE TABLE PX (A INTEGER, S VARCHAR(20))", "CREATE INDEX PXI ON PX (S(2))"], &[("PX", vec![V::Integer(1), V::Varchar("abcdef".into())]), ("PX", vec![V::Integer(2), V::Varchar("abzzzz".into())])]);
    roundtrip(&mut g, "probe-prefix-index", &args, &mut rep);
    // B4b multi-byte CHAR(n) values (padded on insert; re-inserted by the loaders)
    let mut g = probe_db(&["CREATE TABLE CH (A INTEGER, C CHAR(6))"], &[("CH", vec![V::Integer(1), V::Character("é".into())]), ("CH", vec![V::Integer(2), V::Character("漢字漢字漢字".into())]), ("CH", vec![V::Integer(3), V::Character("ab".into())])]);
    roundtrip(&mut g, "probe-char-multibyte", &args, &mut rep);
    // B5 index over many rows after deletes (index rebuilt from the loaded rows)
    let mut g = probe_db(&["CREATE TABLE BIG (ID INTEGER PRIMARY KEY, V INTEGER, S VARCHAR(10))", "CREATE INDEX BIGV ON BIG (V)", "CREATE INDEX BIGS ON BIG (S, V DESC)"], &[]);
    for i in 0..150i64 {
        insert_row(&mut g, "BIG", vec![V::Integer(i), if i % 11 == 0 { V::Null } else { V::Integer(i % 7) }, V::Varchar(format!("s{}", i % 5))]);
    }
    roundtrip(&mut g, "probe-150-rows", &args, &mut rep);
    // B6 empty database and empty table
    let mut g = probe_db(&[], &[]);
    roundtrip(&mut g, "probe-empty-db", &args, &mut rep);
    let mut g = probe_db(&["CREATE TABLE E (A INTEGER)", "CREATE INDEX EI ON E (A)"], &[]);
    roundtrip(&mut g, "probe-empty-table", &args, &mut rep);

    // ---- (C) generated databases ----------------------------------------------------------------
    let n = args.n(120, 1500);
    for i in 0..n {
        let mut r = rng.fork();
        let mut g = gen_db(&mut r, if i % 10 == 0 { 130 } else { 25 }, &[]);
        if i < 3 {
            rep.sample(serde_json::json!({"script": g.script.iter().take(12).cloned().collect::<Vec<_>>()}));
        }
        roundtrip(&mut g, &format!("gen-{}", i), &args, &mut rep);
    }
    rep.assumptions.push("temporal values are compared by their Display text (the binary format stores that text; re-parsing is C22's subject)".into());
    rep.assumptions.push("constraints (PRIMARY KEY / UNIQUE / CHECK / FOREIGN KEY) are not part of any native format and are not compared; queries are SELECTs".into());
    std::process::exit(rep.finish());
}
