# C06 / C01: the operator tables of the columnar predicate extractors (select/columnar/filter.rs)
# and of the index range extractor (select/scan/index_scan/predicate.rs), re-read on every run:
# every `match op { BinaryOperator::X => <Pred>::Y … }` block, tagged "direct" (column op literal)
# or "reversed" (literal op column) by the comment / destructuring pattern that precedes it.
import re


def innermost_op_matches(src):
    """(start offset, body) of every `match op {` … first `_ =>` that contains no further `match op {`"""
    res = []
    for m in re.finditer(r"match\s+\*?op\s*\{", src):
        end = re.search(r"\n\s*_\s*=>", src[m.end():])
        if not end:
            continue
        body = src[m.end():m.end() + end.start()]
        if re.search(r"match\s+\*?op\s*\{", body):
            continue
        res.append((m.start(), body))
    return res


def blocks(src):
    """yield (kind, [(BinaryOperator variant, predicate variant)]) for every operator match block"""
    out = []
    # a block starts at `match op {` (or `match *op {`) and runs to the first `_ =>` arm
    for m in innermost_op_matches(src):
        body = m[1]
        pairs = re.findall(r"BinaryOperator::(\w+)\s*=>\s*(?:\w+::)*ColumnPredicate::(\w+)", body)
        if not pairs:
            continue
        # which destructuring precedes the block: (ColumnRef, Literal) = direct, (Literal, ColumnRef) = reversed
        head = src[max(0, m[0] - 700):m[0]]
        d = head.rfind("Expression::ColumnRef { table, column }, Expression::Literal(")
        r = head.rfind("Expression::Literal(value), Expression::ColumnRef")
        if d < 0 and r < 0:
            kind = "unknown"
        else:
            kind = "direct" if d > r else "reversed"
        out.append((kind, pairs))
    return out


def range_tables(src):
    """index_scan/predicate.rs: every `match op { BinaryOperator::X => RangePredicate { … } }` block:
    (kind, [(op, start is Some, end is Some, inclusive_start, inclusive_end)]), kind by which operand
    is tested with is_column_reference just before the block"""
    out = []
    for m in innermost_op_matches(src):
        body = m[1]
        rows = re.findall(
            r"BinaryOperator::(\w+)\s*=>\s*RangePredicate\s*\{\s*start:\s*(Some|None)[^,]*,\s*end:\s*(Some|None)[^,]*,\s*inclusive_start:\s*(true|false),\s*inclusive_end:\s*(true|false)",
            body)
        if not rows:
            continue
        head = src[max(0, m[0] - 600):m[0]]
        d = head.rfind("is_column_reference(left")
        r = head.rfind("is_column_reference(right")
        kind = "unknown" if d < 0 and r < 0 else ("direct" if d > r else "reversed")
        out.append((kind, rows))
    return out


def extract(read):
    src = read("crates/vibesql-executor/src/select/columnar/filter.rs")
    bl = blocks(src)
    out = ["/-- select/columnar/filter.rs: every operator table of the predicate extractors, as written:\n(kind, [(BinaryOperator, ColumnPredicate)]) with kind = \"direct\" (column op literal) or \"reversed\" (literal op column) -/"]
    rows = []
    for kind, pairs in bl:
        rows.append('("%s", [%s])' % (kind, ", ".join('("%s", "%s")' % p for p in pairs)))
    out.append("def c06ColumnarOpTables : List (String × List (String × String)) := [%s]" % ", ".join(rows))
    rsrc = read("crates/vibesql-executor/src/select/scan/index_scan/predicate.rs")
    rt = range_tables(rsrc)
    out.append("/-- select/scan/index_scan/predicate.rs: every operator → RangePredicate table, as written:\n(kind, [(BinaryOperator, start is Some, end is Some, inclusive_start, inclusive_end)]) -/")
    rrows = []
    for kind, rows in rt:
        rrows.append('("%s", [%s])' % (kind, ", ".join('("%s", %s, %s, %s, %s)' % (o, "true" if a == "Some" else "false", "true" if b == "Some" else "false", c, d) for o, a, b, c, d in rows)))
    out.append("def c06IndexRangeTables : List (String × List (String × Bool × Bool × Bool × Bool)) := [%s]" % ", ".join(rrows))
    return "\n".join(out) + "\n"
