import VibeProof.Model.Rel
import VibeProof.Model.Expr
import VibeProof.Model.Sql
import VibeProof.Generated.Consts
/-
C06 — Predicates partition rows consistently under three-valued logic.

All statements are over the relational kernel, for every row type, every row list and every
predicate function `p : α → TV` (hence for every predicate expression, see the corollaries
at the SQL layer at the end).
-/
namespace VibeProof.C06
open VibeProof TV

/-- every truth value satisfies exactly one of the three selectors -/
theorem C06_exactly_one (v : TV) :
    (v = t ∧ not3 v ≠ t ∧ isU v ≠ t) ∨ (v ≠ t ∧ not3 v = t ∧ isU v ≠ t) ∨
    (v ≠ t ∧ not3 v ≠ t ∧ isU v = t) := by
  cases v <;> simp [not3, isU]

/-- three Boolean selectors of which exactly one holds on every element split a list -/
theorem perm3 {α : Type} (a b c : α → Bool)
    (h : ∀ x, (a x = true ∧ b x = false ∧ c x = false) ∨ (a x = false ∧ b x = true ∧ c x = false)
            ∨ (a x = false ∧ b x = false ∧ c x = true)) (l : List α) :
    (l.filter a ++ (l.filter b ++ l.filter c)).Perm l := by
  induction l with
  | nil => simp
  | cons r rs ih =>
    rcases h r with ⟨ha, hb, hc⟩ | ⟨ha, hb, hc⟩ | ⟨ha, hb, hc⟩
    · simp only [List.filter_cons, ha, hb, hc, List.cons_append]
      exact List.Perm.cons r ih
    · simp only [List.filter_cons, ha, hb, hc, List.cons_append]
      exact List.Perm.trans List.perm_middle (List.Perm.cons r ih)
    · simp only [List.filter_cons, ha, hb, hc]
      have : (List.filter a rs ++ (List.filter b rs ++ r :: List.filter c rs)).Perm
          (r :: (List.filter a rs ++ (List.filter b rs ++ List.filter c rs))) := by
        rw [← List.append_assoc, ← List.append_assoc]
        exact List.perm_middle
      exact List.Perm.trans this (List.Perm.cons r ih)

/-- The rows of Q are the disjoint union (as a multiset) of Q with `p`, with `NOT p`, and with
`p IS NULL` added. -/
theorem C06_partition {α : Type} (p : α → TV) (rows : List α) :
    (filter3 p rows ++ (filter3 (fun r => not3 (p r)) rows ++ filter3 (fun r => isU (p r)) rows)).Perm rows := by
  unfold filter3
  apply perm3
  intro x
  show (p x == t) = true ∧ (not3 (p x) == t) = false ∧ (isU (p x) == t) = false ∨
    (p x == t) = false ∧ (not3 (p x) == t) = true ∧ (isU (p x) == t) = false ∨
      (p x == t) = false ∧ (not3 (p x) == t) = false ∧ (isU (p x) == t) = true
  generalize p x = v
  cases v <;> simp [not3, isU]

/-- the three parts are pairwise disjoint by position: lengths add up -/
theorem C06_lengths {α : Type} (p : α → TV) (rows : List α) :
    (filter3 p rows).length + ((filter3 (fun r => not3 (p r)) rows).length
      + (filter3 (fun r => isU (p r)) rows).length) = rows.length := by
  have := (C06_partition p rows).length_eq
  simpa [List.length_append] using this

/-- no row is selected by two of the three filters -/
theorem C06_disjoint {α : Type} (p : α → TV) (r : α) :
    ¬ (p r = t ∧ not3 (p r) = t) ∧ ¬ (p r = t ∧ isU (p r) = t) ∧ ¬ (not3 (p r) = t ∧ isU (p r) = t) := by
  generalize p r = v
  cases v <;> simp [not3, isU]

/-- number of rows passing `WHERE p` = number of rows whose select-list value of `p` is TRUE -/
theorem C06_count_matches_select_list {α : Type} (p : α → TV) (rows : List α) :
    (filter3 p rows).length = (rows.map p).count t := by
  induction rows with
  | nil => simp [filter3]
  | cons r rs ih =>
    unfold filter3 at *
    cases h : p r <;> simp [List.filter_cons, h, ih, List.count_cons]

/-- membership: a row passes the filter iff it is a row and the predicate is TRUE on it
(FALSE and UNKNOWN rows never pass) -/
theorem C06_filter_mem {α : Type} (p : α → TV) (rows : List α) (r : α) :
    r ∈ filter3 p rows ↔ r ∈ rows ∧ p r = t := by
  simp [filter3]

/-- DISTINCT form: the distinct rows of Q are those of the three parts together -/
theorem C06_distinct_form {α : Type} (p : α → TV) (rows : List α) (r : α) :
    r ∈ rows ↔ (r ∈ filter3 p rows ∨ r ∈ filter3 (fun r => not3 (p r)) rows
                 ∨ r ∈ filter3 (fun r => isU (p r)) rows) := by
  simp only [C06_filter_mem]
  cases h : p r <;> simp [not3, isU]

/-- aggregate form for any additive aggregate (COUNT, SUM as a monoid fold): the aggregate
over Q is the sum over the three parts -/
theorem C06_additive_aggregate {α : Type} (p : α → TV) (w : α → Int) (rows : List α) :
    (rows.map w).sum = ((filter3 p rows).map w).sum
        + ((filter3 (fun r => not3 (p r)) rows).map w).sum
        + ((filter3 (fun r => isU (p r)) rows).map w).sum := by
  induction rows with
  | nil => simp [filter3]
  | cons r rs ih =>
    unfold filter3 at *
    cases h : p r <;> simp [List.filter_cons, h, ih, not3, isU] <;> omega

/-! SQL layer: the three derived predicates are what the evaluator computes for
`NOT e` and `e IS NULL` on boolean-typed `e`. -/

theorem C06_sql_not (e : Expr) (row : Row) (v : TV) (h : (e.eval row).bind Value.toTV = .ok v) :
    ((Expr.not e).eval row).bind Value.toTV = .ok (not3 v) := by
  simp only [Expr.eval]
  cases he : e.eval row with
  | error x => simp [he, Except.bind] at h
  | ok x =>
    simp only [he, Except.bind] at h
    cases x with
    | null => simp [Value.toTV] at h; subst h; simp [bind, Except.bind, notV, Value.toTV, Value.ofTV, not3, pure, Except.pure]
    | bool b => cases b <;> simp [Value.toTV] at h <;> subst h <;>
        simp [bind, Except.bind, notV, Value.toTV, Value.ofTV, not3, pure, Except.pure]
    | int i => simp [Value.toTV] at h
    | str s => simp [Value.toTV] at h

theorem C06_sql_is_null (e : Expr) (row : Row) (v : TV) (h : (e.eval row).bind Value.toTV = .ok v) :
    ((Expr.isNull e false).eval row).bind Value.toTV = .ok (isU v) := by
  simp only [Expr.eval]
  cases he : e.eval row with
  | error x => simp [he, Except.bind] at h
  | ok x =>
    simp only [he, Except.bind] at h
    cases x with
    | null => simp [Value.toTV] at h; subst h; simp [bind, Except.bind, Value.toTV, Value.isNull, isU, pure, Except.pure]
    | bool b => cases b <;> simp [Value.toTV] at h <;> subst h <;>
        simp [bind, Except.bind, Value.toTV, Value.isNull, isU, pure, Except.pure]
    | int i => simp [Value.toTV] at h
    | str s => simp [Value.toTV] at h

/-! ### GROUP BY / HAVING forms -/

theorem filter3_comm_filter {α : Type} (p : α → TV) (g : α → Bool) (rows : List α) :
    (filter3 p rows).filter g = filter3 p (rows.filter g) := by
  unfold filter3
  rw [List.filter_filter, List.filter_filter]
  congr 1; funext r; exact Bool.and_comm _ _

/-- GROUP BY form: for every group key the group of Q is the disjoint union of the groups with
that key in the three parts — so every per-group COUNT(*) adds up -/
theorem C06_group_partition {α κ : Type} [DecidableEq κ] (p : α → TV) (key : α → κ) (k : κ) (rows : List α) :
    ((filter3 p rows).filter (fun r => key r = k) ++
      ((filter3 (fun r => not3 (p r)) rows).filter (fun r => key r = k) ++
       (filter3 (fun r => isU (p r)) rows).filter (fun r => key r = k))).Perm
      (rows.filter (fun r => key r = k)) := by
  simp only [filter3_comm_filter]
  exact C06_partition p _

theorem C06_group_counts_additive {α κ : Type} [DecidableEq κ] (p : α → TV) (key : α → κ) (k : κ) (rows : List α) :
    ((filter3 p rows).filter (fun r => key r = k)).length +
      (((filter3 (fun r => not3 (p r)) rows).filter (fun r => key r = k)).length +
       ((filter3 (fun r => isU (p r)) rows).filter (fun r => key r = k)).length)
      = (rows.filter (fun r => key r = k)).length := by
  have := (C06_group_partition p key k rows).length_eq
  simpa [List.length_append] using this

/-- a group key appears in Q iff it appears in one of the three parts -/
theorem C06_group_keys {α κ : Type} (p : α → TV) (key : α → κ) (k : κ) (rows : List α) :
    k ∈ rows.map key ↔ (k ∈ (filter3 p rows).map key ∨ k ∈ (filter3 (fun r => not3 (p r)) rows).map key
        ∨ k ∈ (filter3 (fun r => isU (p r)) rows).map key) := by
  simp only [List.mem_map]
  constructor
  · rintro ⟨r, hr, rfl⟩
    rcases (C06_distinct_form p rows r).mp hr with h | h | h
    · exact Or.inl ⟨r, h, rfl⟩
    · exact Or.inr (Or.inl ⟨r, h, rfl⟩)
    · exact Or.inr (Or.inr ⟨r, h, rfl⟩)
  · rintro (⟨r, hr, rfl⟩ | ⟨r, hr, rfl⟩ | ⟨r, hr, rfl⟩) <;>
      exact ⟨r, ((C06_filter_mem _ rows r).mp hr).1, rfl⟩

/-- HAVING form: the groups of Q split three ways under a HAVING predicate exactly as rows do
under WHERE (the statement is `C06_partition` at the type of groups) -/
theorem C06_having_partition {κ ρ : Type} (h : κ × List ρ → TV) (groups : List (κ × List ρ)) :
    (filter3 h groups ++ (filter3 (fun g => not3 (h g)) groups ++ filter3 (fun g => isU (h g)) groups)).Perm groups :=
  C06_partition h groups

/-! ### the WHERE step of the reference evaluator is `filter3` -/

theorem filterM'_ok {α : Type} (f : α → Except Err Bool) (g : α → Bool) (l : List α)
    (h : ∀ x ∈ l, f x = .ok (g x)) : Sql.filterM' f l = .ok (l.filter g) := by
  induction l with
  | nil => rfl
  | cons x xs ih =>
    have hx := h x List.mem_cons_self
    have ih' := ih (fun y hy => h y (List.mem_cons_of_mem _ hy))
    simp only [Sql.filterM', hx, ih', bind, Except.bind, pure, Except.pure, List.filter_cons]

theorem C06_sql_where_is_filter3 (e : Expr) (rows : List Row) (tv : Row → TV)
    (h : ∀ r ∈ rows, e.tv r = .ok (tv r)) :
    Sql.filterM' (fun r => do Sql.isTrue (← e.eval r)) rows = .ok (filter3 tv rows) := by
  unfold filter3
  apply filterM'_ok
  intro r hr
  have := h r hr
  unfold Expr.tv at this
  cases he : e.eval r with
  | error x => simp [he, bind, Except.bind] at this
  | ok v =>
    simp only [he, bind, Except.bind] at this
    simp only [Sql.isTrue, this, bind, Except.bind, pure, Except.pure]

/-- so the three SQL queries `WHERE e`, `WHERE NOT e`, `WHERE e IS NULL` of the reference
evaluator partition the input whenever `e` is boolean-typed on every row -/
theorem C06_sql_partition (e : Expr) (rows : List Row) (tv : Row → TV)
    (h : ∀ r ∈ rows, (e.eval r).bind Value.toTV = .ok (tv r)) :
    ∃ a b c, Sql.filterM' (fun r => do Sql.isTrue (← e.eval r)) rows = .ok a ∧
      Sql.filterM' (fun r => do Sql.isTrue (← (Expr.not e).eval r)) rows = .ok b ∧
      Sql.filterM' (fun r => do Sql.isTrue (← (Expr.isNull e false).eval r)) rows = .ok c ∧
      (a ++ (b ++ c)).Perm rows := by
  have toTV_tv : ∀ (x : Except Err Value) (v : TV), x.bind Value.toTV = .ok v → x.bind Value.truthy = .ok v := by
    intro x v hx
    cases x with
    | error _ => simp [Except.bind] at hx
    | ok y => cases y with
      | null => simpa [Except.bind, Value.toTV, Value.truthy] using hx
      | bool b => cases b <;> simpa [Except.bind, Value.toTV, Value.truthy, TV.ofBool] using hx
      | int _ => simp [Except.bind, Value.toTV] at hx
      | str _ => simp [Except.bind, Value.toTV] at hx
  refine ⟨_, _, _, C06_sql_where_is_filter3 e rows tv ?_,
    C06_sql_where_is_filter3 (Expr.not e) rows (fun r => not3 (tv r)) ?_,
    C06_sql_where_is_filter3 (Expr.isNull e false) rows (fun r => isU (tv r)) ?_, C06_partition tv rows⟩
  · intro r hr; exact toTV_tv _ _ (h r hr)
  · intro r hr; exact toTV_tv _ _ (C06_sql_not e r _ (h r hr))
  · intro r hr; exact toTV_tv _ _ (C06_sql_is_null e r _ (h r hr))

/-! ### `literal op column` ≡ `column op' literal`: the mirrored comparison, and the tables in the code -/

/-- the comparison that holds for `(b, a)` exactly when `op` holds for `(a, b)` -/
def mirror : BinOp → BinOp
  | .lt => .gt | .gt => .lt | .le => .ge | .ge => .le | op => op

def isCmp : BinOp → Bool
  | .eq | .ne | .lt | .le | .gt | .ge => true
  | _ => false

theorem cmp_swap (a b : Value) : Value.cmp? b a = (Value.cmp? a b).map Ordering.swap := by
  cases a <;> cases b <;> simp [Value.cmp?]
  · exact Std.OrientedOrd.eq_swap
  · exact Std.OrientedOrd.eq_swap
  · exact Std.OrientedOrd.eq_swap

theorem cmpOp_mirror (op : BinOp) (h : isCmp op = true) (o : Ordering) :
    cmpOp (mirror op) o.swap = cmpOp op o := by
  cases op <;> simp [isCmp] at h <;> cases o <;> rfl

def cmpEval (op : BinOp) (a b : Value) : Except Err Value :=
  match a, b with
  | .null, _ => .ok .null
  | _, .null => .ok .null
  | x, y =>
    match Value.cmp? x y with
    | some o => .ok (.bool (cmpOp op o))
    | none => .error .typeMismatch

theorem evalBin_cmp (op : BinOp) (h : isCmp op = true) (a b : Value) : evalBin op a b = cmpEval op a b := by
  cases op <;> simp [isCmp] at h <;> rfl

/-- for every pair of values and every comparison operator: `a op b` evaluates exactly as
`b (mirror op) a` — what allows `5 <= col` to be pushed as `col >= 5` -/
theorem C06_comparison_mirror (op : BinOp) (h : isCmp op = true) (a b : Value) :
    evalBin op a b = evalBin (mirror op) b a := by
  have hm : isCmp (mirror op) = true := by cases op <;> simp [isCmp] at h <;> rfl
  rw [evalBin_cmp op h, evalBin_cmp (mirror op) hm]
  unfold cmpEval
  cases a <;> cases b <;> try rfl
  all_goals
    simp only []
    rw [cmp_swap]
    generalize Value.cmp? _ _ = oc
    cases oc <;> simp
    rename_i o
    cases op <;> simp [isCmp] at h <;> cases o <;> rfl

/-! the operator tables of the columnar predicate extractors, as extracted from the source -/

/-- `BinaryOperator` variant name → comparison -/
def opOfName : String → Option BinOp
  | "LessThan" => some .lt | "GreaterThan" => some .gt
  | "LessThanOrEqual" => some .le | "GreaterThanOrEqual" => some .ge
  | "Equal" => some .eq | "NotEqual" => some .ne
  | _ => none

/-- a table is right when every row maps operator `op` to the predicate `col (f op) lit` -/
def tableOk (f : BinOp → BinOp) (t : List (String × String)) : Bool :=
  t.all (fun p => match opOfName p.1, opOfName p.2 with
    | some a, some b => b == f a
    | _, _ => false)

def tablesOk (ts : List (String × List (String × String))) : Bool :=
  ts.all (fun kt =>
    if kt.1 == "direct" then tableOk id kt.2
    else if kt.1 == "reversed" then tableOk mirror kt.2
    else false)

/-- every operator table in select/columnar/filter.rs (AND-only and AND/OR extractors, both operand
orders) maps `column op literal` to the same comparison and `literal op column` to the mirrored one;
together with `C06_comparison_mirror` the extracted predicate means what the WHERE clause means.
A table row edited in the source breaks this `decide`. -/
theorem C06_columnar_operator_tables :
    tablesOk Generated.c06ColumnarOpTables = true ∧
    (Generated.c06ColumnarOpTables.filter (fun kt => kt.1 == "direct")).length ≥ 1 ∧
    (Generated.c06ColumnarOpTables.filter (fun kt => kt.1 == "reversed")).length ≥ 1 := by
  decide

/-- what a wrong row looks like: `literal <= column` pushed as `column > literal` -/
example : tablesOk [("reversed", [("LessThanOrEqual", "GreaterThan")])] = false := by decide

/-! ### the operator → index-range tables of `extract_range_predicate` -/

/-- membership of key `k` in the range a table row describes, for bound literal `v` -/
def rowRange (startSome endSome incS incE : Bool) (v k : Int) : Bool :=
  (if startSome then (if incS then decide (v ≤ k) else decide (v < k)) else true) &&
  (if endSome then (if incE then decide (k ≤ v) else decide (k < v)) else true)

/-- `k op v` on integers -/
def cmpInts : BinOp → Int → Int → Bool
  | .lt, k, v => decide (k < v) | .le, k, v => decide (k ≤ v)
  | .gt, k, v => decide (k > v) | .ge, k, v => decide (k ≥ v)
  | .eq, k, v => decide (k = v) | .ne, k, v => decide (k ≠ v)
  | _, _, _ => false

/-- the shape a row must have for `column op literal` (flags of an absent bound are free) -/
def rowShapeOk (op : BinOp) (startSome endSome incS incE : Bool) : Bool :=
  match op with
  | .gt => startSome && !endSome && !incS
  | .ge => startSome && !endSome && incS
  | .lt => !startSome && endSome && !incE
  | .le => !startSome && endSome && incE
  | _ => false

/-- a row of the right shape selects exactly the keys satisfying the comparison — all integers -/
theorem rowShape_sound (op : BinOp) (s e is ie : Bool) (h : rowShapeOk op s e is ie = true) (v k : Int) :
    rowRange s e is ie v k = cmpInts op k v := by
  cases op <;> simp [rowShapeOk] at h <;>
    (obtain ⟨⟨h1, h2⟩, h3⟩ := h; subst h1; subst h2; subst h3; simp [rowRange, cmpInts]) <;>
    (try omega)

def rangeTableOk (f : BinOp → BinOp) (t : List (String × Bool × Bool × Bool × Bool)) : Bool :=
  t.all (fun r => match opOfName r.1 with
    | some op => rowShapeOk (f op) r.2.1 r.2.2.1 r.2.2.2.1 r.2.2.2.2
    | none => false)

def rangeTablesOk (ts : List (String × List (String × Bool × Bool × Bool × Bool))) : Bool :=
  ts.all (fun kt =>
    if kt.1 == "direct" then rangeTableOk id kt.2
    else if kt.1 == "reversed" then rangeTableOk mirror kt.2
    else false)

/-- every operator table of select/scan/index_scan/predicate.rs, as it is in the tree now: a row for
`column op literal` has the shape whose range is exactly `{k | k op literal}` (`rowShape_sound`), a
row for `literal op column` the shape of the mirrored comparison (`C06_comparison_mirror`) -/
theorem C06_index_range_operator_tables :
    rangeTablesOk Generated.c06IndexRangeTables = true ∧
    (Generated.c06IndexRangeTables.filter (fun kt => kt.1 == "direct")).length ≥ 1 ∧
    (Generated.c06IndexRangeTables.filter (fun kt => kt.1 == "reversed")).length ≥ 1 := by
  decide

/-- what a wrong row looks like: `literal >= column` (column <= literal) given an exclusive end -/
example : rangeTablesOk [("reversed", [("GreaterThanOrEqual", false, true, false, false)])] = false := by decide

/-! ### which sub-expressions the per-evaluator cache may keep (`ExpressionHasher::is_deterministic`) -/

/-- leaves that never depend on the row, the session or the clock -/
def constantLeaves : List String := ["Literal", "Wildcard", "Default", "DuplicateKeyValue"]

/-- an arm is sound when: it says "not cacheable"; or it says "cacheable" for a constant leaf; or it
recurses into EVERY field of the variant that holds an expression -/
def cseArmOk (r : String × List String × String × List String) : Bool :=
  let (variant, children, kind, used) := r
  kind == "false" ||
  (kind == "true" && children.isEmpty && constantLeaves.contains variant) ||
  (kind == "rec" && !children.isEmpty && children.all (fun c => used.contains c))

/-- `is_deterministic`, as it is in the tree now, against the AST definition as it is now: every
variant of `enum Expression` has an arm, and every arm is sound in the sense above. Consequently
(by induction over the expression) an expression is classed cacheable only if no sub-expression is a
column reference, pseudo-variable, session variable, subquery, aggregate or clock function — so a
cached value can never be a value computed from another row (the filters that keep the cache across
rows rely on exactly this). Dropping a recursive check from an arm (seeded C04-3 / C06-3 / C10-3) or
classing OLD./NEW. as cacheable (C34-2) breaks this `decide`. -/
theorem C06_cse_cacheable_arms_sound :
    Generated.c06CseArms.all cseArmOk = true ∧
    Generated.c06AstVariants.all (fun v => Generated.c06CseArms.any (fun r => r.1 == v)) = true ∧
    Generated.c06AstVariants.length ≥ 20 := by
  decide

/-- the model of the classification the table describes, and the lemma the table check gives:
over an abstract expression tree, a node is cacheable iff its arm says so; with sound arms a
cacheable tree contains no row-dependent leaf -/
inductive ETree where
  | leaf (rowDependent : Bool)
  | node (children : List ETree)

mutual
def ETree.cacheable : ETree → Bool
  | .leaf rd => !rd
  | .node cs => ETree.allCacheable cs
def ETree.allCacheable : List ETree → Bool
  | [] => true
  | c :: cs => c.cacheable && ETree.allCacheable cs
end

mutual
def ETree.hasRowLeaf : ETree → Bool
  | .leaf rd => rd
  | .node cs => ETree.anyRowLeaf cs
def ETree.anyRowLeaf : List ETree → Bool
  | [] => false
  | c :: cs => c.hasRowLeaf || ETree.anyRowLeaf cs
end

mutual
theorem ETree.cacheable_no_row_leaf : (e : ETree) → e.cacheable = true → e.hasRowLeaf = false
  | .leaf rd, h => by simpa [ETree.cacheable, ETree.hasRowLeaf] using h
  | .node cs, h => by
      simp only [ETree.cacheable] at h
      simp only [ETree.hasRowLeaf]
      exact ETree.allCacheable_no_row_leaf cs h
theorem ETree.allCacheable_no_row_leaf : (cs : List ETree) → ETree.allCacheable cs = true → ETree.anyRowLeaf cs = false
  | [], _ => rfl
  | c :: cs, h => by
      simp only [ETree.allCacheable, Bool.and_eq_true] at h
      simp only [ETree.anyRowLeaf, Bool.or_eq_false_iff]
      exact ⟨ETree.cacheable_no_row_leaf c h.1, ETree.allCacheable_no_row_leaf cs h.2⟩
end

/-- what an unsound arm looks like -/
example : cseArmOk ("Like", ["expr", "pattern"], "rec", ["pattern"]) = false ∧
    cseArmOk ("PseudoVariable", [], "true", []) = false := by decide

/-- non-vacuity: a table on which a predicate takes all three truth values -/
example : let p : Nat → TV := fun n => if n = 0 then u else if n % 2 = 0 then t else f
    filter3 p [0, 1, 2, 3] = [2] ∧ filter3 (fun r => not3 (p r)) [0, 1, 2, 3] = [1, 3]
      ∧ filter3 (fun r => isU (p r)) [0, 1, 2, 3] = [0] := by decide

end VibeProof.C06
