use std::sync::Arc;
use vibesql_storage::btree::{BTreeIndex, VerifNode};
use vibesql_storage::page::PageManager;
use vibesql_storage::NativeStorage;
use vibesql_types::{DataType, SqlValue};

fn k(i: i64) -> Vec<SqlValue> { vec![SqlValue::Varchar(format!("k{:04}", i))] }

fn show(n: &VerifNode, ind: usize) {
    match n {
        VerifNode::Leaf { page_id, entries, next_leaf } => {
            println!("{}leaf p{} next={} {:?}", " ".repeat(ind), page_id, next_leaf, entries.iter().map(|(k, r)| format!("{:?}:{:?}", k[0], r)).collect::<Vec<_>>());
        }
        VerifNode::Internal { page_id, keys, children } => {
            println!("{}int p{} keys={:?}", " ".repeat(ind), page_id, keys.iter().map(|k| format!("{:?}", k[0])).collect::<Vec<_>>());
            for c in children { show(c, ind + 2); }
        }
    }
}

fn main() {
    let dir = std::path::PathBuf::from("/verif/.run/c17probe");
    let _ = std::fs::remove_dir_all(&dir);
    std::fs::create_dir_all(&dir).unwrap();
    let schema = vec![DataType::Varchar { max_length: Some(255) }];
    for n in [10i64, 13, 16] {
        let st = Arc::new(NativeStorage::new(&dir).unwrap());
        let pm = Arc::new(PageManager::new(&format!("t{}.idx", n), st).unwrap());
        let entries: Vec<_> = (0..n).map(|i| (k(i), i as usize)).collect();
        let t0 = std::time::Instant::now();
        let mut t = BTreeIndex::bulk_load(entries, schema.clone(), pm).unwrap();
        println!("n={} degree={} height={} load={:?}", n, t.degree(), t.height(), t0.elapsed());
        show(&t.verif_dump().unwrap(), 0);
        for i in 0..n {
            let r = t.lookup(&k(i)).unwrap();
            if r != vec![i as usize] { println!("  LOOKUP MISS key {} -> {:?}", i, r); }
        }
        if n == 10 {
            let r = std::panic::catch_unwind(std::panic::AssertUnwindSafe(|| t.delete(&k(9))));
            println!("  delete k9 -> {:?}", r.map_err(|_| "PANIC"));
        }
    }
    let _ = std::fs::remove_dir_all(&dir);
}
