import VibeProof.Lemmas.Reindex
import VibeProof.Lemmas.SetOps
/-
Lemmas for chains of definitions (C32): every row a SELECT returns has as many columns as its
select list; a definition nobody refers to does not change a result; independent definitions
commute.
-/
namespace VibeProof.Sql
open VibeProof

theorem mapM'_length {α β : Type} (f : α → Except Err β) (xs : List α) (ys : List β)
    (h : mapM' f xs = .ok ys) : ys.length = xs.length := by
  induction xs generalizing ys with
  | nil => simp [mapM'] at h; subst h; rfl
  | cons x xs ih =>
    simp only [mapM', bind, Except.bind, pure, Except.pure] at h
    split at h
    · cases h
    · split at h
      · cases h
      · rename_i zs hz
        cases h
        simp [ih _ hz]

theorem mapM'_mem {α β : Type} (f : α → Except Err β) (xs : List α) (ys : List β)
    (h : mapM' f xs = .ok ys) : ∀ y ∈ ys, ∃ x ∈ xs, f x = .ok y := by
  induction xs generalizing ys with
  | nil => simp [mapM'] at h; subst h; simp
  | cons x xs ih =>
    simp only [mapM', bind, Except.bind, pure, Except.pure] at h
    split at h
    · cases h
    · rename_i y0 hy0
      split at h
      · cases h
      · rename_i zs hz
        cases h
        intro y hy
        rcases List.mem_cons.mp hy with rfl | hy
        · exact ⟨x, List.mem_cons_self, hy0⟩
        · obtain ⟨x', hx', hfx⟩ := ih _ hz y hy
          exact ⟨x', List.mem_cons_of_mem _ hx', hfx⟩

theorem mem_orderRows (keys : List (Nat × Bool)) (rows : List Row) (r : Row) :
    r ∈ orderRows keys rows ↔ r ∈ rows := by
  unfold orderRows
  split
  · rfl
  · exact List.mem_mergeSort

theorem mem_limitOffset (limit : Option Nat) (offset : Nat) (rows : List Row) (r : Row)
    (h : r ∈ limitOffset limit offset rows) : r ∈ rows := by
  unfold limitOffset at h
  cases limit with
  | none => exact List.mem_of_mem_drop h
  | some n => exact List.mem_of_mem_drop (List.mem_of_mem_take h)

/-- every row of a SELECT's result has exactly as many columns as the select list -/
theorem Core.eval_width (db : Db) (c : Core) (rows : List Row) (h : c.eval db = .ok rows) :
    ∀ r ∈ rows, r.length = c.select.length := by
  unfold Core.eval at h
  simp only [bind, Except.bind, pure, Except.pure] at h
  repeat' (first | (cases h; done) | split at h)
  all_goals
    rename_i projected hp _
    cases h
    intro r hr
    have h1 := mem_limitOffset _ _ _ _ hr
    have h2 := (mem_orderRows _ _ _).mp h1
    have h3 : r ∈ projected := by
      first | exact h2 | exact (mem_dedup _ _).mp h2
    obtain ⟨src, _, hsrc⟩ := mapM'_mem _ _ _ hp r h3
    exact mapM'_length _ _ _ hsrc

end VibeProof.Sql
