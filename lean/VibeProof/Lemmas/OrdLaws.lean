import VibeProof.Model.SqlOrd
/-
Laws of the integer three-way comparison and of the lexicographic order built from it.
Everything about `SV.cmp` is reduced to these through `cmp_eq_lex` (Props/C21.lean).
-/
namespace VibeProof.SqlOrd

theorem cmpInt_lt_iff {a b : Int} : cmpInt a b = .lt ↔ a < b := by
  unfold cmpInt; split
  · simp [*]
  · split <;> simp [*]

theorem cmpInt_eq_iff {a b : Int} : cmpInt a b = .eq ↔ a = b := by
  unfold cmpInt; split
  · simp; omega
  · split <;> simp [*]

theorem cmpInt_gt_iff {a b : Int} : cmpInt a b = .gt ↔ b < a := by
  unfold cmpInt; split
  · simp; omega
  · split <;> simp <;> omega

theorem cmpInt_refl (a : Int) : cmpInt a a = .eq := cmpInt_eq_iff.mpr rfl

theorem cmpInt_swap (a b : Int) : cmpInt b a = (cmpInt a b).swap := by
  rcases Int.lt_trichotomy a b with h | h | h
  · rw [cmpInt_lt_iff.mpr h, cmpInt_gt_iff.mpr h]; rfl
  · subst h; rw [cmpInt_refl]; rfl
  · rw [cmpInt_gt_iff.mpr h, cmpInt_lt_iff.mpr h]; rfl

/-- shape of a lexicographic step -/
theorem then_ne_gt {x y : Int} {r : Ordering} :
    (cmpInt x y).then r ≠ .gt ↔ x < y ∨ (x = y ∧ r ≠ .gt) := by
  rcases Int.lt_trichotomy x y with h | h | h
  · rw [cmpInt_lt_iff.mpr h]; simp [Ordering.then, h]
  · subst h; rw [cmpInt_refl]; simp [Ordering.then]
  · rw [cmpInt_gt_iff.mpr h]; simp [Ordering.then]; omega

theorem then_eq_eq {x y : Int} {r : Ordering} :
    (cmpInt x y).then r = .eq ↔ x = y ∧ r = .eq := by
  rcases Int.lt_trichotomy x y with h | h | h
  · rw [cmpInt_lt_iff.mpr h]; simp [Ordering.then]; omega
  · subst h; rw [cmpInt_refl]; simp [Ordering.then]
  · rw [cmpInt_gt_iff.mpr h]; simp [Ordering.then]; omega

theorem cmpLex_swap : ∀ a b : List Int, cmpLex b a = (cmpLex a b).swap
  | [], [] => rfl
  | [], _ :: _ => rfl
  | _ :: _, [] => rfl
  | x :: xs, y :: ys => by
    simp only [cmpLex, Ordering.swap_then, cmpInt_swap x y, cmpLex_swap xs ys]

theorem cmpLex_eq_iff : ∀ {a b : List Int}, cmpLex a b = .eq ↔ a = b
  | [], [] => by simp [cmpLex]
  | [], _ :: _ => by simp [cmpLex]
  | _ :: _, [] => by simp [cmpLex]
  | x :: xs, y :: ys => by
    simp only [cmpLex, then_eq_eq, List.cons.injEq, cmpLex_eq_iff (a := xs) (b := ys)]

theorem cmpLex_refl (a : List Int) : cmpLex a a = .eq := cmpLex_eq_iff.mpr rfl

theorem cmpLex_le_trans : ∀ {a b c : List Int},
    cmpLex a b ≠ .gt → cmpLex b c ≠ .gt → cmpLex a c ≠ .gt
  | [], _, [] => by simp [cmpLex]
  | [], _, _ :: _ => by simp [cmpLex]
  | _ :: _, [], _ => by simp [cmpLex]
  | _ :: _, _ :: _, [] => by simp [cmpLex]
  | x :: xs, y :: ys, z :: zs => by
    simp only [cmpLex, then_ne_gt]
    intro h1 h2
    rcases h1 with h1 | ⟨h1, r1⟩ <;> rcases h2 with h2 | ⟨h2, r2⟩
    · left; omega
    · left; omega
    · left; omega
    · right; exact ⟨by omega, cmpLex_le_trans r1 r2⟩

/-- a strict head decides -/
theorem cmpLex_cons_ne {x y : Int} (h : x ≠ y) (xs ys : List Int) :
    cmpLex (x :: xs) (y :: ys) = cmpInt x y := by
  rcases Int.lt_trichotomy x y with h' | h' | h'
  · simp [cmpLex, cmpInt_lt_iff.mpr h', Ordering.then]
  · exact absurd h' h
  · simp [cmpLex, cmpInt_gt_iff.mpr h', Ordering.then]

theorem cmpLex_cons_same (x : Int) (xs ys : List Int) :
    cmpLex (x :: xs) (x :: ys) = cmpLex xs ys := by
  simp [cmpLex, cmpInt_refl, Ordering.then]

theorem cmpInt_succ (a b : Int) : cmpInt (a + 1) (b + 1) = cmpInt a b := by
  rcases Int.lt_trichotomy a b with h | h | h
  · rw [cmpInt_lt_iff.mpr h, cmpInt_lt_iff.mpr (by omega)]
  · subst h; simp [cmpInt_refl]
  · rw [cmpInt_gt_iff.mpr h, cmpInt_gt_iff.mpr (by omega)]

end VibeProof.SqlOrd
