import VibeProof.Model.Expr
/-
DML state machine on one table (C10, C11): rows + hash indexes (PRIMARY KEY / UNIQUE) +
AppendModeTracker, and the statements INSERT (plain, REPLACE, ON DUPLICATE KEY UPDATE, bulk
INSERT … SELECT transfer), UPDATE, DELETE, TRUNCATE, ALTER TABLE ADD CONSTRAINT, each split in
the phases the executors use (validate everything, then write).

Mirrors, as coded after the repairs recorded in notes/C10.md:
  vibesql-storage   table/mod.rs (insert, update_row, delete_where, clear), table/indexes.rs
                    (update_for_insert / update_for_update / rebuild), table/append_mode.rs
  vibesql-executor  insert/{execution,row_validator,constraints,replace,duplicate_key_update,
                    bulk_transfer}.rs, update/{mod,constraints}.rs, delete/executor.rs,
                    alter/constraints.rs

A `HashMap<Vec<SqlValue>, usize>` is observed by the constraint code only through
`contains_key`, `insert` and `remove`; it is modelled by its key set (`KeySet`, a list compared
as a set).  Row positions stored in the map are not modelled (they belong to C15).
-/
namespace VibeProof.Dml
open VibeProof

abbrev Key := List Value

/-- `pk_indices.iter().map(|&idx| row.values[idx].clone())`.  Rows handled by the machine have
exactly `ncols` values and key columns are `< ncols` (part of the invariant), so the default of
`getD` is never used (`keyOf_eq_get` in Lemmas). -/
def keyOf (cols : List Nat) (r : Row) : Key := cols.map (fun i => r.getD i Value.null)

/-- `values.contains(&SqlValue::Null)` -/
def hasNull (k : Key) : Bool := k.any Value.isNull

abbrev KeySet := List Key
def ksInsert (k : Key) (s : KeySet) : KeySet := if k ∈ s then s else k :: s
def ksRemove (k : Key) (s : KeySet) : KeySet := s.filter (fun x => !(x == k))

/-- One hash index of `IndexManager`: the primary-key index (`skipNull = false`) or the index
of one UNIQUE constraint (`skipNull = true`: keys containing NULL are never stored). -/
structure UIdx where
  cols : List Nat
  skipNull : Bool
  keys : KeySet
  deriving Repr, Inhabited

namespace UIdx
def relevant (u : UIdx) (k : Key) : Bool := !(u.skipNull && hasNull k)

/-- `update_for_insert` for this index -/
def insertRow (u : UIdx) (r : Row) : UIdx :=
  let k := keyOf u.cols r
  if u.relevant k then { u with keys := ksInsert k u.keys } else u

/-- `clear` + `rebuild` for this index -/
def rebuild (u : UIdx) (rows : List Row) : UIdx :=
  rows.foldl insertRow { u with keys := [] }

/-- `update_for_update` / `update_selective` for this index (an index not touched by the
changed columns has `old key = new key`, for which this is the identity on the key set). -/
def updateRow (u : UIdx) (old new : Row) : UIdx :=
  let ko := keyOf u.cols old
  let kn := keyOf u.cols new
  let s1 := if ko != kn && u.relevant ko then ksRemove ko u.keys else u.keys
  let s2 := if u.relevant kn then ksInsert kn s1 else s1
  { u with keys := s2 }

/-- `index.contains_key(&key)` guarded by the NULL skip -/
def conflicts (u : UIdx) (r : Row) : Bool :=
  let k := keyOf u.cols r
  u.relevant k && decide (k ∈ u.keys)

/-- `batch_pk_values.contains(..)` / `batch_unique_values[i].contains(..)` -/
def dupInBatch (u : UIdx) (batch : List Row) (r : Row) : Bool :=
  let k := keyOf u.cols r
  u.relevant k && batch.any (fun b => keyOf u.cols b == k)
end UIdx

/-! ### AppendModeTracker (table/append_mode.rs) -/

structure Tracker where
  last : Option Key
  active : Bool
  streak : Nat
  deriving Repr, Inhabited, DecidableEq

/-- `Vec<SqlValue>` `partial_cmp` restricted to integer keys; `none` = incomparable -/
def keyCmp : Key → Key → Option Ordering
  | [], [] => some .eq
  | [], _ :: _ => some .lt
  | _ :: _, [] => some .gt
  | .int a :: as, .int b :: bs =>
      if a < b then some .lt else if b < a then some .gt else keyCmp as bs
  | _ :: _, _ :: _ => none

namespace Tracker
def new : Tracker := { last := none, active := false, streak := 0 }

/-- `AppendModeTracker::update` with `APPEND_MODE_THRESHOLD = thr` -/
def update (thr : Nat) (t : Tracker) (pk : Key) : Tracker :=
  match t.last with
  | none => { t with last := some pk }
  | some l =>
    if keyCmp pk l == some .gt then
      let s := t.streak + 1
      { last := some pk, active := t.active || decide (thr ≤ s), streak := s }
    else
      { last := some pk, active := false, streak := 0 }
end Tracker

/-! ### Table -/

inductive DErr where
  | constraint   -- ExecutorError::ConstraintViolation
  | type         -- type mismatch on coercion
  | arity        -- column count mismatch
  | column       -- unknown column
  | eval         -- expression evaluation error
  | other
  deriving DecidableEq, Repr, Inhabited

inductive Out where
  | ok (n : Nat)
  | err (e : DErr)
  deriving DecidableEq, Repr, Inhabited

structure Table where
  ncols : Nat
  notNull : List Nat
  /-- primary-key columns; its index is `pkIdx` -/
  pk : Option (List Nat)
  /-- hash indexes: the PRIMARY KEY index (if any) and one per UNIQUE constraint -/
  idxs : List UIdx
  checks : List Expr
  rows : List Row
  tracker : Tracker
  deriving Repr, Inhabited

namespace Table

/-- `Table::insert`: tracker update (tables with a primary key), push, `update_for_insert` -/
def pushRow (thr : Nat) (t : Table) (r : Row) : Table :=
  { t with
    rows := t.rows ++ [r]
    idxs := t.idxs.map (·.insertRow r)
    tracker := match t.pk with
      | some cols => t.tracker.update thr (keyOf cols r)
      | none => t.tracker }

/-- `Table::update_row(_selective)` at position `i` -/
def updateAt (t : Table) (i : Nat) (new : Row) : Table :=
  match t.rows[i]? with
  | none => t
  | some old =>
    { t with rows := t.rows.set i new, idxs := t.idxs.map (·.updateRow old new) }

/-- `Table::delete_where` followed by `rebuild` -/
def deleteWhere (t : Table) (p : Row → Bool) : Table :=
  let rows' := t.rows.filter (fun r => !(p r))
  { t with rows := rows', idxs := t.idxs.map (·.rebuild rows') }

/-- `Table::clear` -/
def clear (t : Table) : Table :=
  { t with rows := [], idxs := t.idxs.map (fun u => { u with keys := [] }), tracker := Tracker.new }

/-- CREATE TABLE: empty table with its declared constraints -/
def create (ncols : Nat) (notNull : List Nat) (pk : Option (List Nat)) (uniques : List (List Nat))
    (checks : List Expr) : Table :=
  { ncols := ncols, notNull := notNull, pk := pk,
    idxs := (match pk with
      | some cols => [{ cols := cols, skipNull := false, keys := [] }]
      | none => []) ++ uniques.map (fun c => { cols := c, skipNull := true, keys := [] }),
    checks := checks, rows := [], tracker := Tracker.new }

/-! #### row validation -/

/-- `coerce_value` for an INTEGER column: NULL and integers pass -/
def coerceOk (v : Value) : Bool :=
  match v with
  | .null => true
  | .int _ => true
  | _ => false

def checkNotNull (t : Table) (r : Row) : Bool :=
  t.notNull.all (fun i => !(r.getD i Value.null).isNull)

/-- CHECK constraints: FALSE rejects, TRUE / NULL pass, evaluation errors propagate -/
def checkChecks (cs : List Expr) (r : Row) : Except DErr Unit :=
  match cs with
  | [] => .ok ()
  | c :: rest =>
    match c.eval r with
    | .error _ => .error .eval
    | .ok v => if v == Value.bool false then .error .constraint else checkChecks rest r

/-- `RowValidator::validate` (phases 1–4) for one row of an INSERT; `batch` = the rows of the
statement validated before this one.  `skipDup` for REPLACE / ON DUPLICATE KEY UPDATE. -/
def validateInsertRow (t : Table) (skipDup : Bool) (batch : List Row) (r : Row) : Except DErr Unit :=
  if !r.all coerceOk then .error .type
  else if !t.checkNotNull r then .error .constraint
  else if !skipDup && t.idxs.any (fun u => u.dupInBatch batch r || u.conflicts r) then .error .constraint
  else checkChecks t.checks r

/-- validation loop of `execute_insert_internal`: every row against the table as it is and the
earlier rows of the same statement; nothing is written -/
def validateInsertRows (t : Table) (skipDup : Bool) : List Row → List Row → Except DErr Unit
  | _, [] => .ok ()
  | batch, r :: rs =>
    match t.validateInsertRow skipDup batch r with
    | .error e => .error e
    | .ok () => validateInsertRows t skipDup (batch ++ [r]) rs

/-- `ConstraintValidator::validate_row` (UPDATE) preceded by the column-type check of the new row
(assigned values are coerced like INSERT's `coerce_value`; `Table::normalize_row` refuses a value of
the wrong storage type *before* the first write — since the repair): the new row against the table
as it is, excluding the row itself by comparing with its own old key -/
def validateUpdateRow (t : Table) (old new : Row) : Except DErr Unit :=
  if !new.all coerceOk then .error .type
  else if !t.checkNotNull new then .error .constraint
  else if t.idxs.any (fun u => u.conflicts new && keyOf u.cols new != keyOf u.cols old) then .error .constraint
  else checkChecks t.checks new

/-! #### INSERT -/

inductive InsMode where
  | plain
  | replace
  /-- ON DUPLICATE KEY UPDATE: `f existing insertValues` = the updated row -/
  | onDup (f : Row → Row → Except DErr Row)

/-- `handle_replace_conflicts`: delete every row that shares the primary key or a non-NULL
UNIQUE key with the new row -/
def replaceConflicts (t : Table) (r : Row) : Table :=
  t.deleteWhere (fun x => t.idxs.any (fun u =>
    let k := keyOf u.cols r
    u.relevant k && keyOf u.cols x == k))

/-- `find_conflicting_row`: first index (primary key first) with a row of equal key, and that
row's position -/
def findConflict (t : Table) (r : Row) : Option Nat :=
  t.idxs.findSome? (fun u =>
    let k := keyOf u.cols r
    if u.relevant k then
      let i := t.rows.findIdx (fun x => keyOf u.cols x == k)
      if i < t.rows.length then some i else none
    else none)

/-- row-by-row loop for ON DUPLICATE KEY UPDATE; stops at the first failing row, keeping what
the earlier rows did (the executor has no statement-level undo) -/
def onDupLoop (thr : Nat) (f : Row → Row → Except DErr Row) : Table → List Row → Nat → Table × Out
  | t, [], n => (t, .ok n)
  | t, r :: rs, n =>
    match t.findConflict r with
    | none => onDupLoop thr f (t.pushRow thr r) rs (n + 1)
    | some i =>
      match t.rows[i]? with
      | none => (t, .err .other)
      | some old =>
        match f old r with
        | .error e => (t, .err e)
        | .ok new =>
          match t.validateUpdateRow old new with
          | .error e => (t, .err e)
          | .ok () => onDupLoop thr f (t.updateAt i new) rs (n + 1)

/-- `execute_insert_internal` (VALUES, or SELECT on the non-bulk path) without triggers -/
def insertStmt (thr : Nat) (t : Table) (rows : List Row) (mode : InsMode) : Table × Out :=
  if rows.any (fun r => r.length != t.ncols) then (t, .err .arity)
  else
    match mode with
    | .plain =>
      match t.validateInsertRows false [] rows with
      | .error e => (t, .err e)
      | .ok () => (rows.foldl (pushRow thr) t, .ok rows.length)
    | .replace =>
      match t.validateInsertRows true [] rows with
      | .error e => (t, .err e)
      | .ok () => (rows.foldl (fun t r => (t.replaceConflicts r).pushRow thr r) t, .ok rows.length)
    | .onDup f =>
      match t.validateInsertRows true [] rows with
      | .error e => (t, .err e)
      | .ok () => onDupLoop thr f t rows 0

/-- `execute_bulk_transfer` before the repairs: validate and insert row by row (a failing row
leaves the earlier ones inserted); `skipInAppendMode = true` additionally skips the existing-row
lookup while the tracker is active. -/
def bulkLoop (thr : Nat) (skipInAppendMode : Bool) : Table → List Row → List Row → Nat → Table × Out
  | t, _, [], n => (t, .ok n)
  | t, batch, r :: rs, n =>
    let dup := t.idxs.any (fun u =>
      u.dupInBatch batch r ||
        (if u.skipNull then u.conflicts r
         else !(skipInAppendMode && t.tracker.active) && u.conflicts r))
    if dup then (t, .err .constraint)
    else
      match checkChecks t.checks r with
      | .error e => (t, .err e)
      | .ok () => bulkLoop thr skipInAppendMode (t.pushRow thr r) (batch ++ [r]) rs (n + 1)

/-- `execute_bulk_transfer` (after the repair: phase A validates every source row against the
destination and the earlier source rows, phase B inserts).  The transfer path is taken only for
a source table of the same column types whose columns feeding NOT NULL columns are themselves
NOT NULL (`check_schema_compatibility`); other sources go through `insertStmt`.  Rows that could
not come from such a source are `.other`.  `bulkLoop` above is the row-by-row code before the
repairs (kept for the theorems that document them). -/
def bulkStmt (thr : Nat) (t : Table) (rows : List Row) : Table × Out :=
  if rows.any (fun r => r.length != t.ncols || !r.all coerceOk || !t.checkNotNull r) then (t, .err .other)
  else
    match t.validateInsertRows false [] rows with
    | .error e => (t, .err e)
    | .ok () => (rows.foldl (pushRow thr) t, .ok rows.length)

/-! #### UPDATE -/

/-- positions and rows selected by the WHERE clause (`RowSelector::select_rows`) -/
def selectRows (sel : Row → Except DErr Bool) : List Row → Nat → Except DErr (List (Nat × Row))
  | [], _ => .ok []
  | r :: rs, i =>
    match sel r with
    | .error e => .error e
    | .ok b =>
      match selectRows sel rs (i + 1) with
      | .error e => .error e
      | .ok rest => .ok (if b then (i, r) :: rest else rest)

/-- step 6 of `UpdateExecutor::execute_internal`: build and validate all new rows against the
table as it is before the statement and (repair) against the new rows built so far -/
def planUpdates (t : Table) (f : Row → Except DErr Row) :
    List (Nat × Row) → List Row → Except DErr (List (Nat × Row))
  | [], _ => .ok []
  | (i, old) :: rest, batch =>
    match f old with
    | .error e => .error e
    | .ok new =>
      if new.length != t.ncols then .error .other else
      match t.validateUpdateRow old new with
      | .error e => .error e
      | .ok () =>
        if t.idxs.any (fun u => u.dupInBatch batch new) then .error .constraint
        else
          match planUpdates t f rest (batch ++ [new]) with
          | .error e => .error e
          | .ok us => .ok ((i, new) :: us)

/-- step 8: write all planned rows -/
def applyUpdates (t : Table) (us : List (Nat × Row)) : Table :=
  us.foldl (fun t u => t.updateAt u.1 u.2) t

def updateStmt (t : Table) (sel : Row → Except DErr Bool) (f : Row → Except DErr Row) : Table × Out :=
  match selectRows sel t.rows 0 with
  | .error e => (t, .err e)
  | .ok cands =>
    match t.planUpdates f cands [] with
    | .error e => (t, .err e)
    | .ok us => (t.applyUpdates us, .ok us.length)

/-! #### DELETE / TRUNCATE -/

/-- `DeleteExecutor` with a WHERE clause, no triggers, no referencing foreign keys: a row is
selected iff the predicate evaluates to TRUE (errors select nothing) -/
def deleteStmt (t : Table) (sel : Row → Bool) : Table × Out :=
  ((t.deleteWhere sel), .ok (t.rows.filter sel).length)

/-- TRUNCATE TABLE / `DELETE FROM t` fast path -/
def truncateStmt (t : Table) : Table × Out := (t.clear, .ok t.rows.length)

/-! #### ALTER TABLE ADD CONSTRAINT (with the validation of existing rows added by the repair) -/

/-- existing keys pairwise distinct (keys with NULL: rejected for PRIMARY KEY, skipped for UNIQUE) -/
def keysAdmissible (cols : List Nat) (rejectNull : Bool) : List Row → List Key → Bool
  | [], _ => true
  | r :: rs, seen =>
    let k := keyOf cols r
    if hasNull k then (!rejectNull) && keysAdmissible cols rejectNull rs seen
    else !(decide (k ∈ seen)) && keysAdmissible cols rejectNull rs (k :: seen)

def addPrimaryKey (t : Table) (cols : List Nat) : Table × Out :=
  if cols.any (fun c => !(decide (c < t.ncols))) then (t, .err .column)
  else if t.pk.isSome then (t, .err .constraint)
  else if !keysAdmissible cols true t.rows [] then (t, .err .constraint)
  else
    let u : UIdx := { cols := cols, skipNull := false, keys := [] }
    ({ t with pk := some cols, idxs := (u :: t.idxs).map (·.rebuild t.rows) }, .ok 0)

def addUnique (t : Table) (cols : List Nat) : Table × Out :=
  if !keysAdmissible cols false t.rows [] then (t, .err .constraint)
  else if cols.any (fun c => !(decide (c < t.ncols))) then (t, .err .column)
  else
    let u : UIdx := { cols := cols, skipNull := true, keys := [] }
    ({ t with idxs := (t.idxs ++ [u]).map (·.rebuild t.rows) }, .ok 0)

/-- the new CHECK evaluated on every existing row -/
def checkAllRows (c : Expr) : List Row → Except DErr Unit
  | [] => .ok ()
  | r :: rs =>
    match checkChecks [c] r with
    | .error e => .error e
    | .ok () => checkAllRows c rs

def addCheck (t : Table) (c : Expr) : Table × Out :=
  match checkAllRows c t.rows with
  | .error e => (t, .err e)
  | .ok () => ({ t with checks := t.checks ++ [c] }, .ok 0)

end Table

/-! ### statements and the step function -/

inductive Stmt where
  | insert (rows : List Row) (mode : Table.InsMode)
  | bulk (rows : List Row)
  | update (sel : Row → Except DErr Bool) (f : Row → Except DErr Row)
  | delete (sel : Row → Bool)
  | truncate
  | addPk (cols : List Nat)
  | addUnique (cols : List Nat)
  | addCheck (c : Expr)

def step (thr : Nat) (t : Table) : Stmt → Table × Out
  | .insert rows mode => t.insertStmt thr rows mode
  | .bulk rows => t.bulkStmt thr rows
  | .update sel f => t.updateStmt sel f
  | .delete sel => t.deleteStmt sel
  | .truncate => t.truncateStmt
  | .addPk cols => t.addPrimaryKey cols
  | .addUnique cols => t.addUnique cols
  | .addCheck c => t.addCheck c

def run (thr : Nat) (t : Table) : List Stmt → Table
  | [] => t
  | s :: ss => run thr (step thr t s).1 ss

/-- what a client can observe of one table (C11): rows in storage order and what the hash
indexes answer -/
def observe (t : Table) : List Row × List (List Nat × Bool × KeySet) :=
  (t.rows, t.idxs.map (fun u => (u.cols, u.skipNull, u.keys)))

end VibeProof.Dml
