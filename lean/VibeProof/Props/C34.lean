import VibeProof.Lemmas.TriggerSched
import VibeProof.Generated.Consts
/-
C34 — row triggers fire once per affected row with the right row images.

Model: `Model/Trigger.lean` (trigger lookup, UPDATE OF / WHEN gates, firing schedule of the
INSERT / UPDATE / DELETE executors, recursion guard as fuel).  The theorems are for every
configuration of triggers whose bodies are audit INSERTs (`AuditOnly`), every table state,
every statement, every WHEN clause, every CHECK of the audit table and every positive depth
limit; the recursion theorems are about bodies that run DML on the table itself.
-/
namespace VibeProof.C34
open VibeProof VibeProof.Trigger

/-- a top-level statement under the depth limit of the source (`MAX_TRIGGER_RECURSION_DEPTH`) -/
def run (cfg : Cfg) (st : St) (s : Stmt) : St × Out :=
  exec cfg VibeProof.Generated.maxTriggerRecursionDepth true st s

theorem limit_pos : ∃ n, VibeProof.Generated.maxTriggerRecursionDepth = n + 1 :=
  Nat.exists_eq_succ_of_ne_zero (by decide)

/-! ## the schedule of a successful statement -/

/-- rows an UPDATE writes: position, OLD image, NEW image -/
def updPlan (sel : Row → Bool) (f : Row → Row) (rows : List Row) : List (Nat × Row × Row) :=
  (selectIdx sel rows 0).map (fun p => (p.1, p.2, f p.2))

/-- rows a DELETE removes: position and OLD image -/
def delPlan (sel : Option (Row → Bool)) (rows : List Row) : List (Nat × Row) :=
  selectIdx (selPred sel) rows 0

/-- the audit entries of a successful UPDATE, in order -/
def updSchedule (cfg : Cfg) (ups : List (Nat × Row × Row)) : List Entry :=
  stmtEntries (findTriggers cfg tblT .before (.update none)) ++
  ups.flatMap (fun u =>
    rowEntries (findTriggers cfg tblT .before (.update none)) (some u.2.1) (some u.2.2)) ++
  ups.flatMap (fun u =>
    rowEntries (findTriggers cfg tblT .after (.update none)) (some u.2.1) (some u.2.2)) ++
  stmtEntries (findTriggers cfg tblT .after (.update none))

def delSchedule (cfg : Cfg) (ds : List (Nat × Row)) : List Entry :=
  stmtEntries (findTriggers cfg tblT .before .delete) ++
  ds.flatMap (fun d => rowEntries (findTriggers cfg tblT .before .delete) (some d.2) none) ++
  ds.flatMap (fun d => rowEntries (findTriggers cfg tblT .after .delete) (some d.2) none) ++
  stmtEntries (findTriggers cfg tblT .after .delete)

def insSchedule (cfg : Cfg) (rows : List Row) : List Entry :=
  stmtEntries (findTriggers cfg tblT .before .insert) ++
  rows.flatMap (insRowEntries cfg) ++
  stmtEntries (findTriggers cfg tblT .after .insert)

theorem find_nil_of_not_has (cfg : Cfg) (ev : Event) (tm : Timing)
    (h : hasTriggers cfg ev = false) : findTriggers cfg tblT tm ev = [] := by
  unfold hasTriggers at h
  unfold findTriggers
  have : triggersFor cfg tblT ev = [] := by simpa using h
  rw [this]; rfl

/-- **UPDATE**: before-statement triggers, the BEFORE row triggers of every affected row, the
writes, the AFTER row triggers of every affected row, after-statement triggers — each with the
row's pre-image as OLD and post-image as NEW. -/
theorem C34_update_schedule (cfg : Cfg) (n : Nat) (st st' : St) (sel : Row → Bool) (f : Row → Row)
    (k : Nat) (ha : AuditOnly cfg.trigs)
    (h : exec cfg (n + 1) true st (.update sel f) = (st', .ok k)) :
    k = (updPlan sel f st.rows).length ∧
      st'.rows = (applyUpdates (updPlan sel f st.rows) st.rows).1 ∧
      st'.log = st.log ++ updSchedule cfg (updPlan sel f st.rows) := by
  have hn := auditSpec_exec cfg n false
  simp only [exec, execWith, execUpdate, fireStmtIfTop, ↓reduceIte] at h
  have r1 := fireStmt_rows cfg _ hn ha .before (.update none) st
  cases h1 : fireStmt cfg (some (exec cfg n false)) .before (.update none) st with
  | mk s1 o1 =>
  rw [h1] at h r1
  cases o1 with
  | error e => simp at h
  | ok u =>
  cases u
  simp only at h r1
  have l1 := fireStmt_ok cfg _ hn ha .before (.update none) st s1 h1
  rw [r1] at h
  split at h
  · simp at h
  · have r2 := fireUpdLoop_rows cfg _ hn ha .before (updPlan sel f st.rows) s1
    cases h2 : fireUpdLoop cfg (some (exec cfg n false)) .before (updPlan sel f st.rows) s1 with
    | mk s2 o2 =>
    unfold updPlan at h2 r2
    rw [h2] at h r2
    cases o2 with
    | error e => simp at h
    | ok u =>
    cases u
    simp only at h r2
    have l2 := fireUpdLoop_ok cfg _ hn ha .before _ s1 s2 h2
    rw [r2, r1] at h
    cases h3 : applyUpdates (List.map (fun p => (p.1, p.2, f p.2)) (selectIdx sel st.rows 0)) st.rows with
    | mk rows' oe =>
    rw [h3] at h
    cases oe with
    | some e => simp at h
    | none =>
    simp only at h
    have r4 := fireUpdLoop_rows cfg _ hn ha .after (updPlan sel f st.rows) { s2 with rows := rows' }
    cases h4 : fireUpdLoop cfg (some (exec cfg n false)) .after (updPlan sel f st.rows)
        { s2 with rows := rows' } with
    | mk s4 o4 =>
    unfold updPlan at h4 r4
    rw [h4] at h r4
    cases o4 with
    | error e => simp at h
    | ok u =>
    cases u
    simp only at h r4
    have l4 := fireUpdLoop_ok cfg _ hn ha .after _ _ s4 h4
    have r5 := fireStmt_rows cfg _ hn ha .after (.update none) s4
    cases h5 : fireStmt cfg (some (exec cfg n false)) .after (.update none) s4 with
    | mk s5 o5 =>
    rw [h5] at h r5
    cases o5 with
    | error e => simp at h
    | ok u =>
    cases u
    simp only at h r5
    have l5 := fireStmt_ok cfg _ hn ha .after (.update none) s4 s5 h5
    simp only [Prod.mk.injEq, Out.ok.injEq] at h
    obtain ⟨hs, hk⟩ := h
    subst hs
    refine ⟨by simp [updPlan, ← hk], ?_, ?_⟩
    · rw [r5, r4]; simp [updPlan, h3]
    · rw [l5, l4]; simp only at l2 ⊢
      rw [l2, l1]; simp [updSchedule, updPlan, List.append_assoc]

/-- **DELETE** (with WHERE, or on a table with DELETE triggers): before-statement triggers, the
BEFORE row triggers of every selected row, the removal, the AFTER row triggers of every selected
row, after-statement triggers; OLD is the row as it was, NEW is not available. -/
theorem C34_delete_schedule (cfg : Cfg) (n : Nat) (st st' : St) (sel : Option (Row → Bool))
    (k : Nat) (ha : AuditOnly cfg.trigs)
    (h : exec cfg (n + 1) true st (.delete sel) = (st', .ok k)) :
    st'.rows = (if sel.isNone && !hasTriggers cfg .delete then []
        else removeIdx ((delPlan sel st.rows).map (·.1)) st.rows 0) ∧
      k = st.rows.length - st'.rows.length ∧
      st'.log = st.log ++ delSchedule cfg (delPlan sel st.rows) := by
  have hn := auditSpec_exec cfg n false
  simp only [exec, execWith, execDelete, fireStmtIfTop, ↓reduceIte] at h
  split at h
  · -- truncate fast path: no DELETE trigger exists, the schedule is empty
    rename_i hfast
    simp only [Prod.mk.injEq, Out.ok.injEq] at h
    obtain ⟨hs, hk⟩ := h
    subst hs
    have hno : hasTriggers cfg .delete = false := by
      simp only [Bool.and_eq_true, Bool.not_eq_true'] at hfast; exact hfast.2
    simp [hfast, delSchedule, find_nil_of_not_has cfg .delete _ hno, stmtEntries, rowEntries, ← hk]
  · rename_i hfast
    have r1 := fireStmt_rows cfg _ hn ha .before .delete st
    cases h1 : fireStmt cfg (some (exec cfg n false)) .before .delete st with
    | mk s1 o1 =>
    rw [h1] at h r1
    cases o1 with
    | error e => simp at h
    | ok u =>
    cases u
    simp only at h r1
    have l1 := fireStmt_ok cfg _ hn ha .before .delete st s1 h1
    have r2 := fireDelLoop_rows cfg _ hn ha .before (delPlan sel st.rows) s1
    cases h2 : fireDelLoop cfg (some (exec cfg n false)) .before (delPlan sel st.rows) s1 with
    | mk s2 o2 =>
    unfold delPlan at h2 r2
    rw [h2] at h r2
    cases o2 with
    | error e => simp at h
    | ok u =>
    cases u
    simp only at h r2
    have l2 := fireDelLoop_ok cfg _ hn ha .before _ s1 s2 h2
    rw [r2, r1] at h
    have r4 := fireDelLoop_rows cfg _ hn ha .after (delPlan sel st.rows)
      { s2 with rows := removeIdx ((delPlan sel st.rows).map (·.1)) st.rows 0 }
    cases h4 : fireDelLoop cfg (some (exec cfg n false)) .after (delPlan sel st.rows)
        { s2 with rows := removeIdx ((delPlan sel st.rows).map (·.1)) st.rows 0 } with
    | mk s4 o4 =>
    unfold delPlan at h4 r4
    rw [h4] at h r4
    cases o4 with
    | error e => simp at h
    | ok u =>
    cases u
    simp only at h r4
    have l4 := fireDelLoop_ok cfg _ hn ha .after _ _ s4 h4
    have r5 := fireStmt_rows cfg _ hn ha .after .delete s4
    cases h5 : fireStmt cfg (some (exec cfg n false)) .after .delete s4 with
    | mk s5 o5 =>
    rw [h5] at h r5
    cases o5 with
    | error e => simp at h
    | ok u =>
    cases u
    simp only at h r5
    have l5 := fireStmt_ok cfg _ hn ha .after .delete s4 s5 h5
    simp only [Prod.mk.injEq, Out.ok.injEq] at h
    obtain ⟨hs, hk⟩ := h
    subst hs
    have hrows : s5.rows = removeIdx ((delPlan sel st.rows).map (·.1)) st.rows 0 := by
      rw [r5, r4]; rfl
    refine ⟨?_, ?_, ?_⟩
    · rw [hrows]; simp [hfast]
    · rw [hrows, ← hk]; rfl
    · rw [l5, l4]; simp only at l2 ⊢
      rw [l2, l1]; simp [delSchedule, delPlan, List.append_assoc]

/-- **INSERT**: before-statement triggers, then per row its BEFORE row triggers, the insert and
its AFTER row triggers, then after-statement triggers; NEW is the inserted row, OLD is not
available.  (A multi-row INSERT into a table without INSERT triggers takes the batch path: the
same equation holds with an empty schedule.) -/
theorem C34_insert_schedule (cfg : Cfg) (n : Nat) (st st' : St) (rows : List Row)
    (k : Nat) (ha : AuditOnly cfg.trigs)
    (h : exec cfg (n + 1) true st (.insert rows) = (st', .ok k)) :
    k = rows.length ∧ st'.rows = st.rows ++ rows ∧
      st'.log = st.log ++ insSchedule cfg rows := by
  have hn := auditSpec_exec cfg n false
  simp only [exec, execWith, execInsert, fireStmtIfTop, ↓reduceIte] at h
  split at h
  · simp at h
  · have r1 := fireStmt_rows cfg _ hn ha .before .insert st
    cases h1 : fireStmt cfg (some (exec cfg n false)) .before .insert st with
    | mk s1 o1 =>
    rw [h1] at h r1
    cases o1 with
    | error e => simp at h
    | ok u =>
    cases u
    simp only at h r1
    have l1 := fireStmt_ok cfg _ hn ha .before .insert st s1 h1
    -- the row phase, batch or loop
    have hmid : ∀ (s2 : St) (m : Nat),
        (if (!hasTriggers cfg .insert && decide (rows.length > 1)) = true then
            (({ s1 with rows := s1.rows ++ rows } : St), Out.ok rows.length)
          else insertLoop cfg (some (exec cfg n false)) rows s1 0) = (s2, .ok m) →
        m = rows.length ∧ s2.rows = st.rows ++ rows ∧
          s2.log = s1.log ++ rows.flatMap (insRowEntries cfg) := by
      intro s2 m hm
      split at hm
      · rename_i hb
        have hno : hasTriggers cfg .insert = false := by
          simp only [Bool.and_eq_true, Bool.not_eq_true'] at hb; exact hb.1
        simp only [Prod.mk.injEq, Out.ok.injEq] at hm
        obtain ⟨hs, hm⟩ := hm
        subst hs
        refine ⟨hm.symm, by simp [r1], ?_⟩
        simp [insRowEntries, find_nil_of_not_has cfg .insert _ hno, rowEntries]
      · obtain ⟨a, b, c⟩ := insertLoop_ok cfg _ hn ha rows s1 s2 0 m hm
        exact ⟨by omega, by rw [b, r1], c⟩
    cases h2 : (if (!hasTriggers cfg .insert && decide (rows.length > 1)) = true then
            (({ s1 with rows := s1.rows ++ rows } : St), Out.ok rows.length)
          else insertLoop cfg (some (exec cfg n false)) rows s1 0) with
    | mk s2 o2 =>
    rw [h2] at h
    cases o2 with
    | err e => simp at h
    | ok m =>
    simp only at h
    obtain ⟨hm, r2, l2⟩ := hmid s2 m h2
    have r5 := fireStmt_rows cfg _ hn ha .after .insert s2
    cases h5 : fireStmt cfg (some (exec cfg n false)) .after .insert s2 with
    | mk s5 o5 =>
    rw [h5] at h r5
    cases o5 with
    | error e => simp at h
    | ok u =>
    cases u
    simp only at h r5
    have l5 := fireStmt_ok cfg _ hn ha .after .insert s2 s5 h5
    simp only [Prod.mk.injEq, Out.ok.injEq] at h
    obtain ⟨hs, hk⟩ := h
    subst hs
    refine ⟨by omega, by rw [r5, r2], ?_⟩
    rw [l5, l2, l1]; simp [insSchedule, List.append_assoc]

/-! ## the log restricted to one trigger -/

/-- the configuration with only the triggers of id `k` -/
def restrict (cfg : Cfg) (k : Nat) : Cfg := { cfg with trigs := cfg.trigs.filter (fun t => t.tid == k) }

theorem filter_flatMap' {α β : Type} (l : List α) (g : α → List β) (p : β → Bool) :
    (l.flatMap g).filter p = l.flatMap (fun x => (g x).filter p) := by
  induction l with
  | nil => rfl
  | cons a l ih => simp [List.flatMap_cons, List.filter_append, ih]

theorem bodyEntries_filter (t : Trig) (old new : Option Row) (k : Nat) :
    (bodyEntries t old new).filter (fun e => e.tid == k) =
      if t.tid == k then bodyEntries t old new else [] := by
  have hall : ∀ e ∈ bodyEntries t old new, e.tid = t.tid := by
    intro e he
    simp only [bodyEntries, List.mem_filterMap] at he
    obtain ⟨a, _, ha⟩ := he
    cases a with
    | audit uo un => simp [auditEntry] at ha; rw [← ha]
    | nested mk => simp [auditEntry] at ha
  by_cases hk : (t.tid == k) = true
  · rw [if_pos hk]
    apply List.filter_eq_self.mpr
    intro e he; rw [hall e he]; exact hk
  · rw [if_neg hk]
    apply List.filter_eq_nil_iff.mpr
    intro e he; rw [hall e he]; exact hk

theorem rowEntries_filter (ts : List Trig) (old new : Option Row) (k : Nat) :
    (rowEntries ts old new).filter (fun e => e.tid == k) =
      rowEntries (ts.filter (fun t => t.tid == k)) old new := by
  induction ts with
  | nil => rfl
  | cons t ts ih =>
    have h1 : rowEntries (t :: ts) old new =
        (if rowFires t old new then bodyEntries t old new else []) ++ rowEntries ts old new := by
      simp [rowEntries]
    rw [h1, List.filter_append, ih, List.filter_cons]
    by_cases hk : (t.tid == k) = true
    · rw [if_pos hk]
      have h2 : rowEntries (t :: ts.filter (fun t => t.tid == k)) old new =
          (if rowFires t old new then bodyEntries t old new else []) ++
            rowEntries (ts.filter (fun t => t.tid == k)) old new := by
        simp [rowEntries]
      rw [h2]
      by_cases hf : rowFires t old new = true
      · simp only [hf, if_true]; rw [bodyEntries_filter, if_pos hk]
      · simp [hf]
    · rw [if_neg hk]
      by_cases hf : rowFires t old new = true
      · simp only [hf, if_true]; rw [bodyEntries_filter, if_neg hk]; simp
      · simp [hf]

theorem stmtEntries_filter (ts : List Trig) (k : Nat) :
    (stmtEntries ts).filter (fun e => e.tid == k) =
      stmtEntries (ts.filter (fun t => t.tid == k)) := by
  induction ts with
  | nil => rfl
  | cons t ts ih =>
    have h1 : stmtEntries (t :: ts) =
        (if t.gran == .stmt && whenPasses t none none then bodyEntries t none none else []) ++
          stmtEntries ts := by
      simp [stmtEntries]
    rw [h1, List.filter_append, ih, List.filter_cons]
    by_cases hk : (t.tid == k) = true
    · rw [if_pos hk]
      have h2 : stmtEntries (t :: ts.filter (fun t => t.tid == k)) =
          (if t.gran == .stmt && whenPasses t none none then bodyEntries t none none else []) ++
            stmtEntries (ts.filter (fun t => t.tid == k)) := by
        simp [stmtEntries]
      rw [h2]
      by_cases hf : (t.gran == .stmt && whenPasses t none none) = true
      · simp only [hf, if_true]; rw [bodyEntries_filter, if_pos hk]
      · simp [hf]
    · rw [if_neg hk]
      by_cases hf : (t.gran == .stmt && whenPasses t none none) = true
      · simp only [hf, if_true]; rw [bodyEntries_filter, if_neg hk]; simp
      · simp [hf]

theorem find_restrict (cfg : Cfg) (k : Nat) (tm : Timing) (ev : Event) :
    (findTriggers cfg tblT tm ev).filter (fun t => t.tid == k) =
      findTriggers (restrict cfg k) tblT tm ev := by
  simp only [findTriggers, triggersFor, restrict, List.filter_filter]
  congr 1
  funext t
  cases (t.tid == k) <;> simp

/-- **independence**: the entries of trigger id `k` in the schedule of a statement are the
schedule of the configuration that contains only the triggers of id `k` -/
theorem updSchedule_filter (cfg : Cfg) (k : Nat) (ups : List (Nat × Row × Row)) :
    (updSchedule cfg ups).filter (fun e => e.tid == k) = updSchedule (restrict cfg k) ups := by
  simp only [updSchedule, List.filter_append, filter_flatMap', rowEntries_filter,
    stmtEntries_filter, find_restrict]

theorem delSchedule_filter (cfg : Cfg) (k : Nat) (ds : List (Nat × Row)) :
    (delSchedule cfg ds).filter (fun e => e.tid == k) = delSchedule (restrict cfg k) ds := by
  simp only [delSchedule, List.filter_append, filter_flatMap', rowEntries_filter,
    stmtEntries_filter, find_restrict]

theorem insSchedule_filter (cfg : Cfg) (k : Nat) (rows : List Row) :
    (insSchedule cfg rows).filter (fun e => e.tid == k) = insSchedule (restrict cfg k) rows := by
  simp only [insSchedule, insRowEntries, List.filter_append, filter_flatMap', rowEntries_filter,
    stmtEntries_filter, find_restrict]
  rfl

/-! ## headline: once per affected row, with the right images -/

/-- what the lookup finds in a configuration that holds exactly the trigger `T` -/
theorem find_single (cfg : Cfg) (T : Trig) (tm : Timing) (ev : Event) (h : cfg.trigs = [T]) :
    findTriggers cfg tblT tm ev =
      if (T.table == tblT && eventMatches T.event ev) && (T.timing == tm && T.enabled) then [T]
      else [] := by
  simp only [findTriggers, triggersFor, h, List.filter_cons, List.filter_nil]
  by_cases a : (T.table == tblT && eventMatches T.event ev) = true
  · by_cases b : (T.timing == tm && T.enabled) = true <;> simp [a, b]
  · simp [a]

/-- the entry a row trigger with body `INSERT INTO A VALUES (tid, OLD.*, NEW.*)` writes for one
affected row, if it fires for it -/
def firing (T : Trig) (old new : Option Row) : List Entry :=
  if rowFires T old new then bodyEntries T old new else []

theorem rowEntries_single (T : Trig) (old new : Option Row) :
    rowEntries [T] old new = firing T old new := by
  simp [rowEntries, firing]

theorem flatMap_empty {α β : Type} (l : List α) : l.flatMap (fun _ => ([] : List β)) = [] := by
  induction l with
  | nil => rfl
  | cons a l ih => simp [List.flatMap_cons, ih]

/-- **UPDATE, row trigger**: the audit log restricted to an enabled `BEFORE`/`AFTER UPDATE [OF …]
FOR EACH ROW` trigger `T` (the only trigger with its id) consists of exactly one firing per
affected row that passes `UPDATE OF` and `WHEN`, in row order, with OLD = the row before and
NEW = the row the statement writes — nothing for rows not affected, nothing at all for a
statement that affects no row. -/
theorem C34_update_row_trigger_once_per_row (cfg : Cfg) (n : Nat) (st st' : St)
    (sel : Row → Bool) (f : Row → Row) (k : Nat) (ha : AuditOnly cfg.trigs) (T : Trig)
    (hT : cfg.trigs.filter (fun t => t.tid == T.tid) = [T])
    (htab : T.table = tblT) (hen : T.enabled = true) (hg : T.gran = .row)
    (htm : T.timing = .before ∨ T.timing = .after) (hev : ∃ c, T.event = .update c)
    (h : exec cfg (n + 1) true st (.update sel f) = (st', .ok k)) :
    (st'.log.drop st.log.length).filter (fun e => e.tid == T.tid) =
      (updPlan sel f st.rows).flatMap (fun u => firing T (some u.2.1) (some u.2.2)) := by
  obtain ⟨_, _, hl⟩ := C34_update_schedule cfg n st st' sel f k ha h
  obtain ⟨c, hc⟩ := hev
  rw [hl, List.drop_left, updSchedule_filter]
  have hr : (restrict cfg T.tid).trigs = [T] := hT
  have hs : stmtEntries [T] = [] := by simp [stmtEntries, hg]
  rcases htm with htm | htm <;>
    simp [updSchedule, find_single _ T _ _ hr, htab, hen, htm, hc, eventMatches, hs,
      rowEntries_single, rowEntries, stmtEntries, hg, firing, flatMap_empty]

/-- **INSERT, row trigger**: one firing per inserted row, NEW = the inserted row, no OLD. -/
theorem C34_insert_row_trigger_once_per_row (cfg : Cfg) (n : Nat) (st st' : St)
    (rows : List Row) (k : Nat) (ha : AuditOnly cfg.trigs) (T : Trig)
    (hT : cfg.trigs.filter (fun t => t.tid == T.tid) = [T])
    (htab : T.table = tblT) (hen : T.enabled = true) (hg : T.gran = .row)
    (htm : T.timing = .before ∨ T.timing = .after) (hev : T.event = .insert)
    (h : exec cfg (n + 1) true st (.insert rows) = (st', .ok k)) :
    k = rows.length ∧
    (st'.log.drop st.log.length).filter (fun e => e.tid == T.tid) =
      rows.flatMap (fun r => firing T none (some r)) := by
  obtain ⟨hk, _, hl⟩ := C34_insert_schedule cfg n st st' rows k ha h
  refine ⟨hk, ?_⟩
  rw [hl, List.drop_left, insSchedule_filter]
  have hr : (restrict cfg T.tid).trigs = [T] := hT
  have hs : stmtEntries [T] = [] := by simp [stmtEntries, hg]
  rcases htm with htm | htm
  all_goals
    have hi : insRowEntries (restrict cfg T.tid) = fun r => firing T none (some r) := by
      funext r
      simp [insRowEntries, find_single _ T _ _ hr, htab, hen, htm, hev, eventMatches,
        rowEntries_single, rowEntries, firing]
    simp [insSchedule, hi, find_single _ T _ _ hr, htab, hen, htm, hev, eventMatches, hs,
      stmtEntries, hg]

/-- **DELETE, row trigger**: one firing per deleted row, OLD = the deleted row, no NEW. -/
theorem C34_delete_row_trigger_once_per_row (cfg : Cfg) (n : Nat) (st st' : St)
    (sel : Option (Row → Bool)) (k : Nat) (ha : AuditOnly cfg.trigs) (T : Trig)
    (hT : cfg.trigs.filter (fun t => t.tid == T.tid) = [T])
    (htab : T.table = tblT) (hen : T.enabled = true) (hg : T.gran = .row)
    (htm : T.timing = .before ∨ T.timing = .after) (hev : T.event = .delete)
    (h : exec cfg (n + 1) true st (.delete sel) = (st', .ok k)) :
    (st'.log.drop st.log.length).filter (fun e => e.tid == T.tid) =
      (delPlan sel st.rows).flatMap (fun d => firing T (some d.2) none) := by
  obtain ⟨_, _, hl⟩ := C34_delete_schedule cfg n st st' sel k ha h
  rw [hl, List.drop_left, delSchedule_filter]
  have hr : (restrict cfg T.tid).trigs = [T] := hT
  have hs : stmtEntries [T] = [] := by simp [stmtEntries, hg]
  rcases htm with htm | htm <;>
    simp [delSchedule, find_single _ T _ _ hr, htab, hen, htm, hev, eventMatches, hs,
      rowEntries_single, rowEntries, stmtEntries, hg, firing, flatMap_empty]

theorem rowEntries_nil (o n : Option Row) : rowEntries [] o n = [] := rfl
theorem stmtEntries_nil : stmtEntries [] = [] := rfl

/-! ## statement triggers: exactly once per statement, also when no row is affected -/
/- an enabled `FOR EACH STATEMENT` trigger without WHEN runs its body exactly once (with neither
OLD nor NEW) in every successful statement of its event, whatever the number of affected rows -/

theorem C34_update_statement_trigger_exactly_once (cfg : Cfg) (n : Nat) (st st' : St)
    (sel : Row → Bool) (f : Row → Row) (k : Nat) (ha : AuditOnly cfg.trigs) (T : Trig)
    (hT : cfg.trigs.filter (fun t => t.tid == T.tid) = [T])
    (htab : T.table = tblT) (hen : T.enabled = true) (hg : T.gran = .stmt) (hw : T.when = none)
    (htm : T.timing = .before ∨ T.timing = .after) (hev : ∃ c, T.event = .update c)
    (h : exec cfg (n + 1) true st (.update sel f) = (st', .ok k)) :
    (st'.log.drop st.log.length).filter (fun e => e.tid == T.tid) = bodyEntries T none none := by
  obtain ⟨_, _, hl⟩ := C34_update_schedule cfg n st st' sel f k ha h
  obtain ⟨c, hc⟩ := hev
  rw [hl, List.drop_left, updSchedule_filter]
  have hr : (restrict cfg T.tid).trigs = [T] := hT
  have hrow : ∀ o nw, rowEntries [T] o nw = [] := by intro o nw; simp [rowEntries, rowFires, hg]
  have hs : stmtEntries [T] = bodyEntries T none none := by simp [stmtEntries, hg, whenPasses, hw]
  rcases htm with htm | htm
  all_goals
    have hi : insRowEntries (restrict cfg T.tid) = fun _ => [] := by
      funext r
      simp [insRowEntries, find_single _ T _ _ hr, htab, hen, htm, hc, eventMatches, hrow,
        rowEntries_nil]
    simp [updSchedule, hi, find_single _ T _ _ hr, htab, hen, htm, hc, eventMatches, hs, hrow,
      stmtEntries_nil, rowEntries_nil, flatMap_empty]

theorem C34_insert_statement_trigger_exactly_once (cfg : Cfg) (n : Nat) (st st' : St)
    (rows : List Row) (k : Nat) (ha : AuditOnly cfg.trigs) (T : Trig)
    (hT : cfg.trigs.filter (fun t => t.tid == T.tid) = [T])
    (htab : T.table = tblT) (hen : T.enabled = true) (hg : T.gran = .stmt) (hw : T.when = none)
    (htm : T.timing = .before ∨ T.timing = .after) (hc : T.event = .insert)
    (h : exec cfg (n + 1) true st (.insert rows) = (st', .ok k)) :
    (st'.log.drop st.log.length).filter (fun e => e.tid == T.tid) = bodyEntries T none none := by
  obtain ⟨_, _, hl⟩ := C34_insert_schedule cfg n st st' rows k ha h
  
  rw [hl, List.drop_left, insSchedule_filter]
  have hr : (restrict cfg T.tid).trigs = [T] := hT
  have hrow : ∀ o nw, rowEntries [T] o nw = [] := by intro o nw; simp [rowEntries, rowFires, hg]
  have hs : stmtEntries [T] = bodyEntries T none none := by simp [stmtEntries, hg, whenPasses, hw]
  rcases htm with htm | htm
  all_goals
    have hi : insRowEntries (restrict cfg T.tid) = fun _ => [] := by
      funext r
      simp [insRowEntries, find_single _ T _ _ hr, htab, hen, htm, hc, eventMatches, hrow,
        rowEntries_nil]
    simp [insSchedule, hi, find_single _ T _ _ hr, htab, hen, htm, hc, eventMatches, hs, hrow,
      stmtEntries_nil, rowEntries_nil, flatMap_empty]

theorem C34_delete_statement_trigger_exactly_once (cfg : Cfg) (n : Nat) (st st' : St)
    (sel : Option (Row → Bool)) (k : Nat) (ha : AuditOnly cfg.trigs) (T : Trig)
    (hT : cfg.trigs.filter (fun t => t.tid == T.tid) = [T])
    (htab : T.table = tblT) (hen : T.enabled = true) (hg : T.gran = .stmt) (hw : T.when = none)
    (htm : T.timing = .before ∨ T.timing = .after) (hc : T.event = .delete)
    (h : exec cfg (n + 1) true st (.delete sel) = (st', .ok k)) :
    (st'.log.drop st.log.length).filter (fun e => e.tid == T.tid) = bodyEntries T none none := by
  obtain ⟨_, _, hl⟩ := C34_delete_schedule cfg n st st' sel k ha h
  
  rw [hl, List.drop_left, delSchedule_filter]
  have hr : (restrict cfg T.tid).trigs = [T] := hT
  have hrow : ∀ o nw, rowEntries [T] o nw = [] := by intro o nw; simp [rowEntries, rowFires, hg]
  have hs : stmtEntries [T] = bodyEntries T none none := by simp [stmtEntries, hg, whenPasses, hw]
  rcases htm with htm | htm
  all_goals
    have hi : insRowEntries (restrict cfg T.tid) = fun _ => [] := by
      funext r
      simp [insRowEntries, find_single _ T _ _ hr, htab, hen, htm, hc, eventMatches, hrow,
        rowEntries_nil]
    simp [delSchedule, hi, find_single _ T _ _ hr, htab, hen, htm, hc, eventMatches, hs, hrow,
      stmtEntries_nil, rowEntries_nil, flatMap_empty]

/-- the firing of a trigger whose body is `INSERT INTO A VALUES (tid, OLD.*, NEW.*)`, spelled out:
one entry carrying exactly the images handed to the trigger -/
theorem firing_audit (T : Trig) (old new : Option Row) (hb : T.body = [.audit true true]) :
    firing T old new = if rowFires T old new then [{ tid := T.tid, old := old, new := new }] else [] := by
  simp [firing, bodyEntries, hb, auditEntry]

/-- a statement that affects no row fires no row trigger -/
theorem C34_zero_rows_no_row_firing (T : Trig) (sel : Row → Bool) (f : Row → Row) (rows : List Row)
    (h : ∀ r ∈ rows, sel r = false) :
    (updPlan sel f rows).flatMap (fun u => firing T (some u.2.1) (some u.2.2)) = [] := by
  have : ∀ (rs : List Row) (i : Nat), (∀ r ∈ rs, sel r = false) → selectIdx sel rs i = [] := by
    intro rs
    induction rs with
    | nil => intro i _; rfl
    | cons r rs ih =>
      intro i hr
      simp [selectIdx, hr r (by simp), ih (i + 1) (fun r h => hr r (by simp [h]))]
  simp [updPlan, this rows 0 h]

/-! ## failure atomicity -/

/-- the property's last clause at full strength: a failing statement leaves the table as it was -/
def C34_fail_full : Prop :=
  ∀ (cfg : Cfg) (n : Nat) (st st' : St) (s : Stmt) (e : TErr), AuditOnly cfg.trigs →
    exec cfg (n + 1) true st s = (st', .err e) → st'.rows = st.rows

/-- the region where the code keeps the property: UPDATE / DELETE for which the lookup finds no
AFTER trigger (every trigger that can fail runs before the first write) -/
def NoAfter (cfg : Cfg) (ev : Event) : Prop := findTriggers cfg tblT .after ev = []

theorem selectIdx_lt (sel : Row → Bool) : ∀ (rs : List Row) (i : Nat),
    ∀ p ∈ selectIdx sel rs i, p.1 < i + rs.length := by
  intro rs
  induction rs with
  | nil => intro i p hp; simp [selectIdx] at hp
  | cons r rs ih =>
    intro i p hp
    unfold selectIdx at hp
    split at hp
    · rcases List.mem_cons.mp hp with h | h
      · subst h; simp
      · have := ih (i + 1) p h; simp at this ⊢; omega
    · have := ih (i + 1) p hp; simp at this ⊢; omega

theorem applyUpdates_none : ∀ (us : List (Nat × Row × Row)) (rows : List Row),
    (∀ u ∈ us, u.1 < rows.length) → (applyUpdates us rows).2 = none := by
  intro us
  induction us with
  | nil => intro rows _; rfl
  | cons u us ih =>
    intro rows h
    obtain ⟨i, o, nw⟩ := u
    have hi : i < rows.length := h (i, o, nw) (by simp)
    simp only [applyUpdates, hi, if_true]
    apply ih
    intro u hu
    simpa using h u (by simp [hu])

theorem fireUpdLoop_noTrig (cfg : Cfg) (nested : Nested) (tm : Timing)
    (h : findTriggers cfg tblT tm (.update none) = []) :
    ∀ (us : List (Nat × Row × Row)) (st : St),
      fireUpdLoop cfg (some nested) tm us st = (st, .ok ()) := by
  intro us
  induction us with
  | nil => intro st; rfl
  | cons u us ih =>
    intro st
    obtain ⟨i, o, nw⟩ := u
    simp [fireUpdLoop, fireRow, h, fireRowLoop, ih]

theorem fireDelLoop_noTrig (cfg : Cfg) (nested : Nested) (tm : Timing)
    (h : findTriggers cfg tblT tm .delete = []) :
    ∀ (ds : List (Nat × Row)) (st : St),
      fireDelLoop cfg (some nested) tm ds st = (st, .ok ()) := by
  intro ds
  induction ds with
  | nil => intro st; rfl
  | cons d ds ih =>
    intro st
    obtain ⟨i, o⟩ := d
    simp [fireDelLoop, fireRow, h, fireRowLoop, ih]

/-- **failing UPDATE, no AFTER trigger**: whatever fails (a BEFORE STATEMENT or BEFORE ROW trigger
at any row, a WHEN clause, the statement's own CHECK), no row of the table was written. -/
theorem C34_fail_rows_unchanged_update_partial (cfg : Cfg) (n : Nat) (st st' : St)
    (sel : Row → Bool) (f : Row → Row) (e : TErr) (ha : AuditOnly cfg.trigs)
    (hs : NoAfter cfg (.update none))
    (h : exec cfg (n + 1) true st (.update sel f) = (st', .err e)) : st'.rows = st.rows := by
  have hn := auditSpec_exec cfg n false
  simp only [exec, execWith, execUpdate, fireStmtIfTop, ↓reduceIte] at h
  have r1 := fireStmt_rows cfg _ hn ha .before (.update none) st
  cases h1 : fireStmt cfg (some (exec cfg n false)) .before (.update none) st with
  | mk s1 o1 =>
  rw [h1] at h r1
  cases o1 with
  | error e1 => simp at h; rw [← h.1]; exact r1
  | ok u =>
  cases u
  simp only at h r1
  split at h
  · simp at h; rw [← h.1]; exact r1
  · have r2 := fireUpdLoop_rows cfg _ hn ha .before (updPlan sel f s1.rows) s1
    cases h2 : fireUpdLoop cfg (some (exec cfg n false)) .before (updPlan sel f s1.rows) s1 with
    | mk s2 o2 =>
    unfold updPlan at h2 r2
    rw [h2] at h r2
    cases o2 with
    | error e2 => simp at h; rw [← h.1]; simp only at r2; rw [r2, r1]
    | ok u =>
    cases u
    simp only at h r2
    have hnone := applyUpdates_none
      (List.map (fun p => (p.1, p.2, f p.2)) (selectIdx sel s1.rows 0)) s2.rows (by
        intro u hu
        simp only [List.mem_map] at hu
        obtain ⟨p, hp, rfl⟩ := hu
        have := selectIdx_lt sel s1.rows 0 p hp
        rw [r2]; simpa using this)
    cases h3 : applyUpdates (List.map (fun p => (p.1, p.2, f p.2)) (selectIdx sel s1.rows 0)) s2.rows with
    | mk rows' oe =>
    rw [h3] at h hnone
    simp only at hnone
    subst hnone
    simp only at h
    have hs' : findTriggers cfg tblT .after (.update none) = [] := hs
    rw [fireUpdLoop_noTrig cfg _ .after hs'] at h
    simp [fireStmt, hs', fireStmtLoop] at h

/-- **failing DELETE, no AFTER trigger**: no row was removed. -/
theorem C34_fail_rows_unchanged_delete_partial (cfg : Cfg) (n : Nat) (st st' : St)
    (sel : Option (Row → Bool)) (e : TErr) (ha : AuditOnly cfg.trigs)
    (hs : NoAfter cfg .delete)
    (h : exec cfg (n + 1) true st (.delete sel) = (st', .err e)) : st'.rows = st.rows := by
  have hn := auditSpec_exec cfg n false
  simp only [exec, execWith, execDelete, fireStmtIfTop, ↓reduceIte] at h
  split at h
  · simp at h
  · have r1 := fireStmt_rows cfg _ hn ha .before .delete st
    cases h1 : fireStmt cfg (some (exec cfg n false)) .before .delete st with
    | mk s1 o1 =>
    rw [h1] at h r1
    cases o1 with
    | error e1 => simp at h; rw [← h.1]; exact r1
    | ok u =>
    cases u
    simp only at h r1
    have r2 := fireDelLoop_rows cfg _ hn ha .before (delPlan sel st.rows) s1
    cases h2 : fireDelLoop cfg (some (exec cfg n false)) .before (delPlan sel st.rows) s1 with
    | mk s2 o2 =>
    unfold delPlan at h2 r2
    rw [h2] at h r2
    cases o2 with
    | error e2 => simp at h; rw [← h.1]; simp only at r2; rw [r2, r1]
    | ok u =>
    cases u
    simp only at h
    have hs' : findTriggers cfg tblT .after .delete = [] := hs
    rw [fireDelLoop_noTrig cfg _ .after hs'] at h
    simp [fireStmt, hs', fireStmtLoop] at h

/-- **failing single-row INSERT without AFTER STATEMENT trigger**: a failing BEFORE trigger
leaves the table alone, and the row inserted before a failing AFTER ROW trigger is removed again -/
theorem C34_fail_rows_unchanged_insert_partial (cfg : Cfg) (n : Nat) (st st' : St)
    (r : Row) (e : TErr) (ha : AuditOnly cfg.trigs)
    (hs : ∀ t ∈ findTriggers cfg tblT .after .insert, t.gran = .row)
    (h : exec cfg (n + 1) true st (.insert [r]) = (st', .err e)) : st'.rows = st.rows := by
  have hn := auditSpec_exec cfg n false
  simp only [exec, execWith, execInsert, fireStmtIfTop, ↓reduceIte] at h
  split at h
  · simp at h; rw [← h.1]
  · have r1 := fireStmt_rows cfg _ hn ha .before .insert st
    cases h1 : fireStmt cfg (some (exec cfg n false)) .before .insert st with
    | mk s1 o1 =>
    rw [h1] at h r1
    cases o1 with
    | error e1 => simp at h; rw [← h.1]; exact r1
    | ok u =>
    cases u
    simp only [List.length_singleton, gt_iff_lt, Nat.lt_irrefl, decide_false, Bool.and_false,
      Bool.false_eq_true, if_false] at h r1
    cases h2 : insertLoop cfg (some (exec cfg n false)) [r] s1 0 with
    | mk s2 o2 =>
    rw [h2] at h
    cases o2 with
    | err e2 =>
      simp at h
      obtain ⟨done, hd, hrows⟩ := insertLoop_err_rows cfg _ hn ha [r] s1 s2 0 e2 h2
      have : done = [] := by cases done with
        | nil => rfl
        | cons a l => simp at hd
      rw [← h.1, hrows, this, r1]; simp
    | ok m =>
      simp only at h
      have hstmt : ∀ (ts : List Trig) (s : St), (∀ t ∈ ts, t.gran = .row) →
          fireStmtLoop (exec cfg n false) ts s = (s, .ok ()) := by
        intro ts
        induction ts with
        | nil => intro s _; rfl
        | cons t ts ih =>
          intro s hts
          have : (t.gran == Gran.stmt) = false := by rw [hts t (by simp)]; rfl
          simp [fireStmtLoop, this, ih s (fun t h => hts t (by simp [h]))]
      simp only [fireStmt, hstmt _ s2 hs] at h
      simp at h

/-- as coded the full statement is false: an AFTER ROW trigger failing on the second row of an
UPDATE leaves both rows written -/
def cexTrig : Trig :=
  { tid := 1, table := 0, timing := .after, event := .update none, gran := .row, enabled := true,
    when := none, body := [.audit true true] }

def cexCfg : Cfg :=
  { trigs := [cexTrig], bad := fun e => e.new == some [.int 2, .int 66], rowOk := fun _ => true }

def cexTrigIns : Trig :=
  { cexTrig with timing := .before, event := .insert, body := [.audit false true] }
def cexCfgIns : Cfg := { cexCfg with trigs := [cexTrigIns] }
def cexTrigB : Trig := { cexTrig with timing := .before }
def cexCfgB : Cfg := { cexCfg with trigs := [cexTrigB] }

theorem C34_fail_rows_update_counterexample : ¬ C34_fail_full := by
  intro h
  have := h cexCfg 15 ⟨[[.int 1, .int 10], [.int 2, .int 65]], []⟩
    ⟨[[.int 1, .int 11], [.int 2, .int 66]],
      [{ tid := 1, old := some [.int 1, .int 10], new := some [.int 1, .int 11] }]⟩
    (.update (fun _ => true) (fun r => match r with
      | [a, .int b] => [a, .int (b + 1)]
      | r => r)) .constraint
    (by intro t ht a ha
        simp [cexCfg, cexTrig] at ht; subst ht
        simp at ha; exact ⟨true, true, ha⟩)
    (by decide)
  revert this
  decide

/-- … and a multi-row INSERT whose BEFORE ROW trigger fails on the second row keeps the first -/
theorem C34_fail_rows_insert_counterexample :
    ∃ (cfg : Cfg) (st st' : St) (rows : List Row) (e : TErr), AuditOnly cfg.trigs ∧
      exec cfg 16 true st (.insert rows) = (st', .err e) ∧ st'.rows ≠ st.rows := by
  refine ⟨cexCfgIns,
    ⟨[], []⟩, ⟨[[.int 1, .int 10]], [{ tid := 1, old := none, new := some [.int 1, .int 10] }]⟩,
    [[.int 1, .int 10], [.int 2, .int 66]], .constraint, ?_, by decide, by decide⟩
  intro t ht a ha
  simp [cexCfgIns, cexCfg, cexTrigIns, cexTrig] at ht; subst ht
  simp at ha; exact ⟨false, true, ha⟩

/-- the whole state (table and audit log) is not preserved even when the table is: the audit rows
of the rows handled before the failing one stay (trigger bodies are never undone) -/
theorem C34_fail_state_counterexample :
    ∃ (cfg : Cfg) (st st' : St) (s : Stmt) (e : TErr), AuditOnly cfg.trigs ∧
      NoAfter cfg (.update none) ∧
      exec cfg 16 true st s = (st', .err e) ∧ st'.rows = st.rows ∧ st'.log ≠ st.log := by
  refine ⟨cexCfgB,
    ⟨[[.int 1, .int 10], [.int 2, .int 65]], []⟩,
    ⟨[[.int 1, .int 10], [.int 2, .int 65]],
      [{ tid := 1, old := some [.int 1, .int 10], new := some [.int 1, .int 11] }]⟩,
    .update (fun _ => true) (fun r => match r with
      | [a, .int b] => [a, .int (b + 1)]
      | r => r), .constraint, ?_, rfl, by decide, by decide, by decide⟩
  intro t ht a ha
  simp [cexCfgB, cexCfg, cexTrigB, cexTrig] at ht; subst ht
  simp at ha; exact ⟨true, true, ha⟩

/-! ## nested firing and the depth limit -/

/-- `RecursionGuard::new` at the limit: every firing call fails with the recursion error before
looking anything up and changes nothing (also for a table without triggers) -/
theorem C34_guard_exhausted (cfg : Cfg) (tm : Timing) (ev : Event) (old new : Option Row) (st : St) :
    fireRow cfg none tm ev old new st = (st, .error .recursion) ∧
      fireStmt cfg none tm ev st = (st, .error .recursion) := ⟨rfl, rfl⟩

/-- a statement run from a trigger body at the limit cannot write an audit row either -/
theorem C34_audit_at_limit (cfg : Cfg) (top : Bool) (st : St) (e : Entry) (h : cfg.bad e = false) :
    exec cfg 0 top st (.audit e) = (st, .err .recursion) := by
  rw [exec_audit_zero]; simp [h]

/-- runaway recursion: an AFTER INSERT row trigger that audits and inserts its NEW row again -/
def loopTrig : Trig :=
  { tid := 1, table := 0, timing := .after, event := .insert, gran := .row, enabled := true,
    when := none,
    body := [.audit false true, .nested (fun _ new => match new with
      | some r => .ok (.insert [r])
      | none => .error .pseudo)] }

def loopCfg : Cfg := { trigs := [loopTrig], bad := fun _ => false, rowOk := fun _ => true }

/-- … stops with the recursion error exactly at the limit of the source: every nested INSERT is
rolled back, and `limit - 1` audit rows were written on the way down (they stay) -/
theorem C34_runaway_recursion_stops_at_limit :
    (run loopCfg ⟨[], []⟩ (.insert [[.int 1]])).2 = .err .recursion ∧
    (run loopCfg ⟨[], []⟩ (.insert [[.int 1]])).1.rows = [] ∧
    (run loopCfg ⟨[], []⟩ (.insert [[.int 1]])).1.log.length + 1 =
      VibeProof.Generated.maxTriggerRecursionDepth := by decide

/-- more depth never hurts: the same statement under any smaller limit fails the same way -/
theorem C34_runaway_recursion_any_small_limit :
    ∀ n, n ≤ 20 → (exec loopCfg n true ⟨[], []⟩ (.insert [[.int 1]])).2 = .err .recursion := by
  decide

/-! ## non-vacuity -/

/-- a configuration with a BEFORE and an AFTER UPDATE OF row trigger with WHEN and a statement
trigger: the UPDATE succeeds, and the hypotheses of the theorems above hold for it -/
def exT1 : Trig :=
  { tid := 1, table := 0, timing := .after, event := .update (some [1]), gran := .row,
    enabled := true, when := some (.cmp .new 1 .gt 10), body := [.audit true true] }
def exT2 : Trig :=
  { tid := 2, table := 0, timing := .before, event := .update none, gran := .stmt,
    enabled := true, when := none, body := [.audit false false] }
def exCfg : Cfg := { trigs := [exT2, exT1], bad := fun _ => false, rowOk := fun _ => true }
def exStmt : Stmt := .update (fun r => r[0]? != some (.int 3)) (fun r => match r with
  | [a, .int b] => [a, .int (b + 5)]
  | r => r)
def exSt : St := ⟨[[.int 1, .int 4], [.int 2, .int 9], [.int 3, .int 30]], []⟩

example : exec exCfg 16 true exSt exStmt =
    (⟨[[.int 1, .int 9], [.int 2, .int 14], [.int 3, .int 30]],
      [⟨2, none, none⟩, ⟨1, some [.int 2, .int 9], some [.int 2, .int 14]⟩]⟩, .ok 2) := by decide

example : AuditOnly exCfg.trigs := by
  intro t ht a ha
  simp [exCfg] at ht
  rcases ht with rfl | rfl
  · simp [exT2] at ha; exact ⟨false, false, ha⟩
  · simp [exT1] at ha; exact ⟨true, true, ha⟩

example : exCfg.trigs.filter (fun t => t.tid == exT1.tid) = [exT1] := rfl
example : NoAfter cexCfgB (.update none) := rfl
example : ∀ t ∈ findTriggers cexCfgIns tblT .after .insert, t.gran = .row := by
  intro t ht; simp [findTriggers, triggersFor, cexCfgIns, cexCfg, cexTrigIns, cexTrig, tblT, eventMatches] at ht

/-! ## OLD and NEW are resolved by their tag -/

/-- **substitution lemma**: evaluating an expression in which every column reference that `ρ`
resolves has been replaced by its value gives, in any environment `ρ0`, the value of the
original expression in the environment that asks `ρ` first — for every expression -/
theorem C34_eval_subst_general (ρ ρ0 : Env) : ∀ e : TExpr,
    (e.subst ρ).evalWith ρ0 =
      e.evalWith (fun s c => match ρ s c with
        | .ok v => .ok v
        | .error _ => ρ0 s c) := by
  intro e
  induction e with
  | lit v => rfl
  | col s c =>
    simp only [TExpr.subst, TExpr.evalWith]
    cases h : ρ s c <;> simp [TExpr.evalWith]
  | bin op a b iha ihb => simp only [TExpr.subst, TExpr.evalWith, iha, ihb]
  | ite c t e ihc iht ihe => simp only [TExpr.subst, TExpr.evalWith, ihc, iht, ihe]
  | coalesce a b iha ihb => simp only [TExpr.subst, TExpr.evalWith, iha, ihb]

/-- the value of a trigger expression under (OLD, NEW) is the value of the expression with
`OLD.c` / `NEW.c` replaced by the respective row's value -/
theorem C34_eval_subst (ρ : Env) (e : TExpr) : (e.subst ρ).evalWith ρ = e.evalWith ρ := by
  rw [C34_eval_subst_general]
  congr 1
  funext s c
  cases ρ s c <;> rfl

/-- … and once every reference is resolved, the substituted expression no longer depends on any
environment at all -/
theorem C34_eval_subst_closed (ρ ρ0 : Env) (e : TExpr) (h : ∀ s c, ∃ v, ρ s c = .ok v) :
    (e.subst ρ).evalWith ρ0 = e.evalWith ρ := by
  rw [C34_eval_subst_general]
  congr 1
  funext s c
  obtain ⟨v, hv⟩ := h s c
  simp [hv]

/-- a resolver that ignores the OLD / NEW tag (both read the same image) -/
def tagBlind (ρ : Env) : Env := fun s c =>
  match s with
  | .base => ρ .base c
  | _ => ρ .old c

/-- … violates the lemma: `OLD.c <> NEW.c` on a row whose column changed from 1 to 2 -/
theorem C34_tag_blind_resolver_counterexample :
    ¬ ∀ (ρ : Env) (e : TExpr), e.evalWith (tagBlind ρ) = e.evalWith ρ := by
  intro h
  have := h (envOf (some [.int 1]) (some [.int 2]) none) (.bin .ne (.col .old 0) (.col .new 0))
  simp [TExpr.evalWith, tagBlind, envOf, fetch, tbinV] at this

/-- non-vacuity of the WHEN gate on such an expression: the trigger fires for the changed row
and not for the unchanged one -/
example : evalWhen (.expr (.bin .ne (.col .old 1) (.col .new 1))) (some [.int 1, .int 5])
    (some [.int 1, .int 6]) = .ok true := by rfl
example : evalWhen (.expr (.bin .ne (.col .old 1) (.col .new 1))) (some [.int 1, .int 5])
    (some [.int 1, .int 5]) = .ok false := by rfl

end VibeProof.C34
