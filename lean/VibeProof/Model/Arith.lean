import VibeProof.Model.Value
/-
C24 — integer arithmetic as coded in
`crates/vibesql-executor/src/evaluator/operators/arithmetic/{addition,subtraction,
multiplication,division,modulo}.rs`, `evaluator/expressions/operators.rs` (unary minus),
`evaluator/functions/numeric/basic.rs` (ABS, MOD), and the SUM accumulator of
`select/grouping/aggregates.rs` (`add_sql_values`), restricted to the NULL / INTEGER /
VARCHAR / BOOLEAN values of `Model/Value`.

The machine operation is modelled by what the code uses after the repair (commit 29978079):
`checked_add/sub/mul/div/neg/abs` = "compute in ℤ, then `if inRange64 r then ok else overflow`";
`checked_rem(..).unwrap_or(0)` = truncated remainder (always in range).
The coercion rules are those of `coerce_numeric_values`: NULL first, Integer×Integer fast path,
Boolean → 0/1, everything else a type mismatch.
-/
namespace VibeProof.Arith
open VibeProof

inductive AOp where
  | add | sub | mul
  /-- `DIV` (`Division::integer_divide`) -/
  | idiv
  /-- `MOD(x, y)` / `%` -/
  | imod
  deriving DecidableEq, Repr, Inhabited

inductive AErr where
  | overflow
  | typeMismatch
  | divZero
  deriving DecidableEq, Repr, Inhabited

inductive AExpr where
  | lit (v : Value)
  | bin (op : AOp) (a b : AExpr)
  | neg (a : AExpr)
  | abs (a : AExpr)
  deriving Repr, Inhabited

/-- the range check every `checked_*` operation performs on the exact result -/
def chk (r : Int) : Except AErr Value :=
  if Value.inRange64 r then .ok (.int r) else .error .overflow

/-- `boolean_to_i64(..).or_else(to_i64(..))` on the modelled value types -/
def toI64? : Value → Option Int
  | .int i => some i
  | .bool b => some (if b then 1 else 0)
  | _ => none

/-- exact (unbounded) result of an operator on two integers; `none` = NULL result,
    division by zero is an error for DIV and NULL for MOD, as coded -/
def exactOp (op : AOp) (x y : Int) : Except AErr (Option Int) :=
  match op with
  | .add => .ok (some (x + y))
  | .sub => .ok (some (x - y))
  | .mul => .ok (some (x * y))
  | .idiv => if y = 0 then .error .divZero else .ok (some (Int.tdiv x y))
  | .imod => if y = 0 then .ok none else .ok (some (Int.tmod x y))

/-- the operator on two machine integers: exact result, then the range check -/
def arithI (op : AOp) (x y : Int) : Except AErr Value :=
  match exactOp op x y with
  | .error e => .error e
  | .ok none => .ok .null
  | .ok (some r) =>
    -- `checked_rem(..).unwrap_or(0)` has no error outcome (`i64::MIN % -1` = 0 = `tmod`)
    if op = .imod then .ok (.int r) else chk r

/-- `ArithmeticOps::{add,subtract,multiply,integer_divide,modulo}` -/
def evalBin (op : AOp) (a b : Value) : Except AErr Value :=
  match a, b with
  | .null, _ => .ok .null
  | _, .null => .ok .null
  | a, b =>
    match toI64? a, toI64? b with
    | some x, some y => arithI op x y
    | _, _ => .error .typeMismatch

/-- `eval_unary_op(Minus, v)` -/
def evalNeg : Value → Except AErr Value
  | .null => .ok .null
  | .int i => chk (-i)
  | _ => .error .typeMismatch

/-- `abs(&[v])` -/
def evalAbs : Value → Except AErr Value
  | .null => .ok .null
  | .int i => chk (Int.ofNat i.natAbs)
  | _ => .error .typeMismatch

def eval : AExpr → Except AErr Value
  | .lit v => .ok v
  | .bin op a b => do
      let x ← eval a
      let y ← eval b
      evalBin op x y
  | .neg a => do evalNeg (← eval a)
  | .abs a => do evalAbs (← eval a)

/-! ### the exact integer semantics `⟦e⟧ℤ`: same typing rules, no machine range -/

/-- value of the ideal evaluator: `none` = NULL, `some (.inl i)` = integer, others passed through -/
inductive IVal where
  | null
  | int (i : Int)
  | other (v : Value)
  deriving Repr, Inhabited

def IVal.ofValue : Value → IVal
  | .null => .null
  | .int i => .int i
  | v => .other v

def iToI64? : IVal → Option Int
  | .int i => some i
  | .other (.bool b) => some (if b then 1 else 0)
  | _ => none

def idealBin (op : AOp) (a b : IVal) : Except AErr IVal :=
  match a, b with
  | .null, _ => .ok .null
  | _, .null => .ok .null
  | a, b =>
    match iToI64? a, iToI64? b with
    | some x, some y =>
      match exactOp op x y with
      | .error e => .error e
      | .ok none => .ok .null
      | .ok (some r) => .ok (.int r)
    | _, _ => .error .typeMismatch

def idealNeg : IVal → Except AErr IVal
  | .null => .ok .null
  | .int i => .ok (.int (-i))
  | _ => .error .typeMismatch

def idealAbs : IVal → Except AErr IVal
  | .null => .ok .null
  | .int i => .ok (.int (Int.ofNat i.natAbs))
  | _ => .error .typeMismatch

/-- `⟦e⟧ℤ` -/
def ideal : AExpr → Except AErr IVal
  | .lit v => .ok (IVal.ofValue v)
  | .bin op a b => do
      let x ← ideal a
      let y ← ideal b
      idealBin op x y
  | .neg a => do idealNeg (← ideal a)
  | .abs a => do idealAbs (← ideal a)

/-- every integer literal of the expression is a machine integer -/
def litsInRange : AExpr → Prop
  | .lit (.int i) => Value.inRange64 i = true
  | .lit _ => True
  | .bin _ a b => litsInRange a ∧ litsInRange b
  | .neg a => litsInRange a
  | .abs a => litsInRange a

/-! ### SUM accumulator of the row-at-a-time aggregate path (`AggregateAccumulator::Sum`) -/

/-- `add_sql_values`: the `+` operator, a failing addition becomes NULL -/
def addSql (a b : Value) : Value :=
  match evalBin .add a b with
  | .ok v => v
  | .error _ => .null

/-- `is_numeric_value` on the modelled types -/
def isNumeric : Value → Bool
  | .int _ => true
  | _ => false

/-- `accumulate` over the input, state = (sum, count) -/
def sumStep (st : Value × Nat) (v : Value) : Value × Nat :=
  if v.isNull || !isNumeric v then st else (addSql st.1 v, st.2 + 1)

def sumFold (vs : List Value) : Value × Nat := vs.foldl sumStep (.int 0, 0)

/-- `finalize` -/
def sumAgg (vs : List Value) : Value :=
  let st := sumFold vs
  if st.2 = 0 then .null else st.1

/-- the exact sum of the integer entries -/
def exactSum : List Value → Int
  | [] => 0
  | .int i :: vs => i + exactSum vs
  | _ :: vs => exactSum vs

/-! ### LIMIT / OFFSET (`select/helpers.rs::apply_limit_offset`), all in `usize` = `Nat` here;
the two subtractions are the places where an underflow would panic -/

inductive Slice (α : Type) where
  | rows (l : List α)
  | panicUnderflow
  deriving Repr

def limitOffset {α : Type} (rows : List α) (limit offset : Option Nat) : Slice α :=
  let start := match offset with      -- `offset.unwrap_or(0)`
    | some o => o
    | none => 0
  if start ≥ rows.length then .rows []
  else
    if rows.length < start then .panicUnderflow   -- `rows.len() - start` would underflow
    else
      let maxTake := rows.length - start
      let take := match limit with
        | some l => min l maxTake
        | none => maxTake
      .rows ((rows.drop start).take take)

/-! ### SUBSTRING (`functions/string/substring.rs`) over characters, after repair c74e4239 -/

def substringStart (start : Int) : Nat := if start > 0 then (start - 1).toNat else 0

def substring (s : List Char) (start : Int) (len : Option Int) : List Char :=
  let i := substringStart start
  match len with
  | some l => if l ≤ 0 then [] else (s.drop i).take l.toNat
  | none => s.drop i

/-! ### assignment coercion (`update/value_updater.rs::coerce_assigned_value`, and the same range rule
of `insert/validation.rs::coerce_value` for exact integers): an exact-integer value is brought to the
column's integer type with `try_from` — the value itself when it is in the type's range, otherwise no
conversion (the statement then fails in the storage-level type check and changes nothing). -/

inductive ColTy where
  | smallint | integer | bigint | unsigned
  deriving DecidableEq, Repr, Inhabited

/-- range of the Rust type behind the column type (`i16`, `i64`, `i64`, `u64`) -/
def tyMin : ColTy → Int
  | .smallint => -(2 ^ 15)
  | .integer => -(2 ^ 63)
  | .bigint => -(2 ^ 63)
  | .unsigned => 0

def tyMax : ColTy → Int
  | .smallint => 2 ^ 15 - 1
  | .integer => 2 ^ 63 - 1
  | .bigint => 2 ^ 63 - 1
  | .unsigned => 2 ^ 64 - 1

def inRangeTy (ty : ColTy) (i : Int) : Bool := decide (tyMin ty ≤ i) && decide (i ≤ tyMax ty)

/-- `T::try_from(i).ok()` -/
def coerceTo (ty : ColTy) (i : Int) : Option Int := if inRangeTy ty i then some i else none

end VibeProof.Arith
