/-
C22 — model of the temporal text formats of crates/vibesql-types/src/temporal/{date,time,
timestamp,interval}.rs (`FromStr`, `Display`, `Date::new`, `Time::new`, `Interval::new`).

Strings are UTF-8 byte lists because the Rust code slices by byte offsets.  Operations that
can panic in Rust are outcomes here: `idx` (`parts[i]`) panics out of range, `first`
(`chars().next().unwrap()`) panics on the empty string.  `getTo`/`getFrom` model
`str::get(..n)` / `str::get(n..)`, which return `None` off a char boundary (being on a char
boundary is a property of the single byte at that offset).  Splitting at the position returned
by `find`/`rfind` of an ASCII character is always on a boundary, so it is modelled as list
splitting.  Integer products are the saturating ones the code uses.
-/
namespace VibeProof.Temporal

abbrev Bytes := List UInt8

inductive Fail where
  | err
  | panic
  deriving DecidableEq, Repr, Inhabited

abbrev R := Except Fail

/-! ## bytes and characters -/

def isDigit (b : UInt8) : Bool := 48 ≤ b && b ≤ 57

/-- UTF-8 continuation byte `10xxxxxx` -/
def isCont (b : UInt8) : Bool := 128 ≤ b && b < 192

/-- number of characters of a (valid UTF-8) string -/
def charCount (s : Bytes) : Nat := (s.filter (fun b => !isCont b)).length

/-- first byte of the `n`-th character (`chars().nth(n)` is an ASCII char `c` iff this is `c`) -/
def nthLead (n : Nat) (s : Bytes) : Option UInt8 := (s.filter (fun b => !isCont b))[n]?

/-- `str::is_char_boundary` -/
def isBoundary (s : Bytes) (n : Nat) : Bool :=
  n == 0 || n == s.length ||
    (match s[n]? with
     | some b => !isCont b
     | none => false)

/-- `s.get(..n)` -/
def getTo (n : Nat) (s : Bytes) : Option Bytes :=
  if n ≤ s.length && isBoundary s n then some (s.take n) else none

/-- `s.get(n..)` -/
def getFrom (n : Nat) (s : Bytes) : Option Bytes :=
  if n ≤ s.length && isBoundary s n then some (s.drop n) else none

/-- `v[i]` -/
def idx {α : Type} (l : List α) (i : Nat) : R α :=
  match l[i]? with
  | some x => .ok x
  | none => .error .panic

/-- `s.split(c)` for an ASCII `c`: never empty -/
def splitOn (c : UInt8) : Bytes → List Bytes
  | [] => [[]]
  | b :: rest =>
    if b = c then [] :: splitOn c rest
    else
      match splitOn c rest with
      | [] => [[b]]
      | p :: ps => (b :: p) :: ps

/-- `s.find(c)` for an ASCII `c`, returned as `(&s[..pos], &s[pos+1..])` -/
def splitFirst (c : UInt8) : Bytes → Option (Bytes × Bytes)
  | [] => none
  | b :: rest =>
    if b = c then some ([], rest)
    else (splitFirst c rest).map (fun p => (b :: p.1, p.2))

/-- split at the last byte satisfying `p` (ASCII): `(&s[..pos], s[pos], &s[pos+1..])` -/
def splitLastP (p : UInt8 → Bool) (s : Bytes) : Option (Bytes × UInt8 × Bytes) :=
  let rec go : Bytes → Option (Bytes × UInt8 × Bytes)
    | [] => none
    | b :: rest =>
      match go rest with
      | some (pre, c, post) => some (b :: pre, c, post)
      | none => if p b then some ([], b, rest) else none
  go s

/-- `s.rsplitn(3, c)` followed by `reverse()`: the last two separators split, the rest stays -/
def rsplit3 (c : UInt8) (s : Bytes) : List Bytes :=
  match splitLastP (· == c) s with
  | none => [s]
  | some (a, _, d) =>
    match splitLastP (· == c) a with
    | none => [a, d]
    | some (y, _, m) => [y, m, d]

/-! ## Unicode `White_Space` on UTF-8 -/

/-- byte length of the white-space character at the head of the string, 0 if there is none
    (U+0009–000D, 0020, 0085, 00A0, 1680, 2000–200A, 2028, 2029, 202F, 205F, 3000) -/
def wsLen : Bytes → Nat
  | 0xC2 :: 0x85 :: _ => 2
  | 0xC2 :: 0xA0 :: _ => 2
  | 0xE1 :: 0x9A :: 0x80 :: _ => 3
  | 0xE2 :: 0x80 :: b :: _ =>
    if (0x80 ≤ b && b ≤ 0x8A) || b == 0xA8 || b == 0xA9 || b == 0xAF then 3 else 0
  | 0xE2 :: 0x81 :: 0x9F :: _ => 3
  | 0xE3 :: 0x80 :: 0x80 :: _ => 3
  | b :: _ => if b == 32 || (9 ≤ b && b ≤ 13) then 1 else 0
  | [] => 0

/-- same, for the character at the END of the string, given the reversed string -/
def wsLenRev : Bytes → Nat
  | 0x85 :: 0xC2 :: _ => 2
  | 0xA0 :: 0xC2 :: _ => 2
  | 0x80 :: 0x9A :: 0xE1 :: _ => 3
  | 0x9F :: 0x81 :: 0xE2 :: _ => 3
  | 0x80 :: 0x80 :: 0xE3 :: _ => 3
  | b :: 0x80 :: 0xE2 :: _ =>
    if (0x80 ≤ b && b ≤ 0x8A) || b == 0xA8 || b == 0xA9 || b == 0xAF then 3
    else if b == 32 || (9 ≤ b && b ≤ 13) then 1 else 0
  | b :: _ => if b == 32 || (9 ≤ b && b ≤ 13) then 1 else 0
  | [] => 0

def trimStartFuel : Nat → Bytes → Bytes
  | 0, s => s
  | fuel + 1, s => if wsLen s = 0 then s else trimStartFuel fuel (s.drop (wsLen s))

def trimEndRevFuel : Nat → Bytes → Bytes
  | 0, s => s
  | fuel + 1, s => if wsLenRev s = 0 then s else trimEndRevFuel fuel (s.drop (wsLenRev s))

/-- `str::trim` -/
def trim (s : Bytes) : Bytes :=
  let a := trimStartFuel s.length s
  (trimEndRevFuel a.length a.reverse).reverse

def wsFlush (cur : Bytes) (acc : List Bytes) : List Bytes :=
  if cur.isEmpty then acc else cur.reverse :: acc

/-- scanner of `split_whitespace`: `skip` = bytes of the current white-space character still to
    pass, `cur` = current word reversed, `acc` = finished words reversed -/
def wsGo (skip : Nat) (cur : Bytes) (acc : List Bytes) : Bytes → List Bytes
  | [] => (wsFlush cur acc).reverse
  | b :: rest =>
    match skip with
    | k + 1 => wsGo k cur acc rest
    | 0 =>
      if wsLen (b :: rest) = 0 then wsGo 0 (b :: cur) acc rest
      else wsGo (wsLen (b :: rest) - 1) [] (wsFlush cur acc) rest

/-- `str::split_whitespace` -/
def splitWhitespace (s : Bytes) : List Bytes := wsGo 0 [] [] s

/-! ## integers -/

/-- value of a non-empty all-digit string -/
def digitsVal : Bytes → Nat → Option Nat
  | [], acc => some acc
  | b :: bs, acc => if isDigit b then digitsVal bs (acc * 10 + (b.toNat - 48)) else none

def parseMag (s : Bytes) : Option Nat := if s.isEmpty then none else digitsVal s 0

/-- `str::parse::<uN>()`: optional `+`, ASCII digits, overflow is an error -/
def parseUnsigned (max : Nat) (s : Bytes) : Option Nat :=
  let body := match s with
    | 43 :: r => r
    | _ => s
  match parseMag body with
  | some n => if n ≤ max then some n else none
  | none => none

/-- `str::parse::<iN>()`: optional `+` or `-`, ASCII digits, overflow is an error -/
def parseSigned (min max : Int) (s : Bytes) : Option Int :=
  match s with
  | 45 :: r =>
    match parseMag r with
    | some n => if min ≤ -(n : Int) then some (-(n : Int)) else none
    | none => none
  | 43 :: r =>
    match parseMag r with
    | some n => if (n : Int) ≤ max then some (n : Int) else none
    | none => none
  | _ =>
    match parseMag s with
    | some n => if (n : Int) ≤ max then some (n : Int) else none
    | none => none

def parseU8 : Bytes → Option Nat := parseUnsigned 255
def parseU32 : Bytes → Option Nat := parseUnsigned 4294967295
def i32Min : Int := -2147483648
def i32Max : Int := 2147483647
def i64Min : Int := -9223372036854775808
def i64Max : Int := 9223372036854775807
def parseI32 : Bytes → Option Int := parseSigned i32Min i32Max
def parseI64 : Bytes → Option Int := parseSigned i64Min i64Max

def clamp (lo hi x : Int) : Int := if x < lo then lo else if hi < x then hi else x
def sat32 (x : Int) : Int := clamp i32Min i32Max x
def sat64 (x : Int) : Int := clamp i64Min i64Max x

/-- the ASCII digit of `k < 10` -/
def digitByte (k : Nat) : UInt8 := UInt8.ofNat (48 + k)

/-- decimal digits, most significant first, no leading zeros (`0` is "0") -/
def natDigits (n : Nat) : Bytes :=
  if n < 10 then [digitByte n]
  else natDigits (n / 10) ++ [digitByte (n % 10)]
termination_by n
decreasing_by omega

def padLeft0 (w : Nat) (s : Bytes) : Bytes := List.replicate (w - s.length) 48 ++ s

/-- `{:0w}` of an unsigned number -/
def fmtNat (w n : Nat) : Bytes := padLeft0 w (natDigits n)

/-- `{:0w}` of a signed number: the sign counts towards the width -/
def fmtInt (w : Nat) (i : Int) : Bytes :=
  if i < 0 then 45 :: padLeft0 (w - 1) (natDigits i.natAbs) else padLeft0 w (natDigits i.toNat)

/-- `{:0<w}`: pad on the right with `0` up to `w` CHARACTERS -/
def padRight0Chars (w : Nat) (s : Bytes) : Bytes := s ++ List.replicate (w - charCount s) 48

/-- `trim_end_matches('0')` -/
def trimEnd0 (s : Bytes) : Bytes := (s.reverse.dropWhile (· == 48)).reverse

/-! ## DATE -/

structure Date where
  year : Int
  month : Nat
  day : Nat
  deriving DecidableEq, Repr, Inhabited

/-- `Date::new` -/
def Date.new (y : Int) (m d : Nat) : R Date :=
  if !(1 ≤ m && m ≤ 12) then .error .err
  else if !(1 ≤ d && d ≤ 31) then .error .err
  else .ok ⟨y, m, d⟩

def orErr {α : Type} : Option α → R α
  | some x => .ok x
  | none => .error .err

/-- `impl FromStr for Date` -/
def Date.fromStr (s : Bytes) : R Date := do
  let parts := rsplit3 45 s
  if parts.length != 3 then .error .err
  else do
    let y ← orErr (parseI32 (← idx parts 0))
    let m ← orErr (parseU8 (← idx parts 1))
    let d ← orErr (parseU8 (← idx parts 2))
    Date.new y m d

/-- `impl Display for Date`: `{:04}-{:02}-{:02}` -/
def Date.display (d : Date) : Bytes :=
  fmtInt 4 d.year ++ [45] ++ fmtNat 2 d.month ++ [45] ++ fmtNat 2 d.day

/-! ## TIME -/

structure Time where
  hour : Nat
  minute : Nat
  second : Nat
  nano : Nat
  deriving DecidableEq, Repr, Inhabited

/-- `Time::new` -/
def Time.new (h mi s n : Nat) : R Time :=
  if h > 23 then .error .err
  else if mi > 59 then .error .err
  else if s > 59 then .error .err
  else if n > 999999999 then .error .err
  else .ok ⟨h, mi, s, n⟩

/-- the fractional part of `Time::from_str` -/
def parseNanos (frac : Bytes) : R Nat :=
  match getTo 9 (padRight0Chars 9 frac) with
  | none => .error .err
  | some t => orErr (parseU32 t)

/-- `impl FromStr for Time` -/
def Time.fromStr (s : Bytes) : R Time := do
  let (timePart, frac) := match splitFirst 46 s with
    | some (a, b) => (a, some b)
    | none => (s, none)
  let parts := splitOn 58 timePart
  if parts.length != 3 then .error .err
  else do
    let h ← orErr (parseU8 (← idx parts 0))
    let mi ← orErr (parseU8 (← idx parts 1))
    let sec ← orErr (parseU8 (← idx parts 2))
    let n ← match frac with
      | some f => parseNanos f
      | none => pure 0
    Time.new h mi sec n

/-- `impl Display for Time` -/
def Time.display (t : Time) : Bytes :=
  let hms := fmtNat 2 t.hour ++ [58] ++ fmtNat 2 t.minute ++ [58] ++ fmtNat 2 t.second
  if t.nano = 0 then hms else hms ++ [46] ++ trimEnd0 (fmtNat 9 t.nano)

/-! ## TIMESTAMP -/

structure Timestamp where
  date : Date
  time : Time
  deriving DecidableEq, Repr, Inhabited

/-- `chars().next().unwrap()` reduced to what the code looks at: the first byte -/
def first (s : Bytes) : R UInt8 :=
  match s with
  | b :: _ => .ok b
  | [] => .error .panic

def allDigits (s : Bytes) : Bool := s.all isDigit

/-- `is_timezone_offset` -/
def isTimezoneOffset (s : Bytes) : R Bool :=
  if s.length < 3 then .ok false
  else
    match first s with
    | .error e => .error e
    | .ok sign =>
      if sign != 43 && sign != 45 then .ok false
      else if (s.drop 1).length == 5 && nthLead 2 (s.drop 1) == some 58 then
        match getTo 2 (s.drop 1), getFrom 3 (s.drop 1) with
        | some hh, some mm => .ok (allDigits hh && allDigits mm)
        | _, _ => .ok false
      else if (s.drop 1).length == 4 then .ok (allDigits (s.drop 1))
      else if (s.drop 1).length == 2 then .ok (allDigits (s.drop 1))
      else .ok false

/-- `strip_timezone_suffix` -/
def stripTimezoneSuffix (s : Bytes) : R Bytes :=
  if s.getLast? == some 90 || s.getLast? == some 122 then .ok s.dropLast
  else
    match splitLastP (fun b => b == 43 || b == 45) s with
    | some (pre, c, post) =>
      if pre.length > 10 then
        match isTimezoneOffset (c :: post) with
        | .ok true => .ok pre
        | .ok false => .ok s
        | .error e => .error e
      else .ok s
    | none => .ok s

def midnight : Time := ⟨0, 0, 0, 0⟩

/-- the branch of `Timestamp::from_str` without a `T`: split on white space -/
def tsFromParts (parts : List Bytes) : R Timestamp :=
  if parts.length == 2 then do
    let date ← Date.fromStr (← idx parts 0)
    let time ← Time.fromStr (← idx parts 1)
    pure ⟨date, time⟩
  else if parts.length == 1 then do
    match Date.fromStr (← idx parts 0) with
    | .ok date => pure ⟨date, midnight⟩
    | .error .panic => .error .panic
    | .error .err => .error .err
  else .error .err

/-- `impl FromStr for Timestamp` -/
def Timestamp.fromStr (s : Bytes) : R Timestamp := do
  let part ← stripTimezoneSuffix (trim s)
  match splitFirst 84 part with
  | some (d, t) =>
    let date ← Date.fromStr d
    let time ← Time.fromStr t
    pure ⟨date, time⟩
  | none => tsFromParts (splitWhitespace part)

/-- `impl Display for Timestamp` -/
def Timestamp.display (t : Timestamp) : Bytes := t.date.display ++ [32] ++ t.time.display

/-! ## INTERVAL -/

structure Interval where
  text : Bytes
  months : Int
  days : Int
  micros : Int
  deriving DecidableEq, Repr, Inhabited

def asciiLower (b : UInt8) : UInt8 := if 65 ≤ b && b ≤ 90 then b + 32 else b

/-- `eq_ignore_ascii_case` -/
def eqIgnoreAsciiCase (a b : Bytes) : Bool := a.map asciiLower == b.map asciiLower

/-- `str::to_uppercase`, exact on every string whose result can be one of the unit keywords:
    ASCII letters, `ſ` (U+017F → `S`) and `ı` (U+0131 → `I`); every other non-ASCII character
    maps to something that contains a non-ASCII character or a letter pair no keyword has. -/
def toUpper : Bytes → Bytes
  | 0xC5 :: 0xBF :: rest => 83 :: toUpper rest
  | 0xC4 :: 0xB1 :: rest => 73 :: toUpper rest
  | b :: rest => (if 97 ≤ b && b ≤ 122 then b - 32 else b) :: toUpper rest
  | [] => []


/-- `parse_seconds_to_microseconds` -/
def parseSecondsToMicros (s : Bytes) : Int :=
  match splitFirst 46 s with
  | some (w, f) =>
    let whole := (parseI64 w).getD 0
    let frac := ((getTo 6 (padRight0Chars 6 f)).bind parseI64).getD 0
    sat64 (sat64 (whole * 1000000) + frac)
  | none => sat64 ((parseI64 s).getD 0 * 1000000)

/-- `parse_time_to_microseconds` -/
def parseTimeToMicros (s : Bytes) : Int :=
  let parts := splitOn 58 s
  let t0 : Int := 0
  let t1 := match parts[0]? with
    | some p =>
      match parseI64 p with
      | some h => sat64 (t0 + sat64 (sat64 (h * 3600) * 1000000))
      | none => t0
    | none => t0
  let t2 := match parts[1]? with
    | some p =>
      match parseI64 p with
      | some m => sat64 (t1 + sat64 (sat64 (m * 60) * 1000000))
      | none => t1
    | none => t1
  match parts[2]? with
  | some p => sat64 (t2 + parseSecondsToMicros p)
  | none => t2

/-- the compound branch (`… TO …`) of `parse_interval` -/
def parseCompound (parts : List Bytes) (toPos : Nat) : R (Int × Int × Int) := do
  if toPos ≥ 2 && toPos + 1 < parts.length then
    let valuePart ← idx parts 0
    let fromUnit ← idx parts (toPos - 1)
    let toUnit ← idx parts (toPos + 1)
    if eqIgnoreAsciiCase fromUnit ([89, 69, 65, 82] : Bytes) && eqIgnoreAsciiCase toUnit ([77, 79, 78, 84, 72] : Bytes) then
      match splitFirst 45 valuePart with
      | some (y, m) =>
        let years := (parseI32 y).getD 0
        let monthPart := (parseI32 m).getD 0
        return (sat32 (sat32 (years * 12) + monthPart), 0, 0)
      | none => return (sat32 ((parseI32 valuePart).getD 0 * 12), 0, 0)
    else if eqIgnoreAsciiCase fromUnit ([68, 65, 89] : Bytes) then
      match splitFirst 32 valuePart with
      | some (d, t) => return (0, (parseI32 d).getD 0, parseTimeToMicros (trim t))
      | none => return (0, (parseI32 valuePart).getD 0, 0)
    else if eqIgnoreAsciiCase fromUnit ([72, 79, 85, 82] : Bytes) || eqIgnoreAsciiCase fromUnit ([77, 73, 78, 85, 84, 69] : Bytes)
        || eqIgnoreAsciiCase fromUnit ([83, 69, 67, 79, 78, 68] : Bytes) then
      return (0, 0, parseTimeToMicros valuePart)
    else return (0, 0, 0)
  else return (0, 0, 0)

/-- the simple branch (`<value> <unit>`) of `parse_interval` -/
def parseSimple (parts : List Bytes) : R (Int × Int × Int) := do
  if parts.length ≥ 2 then
    let valuePart ← idx parts 0
    let unit := toUpper (← idx parts 1)
    if unit == ([89, 69, 65, 82] : Bytes) || unit == ([89, 69, 65, 82, 83] : Bytes) then
      return (sat32 ((parseI32 valuePart).getD 0 * 12), 0, 0)
    else if unit == ([77, 79, 78, 84, 72] : Bytes) || unit == ([77, 79, 78, 84, 72, 83] : Bytes) then
      return ((parseI32 valuePart).getD 0, 0, 0)
    else if unit == ([68, 65, 89] : Bytes) || unit == ([68, 65, 89, 83] : Bytes) then
      return (0, (parseI32 valuePart).getD 0, 0)
    else if unit == ([72, 79, 85, 82] : Bytes) || unit == ([72, 79, 85, 82, 83] : Bytes) then
      return (0, 0, sat64 (sat64 ((parseI64 valuePart).getD 0 * 3600) * 1000000))
    else if unit == ([77, 73, 78, 85, 84, 69] : Bytes) || unit == ([77, 73, 78, 85, 84, 69, 83] : Bytes) then
      return (0, 0, sat64 (sat64 ((parseI64 valuePart).getD 0 * 60) * 1000000))
    else if unit == ([83, 69, 67, 79, 78, 68] : Bytes) || unit == ([83, 69, 67, 79, 78, 68, 83] : Bytes) then
      return (0, 0, parseSecondsToMicros valuePart)
    else return (0, 0, 0)
  else return (0, 0, 0)

/-- `Interval::parse_interval` -/
def parseInterval (s : Bytes) : R (Int × Int × Int) :=
  let parts := splitWhitespace s
  if parts.isEmpty then .ok (0, 0, 0)
  else
    match parts.findIdx? (fun p => eqIgnoreAsciiCase p ([84, 79] : Bytes)) with
    | some toPos => parseCompound parts toPos
    | none => parseSimple parts

/-- `Interval::new` (= `FromStr`, which cannot fail) -/
def Interval.new (s : Bytes) : R Interval := do
  let (mo, d, us) ← parseInterval s
  return ⟨s, mo, d, us⟩

/-- `impl Display for Interval`: the stored text -/
def Interval.display (i : Interval) : Bytes := i.text

end VibeProof.Temporal
