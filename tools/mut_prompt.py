#!/usr/bin/env python3
"""prints the prompt for a seeded-mutation sub-agent: tools/mut_prompt.py Cnn <n> [hint]
(the sub-agent gets ONLY the property text and a scratch worktree, nothing from /verif)"""
import json, sys
pid, n = sys.argv[1], sys.argv[2]
hint = sys.argv[3] if len(sys.argv) > 3 else ""
p = {json.loads(l)['id']: json.loads(l) for l in open('/verif/properties.jsonl')}[pid]
print(open('/verif/tools/mut_prompt.txt').read().format(id=pid, n=n, title=p['title'], statement=p['statement'],
      qtext=p['quantifier']['text'], files=', '.join(p['anchors']['files']), hint=hint))
