import VibeProof.Generated.Consts
/-
C21 — model of `SqlValue`'s `PartialEq` / `PartialOrd` / `Ord` / `Hash`
(crates/vibesql-types/src/sql_value/{mod,comparison,hash}.rs, temporal/*.rs), all 16 variants.

* integers are unbounded `Int` (range does not matter for the laws; the driver checks ranges);
* strings are UTF-8 byte lists (`String`'s `Ord` is the lexicographic order of the bytes);
* floats are never computed: a float is its exact classification
  `nan | inf sign | fin sign mag` where a finite value is `±mag · 2^emin`, `emin` the exponent
  of the smallest subnormal of the format (−149 for `f32`, −1074 for `f64`): every finite
  float has exactly one such `mag`.  The harness decomposes the real bits into
  `sign, odd mantissa m, exponent e` (value `m·2^e`) and the driver forms `mag = m·2^(e−emin)`.
* `hashWords` is the sequence of integer writes handed to the `Hasher` (width in bytes, value).
-/
namespace VibeProof.SqlOrd

abbrev Bytes := List UInt8

/-- three-way comparison of integers (`Ord::cmp` on a primitive integer type) -/
def cmpInt (a b : Int) : Ordering := if a < b then .lt else if a = b then .eq else .gt

/-- lexicographic order, a proper prefix is smaller (Rust `[T]`/`str` `Ord`) -/
def cmpLex : List Int → List Int → Ordering
  | [], [] => .eq
  | [], _ :: _ => .lt
  | _ :: _, [] => .gt
  | a :: as, b :: bs => (cmpInt a b).then (cmpLex as bs)

def bytesKey (s : Bytes) : List Int := s.map (fun b => (b.toNat : Int))

/-! ## floats -/

inductive F where
  | nan
  | inf (neg : Bool)
  | fin (neg : Bool) (mag : Nat)
  deriving DecidableEq, Repr, Inhabited

namespace F

def isNan : F → Bool
  | nan => true
  | _ => false

def signed (neg : Bool) (mag : Nat) : Int := if neg then -(mag : Int) else (mag : Int)

/-- position of a float on the extended real line, NaN placed above `+∞`
    (`+0` and `−0` are the same point) -/
def line : F → List Int
  | inf true => [-1]
  | fin neg mag => [0, signed neg mag]
  | inf false => [1]
  | nan => [2]

/-- IEEE `==` (Rust `a == b` on `f32`/`f64`): false when either side is NaN -/
def ieeeEq (a b : F) : Bool :=
  if a.isNan || b.isNan then false else cmpLex a.line b.line == .eq

/-- IEEE comparison (Rust `a.partial_cmp(b)` on `f32`/`f64`): `None` when either side is NaN -/
def partialCmp (a b : F) : Option Ordering :=
  if a.isNan || b.isNan then none else some (cmpLex a.line b.line)

/-- the float arms of `impl PartialEq for SqlValue`: NaN == NaN for grouping -/
def eqGroup (a b : F) : Bool :=
  if a.isNan && b.isNan then true else ieeeEq a b

/-- the NaN arms of `impl Ord for SqlValue`, reached when `partial_cmp` is `None` -/
def nanOrder (a b : F) : Ordering :=
  if a.isNan && b.isNan then .eq else if a.isNan then .gt else .lt

end F

/-- mantissa / exponent field widths of an IEEE binary format -/
structure FFmt where
  mbits : Nat
  ebits : Nat

def f32 : FFmt := ⟨23, 8⟩
def f64 : FFmt := ⟨52, 11⟩

namespace FFmt

def signBit (f : FFmt) (neg : Bool) : Nat := if neg then 2 ^ (f.mbits + f.ebits) else 0

/-- exponent and fraction fields of the finite value `mag · 2^emin` -/
def magBits (f : FFmt) (mag : Nat) : Nat :=
  if mag < 2 ^ f.mbits then mag
  else
    let p := Nat.log2 mag - f.mbits
    (p + 1) * 2 ^ f.mbits + (mag / 2 ^ p - 2 ^ f.mbits)

/-- `to_bits()` -/
def bits (f : FFmt) : F → Nat
  | .nan => (2 ^ f.ebits - 1) * 2 ^ f.mbits + 2 ^ (f.mbits - 1)
  | .inf neg => f.signBit neg + (2 ^ f.ebits - 1) * 2 ^ f.mbits
  | .fin neg mag => f.signBit neg + f.magBits mag

/-- what `impl Hash for SqlValue` writes for a float: the canonical NaN pattern for every NaN,
    the pattern of `+0.0` for both zeros, otherwise `to_bits()` -/
def hashBits (f : FFmt) : F → Nat
  | .nan => f.bits .nan
  | .fin _ 0 => f.bits (.fin false 0)
  | x => f.bits x

end FFmt

/-! ## temporal values -/

structure Date where
  year : Int
  month : Int
  day : Int
  deriving DecidableEq, Repr, Inhabited

structure Time where
  hour : Int
  minute : Int
  second : Int
  nano : Int
  deriving DecidableEq, Repr, Inhabited

/-- `Interval`: the original text plus the three numbers parsed from it -/
structure Interval where
  text : Bytes
  months : Int
  days : Int
  micros : Int
  deriving DecidableEq, Repr, Inhabited

def Date.cmp (a b : Date) : Ordering :=
  (cmpInt a.year b.year).then ((cmpInt a.month b.month).then (cmpInt a.day b.day))

def Time.cmp (a b : Time) : Ordering :=
  (cmpInt a.hour b.hour).then ((cmpInt a.minute b.minute).then
    ((cmpInt a.second b.second).then (cmpInt a.nano b.nano)))

/-- `Interval::cmp_value` (i128 in the code, no overflow possible) -/
def Interval.cmpValue (i : Interval) : Int :=
  (i.months * 30 + i.days) * 86400000000 + i.micros

def Interval.cmp (a b : Interval) : Ordering := cmpInt a.cmpValue b.cmpValue

/-- `impl PartialEq for Interval`: the three numbers, not the text -/
def Interval.eq (a b : Interval) : Bool :=
  a.months == b.months && a.days == b.days && a.micros == b.micros

/-! ## SqlValue -/

inductive SV where
  | integer (i : Int)
  | smallint (i : Int)
  | bigint (i : Int)
  | unsigned (n : Int)
  | numeric (x : F)
  | float (x : F)
  | real (x : F)
  | double (x : F)
  | character (s : Bytes)
  | varchar (s : Bytes)
  | boolean (b : Bool)
  | date (d : Date)
  | time (t : Time)
  | timestamp (d : Date) (t : Time)
  | interval (iv : Interval)
  | null
  deriving DecidableEq, Repr, Inhabited

inductive Kind where
  | integer | smallint | bigint | unsigned | numeric | float | real | double
  | character | varchar | boolean | date | time | timestamp | interval | null
  deriving DecidableEq, Repr, Inhabited

def Kind.name : Kind → String
  | .integer => "Integer" | .smallint => "Smallint" | .bigint => "Bigint"
  | .unsigned => "Unsigned" | .numeric => "Numeric" | .float => "Float" | .real => "Real"
  | .double => "Double" | .character => "Character" | .varchar => "Varchar"
  | .boolean => "Boolean" | .date => "Date" | .time => "Time" | .timestamp => "Timestamp"
  | .interval => "Interval" | .null => "Null"

def Kind.all : List Kind :=
  [.integer, .smallint, .bigint, .unsigned, .numeric, .float, .real, .double,
   .character, .varchar, .boolean, .date, .time, .timestamp, .interval, .null]

def SV.kind : SV → Kind
  | .integer _ => .integer | .smallint _ => .smallint | .bigint _ => .bigint
  | .unsigned _ => .unsigned | .numeric _ => .numeric | .float _ => .float | .real _ => .real
  | .double _ => .double | .character _ => .character | .varchar _ => .varchar
  | .boolean _ => .boolean | .date _ => .date | .time _ => .time | .timestamp _ _ => .timestamp
  | .interval _ => .interval | .null => .null

def SV.isInterval : SV → Bool
  | .interval _ => true
  | _ => false

/-- `type_tag` of `Ord::cmp`, read from the table extracted from comparison.rs on every run.
    The default is dead: `C21_type_tags_total` proves every variant has an entry. -/
def tagOfKind (k : Kind) : Int :=
  ((Generated.crossTypeOrder.lookup k.name).getD 0 : Nat)

def SV.typeTag (v : SV) : Int := tagOfKind v.kind

def boolInt (b : Bool) : Int := if b then 1 else 0

/-- `impl PartialEq for SqlValue` -/
def SV.eqv : SV → SV → Bool
  | .null, .null => true
  | .null, _ => false
  | _, .null => false
  | .integer a, .integer b => a == b
  | .smallint a, .smallint b => a == b
  | .bigint a, .bigint b => a == b
  | .unsigned a, .unsigned b => a == b
  | .float a, .float b => F.eqGroup a b
  | .real a, .real b => F.eqGroup a b
  | .double a, .double b => F.eqGroup a b
  | .numeric a, .numeric b => F.eqGroup a b
  | .character a, .character b => a == b
  | .varchar a, .varchar b => a == b
  | .boolean a, .boolean b => a == b
  | .date a, .date b => a == b
  | .time a, .time b => a == b
  | .timestamp d1 t1, .timestamp d2 t2 => d1 == d2 && t1 == t2
  | .interval a, .interval b => Interval.eq a b
  | _, _ => false

/-- `impl PartialOrd for SqlValue` -/
def SV.partialCmp : SV → SV → Option Ordering
  | .null, _ => none
  | _, .null => none
  | .integer a, .integer b => some (cmpInt a b)
  | .smallint a, .smallint b => some (cmpInt a b)
  | .bigint a, .bigint b => some (cmpInt a b)
  | .unsigned a, .unsigned b => some (cmpInt a b)
  | .float a, .float b => F.partialCmp a b
  | .real a, .real b => F.partialCmp a b
  | .double a, .double b => F.partialCmp a b
  | .character a, .character b => some (cmpLex (bytesKey a) (bytesKey b))
  | .varchar a, .varchar b => some (cmpLex (bytesKey a) (bytesKey b))
  | .numeric a, .numeric b => F.partialCmp a b
  | .boolean a, .boolean b => some (cmpInt (boolInt a) (boolInt b))
  | .date a, .date b => some (Date.cmp a b)
  | .time a, .time b => some (Time.cmp a b)
  | .timestamp d1 t1, .timestamp d2 t2 => some ((Date.cmp d1 d2).then (Time.cmp t1 t2))
  | .interval a, .interval b => some (Interval.cmp a b)
  | _, _ => none

/-- the fallback of `Ord::cmp` when `partial_cmp` is `None` and neither side is NULL -/
def SV.cmpFallback : SV → SV → Ordering
  | .float a, .float b => F.nanOrder a b
  | .real a, .real b => F.nanOrder a b
  | .double a, .double b => F.nanOrder a b
  | .numeric a, .numeric b => F.nanOrder a b
  | a, b => cmpInt a.typeTag b.typeTag

/-- `impl Ord for SqlValue` -/
def SV.cmp (a b : SV) : Ordering :=
  match a, b with
  | .null, .null => .eq
  | .null, _ => .lt
  | _, .null => .gt
  | a, b =>
    match SV.partialCmp a b with
    | some o => o
    | none => SV.cmpFallback a b

/-! ## Hash -/

/-- one integer write to the hasher: width in bytes, value -/
abbrev HW := Nat × Int

/-- declaration index of the variant = `mem::discriminant` (written as `isize`) -/
def discrOfKind (k : Kind) : Int :=
  ((Generated.sqlValueVariants.idxOf k.name : Nat) : Int)

/-- `str::hash`: the bytes, then `0xff` -/
def strWords (s : Bytes) : List HW := s.map (fun b => (1, (b.toNat : Int))) ++ [(1, 255)]

def Date.words (d : Date) : List HW := [(4, d.year), (1, d.month), (1, d.day)]
def Time.words (t : Time) : List HW := [(1, t.hour), (1, t.minute), (1, t.second), (4, t.nano)]
def Interval.words (i : Interval) : List HW := [(4, i.months), (4, i.days), (8, i.micros)]

/-- `impl Hash for SqlValue`: discriminant, then the payload -/
def SV.hashWords (v : SV) : List HW :=
  (8, discrOfKind v.kind) ::
  match v with
  | .integer i => [(8, i)]
  | .smallint i => [(2, i)]
  | .bigint i => [(8, i)]
  | .unsigned n => [(8, n)]
  | .numeric x => [(8, (f64.hashBits x : Int))]
  | .float x => [(4, (f32.hashBits x : Int))]
  | .real x => [(4, (f32.hashBits x : Int))]
  | .double x => [(8, (f64.hashBits x : Int))]
  | .character s => strWords s
  | .varchar s => strWords s
  | .boolean b => [(1, boolInt b)]
  | .date d => d.words
  | .time t => t.words
  | .timestamp d t => d.words ++ t.words
  | .interval iv => iv.words
  | .null => []

/-! ## keys used by the proofs (and by nothing else) -/

/-- sort key: `cmp a b = cmpLex (ordKey a) (ordKey b)` (lemma `cmp_eq_lex`) -/
def SV.ordKey : SV → List Int
  | .null => [0]
  | .integer i => [tagOfKind .integer + 1, i]
  | .smallint i => [tagOfKind .smallint + 1, i]
  | .bigint i => [tagOfKind .bigint + 1, i]
  | .unsigned i => [tagOfKind .unsigned + 1, i]
  | .numeric x => (tagOfKind .numeric + 1) :: x.line
  | .float x => (tagOfKind .float + 1) :: x.line
  | .real x => (tagOfKind .real + 1) :: x.line
  | .double x => (tagOfKind .double + 1) :: x.line
  | .character s => (tagOfKind .character + 1) :: bytesKey s
  | .varchar s => (tagOfKind .varchar + 1) :: bytesKey s
  | .boolean b => [tagOfKind .boolean + 1, boolInt b]
  | .date d => [tagOfKind .date + 1, d.year, d.month, d.day]
  | .time t => [tagOfKind .time + 1, t.hour, t.minute, t.second, t.nano]
  | .timestamp d t =>
      [tagOfKind .timestamp + 1, d.year, d.month, d.day, t.hour, t.minute, t.second, t.nano]
  | .interval iv => [tagOfKind .interval + 1, iv.cmpValue]

end VibeProof.SqlOrd
