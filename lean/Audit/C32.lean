import VibeProof.Props.C32
#print axioms VibeProof.C32.C32_view_eq_derived
#print axioms VibeProof.C32.C32_cte_eq_derived
#print axioms VibeProof.C32.C32_view_eq_cte
#print axioms VibeProof.C32.C32_view_fresh
#print axioms VibeProof.C32.C32_lookup_case_insensitive
#print axioms VibeProof.C32.C32_pushdown_through_projection
#print axioms VibeProof.C32.C32_filter_compose
#print axioms VibeProof.C32.C32_star_view_is_table
#print axioms VibeProof.C32.C32_chain_single
#print axioms VibeProof.C32.C32_chain_unfold
#print axioms VibeProof.C32.C32_unused_definition
#print axioms VibeProof.C32.C32_independent_definitions_commute
#print axioms VibeProof.C32.C32_star_over_definition
#print axioms VibeProof.Sql.Core.eval_width
