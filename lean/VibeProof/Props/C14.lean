import VibeProof.Props.C15
/-
C14 — ROLLBACK TO SAVEPOINT restores the state at the savepoint.

Model: `Model/TableSM.lean` — change log + savepoint stack as coded: only INSERT is recorded
(`Database::insert_row` / `insert_rows_batch` call `record_change`; the UPDATE, DELETE, TRUNCATE,
REPLACE-delete and upsert paths never do); undo of an insert removes the FIRST equal row
(`Table::remove_row`).

Stack discipline — proved in full:
  `C14_savepoint_pushes`, `C14_rollback_to_keeps_it_and_drops_later`, `C14_release_changes_no_data`,
  `C14_unknown_savepoint_is_error`, `C14_no_transaction_is_error`.
Data — `C14_full` is false of the code as it is:
  `C14_rollback_to_restores_partial` (region between SAVEPOINT n and ROLLBACK TO n made of
  INSERTs and further SAVEPOINTs) and the counterexamples `C14_delete_counterexample`,
  `C14_update_counterexample`.
-/
namespace VibeProof.C14
open VibeProof VibeProof.Idx VibeProof.TSM

/-! ### the savepoint stack -/

theorem findSave_some (saves : List (String × Nat)) (n : String) : ∀ j, findSave saves n = some j →
    ∃ sp, saves[j]? = some sp ∧ sp.1 = n := by
  induction saves with
  | nil => intro j h; simp [findSave] at h
  | cons sp rest ih =>
    intro j h
    simp only [findSave] at h
    cases hr : findSave rest n with
    | some j' =>
      simp only [hr, Option.some.injEq] at h
      subst h
      obtain ⟨sp', h1, h2⟩ := ih j' hr
      exact ⟨sp', by simpa using h1, h2⟩
    | none =>
      simp only [hr] at h
      by_cases hn : sp.1 = n
      · simp only [hn, ↓reduceIte, Option.some.injEq] at h
        subst h
        exact ⟨sp, rfl, hn⟩
      · simp [hn] at h

theorem findSave_none (saves : List (String × Nat)) (n : String) :
    findSave saves n = none ↔ ∀ sp ∈ saves, sp.1 ≠ n := by
  induction saves with
  | nil => simp [findSave]
  | cons sp rest ih =>
    simp only [findSave]
    cases hr : findSave rest n with
    | some j' =>
      simp only [reduceCtorEq, List.mem_cons, forall_eq_or_imp, false_iff, not_and]
      intro _ hall
      exact absurd ((ih.mpr hall).symm.trans hr) (by simp)
    | none =>
      have := ih.mp hr
      by_cases hn : sp.1 = n
      · simp [hn]
      · simp only [hn, ↓reduceIte, List.mem_cons, forall_eq_or_imp, ne_eq, not_false_eq_true,
          true_and, true_iff]
        exact this

/-- SAVEPOINT n pushes n on the stack and changes no data -/
theorem C14_savepoint_pushes (s : TState) (t : Txn) (n : String) (ht : s.txn = some t) :
    (step s (.savepoint n)).2 = none ∧
    (step s (.savepoint n)).1.rows = s.rows ∧ (step s (.savepoint n)).1.hidx = s.hidx ∧
    (step s (.savepoint n)).1.uidx = s.uidx ∧
    ∃ t', (step s (.savepoint n)).1.txn = some t' ∧ t'.saves = t.saves ++ [(n, t.log.length)] ∧
      t'.log = t.log := by
  simp [step, ht]

/-- ROLLBACK TO n keeps n (the most recent savepoint of that name) and everything below it and
destroys every later savepoint -/
theorem C14_rollback_to_keeps_it_and_drops_later (s : TState) (t : Txn) (n : String) (j : Nat)
    (ht : s.txn = some t) (hj : findSave t.saves n = some j) :
    ∃ t', (step s (.rollbackTo n)).1.txn = some t' ∧ t'.saves = t.saves.take (j + 1) ∧
      t'.saves[j]? = t.saves[j]? ∧ t'.saves.length = j + 1 ∧
      t'.snapRows = t.snapRows ∧ t'.snapH = t.snapH := by
  obtain ⟨sp, hsp, _⟩ := findSave_some _ _ _ hj
  have hlen : j < t.saves.length := by
    rcases Nat.lt_or_ge j t.saves.length with h | h
    · exact h
    · rw [List.getElem?_eq_none h] at hsp; cases hsp
  simp only [step, ht, hj, hsp]
  refine ⟨_, rfl, rfl, ?_, ?_, rfl, rfl⟩
  · simp only [List.getElem?_take]; simp [hsp]
  · simp only [List.length_take]; omega

/-- RELEASE n removes exactly that savepoint and changes no data -/
theorem C14_release_changes_no_data (s : TState) (t : Txn) (n : String) (j : Nat)
    (ht : s.txn = some t) (hj : findSave t.saves n = some j) :
    (step s (.release n)).2 = none ∧
    (step s (.release n)).1.rows = s.rows ∧ (step s (.release n)).1.hidx = s.hidx ∧
    (step s (.release n)).1.uidx = s.uidx ∧
    ∃ t', (step s (.release n)).1.txn = some t' ∧ t'.saves = t.saves.eraseIdx j ∧ t'.log = t.log := by
  simp [step, ht, hj]

/-- an unknown name is an error and nothing changes -/
theorem C14_unknown_savepoint_is_error (s : TState) (t : Txn) (n : String) (ht : s.txn = some t)
    (hn : ∀ sp ∈ t.saves, sp.1 ≠ n) :
    step s (.rollbackTo n) = (s, some .noSavepoint) ∧ step s (.release n) = (s, some .noSavepoint) := by
  have := (findSave_none t.saves n).mpr hn
  simp [step, ht, this]

/-- outside a transaction every savepoint statement is an error and nothing changes -/
theorem C14_no_transaction_is_error (s : TState) (n : String) (ht : s.txn = none) :
    step s (.savepoint n) = (s, some .noTxn) ∧ step s (.rollbackTo n) = (s, some .noTxn) ∧
    step s (.release n) = (s, some .noTxn) := by
  simp [step, ht]

/-! ### data -/

/-- DML and further savepoints between `SAVEPOINT n` and `ROLLBACK TO SAVEPOINT n` -/
def RegionOp (n : String) : Op → Prop
  | .insert _ => True
  | .update _ => True
  | .upsert _ _ => True
  | .delete _ => True
  | .truncate => True
  | .replace _ => True
  | .savepoint m => m ≠ n
  | _ => False

/-- the part of the region the change log covers -/
def InsertOnlyOp (n : String) : Op → Prop
  | .insert _ => True
  | .savepoint m => m ≠ n
  | _ => False

def afterRollbackTo (s : TState) (n : String) (region : List Op) : TState × Option TErr :=
  step (run (step s (.savepoint n)).1 region) (.rollbackTo n)

/-- the property at full strength: whatever DML ran after `SAVEPOINT n`, `ROLLBACK TO n`
succeeds and the table contents are (as a multiset) those at the savepoint -/
def C14_full : Prop :=
  ∀ (s : TState) (t : Txn) (n : String) (region : List Op), s.txn = some t →
    (∀ op ∈ region, RegionOp n op) →
    (afterRollbackTo s n region).2 = none ∧ (afterRollbackTo s n region).1.rows.Perm s.rows

theorem insertMany_rows_log (rs : List Row) : ∀ (s : TState) (t : Txn), s.txn = some t →
    (insertMany s rs).rows = s.rows ++ rs ∧
    ∃ t', (insertMany s rs).txn = some t' ∧ t'.log = t.log ++ rs ∧ t'.saves = t.saves := by
  induction rs with
  | nil => intro s t ht; exact ⟨by simp [insertMany], t, ht, by simp, rfl⟩
  | cons r rs ih =>
    intro s t ht
    have h1 : (insert1 s r).txn = some { t with log := t.log ++ [r] } := by
      simp [insert1, logIns, ht]
    obtain ⟨h2, t', h3, h4, h5⟩ := ih _ _ h1
    refine ⟨?_, t', h3, ?_, h5⟩
    · rw [insertMany, h2]; simp [insert1]
    · rw [h4]; simp

theorem findSave_append_hit (pre extra : List (String × Nat)) (n : String) (x : Nat)
    (hx : ∀ sp ∈ extra, sp.1 ≠ n) : findSave (pre ++ (n, x) :: extra) n = some pre.length := by
  induction pre with
  | nil =>
    have := (findSave_none extra n).mpr hx
    simp [findSave, this]
  | cons sp pre ih => simp [findSave, ih]

theorem undoAll_perm (L : List Row) : ∀ (hs : List HIdx) (rows base : List Row),
    rows.Perm (base ++ L) →
    (undoAll hs rows L.reverse).1.Perm base ∧ (undoAll hs rows L.reverse).2.2 = true := by
  induction L using snoc_induction with
  | nil =>
    intro hs rows base h
    simp only [List.reverse_nil, undoAll]
    exact ⟨by simpa using h, trivial⟩
  | snoc L r ih =>
    intro hs rows base h
    have hmem : r ∈ rows := by
      apply h.mem_iff.mpr; simp
    have hp : (rows.erase r).Perm (base ++ L) := by
      have h1 : rows.Perm (r :: (base ++ L)) := by
        refine h.trans ?_
        rw [← List.append_assoc]
        exact List.perm_append_singleton r (base ++ L)
      have h2 := h1.erase r
      simpa using h2
    simp only [List.reverse_append, List.reverse_cons, List.reverse_nil, List.nil_append,
      List.singleton_append, undoAll, hmem, ↓reduceIte]
    exact ih _ _ _ hp

/-- invariant of an insert-only region after `SAVEPOINT n` taken in state (rows0, t0) -/
def RegionInv (rows0 : List Row) (t0 : Txn) (n : String) (σ : TState) : Prop :=
  ∃ (t : Txn) (L : List Row) (extra : List (String × Nat)), σ.txn = some t ∧
    σ.rows = rows0 ++ L ∧ t.log = t0.log ++ L ∧
    t.saves = t0.saves ++ (n, t0.log.length) :: extra ∧ ∀ sp ∈ extra, sp.1 ≠ n

theorem region_step (rows0 : List Row) (t0 : Txn) (n : String) (σ : TState) (op : Op)
    (hop : InsertOnlyOp n op) (h : RegionInv rows0 t0 n σ) :
    RegionInv rows0 t0 n (step σ op).1 := by
  obtain ⟨t, L, extra, ht, hrows, hlog, hsaves, hex⟩ := h
  cases op with
  | insert rs =>
    obtain ⟨h1, t', h2, h3, h4⟩ := insertMany_rows_log rs σ t ht
    refine ⟨t', L ++ rs, extra, h2, ?_, ?_, ?_, hex⟩
    · simp only [step]; rw [h1, hrows]; simp
    · rw [h3, hlog]; simp
    · rw [h4, hsaves]
  | savepoint m =>
    have hm : m ≠ n := hop
    refine ⟨{ t with saves := t.saves ++ [(m, t.log.length)] }, L, extra ++ [(m, t.log.length)], ?_, ?_,
      hlog, ?_, ?_⟩
    · simp [step, ht]
    · simp [step, ht, hrows]
    · simp [hsaves]
    · intro sp hsp
      simp only [List.mem_append, List.mem_singleton] at hsp
      rcases hsp with hsp | rfl
      · exact hex sp hsp
      · exact hm
  | update _ => exact absurd hop (by simp [InsertOnlyOp])
  | upsert _ _ => exact absurd hop (by simp [InsertOnlyOp])
  | delete _ => exact absurd hop (by simp [InsertOnlyOp])
  | truncate => exact absurd hop (by simp [InsertOnlyOp])
  | replace _ => exact absurd hop (by simp [InsertOnlyOp])
  | createIndex _ _ _ => exact absurd hop (by simp [InsertOnlyOp])
  | dropIndex _ => exact absurd hop (by simp [InsertOnlyOp])
  | begin => exact absurd hop (by simp [InsertOnlyOp])
  | commit => exact absurd hop (by simp [InsertOnlyOp])
  | rollback => exact absurd hop (by simp [InsertOnlyOp])
  | rollbackTo _ => exact absurd hop (by simp [InsertOnlyOp])
  | release _ => exact absurd hop (by simp [InsertOnlyOp])

theorem region_run (rows0 : List Row) (t0 : Txn) (n : String) (ops : List Op) :
    ∀ σ, (∀ op ∈ ops, InsertOnlyOp n op) → RegionInv rows0 t0 n σ →
      RegionInv rows0 t0 n (run σ ops) := by
  induction ops with
  | nil => intro σ _ h; exact h
  | cons op ops ih =>
    intro σ hops h
    exact ih _ (fun o ho => hops o (by simp [ho])) (region_step rows0 t0 n σ op (hops op (by simp)) h)

/-- for every transaction state and every region made of INSERTs (single- or multi-row) and
further SAVEPOINTs, `ROLLBACK TO SAVEPOINT n` succeeds and the table holds, as a multiset,
exactly the rows it held when `SAVEPOINT n` was executed; n stays on the stack -/
theorem C14_rollback_to_restores_partial (s : TState) (t : Txn) (n : String) (region : List Op)
    (ht : s.txn = some t) (hreg : ∀ op ∈ region, InsertOnlyOp n op) :
    (afterRollbackTo s n region).2 = none ∧ (afterRollbackTo s n region).1.rows.Perm s.rows ∧
    ∃ t', (afterRollbackTo s n region).1.txn = some t' ∧
      t'.saves = t.saves ++ [(n, t.log.length)] ∧ t'.log = t.log := by
  have h0 : RegionInv s.rows t n (step s (.savepoint n)).1 := by
    refine ⟨{ t with saves := t.saves ++ [(n, t.log.length)] }, [], [], ?_, ?_, ?_, ?_, ?_⟩
    · simp [step, ht]
    · simp [step, ht]
    · simp
    · simp
    · intro sp hsp; cases hsp
  obtain ⟨t2, L, extra, ht2, hrows, hlog, hsaves, hex⟩ := region_run s.rows t n region _ hreg h0
  have hfind : findSave t2.saves n = some t.saves.length := by
    rw [hsaves]; exact findSave_append_hit _ _ _ _ hex
  have hget : t2.saves[t.saves.length]? = some (n, t.log.length) := by
    rw [hsaves]; simp
  have hdrop : (List.drop t.log.length t2.log).reverse = L.reverse := by
    rw [hlog]; simp
  have hperm := undoAll_perm L (run (step s (.savepoint n)).1 region).hidx
    (run (step s (.savepoint n)).1 region).rows s.rows (by rw [hrows])
  unfold afterRollbackTo
  generalize run (step s (.savepoint n)).1 region = s2 at ht2 hrows hperm
  simp only [step, ht2, hfind, hget, hdrop]
  refine ⟨?_, hperm.1, _, rfl, ?_, ?_⟩
  · simp [hperm.2]
  · rw [hsaves]
    rw [show t.saves ++ (n, t.log.length) :: extra = (t.saves ++ [(n, t.log.length)]) ++ extra by simp]
    exact List.take_left' (by simp)
  · rw [hlog]; simp

/-- DELETE after the savepoint is not undone (it is never recorded) -/
theorem C14_delete_counterexample : ¬ C14_full := by
  intro h
  have h1 := h (run (init []) [.insert [[.int 1]], .begin])
    { snapRows := [[.int 1]], snapH := [], snapU := [], saves := [], log := [] } "A" [.delete [0]] rfl
    (by simp [RegionOp])
  have h2 := h1.2.length_eq
  revert h2
  decide

/-- UPDATE after the savepoint is not undone either; and when it rewrites a row inserted after the
savepoint the undo of that insert fails (`RowNotFound`) -/
theorem C14_update_counterexample : ¬ C14_full := by
  intro h
  have h1 := h (run (init []) [.insert [[.int 1]], .begin])
    { snapRows := [[.int 1]], snapH := [], snapU := [], saves := [], log := [] } "A"
    [.insert [[.int 2]], .update [(1, [.int 3], [0])]] rfl (by simp [RegionOp])
  have h2 := h1.1
  revert h2
  decide

/-- non-vacuity of the partial theorem: a region with single and multi-row inserts, a nested
savepoint and a duplicate row -/
example :
    let s := run (init [([0], false)]) [.insert [[.int 1]], .begin]
    let region : List Op := [.insert [[.int 2]], .savepoint "B", .insert [[.int 3], [.int 4]]]
    (∀ op ∈ region, InsertOnlyOp "A" op) ∧
    (run (step s (.savepoint "A")).1 region).rows.length = 4 ∧
    (afterRollbackTo s "A" region).1.rows = [[.int 1]] := by
  refine ⟨by simp [InsertOnlyOp], by decide, by decide⟩

end VibeProof.C14
