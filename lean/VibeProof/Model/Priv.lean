import VibeProof.Generated.Consts
/-
C26 — model of the privilege store (crates/vibesql-catalog/src/store/privileges.rs), the
GRANT / REVOKE executors (crates/vibesql-executor/src/{grant,revoke}.rs), role DDL, and the
decision logic of `PrivilegeChecker::check_privilege` (privilege_checker.rs), as coded:
names are compared with exact string equality, grants are a plain list (push / retain),
DROP ROLE and DROP TABLE leave grants behind, GRANT itself needs no privilege.
-/
namespace VibeProof.Priv

/-- `vibesql_ast::PrivilegeType`; the column lists of column-level privileges are kept
    because `==` on the Rust enum compares them (`Select(None) ≠ Select(Some cols)`). -/
inductive Priv where
  | select (cols : Option (List String))
  | insert (cols : Option (List String))
  | update (cols : Option (List String))
  | delete
  | references (cols : Option (List String))
  | usage
  | create
  | execute
  | trigger
  | all
  deriving DecidableEq, Repr, Inhabited

/-- `vibesql_catalog::PrivilegeGrant` (object type omitted: never compared) -/
structure Grant where
  object : String
  privilege : Priv
  grantee : String
  grantor : String
  withGrantOption : Bool
  deriving DecidableEq, Repr, Inhabited

abbrev Grants := List Grant

/-- the test every store function uses: `g.object == object && g.grantee == grantee && g.privilege == *priv` -/
def Grant.isFor (x : Grant) (grantee object : String) (p : Priv) : Bool :=
  x.grantee == grantee && x.object == object && x.privilege == p

/-- `Catalog::add_grant`: push -/
def addGrant (gs : Grants) (x : Grant) : Grants := gs ++ [x]

/-- `Catalog::has_privilege`: any -/
def hasPrivilege (gs : Grants) (grantee object : String) (p : Priv) : Bool :=
  gs.any (fun x => x.isFor grantee object p)

/-- `Catalog::remove_grants` (returns the new list; the count is not modelled) -/
def removeGrants (gs : Grants) (object grantee : String) (p : Priv) (grantOptionOnly : Bool) : Grants :=
  if grantOptionOnly then
    gs.map (fun x => if x.isFor grantee object p then { x with withGrantOption := false } else x)
  else
    gs.filter (fun x => !(x.isFor grantee object p))

/-- `Catalog::has_dependent_grants`: grants made *by* the grantee -/
def hasDependentGrants (gs : Grants) (object grantee : String) (p : Priv) : Bool :=
  gs.any (fun x => x.object == object && x.grantor == grantee && x.privilege == p)

/-! ### basic histories (what the history theorem is about) -/

inductive Op where
  | grant (x : Grant)
  | revoke (object grantee : String) (p : Priv)          -- remove_grants, grant_option_only = false
  | revokeOption (object grantee : String) (p : Priv)    -- remove_grants, grant_option_only = true
  deriving Repr

def applyOp (gs : Grants) : Op → Grants
  | .grant x => addGrant gs x
  | .revoke o g p => removeGrants gs o g p false
  | .revokeOption o g p => removeGrants gs o g p true

def run (gs : Grants) (h : List Op) : Grants := h.foldl applyOp gs

/-- what an operation says about the triple (grantee, object, privilege): `some true` = grants
    it, `some false` = revokes it, `none` = does not concern it (exact equality on all three) -/
def touch (g o : String) (p : Priv) : Op → Option Bool
  | .grant x => if x.isFor g o p then some true else none
  | .revoke o' g' p' => if g' = g ∧ o' = o ∧ p' = p then some false else none
  | .revokeOption _ _ _ => none

/-- the last operation of the history concerning the triple -/
def lastTouch (g o : String) (p : Priv) : List Op → Option Bool
  | [] => none
  | op :: rest =>
    match lastTouch g o p rest with
    | some b => some b
    | none => touch g o p op

/-! ### statements: CREATE/DROP ROLE, GRANT, REVOKE as the executors run them -/

inductive Err where
  | tableNotFound | roleNotFound | roleExists | dependentPrivileges | stackOverflow
  deriving DecidableEq, Repr

structure Cat where
  roles : List String
  tables : List String
  grants : Grants
  deriving Repr

inductive Cascade where
  | none | cascade | restrict
  deriving DecidableEq, Repr

/-- ALL PRIVILEGES on a table, as grant.rs / revoke.rs expand it -/
def allTablePrivs : List Priv :=
  [.select none, .insert none, .update none, .delete, .references none]

def expand (ps : List Priv) : List Priv :=
  if ps.contains .all then allTablePrivs else ps

def createRole (c : Cat) (name : String) : Except Err Cat :=
  if c.roles.contains name then .error .roleExists else .ok { c with roles := c.roles ++ [name] }

def dropRole (c : Cat) (name : String) : Except Err Cat :=
  if c.roles.contains name then .ok { c with roles := c.roles.filter (· != name) } else .error .roleNotFound

/-- `GrantExecutor::execute_grant` for `ObjectType::Table` -/
def execGrant (c : Cat) (currentRole : String) (privs : List Priv) (object : String)
    (grantees : List String) (wgo : Bool) : Except Err Cat :=
  if !c.tables.contains object then .error .tableNotFound
  else if !grantees.all (fun g => c.roles.contains g) then .error .roleNotFound
  else
    let news := grantees.flatMap (fun g => (expand privs).map (fun p =>
      ({ object := object, privilege := p, grantee := g, grantor := currentRole, withGrantOption := wgo } : Grant)))
    .ok { c with grants := news.foldl addGrant c.grants }

/-- `RevokeExecutor::revoke_cascade`; the recursion depth of the Rust function is unbounded
    (a cycle of grantors with GRANT OPTION FOR never shrinks), so the model takes fuel and
    reports exhaustion as an outcome -/
def revokeCascade : Nat → Grants → String → String → Priv → Bool → Except Err Grants
  | 0, _, _, _, _, _ => .error .stackOverflow
  | fuel + 1, gs, object, grantor, p, optOnly =>
    let deps := (gs.filter (fun x => x.object == object && x.grantor == grantor && x.privilege == p)).map (·.grantee)
    deps.foldlM (fun gs d => revokeCascade fuel (removeGrants gs object d p optOnly) object d p optOnly) gs

/-- `RevokeExecutor::execute_revoke` for `ObjectType::Table` -/
def execRevoke (fuel : Nat) (c : Cat) (privs : List Priv) (object : String) (grantees : List String)
    (grantOptionFor : Bool) (casc : Cascade) : Except Err Cat :=
  if !c.tables.contains object then .error .tableNotFound
  else if !grantees.all (fun g => c.roles.contains g) then .error .roleNotFound
  else
    let ps := expand privs
    let pairs := grantees.flatMap (fun g => ps.map (fun p => (g, p)))
    if casc == .restrict && pairs.any (fun gp => hasDependentGrants c.grants object gp.1 gp.2) then
      .error .dependentPrivileges
    else do
      let gs ← pairs.foldlM (fun gs gp =>
        let gs1 := removeGrants gs object gp.1 gp.2 grantOptionFor
        if casc == .cascade then revokeCascade fuel gs1 object gp.1 gp.2 grantOptionFor else .ok gs1) c.grants
      pure { c with grants := gs }

/-! ### the decision: `PrivilegeChecker::check_privilege` and statement footprints -/

inductive Access where
  | select | insert | update | delete
  deriving DecidableEq, Repr

/-- privilege each check function asks for (`check_select` … `check_delete`) -/
def Access.priv : Access → Priv
  | .select => .select none
  | .insert => .insert none
  | .update => .update none
  | .delete => .delete

structure Check where
  access : Access
  object : String
  deriving DecidableEq, Repr

def isAdmin (role : String) : Bool := Generated.privAdminRoles.contains role

/-- `check_privilege`: security disabled → ok; admin role → ok; otherwise `has_privilege` -/
def checkPrivilege (sec : Bool) (role : String) (gs : Grants) (c : Check) : Bool :=
  !sec || isAdmin role || hasPrivilege gs role c.object c.access.priv

/-- tables a query reads, as a tree: every FROM item at any nesting depth, subqueries in any
    clause, CTE bodies and derived tables (`both`), and views: the view's own name is
    checked, then its body is executed under the same role -/
inductive Fp where
  | none
  | table (name : String)
  | view (name : String) (body : Fp)
  | both (a b : Fp)
  deriving Repr

def Fp.reads : Fp → List String
  | .none => []
  | .table n => [n]
  | .view n b => n :: b.reads
  | .both a b => a.reads ++ b.reads

inductive Stmt where
  | select (q : Fp)
  | insert (target : String) (source : Fp)      -- VALUES: `Fp.none`; INSERT … SELECT: the query
  | update (target : String) (subqueries : Fp)
  | delete (target : String) (subqueries : Fp)
  /-- TRUNCATE of several tables (multi-table form, or the root and every table that
      references it through foreign keys, transitively, for CASCADE) and DROP TABLE (one
      table): `check_delete` / `check_drop` ask for DELETE on each table -/
  | truncate (targets : List String)
  deriving Repr

def Stmt.reads : Stmt → List String
  | .select q => q.reads
  | .insert _ s => s.reads
  | .update _ s => s.reads
  | .delete _ s => s.reads
  | .truncate _ => []

def Stmt.write : Stmt → Option Check
  | .select _ => none
  | .insert t _ => some ⟨.insert, t⟩
  | .update t _ => some ⟨.update, t⟩
  | .delete t _ => some ⟨.delete, t⟩
  | .truncate _ => none

/-- write checks of the statements that touch several tables -/
def Stmt.moreWrites : Stmt → List Check
  | .truncate ts => ts.map (fun t => ⟨.delete, t⟩)
  | _ => []

/-- checks in the order the executors make them: the write privilege(s) first, then reads -/
def Stmt.checks (s : Stmt) : List Check :=
  (match s.write with | some c => [c] | none => []) ++ s.moreWrites ++ s.reads.map (fun t => ⟨.select, t⟩)

inductive Decision where
  | allow
  | deny (c : Check)
  deriving DecidableEq, Repr

def firstDenied (sec : Bool) (role : String) (gs : Grants) : List Check → Decision
  | [] => .allow
  | c :: cs => if checkPrivilege sec role gs c then firstDenied sec role gs cs else .deny c

def authorize (sec : Bool) (role : String) (gs : Grants) (s : Stmt) : Decision :=
  firstDenied sec role gs s.checks

/-- what the caller of a statement sees -/
inductive Outcome where
  | done                       -- executed
  | permissionDenied (c : Check)
  | inertSuccess               -- DELETE as coded: an error while evaluating WHERE counts as "no match"
  deriving DecidableEq, Repr

/-- one statement against a database of any type: `effect` is what the statement does when
    it runs. As coded, DELETE swallows evaluation errors of its WHERE clause
    (`matches!(evaluator.eval(..), Ok(Boolean(true)))`), so a denied subquery makes it report
    success with nothing deleted. -/
def step {DB : Type} (sec : Bool) (role : String) (gs : Grants) (s : Stmt) (effect : DB → DB) (db : DB) :
    DB × Outcome :=
  match authorize sec role gs s with
  | .allow => (effect db, .done)
  | .deny c =>
    match s with
    | .delete t _ => if c = ⟨.delete, t⟩ then (db, .permissionDenied c) else (db, .inertSuccess)
    | _ => (db, .permissionDenied c)

end VibeProof.Priv
