# C07: the arm of the optimizer's subquery-rewrite traversal (rewrite_expression_at) that rebuilds an
# aggregate node, re-read from the source on every run: which fields the pattern binds and what each
# field of the rebuilt node is initialised with.  The Lean model of the traversal (Model/Agg.lean
# `rewriteAt`) copies name and DISTINCT flag; Props/C07.lean checks the source still does.
import re


def extract(read):
    src = read("crates/vibesql-executor/src/optimizer/subquery_rewrite/expression.rs")
    out = []
    arms = re.findall(r"Expression::AggregateFunction\s*\{([^}]*)\}\s*=>\s*Expression::AggregateFunction\s*\{(.*?)\n\s{8}\},", src, re.S)
    pats, fields = [], []
    for pat, body in arms:
        pats.append([p.strip() for p in pat.split(",") if p.strip()])
        fs = []
        for m in re.finditer(r"(\w+)\s*:\s*(.*?)(?:,\s*\n|,?\s*$)", body.strip(), re.S):
            fs.append((m.group(1), " ".join(m.group(2).split())))
        fields.append(fs)
    out.append("/-- subquery_rewrite/expression.rs: fields bound by the pattern of each arm that rebuilds an aggregate node -/")
    out.append("def c07RewriteAggPatterns : List (List String) := [%s]"
               % ", ".join("[%s]" % ", ".join('"%s"' % p for p in ps) for ps in pats))
    out.append("/-- … and (field, initialiser) of the rebuilt node, as written -/")
    out.append("def c07RewriteAggFields : List (List (String × String)) := [%s]"
               % ", ".join("[%s]" % ", ".join('("%s", "%s")' % (a, b.replace('"', "'")) for a, b in fs) for fs in fields))
    return "\n".join(out) + "\n"
