//! C32 — views and CTEs behave as their defining query.
//!
//! Direct oracle (engine only): the same outer query over (a) a view, (b) a CTE, (c) the
//! definition inlined as a derived table must return the same multiset — before and after DML
//! on the base tables (the view is NOT re-created: it must reflect the current contents).
//! Correspondence: each of the three vs the Lean model (`View.evalNamed` / `evalDerived`).
use vharness::qast::*;
use vharness::sqlast::*;
use vharness::*;

struct Case {
    dbd: DbDef,
    body: Core,
    outer: Core,
    with_cols: bool,
    /// the definition is written `SELECT * FROM t [WHERE …]` (output columns keep the base names)
    star: Option<usize>,
    /// column references written without the table / view qualifier
    unq: bool,
}

fn forms(c: &Case, db2: &DbDef) -> (String, String, String, String) {
    UNQUALIFIED.with(|u| u.set(c.unq));
    let r = forms_inner(c, db2);
    UNQUALIFIED.with(|u| u.set(false));
    r
}

fn forms_inner(c: &Case, db2: &DbDef) -> (String, String, String, String) {
    let mut body_sql = c.body.sql(&c.dbd);
    if c.star.is_some() {
        let at = body_sql.find(" FROM ").unwrap();
        body_sql = format!("SELECT *{}", &body_sql[at..]);
    }
    let outer_sql = c.outer.sql(db2);
    // an explicit column list RENAMES the definition's columns (o<i> -> w<i>) in all three spellings
    let n_out = c.body.select.len();
    let wcols: Vec<String> = (0..n_out).map(|i| format!("w{}", i)).collect();
    let (create, cte, derived_body) = if c.with_cols {
        (
            format!("CREATE VIEW v ({}) AS {}", wcols.join(", "), body_sql),
            format!("WITH v ({}) AS ({}) {}", wcols.join(", "), body_sql, outer_sql),
            format!(
                "(SELECT {} FROM ({}) AS vb) AS v",
                (0..n_out).map(|i| format!("vb.o{} AS w{}", i, i)).collect::<Vec<_>>().join(", "),
                body_sql
            ),
        )
    } else {
        (format!("CREATE VIEW v AS {}", body_sql), format!("WITH v AS ({}) {}", body_sql, outer_sql), format!("({}) AS v", body_sql))
    };
    let derived = replace_table_token(&outer_sql, "v", &derived_body);
    (create, outer_sql, cte, derived)
}

/// replaces the table reference `name` (a whole word not followed by '.') by `with`
fn replace_table_token(sql: &str, name: &str, with: &str) -> String {
    let b = sql.as_bytes();
    let mut out = String::new();
    let mut i = 0;
    let mut in_str = false;
    while i < b.len() {
        if b[i] == b'\'' {
            in_str = !in_str;
        }
        let word_start = i == 0 || !(b[i - 1].is_ascii_alphanumeric() || b[i - 1] == b'_' || b[i - 1] == b'.');
        if !in_str && word_start && sql[i..].starts_with(name) {
            let j = i + name.len();
            let word_end = j >= b.len() || !(b[j].is_ascii_alphanumeric() || b[j] == b'_' || b[j] == b'.');
            if word_end {
                out.push_str(with);
                i = j;
                continue;
            }
        }
        out.push(b[i] as char);
        i += 1;
    }
    out
}

fn with_v(c: &Case) -> DbDef {
    let tys = c.body.out_tys(&c.dbd);
    let mut d = c.dbd.clone();
    let cols = match c.star {
        Some(t) if !c.with_cols => c.dbd.tables[t].schema.cols.clone(),
        _ => tys.iter().enumerate().map(|(i, t)| (format!("{}{}", if c.with_cols { "w" } else { "o" }, i), *t)).collect(),
    };
    d.tables.push(TableDef { schema: Schema { table: "v".into(), cols }, rows: vec![] });
    d
}

fn check_round(c: &Case, db: &mut Db, model: &mut model::Model, rep: &mut Report, phase: &str, script: &str) {
    let db2 = with_v(c);
    let (_create, view_q, cte_q, derived_q) = forms(c, &db2);
    let outs = [("view", db.query(&view_q), view_q.clone()), ("cte", db.query(&cte_q), cte_q.clone()), ("derived", db.query(&derived_q), derived_q.clone())];
    let req = |kind: &str| format!("named {} {} {} {}", kind, c.dbd.sx(), c.body.sx(), c.outer.sx());
    let m = parse_ref(&model.ask(&req("view")));
    let m_cte = parse_ref(&model.ask(&req("cte")));
    let m_der = parse_ref(&model.ask(&req("derived")));
    let key = |x: &Result<RefResult, String>| x.as_ref().map(|r| (r.det, r.rows.clone())).map_err(|e| e.clone());
    if key(&m) != key(&m_cte) || key(&m) != key(&m_der) {
        rep.fail(FailKind::ModelDiff, None, "model: view / cte / derived forms differ (contradicts theorem C32_view_eq_cte)", &req("view"));
    }
    rep.count(&format!("round_{}", phase));
    // direct oracle: all three agree
    let bags: Vec<Option<Vec<String>>> = outs.iter().map(|(_, o, _)| o.rows().map(|r| canon::bag_vec(r))).collect();
    for (k, (name, o, q)) in outs.iter().enumerate() {
        if o.is_panic() {
            rep.fail(FailKind::Oracle, None, &format!("engine panicked on the {} form", name), &format!("{}{};\n => {}", script, q, o.brief()));
        }
        let _ = k;
    }
    let replay = || {
        format!(
            "{}-- phase: {}\n{};\n  => {}\n{};\n  => {}\n{};\n  => {}\n-- model request: {}\n-- model: {:?}",
            script, phase, outs[0].2, outs[0].1.brief(), outs[1].2, outs[1].1.brief(), outs[2].2, outs[2].1.brief(), req("view"), m.as_ref().map(|r| (r.det, r.rows.clone()))
        )
    };
    let limited = c.outer.limit.is_some() || c.outer.offset > 0;
    let all_rows = bags.iter().all(|b| b.is_some());
    if !all_rows {
        // some form rejected: either all reject (outside the engine's subset: counted) or a gap
        let n_err = outs.iter().filter(|x| x.1.is_err()).count();
        if n_err == 3 {
            rep.count("all_three_rejected");
        } else {
            let sig = classify(c, &outs.iter().map(|x| x.1.clone()).collect::<Vec<_>>());
            rep.fail(FailKind::Oracle, sig, "one spelling (view / CTE / derived table) is rejected while another is answered", &replay());
        }
        return;
    }
    // correspondence with the model = the direct oracle here: each spelling must agree with the
    // defining query evaluated by the reference (tie-robust for LIMIT/OFFSET), hence with each other
    rep.traces_validated += 1;
    match &m {
        Ok(mr) => {
            for (name, o, _) in outs.iter() {
                match compare_with_ref(o.rows().unwrap(), mr, &c.outer.order_by, limited) {
                    Ok(kind) => rep.count(kind),
                    Err(what) => {
                        let sig = classify(c, &outs.iter().map(|x| x.1.clone()).collect::<Vec<_>>());
                        rep.fail(FailKind::Oracle, sig, &format!("{} spelling: {}", name, what), &replay());
                        break;
                    }
                }
            }
            if !limited && (bags[0] != bags[2] || bags[1] != bags[2]) {
                rep.fail(FailKind::Oracle, None, "view / CTE / derived-table spellings of the same query return different multisets", &replay());
            }
        }
        Err(e) => rep.fail(FailKind::ModelDiff, None, &format!("model rejects a view query the engine answers: {}", e), &replay()),
    }
}

/// recorded engine gaps (narrow classes)
fn classify(_c: &Case, _outs: &[Out]) -> Option<&'static str> {
    None
}

fn run_case(c: &mut Case, r: &mut Rng, model: &mut model::Model, rep: &mut Report) {
    let mut db = Db::new();
    c.dbd.load(&mut db);
    let db2 = with_v(c);
    let (create, _, _, _) = forms(c, &db2);
    let mut index_script = String::new();
    if r.chance(1, 3) {
        // secondary indexes on the base tables: neither the view nor the model knows about them
        for ix in random_index_sql(r, &c.dbd) {
            db.must(&ix);
            index_script.push_str(&format!("{};\n", ix));
        }
        rep.count("database_with_secondary_indexes");
    }
    let mut script = format!("{}{}{};\n", c.dbd.script(), index_script, create);
    let cv = db.exec(&create);
    let case_id = format!("{} {} {}", c.dbd.sx(), c.body.sx(), c.outer.sx());
    if !cv.is_ok() {
        rep.case(&case_id, false);
        rep.count("create_view_rejected");
        if cv.is_panic() {
            rep.fail(FailKind::Oracle, None, "CREATE VIEW panicked", &format!("{} => {}", script, cv.brief()));
        }
        return;
    }
    let mut feats = vec![];
    if c.star.is_some() {
        rep.count("body_select_star");
    }
    rep.count(if c.unq { "names_unqualified" } else { "names_qualified" });
    if c.outer.where_.is_some() && c.dbd.tables.iter().any(|t| t.rows.len() >= 1000) {
        rep.count("outer_where_over_view_of_1000_rows_or_more");
    }
    Query::Core(c.body.clone()).features(&mut feats);
    for f in &feats {
        rep.count(&format!("body_{}", f));
    }
    let mut of = vec![];
    Query::Core(c.outer.clone()).features(&mut of);
    for f in &of {
        rep.count(&format!("outer_{}", f));
    }
    rep.case(&case_id, feats.len() + of.len() >= 3);
    check_round(c, &mut db, model, rep, "initial", &script);
    // DML on the base tables the definition reads, then the same three queries again
    let mut ts = vec![];
    c.body.from.tables(&mut ts);
    let t = *r.pick(&ts);
    let schema = c.dbd.tables[t].schema.clone();
    for _ in 0..2 {
        match r.below(3) {
            0 | 1 => {
                let rows = gen_rows(r, &schema, 1);
                let items: Vec<String> = rows[0].iter().map(|v| v.sql()).collect();
                let sql = format!("INSERT INTO {} SELECT {}", schema.table, items.join(", "));
                db.must(&sql);
                script.push_str(&format!("{};\n", sql));
                c.dbd.tables[t].rows.push(rows[0].clone());
                rep.count("dml_insert");
            }
            _ => {
                let ci = schema.cols_of(Ty::Int)[0];
                let k = r.range(-2, 3);
                let sql = format!("DELETE FROM {} WHERE {} = {}", schema.table, schema.cols[ci].0, Lit::I(k).sql());
                db.must(&sql);
                script.push_str(&format!("{};\n", sql));
                c.dbd.tables[t].rows.retain(|row| row[ci] != Lit::I(k));
                rep.count("dml_delete");
            }
        }
    }
    check_round(c, &mut db, model, rep, "after_dml", &script);
    if r.chance(1, 3) {
        // empty every table the definition reads (the view becomes empty), look again, refill, look again
        for t in ts.iter() {
            let name = c.dbd.tables[*t].schema.table.clone();
            let sql = format!("DELETE FROM {}", name);
            if c.dbd.tables[*t].rows.is_empty() {
                continue;
            }
            db.must(&sql);
            script.push_str(&format!("{};\n", sql));
            c.dbd.tables[*t].rows.clear();
        }
        rep.count("dml_emptied");
        check_round(c, &mut db, model, rep, "emptied", &script);
        let schema = c.dbd.tables[t].schema.clone();
        for row in gen_rows(r, &schema, 3) {
            let items: Vec<String> = row.iter().map(|v| v.sql()).collect();
            let sql = format!("INSERT INTO {} SELECT {}", schema.table, items.join(", "));
            db.must(&sql);
            script.push_str(&format!("{};\n", sql));
            c.dbd.tables[t].rows.push(row);
        }
        check_round(c, &mut db, model, rep, "refilled", &script);
    }
}

/// chains of definitions: `v` = body over the base tables, `v2` = mid over `v`, outer over `v2`,
/// spelled as view over view, CTE over CTE, CTE over view, nested derived tables, and with an
/// unused CTE in front; all must agree with the model's `evalChain` (theorems C32_chain_unfold,
/// C32_unused_definition, C32_star_over_definition)
fn run_chain_case(r: &mut Rng, quick: bool, model: &mut model::Model, rep: &mut Report) {
    let dbd = gen_db(r, 3, if quick { 8 } else { 20 });
    let body = { let g = QGen { db: &dbd, subqueries: false, force_from: None }; g.gen_core(r, false) };
    let unq = r.chance(1, 4);
    let mk = |d: &DbDef, name: &str, c: &Core| {
        let mut d2 = d.clone();
        let cols = c.out_tys(d).iter().enumerate().map(|(i, t)| (format!("o{}", i), *t)).collect();
        d2.tables.push(TableDef { schema: Schema { table: name.into(), cols }, rows: vec![] });
        d2
    };
    let db2 = mk(&dbd, "v", &body);
    let star_mid = r.chance(1, 4);
    let mid = if star_mid {
        Core { from: From::Table(3), where_: None, group: None, select: (0..db2.tables[3].schema.cols.len()).map(E::Col).collect(), distinct: false, order_by: vec![], limit: None, offset: 0 }
    } else {
        let g = QGen { db: &db2, subqueries: false, force_from: Some(From::Table(3)) };
        g.gen_core(r, false)
    };
    let db3 = mk(&db2, "v2", &mid);
    let outer = { let g = QGen { db: &db3, subqueries: false, force_from: Some(From::Table(4)) }; g.gen_core(r, true) };
    UNQUALIFIED.with(|u| u.set(unq));
    let body_sql = body.sql(&dbd);
    let mut mid_sql = mid.sql(&db2);
    if star_mid {
        let at = mid_sql.find(" FROM ").unwrap();
        mid_sql = format!("SELECT *{}", &mid_sql[at..]);
    }
    let outer_sql = outer.sql(&db3);
    UNQUALIFIED.with(|u| u.set(false));
    let case_id = format!("chain {} {} {} {}", dbd.sx(), body.sx(), mid.sx(), outer.sx());
    let mut db = Db::new();
    dbd.load(&mut db);
    let c1 = format!("CREATE VIEW v AS {}", body_sql);
    let c2 = format!("CREATE VIEW v2 AS {}", mid_sql);
    let script = format!("{}{};\n{};\n", dbd.script(), c1, c2);
    let o1 = db.exec(&c1);
    let o2 = if o1.is_ok() { db.exec(&c2) } else { o1.clone() };
    if !o1.is_ok() || !o2.is_ok() {
        rep.case(&case_id, false);
        rep.count("chain_create_view_rejected");
        if o1.is_panic() || o2.is_panic() {
            rep.fail(FailKind::Oracle, None, "CREATE VIEW panicked", &format!("{} => {} / {}", script, o1.brief(), o2.brief()));
        }
        return;
    }
    rep.case(&case_id, true);
    rep.count("chain_case");
    if star_mid {
        rep.count("chain_second_definition_is_select_star");
    }
    let nested_mid = replace_table_token(&mid_sql, "v", &format!("({}) AS v", body_sql));
    let spellings = vec![
        ("view over view", outer_sql.clone()),
        ("cte over cte", format!("WITH v AS ({}), v2 AS ({}) {}", body_sql, mid_sql, outer_sql)),
        ("cte over view", format!("WITH v2 AS ({}) {}", mid_sql, outer_sql)),
        ("nested derived tables", replace_table_token(&outer_sql, "v2", &format!("({}) AS v2", nested_mid))),
        ("unused cte in front", format!("WITH zz AS ({}) {}", body_sql, outer_sql)),
    ];
    let req = format!("chain {} ({} {}) {}", dbd.sx(), body.sx(), mid.sx(), outer.sx());
    let m = parse_ref(&model.ask(&req));
    let outs: Vec<(&str, String, Out)> = spellings.into_iter().map(|(n, q)| { let o = db.query(&q); (n, q, o) }).collect();
    let replay = || {
        let mut s = script.clone();
        for (n, q, o) in &outs {
            s.push_str(&format!("-- {}\n{};\n  => {}\n", n, q, o.brief()));
        }
        s.push_str(&format!("-- model request: {}\n-- model: {:?}", req, m.as_ref().map(|r| (r.det, r.rows.clone()))));
        s
    };
    for (n, _, o) in &outs {
        if o.is_panic() {
            rep.fail(FailKind::Oracle, None, &format!("engine panicked on the {} spelling", n), &replay());
            return;
        }
    }
    let n_err = outs.iter().filter(|x| x.2.is_err()).count();
    if n_err == outs.len() {
        rep.count("chain_all_rejected");
        return;
    }
    if n_err > 0 {
        rep.fail(FailKind::Oracle, None, "chain of definitions: one spelling is rejected while another is answered", &replay());
        return;
    }
    rep.traces_validated += 1;
    let limited = outer.limit.is_some() || outer.offset > 0;
    match &m {
        Ok(mr) => {
            for (n, _, o) in &outs {
                match compare_with_ref(o.rows().unwrap(), mr, &outer.order_by, limited) {
                    Ok(kind) => rep.count(&format!("chain_{}", kind)),
                    Err(what) => {
                        rep.fail(FailKind::Oracle, None, &format!("chain of definitions, {} spelling: {}", n, what), &replay());
                        return;
                    }
                }
            }
        }
        Err(e) => rep.fail(FailKind::ModelDiff, None, &format!("model rejects a chain the engine answers: {}", e), &replay()),
    }
}

/// deterministic probes (minimised past failure, fixed b16cfa2c): wildcard definitions in the
/// three spellings, empty and non-empty, with a second CTE over the first
fn star_probes(rep: &mut Report) {
    let mut db = Db::new();
    db.must("CREATE TABLE t0 (a INTEGER, b VARCHAR(20))");
    db.must("INSERT INTO t0 VALUES (1, 'a'), (-2, 'ab'), (NULL, NULL)");
    db.must("CREATE VIEW sv AS SELECT * FROM t0 WHERE a < 4");
    let spell = |w: &str| {
        vec![
            format!("SELECT sv.a, sv.b FROM sv {}", w),
            format!("WITH sv AS (SELECT * FROM t0 WHERE a < 4) SELECT sv.a, sv.b FROM sv {}", w),
            format!("SELECT sv.a, sv.b FROM (SELECT * FROM t0 WHERE a < 4) AS sv {}", w),
            format!("WITH sv AS (SELECT t0.* FROM t0 WHERE a < 4) SELECT sv.a, sv.b FROM sv {}", w),
            format!("WITH u AS (SELECT * FROM t0), sv AS (SELECT * FROM u WHERE a < 4) SELECT sv.a, sv.b FROM sv {}", w),
        ]
    };
    for w in ["", "WHERE sv.a > 0", "WHERE sv.a > 100"] {
        let outs: Vec<(String, Out)> = spell(w).into_iter().map(|q| { let o = db.query(&q); (q, o) }).collect();
        rep.case(&format!("star probe {}", w), true);
        let first = outs[0].1.rows().map(|r| canon::bag_vec(r));
        for (q, o) in &outs {
            if first.is_none() || o.rows().map(|r| canon::bag_vec(r)) != first {
                rep.fail(FailKind::Oracle, None, "wildcard definition: view / CTE / derived-table spellings differ", &format!("{}\n{}\n => {}\nview form => {}", db.log.join(";\n"), q, o.brief(), outs[0].1.brief()));
                break;
            }
        }
    }
}

fn main() {
    engine::silence_panics();
    let args = Args::parse("C32");
    let mut rep = Report::new(
        &args,
        "case = (database, defining SELECT, outer SELECT over its output columns); each case runs view / CTE / derived-table \
         spellings before and after DML on a base table; non-trivial = definition and outer query together use ≥3 features; \
         distinct by hash of (database, definition, outer query)",
    );
    let mut model = args.model();
    star_probes(&mut rep);
    let mut rng = Rng::new(args.seed);
    let n = args.n(500, 15000);
    for i in 0..n {
        let mut r = rng.fork();
        if i % 5 == 3 {
            run_chain_case(&mut r, args.quick(), &mut model, &mut rep);
            continue;
        }
        let dbd = gen_db(&mut r, 3, if args.quick() { 8 } else { 20 });
        let mut body = { let g = QGen { db: &dbd, subqueries: false, force_from: None }; g.gen_core(&mut r, false) };
        let mut star = None;
        if r.chance(1, 5) {
            // wildcard definition over one base table, optional WHERE
            let t = r.below(dbd.tables.len() as u64) as usize;
            let sg = QGen { db: &dbd, subqueries: false, force_from: Some(From::Table(t)) };
            body = sg.gen_core(&mut r, false);
            body.group = None;
            body.distinct = false;
            body.select = (0..dbd.tables[t].schema.cols.len()).map(E::Col).collect();
            star = Some(t);
        }
        // every 10th case: a view over a table of 100-300 rows (the size from which the scan of a
        // view / CTE uses the columnar predicate path), outer WHERE = AND/OR tree of simple comparisons
        let large = i % 10 == 9;
        let mut dbd = dbd;
        if large {
            dbd = gen_db(&mut r, 3, 4);
            let t = r.below(3) as usize;
            // (1100 rows: above the parallel scan-filter threshold of views / CTEs on machines with 8+ cores)
            let n = *r.pick(&[100usize, 128, 129, 200, 256, 300, 1100, 1100, 1100, 1300, 1300]);
            dbd.tables[t].rows = gen_rows(&mut r, &dbd.tables[t].schema, n);
            body = Core { from: From::Table(t), where_: None, group: None, select: (0..dbd.tables[t].schema.cols.len()).map(E::Col).collect(), distinct: false, order_by: vec![], limit: None, offset: 0 };
            star = if r.chance(1, 2) { Some(t) } else { None };
            rep.count("large_view_case");
        }
        let mut c = Case { dbd: dbd.clone(), body, star, unq: r.chance(1, 4), outer: Core { from: From::Table(3), where_: None, group: None, select: vec![], distinct: false, order_by: vec![], limit: None, offset: 0 }, with_cols: star.is_none() && r.chance(1, 3) };
        let db2 = with_v(&c);
        let mut outer_from = From::Table(3);
        // (view columns' offset in the join row, their count) when the view is on the null-supplying
        // side of an outer join and the WHERE clause is to be a non-null-rejecting test on them
        let mut null_side_probe: Option<(usize, usize)> = None;
        if r.chance(1, 3) {
            // the view joined with a base table (either side, every join type)
            let mut t = r.below(3) as usize;
            let probe = r.chance(1, 2);
            if probe && c.star == Some(t) {
                // a wildcard view keeps the base column names: join it with ANOTHER table so that
                // unqualified references stay unambiguous
                t = (t + 1) % 3;
            }
            let view_left = r.chance(1, 2);
            let (lw, l, rr) = if !view_left { (db2.tables[t].schema.cols.len(), From::Table(t), From::Table(3)) } else { (db2.tables[3].schema.cols.len(), From::Table(3), From::Table(t)) };
            let cross = From::Cross(Box::new(l.clone()), Box::new(rr.clone()));
            let tys = cross.tys(&db2);
            let li: Vec<usize> = (0..lw).filter(|i| tys[*i] == Ty::Int).collect();
            let ri: Vec<usize> = (lw..tys.len()).filter(|i| tys[*i] == Ty::Int).collect();
            let on = if !li.is_empty() && !ri.is_empty() {
                E::Bin(Op::Eq, Box::new(E::Col(*r.pick(&li))), Box::new(E::Col(*r.pick(&ri))))
            } else {
                E::Bin(Op::Eq, Box::new(E::Lit(Lit::I(1))), Box::new(E::Lit(Lit::I(1))))
            };
            let vw = db2.tables[3].schema.cols.len();
            let kind = if probe {
                // the view on the null-supplying side: LEFT with the view on the right, RIGHT with
                // the view on the left, or FULL
                if r.chance(1, 4) { 4 } else if view_left { 3 } else { 2 }
            } else {
                r.below(5)
            };
            outer_from = match kind {
                0 => cross,
                1 => From::Inner(Box::new(l), Box::new(rr), on),
                2 => From::Left(Box::new(l), Box::new(rr), on),
                3 => From::Right(Box::new(l), Box::new(rr), on),
                _ => From::Full(Box::new(l), Box::new(rr), on),
            };
            rep.count("outer_joins_view_with_base_table");
            if c.star.is_some() {
                // a wildcard view keeps the base column names: unqualified references would be ambiguous
                c.unq = false;
            }
            if probe {
                null_side_probe = Some((if view_left { 0 } else { lw }, vw));
                // unqualified names 3 times in 4 (WHERE conjuncts over unqualified names are the ones
                // the planner pushes into a view / CTE scan)
                c.unq = r.chance(3, 4);
                rep.count("outer_join_view_on_null_supplying_side");
            }
        }
        if large {
            outer_from = From::Table(3);
            null_side_probe = None;
            c.unq = r.chance(3, 4);
        }
        let og = QGen { db: &db2, subqueries: false, force_from: Some(outer_from) };
        c.outer = og.gen_core(&mut r, true);
        if let Some((off, vw)) = null_side_probe {
            // WHERE = a test on the view's own columns that NULL-extended rows pass (not null-rejecting):
            // filtering the view before the join instead of after it changes the result
            let tys = c.outer.from.tys(&db2);
            let ints: Vec<usize> = (off..off + vw).filter(|i| tys[*i] == Ty::Int).collect();
            let col = if !ints.is_empty() && r.chance(3, 4) { *r.pick(&ints) } else { off + r.below(vw as u64) as usize };
            let k = Lit::I(r.range(-2, 3));
            let is_null = E::IsNull(Box::new(E::Col(col)), false);
            let e = if tys[col] == Ty::Int {
                match r.below(4) {
                    0 => is_null,
                    1 => E::Bin(Op::Eq, Box::new(E::Coalesce(Box::new(E::Col(col)), Box::new(E::Lit(k.clone())))), Box::new(E::Lit(k))),
                    2 => E::Bin(Op::Or, Box::new(is_null), Box::new(E::Bin(Op::Gt, Box::new(E::Col(col)), Box::new(E::Lit(k))))),
                    _ => E::Not(Box::new(E::IsNull(Box::new(E::Col(col)), true))),
                }
            } else if r.chance(1, 2) {
                is_null
            } else {
                E::Not(Box::new(E::IsNull(Box::new(E::Col(col)), true)))
            };
            c.outer.where_ = Some(Pred::Ex(e));
        }
        if large && r.chance(if c.dbd.tables.iter().any(|t| t.rows.len() >= 1000) { 1 } else { 2 }, 3) {
            if let From::Table(t) = c.body.from {
                let probe = TableDef { schema: db2.tables[3].schema.clone(), rows: c.dbd.tables[t].rows.clone() };
                c.outer.where_ = Some(Pred::Ex(simple_pred_tree(&mut r, &probe)));
            }
        }
        if i < 4 {
            let (create, vq, _, _) = forms(&c, &db2);
            rep.sample(serde_json::json!({"create_view": create, "outer": vq}));
        }
        run_case(&mut c, &mut r, &mut model, &mut rep);
    }
    std::process::exit(rep.finish());
}
