//! C28 — server messages are well-formed protocol frames.
//!
//! Real code: `BackendMessage::encode` (+ `encode_notice_or_error`, `put_cstring`) of the server's
//! protocol/messages.rs, compiled into this binary from /repo's working tree.
//! Direct oracle (no model): the bytes start with the variant's type byte, the big-endian Int32
//! after it equals the number of bytes after the type byte, and an independent parser written
//! from the PostgreSQL message-format description recovers the same fields with nothing left
//! over (ErrorResponse/NoticeResponse fields as a map); several messages encoded into one buffer
//! parse back one by one.
//! Correspondence: the model's `encodeBackend` byte for byte against the real bytes, and the
//! model's independent parser run on the real bytes.
use std::collections::{BTreeMap, HashMap};
use std::panic::{catch_unwind, AssertUnwindSafe};

use bytes::BytesMut;
use vharness::sx::{hex, unhex};
use vharness::*;

#[allow(dead_code)]
#[path = "/repo/crates/vibesql-server/src/protocol/messages.rs"]
mod messages;
use messages::{BackendMessage, FieldDescription, TransactionStatus};

#[path = "../wiresrv.rs"]
mod wiresrv;

fn hx(b: &[u8]) -> String {
    if b.is_empty() {
        "-".into()
    } else {
        hex(b)
    }
}

/// what the independent parser returns / what a message is expected to parse to
#[derive(Clone, Debug, PartialEq, Eq)]
enum P {
    AuthOk,
    AuthClear,
    AuthMd5(Vec<u8>),
    ParamStatus(Vec<u8>, Vec<u8>),
    KeyData(i32, i32),
    Ready(u8),
    RowDesc(Vec<(Vec<u8>, i32, i16, i32, i16, i32, i16)>),
    DataRow(Vec<Option<Vec<u8>>>),
    Complete(Vec<u8>),
    Error(BTreeMap<u8, Vec<u8>>),
    Notice(BTreeMap<u8, Vec<u8>>),
    Empty,
}

// ---- independent parser, from the protocol description ("Message Formats") ----

struct Cur<'a> {
    b: &'a [u8],
}
impl<'a> Cur<'a> {
    fn u8(&mut self) -> Option<u8> {
        let (x, r) = self.b.split_first()?;
        self.b = r;
        Some(*x)
    }
    fn take(&mut self, n: usize) -> Option<&'a [u8]> {
        if self.b.len() < n {
            return None;
        }
        let (x, r) = self.b.split_at(n);
        self.b = r;
        Some(x)
    }
    fn i32(&mut self) -> Option<i32> {
        let x = self.take(4)?;
        Some(i32::from_be_bytes([x[0], x[1], x[2], x[3]]))
    }
    fn i16(&mut self) -> Option<i16> {
        let x = self.take(2)?;
        Some(i16::from_be_bytes([x[0], x[1]]))
    }
    fn cstr(&mut self) -> Option<Vec<u8>> {
        let p = self.b.iter().position(|x| *x == 0)?;
        let s = self.b[..p].to_vec();
        self.b = &self.b[p + 1..];
        Some(s)
    }
    fn end(&self) -> Option<()> {
        if self.b.is_empty() {
            Some(())
        } else {
            None
        }
    }
}

fn notice_fields(c: &mut Cur) -> Option<BTreeMap<u8, Vec<u8>>> {
    let mut m = BTreeMap::new();
    loop {
        let k = c.u8()?;
        if k == 0 {
            return Some(m);
        }
        let v = c.cstr()?;
        if m.insert(k, v).is_some() {
            return None;
        }
    }
}

/// one frame off the front: (message, rest)
fn parse_frame(b: &[u8]) -> Option<(P, &[u8])> {
    if b.len() < 5 {
        return None;
    }
    let ty = b[0];
    let len = i32::from_be_bytes([b[1], b[2], b[3], b[4]]);
    if len < 4 || b.len() - 1 < len as usize {
        return None;
    }
    let body = &b[5..1 + len as usize];
    let rest = &b[1 + len as usize..];
    let mut c = Cur { b: body };
    let p = match ty {
        b'R' => match c.i32()? {
            0 => P::AuthOk,
            3 => P::AuthClear,
            5 => P::AuthMd5(c.take(4)?.to_vec()),
            _ => return None,
        },
        b'S' => P::ParamStatus(c.cstr()?, c.cstr()?),
        b'K' => P::KeyData(c.i32()?, c.i32()?),
        b'Z' => {
            let s = c.u8()?;
            if !matches!(s, b'I' | b'T' | b'E') {
                return None;
            }
            P::Ready(s)
        }
        b'T' => {
            let n = c.i16()?;
            if n < 0 {
                return None;
            }
            let mut v = vec![];
            for _ in 0..n {
                v.push((c.cstr()?, c.i32()?, c.i16()?, c.i32()?, c.i16()?, c.i32()?, c.i16()?));
            }
            P::RowDesc(v)
        }
        b'D' => {
            let n = c.i16()?;
            if n < 0 {
                return None;
            }
            let mut v = vec![];
            for _ in 0..n {
                let l = c.i32()?;
                if l == -1 {
                    v.push(None);
                } else if l < 0 {
                    return None;
                } else {
                    v.push(Some(c.take(l as usize)?.to_vec()));
                }
            }
            P::DataRow(v)
        }
        b'C' => P::Complete(c.cstr()?),
        b'E' => P::Error(notice_fields(&mut c)?),
        b'N' => P::Notice(notice_fields(&mut c)?),
        b'I' => P::Empty,
        _ => return None,
    };
    c.end()?;
    Some((p, rest))
}

// ---- expected parse, type byte, model request, well-formedness of a real message ----

fn type_byte(m: &BackendMessage) -> u8 {
    match m {
        BackendMessage::AuthenticationOk | BackendMessage::AuthenticationCleartextPassword | BackendMessage::AuthenticationMD5Password { .. } => b'R',
        BackendMessage::ParameterStatus { .. } => b'S',
        BackendMessage::BackendKeyData { .. } => b'K',
        BackendMessage::ReadyForQuery { .. } => b'Z',
        BackendMessage::RowDescription { .. } => b'T',
        BackendMessage::DataRow { .. } => b'D',
        BackendMessage::CommandComplete { .. } => b'C',
        BackendMessage::ErrorResponse { .. } => b'E',
        BackendMessage::NoticeResponse { .. } => b'N',
        BackendMessage::EmptyQueryResponse => b'I',
    }
}

fn status_byte(s: &TransactionStatus) -> u8 {
    // from the protocol description, not from `as_byte`
    match s {
        TransactionStatus::Idle => b'I',
        TransactionStatus::InTransaction => b'T',
        TransactionStatus::FailedTransaction => b'E',
    }
}

fn expected(m: &BackendMessage) -> P {
    let map = |f: &HashMap<u8, String>| f.iter().map(|(k, v)| (*k, v.as_bytes().to_vec())).collect::<BTreeMap<_, _>>();
    match m {
        BackendMessage::AuthenticationOk => P::AuthOk,
        BackendMessage::AuthenticationCleartextPassword => P::AuthClear,
        BackendMessage::AuthenticationMD5Password { salt } => P::AuthMd5(salt.to_vec()),
        BackendMessage::ParameterStatus { name, value } => P::ParamStatus(name.as_bytes().to_vec(), value.as_bytes().to_vec()),
        BackendMessage::BackendKeyData { process_id, secret_key } => P::KeyData(*process_id, *secret_key),
        BackendMessage::ReadyForQuery { status } => P::Ready(status_byte(status)),
        BackendMessage::RowDescription { fields } => P::RowDesc(
            fields.iter().map(|f| (f.name.as_bytes().to_vec(), f.table_oid, f.column_attr_number, f.data_type_oid, f.data_type_size, f.type_modifier, f.format_code)).collect(),
        ),
        BackendMessage::DataRow { values } => P::DataRow(values.clone()),
        BackendMessage::CommandComplete { tag } => P::Complete(tag.as_bytes().to_vec()),
        BackendMessage::ErrorResponse { fields } => P::Error(map(fields)),
        BackendMessage::NoticeResponse { fields } => P::Notice(map(fields)),
        BackendMessage::EmptyQueryResponse => P::Empty,
    }
}

/// `wfContent` of the model (the 2^31 limits are never reached by the generator)
fn wf(m: &BackendMessage) -> bool {
    let nf = |s: &String| !s.as_bytes().contains(&0);
    match m {
        BackendMessage::ParameterStatus { name, value } => nf(name) && nf(value),
        BackendMessage::RowDescription { fields } => fields.len() < 32768 && fields.iter().all(|f| nf(&f.name)),
        BackendMessage::DataRow { values } => values.len() < 32768,
        BackendMessage::CommandComplete { tag } => nf(tag),
        BackendMessage::ErrorResponse { fields } | BackendMessage::NoticeResponse { fields } => fields.iter().all(|(k, v)| *k != 0 && nf(v)),
        _ => true,
    }
}

/// model syntax; HashMap fields in the iteration order of this very map instance (the order
/// `encode` sees)
fn msg_sx(m: &BackendMessage) -> String {
    let nf = |f: &HashMap<u8, String>| f.iter().map(|(k, v)| format!(" ({} {})", k, hx(v.as_bytes()))).collect::<String>();
    match m {
        BackendMessage::AuthenticationOk => "(authok)".into(),
        BackendMessage::AuthenticationCleartextPassword => "(authclear)".into(),
        BackendMessage::AuthenticationMD5Password { salt } => format!("(authmd5 {})", hx(salt)),
        BackendMessage::ParameterStatus { name, value } => format!("(paramstatus {} {})", hx(name.as_bytes()), hx(value.as_bytes())),
        BackendMessage::BackendKeyData { process_id, secret_key } => format!("(keydata {} {})", process_id, secret_key),
        BackendMessage::ReadyForQuery { status } => format!("(ready {})", status_byte(status) as char),
        BackendMessage::RowDescription { fields } => format!(
            "(rowdesc{})",
            fields.iter().map(|f| format!(" ({} {} {} {} {} {} {})", hx(f.name.as_bytes()), f.table_oid, f.column_attr_number, f.data_type_oid, f.data_type_size, f.type_modifier, f.format_code)).collect::<String>()
        ),
        BackendMessage::DataRow { values } => format!(
            "(datarow{})",
            values
                .iter()
                .map(|v| match v {
                    None => " null".to_string(),
                    Some(b) => format!(" {}", hx(b)),
                })
                .collect::<String>()
        ),
        BackendMessage::CommandComplete { tag } => format!("(complete {})", hx(tag.as_bytes())),
        BackendMessage::ErrorResponse { fields } => format!("(error{})", nf(fields)),
        BackendMessage::NoticeResponse { fields } => format!("(notice{})", nf(fields)),
        BackendMessage::EmptyQueryResponse => "(empty)".into(),
    }
}

fn parse_model_msg(s: &Sx) -> Option<P> {
    let l = s.as_list()?;
    let a = |i: usize| l.get(i).and_then(|x| x.as_atom());
    let by = |i: usize| a(i).and_then(unhex);
    let int = |x: &Sx| x.as_atom().and_then(|t| t.parse::<i64>().ok());
    let nf = |xs: &[Sx]| -> Option<BTreeMap<u8, Vec<u8>>> {
        let mut m = BTreeMap::new();
        for x in xs {
            let kv = x.as_list()?;
            let k = int(kv.first()?)? as u8;
            if m.insert(k, unhex(kv.get(1)?.as_atom()?)?).is_some() {
                return None;
            }
        }
        Some(m)
    };
    Some(match a(0)? {
        "authok" => P::AuthOk,
        "authclear" => P::AuthClear,
        "authmd5" => P::AuthMd5(by(1)?),
        "paramstatus" => P::ParamStatus(by(1)?, by(2)?),
        "keydata" => P::KeyData(int(l.get(1)?)? as i32, int(l.get(2)?)? as i32),
        "ready" => P::Ready(a(1)?.as_bytes()[0]),
        "rowdesc" => {
            let mut v = vec![];
            for f in &l[1..] {
                let f = f.as_list()?;
                v.push((unhex(f.first()?.as_atom()?)?, int(f.get(1)?)? as i32, int(f.get(2)?)? as i16, int(f.get(3)?)? as i32, int(f.get(4)?)? as i16, int(f.get(5)?)? as i32, int(f.get(6)?)? as i16));
            }
            P::RowDesc(v)
        }
        "datarow" => {
            let mut v = vec![];
            for x in &l[1..] {
                let t = x.as_atom()?;
                v.push(if t == "null" { None } else { Some(unhex(t)?) });
            }
            P::DataRow(v)
        }
        "complete" => P::Complete(by(1)?),
        "error" => P::Error(nf(&l[1..])?),
        "notice" => P::Notice(nf(&l[1..])?),
        "empty" => P::Empty,
        _ => return None,
    })
}

// ---- generators ----

fn gen_text(r: &mut Rng, allow_nul: bool) -> String {
    let n = match r.below(12) {
        0 => 0,
        1 => 1,
        2..=8 => r.range(2, 20),
        9 | 10 => r.range(21, 300),
        _ => r.range(250, 260),
    } as usize;
    let pool: &[&str] = &["é", "ß", "€", "漢", "😀", "\u{7ff}", "\u{800}", "\u{ffff}", "\u{10000}"];
    let mut s = String::new();
    while s.len() < n {
        if r.chance(1, 8) {
            s.push_str(*r.pick(pool));
        } else {
            s.push((r.range(1, 126) as u8) as char);
        }
    }
    if allow_nul {
        let mut p = r.below(s.len() as u64 + 1) as usize;
        while !s.is_char_boundary(p) {
            p -= 1;
        }
        s.insert(p, '\0');
    }
    s
}

fn gen_i32(r: &mut Rng) -> i32 {
    match r.below(6) {
        0 => *r.pick(&[0, -1, 1, i32::MAX, i32::MIN, 255, 256, 65535, 65536, -256, 0x7f00_0000, -0x0100_0000]),
        1 => r.range(i32::MIN as i64, i32::MAX as i64) as i32,
        _ => r.range(-3, 70000) as i32,
    }
}
fn gen_i16(r: &mut Rng) -> i16 {
    match r.below(5) {
        0 => *r.pick(&[0, -1, 1, i16::MAX, i16::MIN, 255, 256, -256]),
        1 => r.range(i16::MIN as i64, i16::MAX as i64) as i16,
        _ => r.range(-2, 300) as i16,
    }
}

fn gen_bytes(r: &mut Rng, big: bool) -> Vec<u8> {
    let n = match r.below(14) {
        0 => 0,
        1 => 1,
        2..=9 => r.range(2, 24),
        10 | 11 => r.range(25, 400),
        12 => r.range(254, 258),
        _ => {
            if big {
                r.range(65530, 65545)
            } else {
                r.range(1000, 1100)
            }
        }
    } as usize;
    (0..n).map(|_| if r.chance(1, 6) { 0 } else { r.below(256) as u8 }).collect()
}

fn gen_count(r: &mut Rng, thorough: bool) -> usize {
    match r.below(20) {
        0 => 0,
        1 => 1,
        2..=15 => r.range(2, 12) as usize,
        16 | 17 => r.range(13, 80) as usize,
        18 => r.range(254, 258) as usize,
        _ => {
            if thorough {
                r.range(1000, 3000) as usize
            } else {
                r.range(300, 400) as usize
            }
        }
    }
}

fn gen_notice_fields(r: &mut Rng, bad: bool) -> HashMap<u8, String> {
    let n = r.range(0, 8) as usize;
    let mut m = HashMap::new();
    let codes = b"SVCMDHPpqWstcdnFLR";
    for _ in 0..n {
        let k = if r.chance(4, 5) { *r.pick(codes) } else { r.range(1, 255) as u8 };
        m.insert(k, if r.chance(1, 4) { String::new() } else { gen_text(r, false) });
    }
    if bad {
        if r.chance(1, 2) {
            m.insert(0, gen_text(r, false));
        } else {
            m.insert(b'M', gen_text(r, true));
        }
    }
    m
}

fn gen_msg(r: &mut Rng, thorough: bool) -> BackendMessage {
    // 1 in 12 messages is deliberately outside wf (NUL inside a cstring, field code 0)
    let bad = r.chance(1, 12);
    match r.below(14) {
        0 => BackendMessage::AuthenticationOk,
        1 => BackendMessage::AuthenticationCleartextPassword,
        2 => BackendMessage::AuthenticationMD5Password { salt: [r.below(256) as u8, r.below(256) as u8, if r.chance(1, 3) { 0 } else { r.below(256) as u8 }, r.below(256) as u8] },
        3 => {
            let nul_name = bad && r.chance(1, 2);
            BackendMessage::ParameterStatus { name: gen_text(r, nul_name), value: gen_text(r, bad) }
        }
        4 => BackendMessage::BackendKeyData { process_id: gen_i32(r), secret_key: gen_i32(r) },
        5 => BackendMessage::ReadyForQuery { status: *r.pick(&[TransactionStatus::Idle, TransactionStatus::InTransaction, TransactionStatus::FailedTransaction]) },
        6 | 7 => {
            let n = gen_count(r, thorough);
            let nul_at = if bad && n > 0 { Some(r.below(n as u64) as usize) } else { None };
            BackendMessage::RowDescription {
                fields: (0..n)
                    .map(|i| FieldDescription {
                        name: {
                            let mut s = gen_text(r, nul_at == Some(i));
                            s.truncate((0..=s.len().min(40)).rev().find(|p| s.is_char_boundary(*p)).unwrap_or(0));
                            s
                        },
                        table_oid: gen_i32(r),
                        column_attr_number: gen_i16(r),
                        data_type_oid: gen_i32(r),
                        data_type_size: gen_i16(r),
                        type_modifier: gen_i32(r),
                        format_code: gen_i16(r),
                    })
                    .collect(),
            }
        }
        8 | 9 => {
            let n = gen_count(r, thorough);
            // 64 KB values only in short rows (a 3000-value row of them would be a 100 MB request line)
            let big = thorough && n <= 12;
            BackendMessage::DataRow { values: (0..n).map(|_| if r.chance(1, 5) { None } else { Some(gen_bytes(r, big)) }).collect() }
        }
        10 => {
            let tag = if r.chance(1, 2) {
                let verb = *r.pick(&["SELECT", "INSERT 0", "UPDATE", "DELETE", "CREATE TABLE"]);
                format!("{} {}{}", verb, r.below(100000), if bad { "\0x" } else { "" })
            } else {
                gen_text(r, bad)
            };
            BackendMessage::CommandComplete { tag }
        }
        11 => BackendMessage::ErrorResponse { fields: gen_notice_fields(r, bad) },
        12 => BackendMessage::NoticeResponse { fields: gen_notice_fields(r, bad) },
        _ => BackendMessage::EmptyQueryResponse,
    }
}

fn variant(m: &BackendMessage) -> &'static str {
    match m {
        BackendMessage::AuthenticationOk => "AuthenticationOk",
        BackendMessage::AuthenticationCleartextPassword => "AuthenticationCleartextPassword",
        BackendMessage::AuthenticationMD5Password { .. } => "AuthenticationMD5Password",
        BackendMessage::ParameterStatus { .. } => "ParameterStatus",
        BackendMessage::BackendKeyData { .. } => "BackendKeyData",
        BackendMessage::ReadyForQuery { .. } => "ReadyForQuery",
        BackendMessage::RowDescription { .. } => "RowDescription",
        BackendMessage::DataRow { .. } => "DataRow",
        BackendMessage::CommandComplete { .. } => "CommandComplete",
        BackendMessage::ErrorResponse { .. } => "ErrorResponse",
        BackendMessage::NoticeResponse { .. } => "NoticeResponse",
        BackendMessage::EmptyQueryResponse => "EmptyQueryResponse",
    }
}

struct Ctx {
    model: model::Model,
    rep: Report,
}

fn short(s: &str) -> String {
    if s.len() > 4000 {
        format!("{}…[{} chars]", &s[..4000], s.len())
    } else {
        s.to_string()
    }
}

impl Ctx {
    /// returns the real bytes (None on panic)
    fn check(&mut self, m: &BackendMessage, class: &str) -> Option<Vec<u8>> {
        let req = msg_sx(m);
        let is_wf = wf(m);
        let real = catch_unwind(AssertUnwindSafe(|| {
            let mut buf = BytesMut::new();
            m.encode(&mut buf);
            buf.to_vec()
        }));
        let v = variant(m);
        self.rep.count(&format!("variant_{}", v));
        self.rep.count(&format!("class_{}", class));
        self.rep.count(if is_wf { "wellformed" } else { "outside_wf" });
        let nontrivial = !matches!(m, BackendMessage::AuthenticationOk | BackendMessage::AuthenticationCleartextPassword | BackendMessage::EmptyQueryResponse);
        self.rep.case(&req, nontrivial);
        let bytes = match real {
            Ok(b) => b,
            Err(_) => {
                self.rep.fail(FailKind::Oracle, None, "BackendMessage::encode panicked", &format!("encode {}", short(&req)));
                return None;
            }
        };
        self.rep.count(&format!(
            "frame_bytes_{}",
            match bytes.len() {
                0..=16 => "<=16",
                17..=256 => "17-256",
                257..=65535 => "257-65535",
                _ => ">=65536",
            }
        ));
        let replay = |extra: &str| format!("encode {}\nreal bytes: {}\n{}", short(&req), short(&hx(&bytes)), extra);

        // ---- direct oracle: frame law ----
        let mut law = None;
        if bytes.len() < 5 {
            law = Some("fewer than 5 bytes written".to_string());
        } else {
            let l = i32::from_be_bytes([bytes[1], bytes[2], bytes[3], bytes[4]]);
            if bytes[0] != type_byte(m) {
                law = Some(format!("type byte {:#x}, expected {:#x}", bytes[0], type_byte(m)));
            } else if l as i64 != bytes.len() as i64 - 1 {
                law = Some(format!("length field {} but {} bytes follow the type byte", l, bytes.len() - 1));
            }
        }
        if let Some(w) = &law {
            self.rep.fail(FailKind::Oracle, None, &format!("{}: frame law violated: {}", v, w), &replay(""));
        }
        // ---- direct oracle: the independent parser recovers the fields ----
        let parsed = parse_frame(&bytes);
        if is_wf {
            match &parsed {
                Some((p, rest)) if *p == expected(m) && rest.is_empty() => {}
                other => self.rep.fail(
                    FailKind::Oracle,
                    None,
                    &format!("{}: parsing the frame with an independent parser does not recover the message", v),
                    &replay(&format!("parsed: {}", short(&format!("{:?}", other)))),
                ),
            }
        }
        // ---- correspondence: byte-exact encoder ----
        let me = self.model.ask(&format!("encode {}", req));
        self.rep.traces_validated += 1;
        if me != hx(&bytes) {
            self.rep.fail(FailKind::ModelDiff, None, &format!("{}: model encoding differs from the real bytes", v), &replay(&format!("model bytes: {}", short(&me))));
        }
        // ---- correspondence: the model's parser on the real bytes agrees with the harness's ----
        let mp = self.model.ask(&format!("parse {}", hx(&bytes)));
        let mparsed: Option<(P, usize)> = Sx::parse(&mp).and_then(|s| {
            let l = s.as_list()?.to_vec();
            if l.first()?.as_atom()? != "some" {
                return None;
            }
            Some((parse_model_msg(l.get(1)?)?, l.get(2)?.as_atom()?.parse().ok()?))
        });
        let same = match (&parsed, &mparsed) {
            (None, None) => true,
            (Some((p, rest)), Some((q, n))) => p == q && rest.len() == *n,
            _ => false,
        };
        // duplicate-free maps only: a NUL or code 0 in a notice field may make the model's list
        // hold a code twice, which `parse_model_msg` rejects just as `notice_fields` does
        if !same {
            self.rep.fail(FailKind::ModelDiff, None, &format!("{}: the model's parser and the harness's parser disagree on the real bytes", v), &replay(&format!("harness parser: {}\nmodel parser: {}", short(&format!("{:?}", parsed)), short(&mp))));
        }
        Some(bytes)
    }
}

// ---------------------------------------------------------------------------------------------
// wire level: the frames as a client receives them from the real server (connection.rs send path)
// ---------------------------------------------------------------------------------------------

/// reads the reply to one simple query: every frame up to and including ReadyForQuery, with the
/// independent parser; `slow` = small receive buffer, small reads with pauses
fn read_reply(s: &mut std::net::TcpStream, slow: bool, bytes_seen: &mut u64) -> Result<Vec<(P, Vec<u8>)>, String> {
    use std::io::Read;
    let mut buf: Vec<u8> = vec![];
    let mut frames: Vec<(P, Vec<u8>)> = vec![];
    let mut chunk = vec![0u8; if slow { 8192 } else { 1 << 20 }];
    let _ = s.set_read_timeout(Some(std::time::Duration::from_secs(180)));
    loop {
        // consume complete frames
        loop {
            if buf.len() < 5 {
                break;
            }
            let len = i32::from_be_bytes([buf[1], buf[2], buf[3], buf[4]]);
            if len < 4 {
                return Err(format!("frame {:?} with length field {}", buf[0] as char, len));
            }
            if buf.len() - 1 < len as usize {
                break;
            }
            let raw: Vec<u8> = buf[..1 + len as usize].to_vec();
            match parse_frame(&raw) {
                Some((p, rest)) if rest.is_empty() => {
                    let done = matches!(p, P::Ready(_));
                    frames.push((p, raw));
                    buf.drain(..1 + len as usize);
                    if done {
                        if !buf.is_empty() {
                            return Err(format!("{} bytes after ReadyForQuery", buf.len()));
                        }
                        return Ok(frames);
                    }
                }
                _ => return Err(format!("frame {:?} of declared length {} does not parse: the body is not what its length field and grammar say (first bytes {})", raw[0] as char, len, hx(&raw[..raw.len().min(24)]))),
            }
        }
        match s.read(&mut chunk) {
            Ok(0) => return Err(format!("connection closed inside a reply: {} frames complete, {} bytes of an incomplete frame{}", frames.len(), buf.len(), pending(&buf))),
            Ok(n) => {
                *bytes_seen += n as u64;
                buf.extend_from_slice(&chunk[..n]);
                // once the reply has started the server has everything in hand; still generous,
                // the machine may be heavily loaded (a slow run is not a violation)
                let _ = s.set_read_timeout(Some(std::time::Duration::from_secs(60)));
                if slow {
                    std::thread::sleep(std::time::Duration::from_micros(300));
                }
            }
            Err(e) => return Err(format!("no more bytes ({}) inside a reply: {} frames complete, {} bytes of an incomplete frame{}", e.kind(), frames.len(), buf.len(), pending(&buf))),
        }
    }
}

fn pending(buf: &[u8]) -> String {
    if buf.len() >= 5 {
        format!(" — frame {:?} whose length field promises {} bytes after the type byte, {} delivered", buf[0] as char, i32::from_be_bytes([buf[1], buf[2], buf[3], buf[4]]), buf.len() - 1)
    } else {
        String::new()
    }
}

fn wire_family(cx: &mut Ctx, args: &Args) {
    use std::io::Write;
    let t0 = std::time::Instant::now();
    let built = wiresrv::build_server(&args.scratch);
    cx.rep.extra.insert("server_build_s".into(), serde_json::json!(t0.elapsed().as_secs_f64()));
    let bin = match built {
        Ok(b) => b,
        Err(e) => {
            cx.rep.fail(FailKind::Oracle, None, "the server binary of the tree under test does not build (wire-level frames impossible)", &e);
            return;
        }
    };
    let srv = match wiresrv::start_server(&bin, &args.scratch.join("srv-trust"), "trust", None) {
        Ok(s) => s,
        Err(e) => {
            cx.rep.fail(FailKind::Oracle, None, "the server does not start with a generated configuration", &e);
            return;
        }
    };
    // value = 'z' × (a·b·c), built server-side: REPLACE(REPLACE('x'×a, 'x', 'y'×b), 'y', 'z'×c)
    let sizes: Vec<(usize, usize, usize, bool)> = vec![
        (1, 1, 1, false),
        (64, 32, 32, false),     // 64 KB
        (64, 32, 32, true),
        (64, 128, 128, false),   // 1 MB
        (64, 128, 128, true),
        (128, 256, 256, false),  // 8 MB
        (128, 256, 256, true),
        (256, 256, 256, false),  // 16 MB
    ];
    let mut wire_bytes = 0u64;
    for (a, b, c, slow) in sizes {
        let n = a * b * c;
        let sql = format!("SELECT REPLACE(REPLACE('{}', 'x', '{}'), 'y', '{}')", "x".repeat(a), "y".repeat(b), "z".repeat(c));
        let id = format!("wire query value_bytes={} reader={}", n, if slow { "slow" } else { "eager" });
        cx.rep.case(&id, true);
        cx.rep.count(&format!("wire_query_{}", if slow { "slow_reader" } else { "eager_reader" }));
        let replay = |w: &str| format!("server: target/debug/vibesql-server with auth.method = \"trust\"; startup user=postgres; then simple query\n{}\nreader: {}\n{}", if sql.len() > 300 { format!("SELECT REPLACE(REPLACE('x'*{}, 'x', 'y'*{}), 'y', 'z'*{})", a, b, c) } else { sql.clone() }, if slow { "SO_RCVBUF 16 KiB, 8 KiB reads with 0.3 ms pauses" } else { "eager 1 MiB reads" }, w);
        let mut s = match std::net::TcpStream::connect(("127.0.0.1", srv.port)) {
            Ok(s) => s,
            Err(e) => {
                cx.rep.fail(FailKind::Oracle, None, "wire level: cannot connect to the server", &replay(&e.to_string()));
                continue;
            }
        };
        if slow {
            wiresrv::set_rcvbuf(&s, 16 * 1024);
        }
        let _ = s.set_nodelay(true);
        // ---- handshake: AuthenticationOk, ParameterStatus*, BackendKeyData, ReadyForQuery ----
        if s.write_all(&wiresrv::startup_packet(&[("user", "postgres"), ("database", "postgres")])).is_err() {
            cx.rep.fail(FailKind::Oracle, None, "wire level: cannot send the startup packet", &replay(""));
            continue;
        }
        let hs = read_reply(&mut s, false, &mut wire_bytes);
        let hs_ok = matches!(&hs, Ok(f) if matches!(f.first(), Some((P::AuthOk, _))) && f.iter().any(|(p, _)| matches!(p, P::KeyData(..))) && f.iter().filter(|(p, _)| matches!(p, P::ParamStatus(..))).count() >= 1);
        if !hs_ok {
            cx.rep.fail(FailKind::Oracle, None, "wire level: the startup reply is not AuthenticationOk, ParameterStatus…, BackendKeyData, ReadyForQuery as well-formed frames", &replay(&format!("{:?}", hs.map(|f| f.into_iter().map(|(p, _)| p).collect::<Vec<_>>())).chars().take(600).collect::<String>()));
            continue;
        }
        // ---- the query ----
        let mut q = vec![b'Q'];
        q.extend_from_slice(&((4 + sql.len() + 1) as u32).to_be_bytes());
        q.extend_from_slice(sql.as_bytes());
        q.push(0);
        if s.write_all(&q).is_err() {
            cx.rep.fail(FailKind::Oracle, None, "wire level: cannot send the query", &replay(""));
            continue;
        }
        let before = wire_bytes;
        match read_reply(&mut s, slow, &mut wire_bytes) {
            Err(e) => cx.rep.fail(FailKind::Oracle, None, "wire level: the bytes received for a query result are not a sequence of well-formed frames ending in ReadyForQuery", &replay(&e)),
            Ok(frames) => {
                cx.rep.add("wire_reply_bytes", wire_bytes - before);
                let kinds: Vec<&P> = frames.iter().map(|(p, _)| p).collect();
                let shape_ok = kinds.len() == 4
                    && matches!(kinds[0], P::RowDesc(f) if f.len() == 1)
                    && matches!(kinds[1], P::DataRow(v) if v.len() == 1 && matches!(&v[0], Some(x) if x.len() == n && x.iter().all(|c| *c == b'z')))
                    && matches!(kinds[2], P::Complete(t) if t == b"SELECT 1")
                    && matches!(kinds[3], P::Ready(b'I'));
                if !shape_ok {
                    let brief: Vec<String> = frames.iter().map(|(p, raw)| format!("{} ({} bytes)", format!("{:?}", p).chars().take(60).collect::<String>(), raw.len())).collect();
                    cx.rep.fail(FailKind::Oracle, None, "wire level: the reply is not RowDescription, DataRow with the value asked for, CommandComplete \"SELECT 1\", ReadyForQuery", &replay(&brief.join("\n")));
                }
                // correspondence (values up to 64 KB): every frame on the wire = model encoding of what it parses to
                if n <= 65536 {
                    for (p, raw) in &frames {
                        let sx = match p {
                            P::RowDesc(f) => format!("(rowdesc{})", f.iter().map(|x| format!(" ({} {} {} {} {} {} {})", hx(&x.0), x.1, x.2, x.3, x.4, x.5, x.6)).collect::<String>()),
                            P::DataRow(v) => format!("(datarow{})", v.iter().map(|x| match x { None => " null".to_string(), Some(b) => format!(" {}", hx(b)) }).collect::<String>()),
                            P::Complete(t) => format!("(complete {})", hx(t)),
                            P::Ready(c) => format!("(ready {})", *c as char),
                            _ => continue,
                        };
                        let me = cx.model.ask(&format!("encode {}", sx));
                        cx.rep.traces_validated += 1;
                        if me != hx(raw) {
                            cx.rep.fail(FailKind::ModelDiff, None, "wire level: a frame on the wire is not the model's encoding of the message it parses to", &replay(&format!("message {}\nwire : {}\nmodel: {}", short(&sx), short(&hx(raw)), short(&me))));
                        }
                    }
                }
            }
        }
        let _ = s.write_all(&[b'X', 0, 0, 0, 4]);
    }
    cx.rep.extra.insert("wire_bytes_received".into(), serde_json::json!(wire_bytes));
}

fn main() {
    engine::silence_panics();
    let args = Args::parse("C28");
    let rep = Report::new(
        &args,
        "case = one BackendMessage value; non-trivial = a variant with at least one field (everything but AuthenticationOk, \
         AuthenticationCleartextPassword, EmptyQueryResponse); distinct by hash of the message",
    );
    let model = args.model();
    let mut cx = Ctx { model, rep };
    cx.rep.assumptions.push("HashMap<u8,String> iteration order is the same in the two passes of encode_notice_or_error and in the harness (same unchanged map instance); recovered fields are compared as a map".into());
    cx.rep.assumptions.push("lengths stay below 2^31 (larger messages are covered by the theorem's hypothesis only)".into());
    cx.rep.assumptions.push("messages outside wf (NUL inside a cstring, field code 0, >= 32768 columns) are compared with the model only; connection.rs builds tags, parameter values and field codes from NUL-free text".into());
    let mut rng = Rng::new(args.seed);
    let thorough = !args.quick();

    // ---- deterministic probes ----
    let fd = |name: &str| FieldDescription { name: name.into(), table_oid: 0, column_attr_number: 0, data_type_oid: 25, data_type_size: -1, type_modifier: -1, format_code: 0 };
    let mut probes: Vec<BackendMessage> = vec![
        BackendMessage::AuthenticationOk,
        BackendMessage::AuthenticationCleartextPassword,
        BackendMessage::AuthenticationMD5Password { salt: [1, 2, 3, 4] },
        BackendMessage::AuthenticationMD5Password { salt: [0, 0, 0, 0] },
        BackendMessage::ParameterStatus { name: "server_version".into(), value: "14.0".into() },
        BackendMessage::ParameterStatus { name: "".into(), value: "".into() },
        BackendMessage::BackendKeyData { process_id: i32::MIN, secret_key: i32::MAX },
        BackendMessage::BackendKeyData { process_id: -1, secret_key: 0 },
        BackendMessage::ReadyForQuery { status: TransactionStatus::Idle },
        BackendMessage::ReadyForQuery { status: TransactionStatus::InTransaction },
        BackendMessage::ReadyForQuery { status: TransactionStatus::FailedTransaction },
        BackendMessage::RowDescription { fields: vec![] },
        BackendMessage::RowDescription { fields: vec![fd("id"), fd(""), fd("ü")] },
        BackendMessage::DataRow { values: vec![] },
        BackendMessage::DataRow { values: vec![None, Some(vec![]), Some(vec![0]), Some(b"1\x002".to_vec())] },
        BackendMessage::DataRow { values: vec![Some(vec![7; 255]), Some(vec![7; 256]), Some(vec![0; 65535]), Some(vec![9; 65536])] },
        BackendMessage::CommandComplete { tag: "SELECT 1".into() },
        BackendMessage::CommandComplete { tag: "".into() },
        BackendMessage::CommandComplete { tag: "a\0b".into() },
        BackendMessage::ErrorResponse { fields: HashMap::new() },
        BackendMessage::ErrorResponse { fields: [(b'S', "ERROR".to_string()), (b'C', "42601".to_string()), (b'M', "syntax error".to_string())].into_iter().collect() },
        BackendMessage::ErrorResponse { fields: [(0u8, "x".to_string())].into_iter().collect() },
        BackendMessage::NoticeResponse { fields: [(b'M', "".to_string()), (255u8, "é".to_string())].into_iter().collect() },
        BackendMessage::EmptyQueryResponse,
        // column-count boundary of the Int16 field
        BackendMessage::DataRow { values: vec![None; 32767] },
        BackendMessage::DataRow { values: vec![None; 32768] },
        BackendMessage::RowDescription { fields: (0..255).map(|i| fd(&format!("c{}", i))).collect() },
        BackendMessage::RowDescription { fields: (0..256).map(|i| fd(&format!("c{}", i))).collect() },
    ];
    if thorough {
        probes.push(BackendMessage::DataRow { values: vec![Some(vec![1]); 40000] });
        probes.push(BackendMessage::DataRow { values: vec![None; 65536] });
        probes.push(BackendMessage::RowDescription { fields: (0..32767).map(|_| fd("c")).collect() });
        probes.push(BackendMessage::RowDescription { fields: (0..32768).map(|_| fd("c")).collect() });
    }
    // empty strings / empty lists / zero counts in every variable-length component, and an empty
    // value in every field position of ErrorResponse / NoticeResponse
    let codes = [b'S', b'V', b'C', b'M', b'D', b'H'];
    for n in 1..=codes.len() {
        for empty_mask in 0..(1u32 << n) {
            if n > 3 && empty_mask.count_ones() != 1 && empty_mask != (1 << n) - 1 {
                continue; // for larger maps: exactly one empty position, or all empty
            }
            let fields: HashMap<u8, String> = (0..n).map(|i| (codes[i], if empty_mask & (1 << i) != 0 { String::new() } else { format!("v{}", i) })).collect();
            probes.push(BackendMessage::ErrorResponse { fields: fields.clone() });
            probes.push(BackendMessage::NoticeResponse { fields });
        }
    }
    for n in 0..4usize {
        for empty_at in 0..=n {
            // empty_at == n: no empty component
            probes.push(BackendMessage::RowDescription { fields: (0..n).map(|i| fd(if i == empty_at { "" } else { "col" })).collect() });
            probes.push(BackendMessage::DataRow { values: (0..n).map(|i| if i == empty_at { Some(vec![]) } else { Some(vec![b'x']) }).collect() });
            probes.push(BackendMessage::DataRow { values: (0..n).map(|i| if i == empty_at { None } else { Some(vec![]) }).collect() });
        }
    }
    probes.push(BackendMessage::ParameterStatus { name: "".into(), value: "x".into() });
    probes.push(BackendMessage::ParameterStatus { name: "x".into(), value: "".into() });
    for m in &probes {
        cx.check(m, "probe");
    }

    // ---- generated messages ----
    let n = args.n(12000, 40000);
    for i in 0..n {
        let mut r = rng.fork();
        let m = gen_msg(&mut r, thorough);
        if i < 5 {
            cx.rep.sample(serde_json::json!({"message": short(&msg_sx(&m)).chars().take(200).collect::<String>(), "wellformed": wf(&m)}));
        }
        cx.check(&m, "generated");
    }

    // ---- several messages into one buffer (what the connection's write buffer holds) ----
    let n = args.n(800, 8000);
    for _ in 0..n {
        let mut r = rng.fork();
        let k = r.range(2, 7) as usize;
        let ms: Vec<BackendMessage> = (0..k)
            .map(|_| loop {
                let m = gen_msg(&mut r, false);
                if wf(&m) {
                    break m;
                }
            })
            .collect();
        let mut buf = BytesMut::new();
        let ok = catch_unwind(AssertUnwindSafe(|| {
            for m in &ms {
                m.encode(&mut buf);
            }
        }))
        .is_ok();
        cx.rep.count("stream");
        cx.rep.case(&ms.iter().map(msg_sx).collect::<Vec<_>>().join(" "), true);
        let bytes = buf.to_vec();
        let mut rest: &[u8] = &bytes;
        let mut good = ok;
        for m in &ms {
            match parse_frame(rest) {
                Some((p, r2)) if p == expected(m) => rest = r2,
                _ => {
                    good = false;
                    break;
                }
            }
        }
        if !good || !rest.is_empty() {
            cx.rep.fail(FailKind::Oracle, None, "messages encoded one after the other into one buffer do not parse back frame by frame", &format!("messages: {}\nbuffer: {}", short(&ms.iter().map(msg_sx).collect::<Vec<_>>().join(" ")), short(&hx(&bytes))));
        }
    }

    // ---- the frames as received by a client of the real server ----
    wire_family(&mut cx, &args);

    std::process::exit(cx.rep.finish());
}
