import Drivers.AggCommon
open VibeProof.Proto

def main : IO Unit := runDriver Drivers.AggCommon.handle
