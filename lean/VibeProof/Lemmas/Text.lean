import VibeProof.Model.Text
/-
Lemmas about the text model shared by C19, C31 and C30.
-/
deriving instance DecidableEq for Except

namespace VibeProof.Text

/-- core of T1: lexing the doubled form of `s` followed by the closing quote and a rest that does
not start with a quote gives back `s` and that rest -/
theorem lexStrBody_dbl (q : Char) (s r : Str) (hr : ∀ c r', r = c :: r' → c ≠ q) :
    lexStrBody q (dbl q s ++ q :: r) = .ok (s, r) := by
  induction s with
  | nil =>
    cases r with
    | nil => simp [dbl, lexStrBody]
    | cons c r' =>
      have : c ≠ q := hr c r' rfl
      simp [dbl, lexStrBody, this]
  | cons a s ih =>
    by_cases h : a = q
    · subst h
      simp [dbl, lexStrBody, ih]
    · simp only [dbl, h, if_false, List.cons_append]
      rw [lexStrBody.eq_def]
      simp [h, ih]

theorem lexString_renderStr (s r : Str) (hr : ∀ c r', r = c :: r' → c ≠ '\'') :
    lexString (renderStr s ++ r) = .ok (s, r) := by
  have := lexStrBody_dbl '\'' s r hr
  simp only [renderStr, List.cons_append, List.append_assoc, lexString]
  exact this

end VibeProof.Text

namespace VibeProof.Text.Split

/-! ### The splitter: line loop = character machine, as long as no line is skipped -/

/-- end of a physical line -/
def nl (st : St) : St :=
  if st.inStr then { st with cur := '\n' :: st.cur } else { st with cur := ' ' :: st.cur }

/-- a line that starts with a character which is neither blank nor '-' is never skipped -/
def goodStart : Str → Bool
  | [] => false
  | c :: _ => !isWs c && c ≠ '-'

/-- character machine: like the line loop but without looking at whole lines; undefined when a
line break occurs outside a string literal -/
def runC (v : St) : Str → Option St
  | [] => some v
  | c :: cs =>
    if c = '\n' then (if v.inStr then runC (nl v) cs else none)
    else runC (stepChar v c) cs

theorem trimStart_snoc (xs : Str) (c : Char) (hc : isWs c = false) :
    ∃ ys, trimStart (xs ++ [c]) = ys ++ [c] := by
  induction xs with
  | nil => exact ⟨[], by simp [trimStart, hc]⟩
  | cons x xs ih =>
    by_cases hx : isWs x = true
    · simpa [trimStart, hx] using ih
    · exact ⟨x :: xs, by simp [trimStart, hx]⟩

theorem skippable_goodStart (l : Str) (h : goodStart l = true) : skippable l = false := by
  cases l with
  | nil => simp [goodStart] at h
  | cons c rest =>
    simp only [goodStart, Bool.and_eq_true, Bool.not_eq_true', decide_eq_true_eq] at h
    obtain ⟨hws, hd⟩ := h
    obtain ⟨ys, hys⟩ := trimStart_snoc rest.reverse c hws
    have ht : trim (c :: rest) = c :: ys.reverse := by
      simp [trim, trimStart, hws, trimEnd, hys]
    simp only [skippable, ht]
    split
    · rename_i heq; cases heq
    · rename_i heq; injection heq with h1 _; exact absurd h1 hd
    · rfl

def virt (st0 : St) (line : Str) : St := line.reverse.foldl stepChar st0

def NonSkip (st0 : St) (line : Str) : Prop := st0.inStr = true ∨ goodStart line.reverse = true

theorem procLine_nonskip (st0 : St) (line : Str) (h : NonSkip st0 line) :
    procLine st0 line.reverse = nl (virt st0 line) := by
  have hs : (!st0.inStr && skippable line.reverse) = false := by
    rcases h with h | h
    · simp [h]
    · simp [skippable_goodStart _ h]
  simp only [procLine, hs, nl, virt]
  split <;> simp_all

theorem nonSkip_cons (st0 : St) (line : Str) (c : Char) (h : NonSkip st0 line) :
    NonSkip st0 (c :: line) := by
  rcases h with h | h
  · exact Or.inl h
  · right
    cases hl : line.reverse with
    | nil => rw [hl] at h; simp [goodStart] at h
    | cons d t =>
      rw [hl] at h
      simp only [List.reverse_cons, hl, List.cons_append, goodStart]
      simpa [goodStart] using h

theorem virt_cons (st0 : St) (line : Str) (c : Char) :
    virt st0 (c :: line) = stepChar (virt st0 line) c := by
  simp [virt, List.foldl_append]

theorem nl_inStr (v : St) : (nl v).inStr = v.inStr := by
  unfold nl; split <;> rfl

/-- the line loop follows the character machine from any point inside a non-skipped line -/
theorem sim (X : Str) : ∀ (v v' : St), runC v X = some v' →
    ∀ (st0 : St) (line rest : Str), NonSkip st0 line → virt st0 line = v →
      ∃ st0' line', NonSkip st0' line' ∧ virt st0' line' = v' ∧
        goLines st0 line (X ++ rest) = goLines st0' line' rest := by
  induction X with
  | nil =>
    intro v v' h st0 line rest hn hv
    simp only [runC, Option.some.injEq] at h
    exact ⟨st0, line, hn, by rw [hv, h], rfl⟩
  | cons c cs ih =>
    intro v v' h st0 line rest hn hv
    by_cases hc : c = '\n'
    · subst hc
      simp only [runC, if_true] at h
      by_cases hin : v.inStr = true
      · simp only [hin, if_true] at h
        have hn' : NonSkip (nl v) [] := Or.inl (by rw [nl_inStr]; exact hin)
        obtain ⟨s', l', h1, h2, h3⟩ := ih (nl v) v' h (nl v) [] rest hn' (by simp [virt])
        refine ⟨s', l', h1, h2, ?_⟩
        simp only [List.cons_append, goLines, if_true]
        rw [procLine_nonskip st0 line hn, hv]
        exact h3
      · simp [hin] at h
    · simp only [runC, hc, if_false] at h
      obtain ⟨s', l', h1, h2, h3⟩ :=
        ih (stepChar v c) v' h st0 (c :: line) rest (nonSkip_cons st0 line c hn) (by rw [virt_cons, hv])
      refine ⟨s', l', h1, h2, ?_⟩
      simp only [List.cons_append, goLines, hc, if_false]
      exact h3

/-- a whole statement line (possibly spanning physical lines inside string literals) -/
theorem stmt_line (st : St) (c0 : Char) (T rest : Str) (v' : St)
    (hg : goodStart [c0] = true) (hc0 : c0 ≠ '\n') (hrun : runC st (c0 :: T) = some v') :
    goLines st [] ((c0 :: T) ++ '\n' :: rest) = goLines (nl v') [] rest := by
  simp only [runC, hc0, if_false] at hrun
  have hn : NonSkip st [c0] := Or.inr (by simpa using hg)
  obtain ⟨s', l', h1, h2, h3⟩ := sim T (stepChar st c0) v' hrun st [c0] ('\n' :: rest) hn (by simp [virt])
  simp only [List.cons_append, goLines, hc0, if_false]
  rw [h3]
  simp only [goLines, if_true]
  rw [procLine_nonskip s' l' h1, h2]

/-- a comment or blank line outside a string literal is dropped -/
theorem skip_line (st : St) (c : Str) (hnl : ∀ x ∈ c, x ≠ '\n') :
    ∀ (line rest : Str), goLines st line (c ++ '\n' :: rest) = goLines (procLine st (line.reverse ++ c)) [] rest := by
  induction c with
  | nil => intro line rest; simp [goLines]
  | cons x xs ih =>
    intro line rest
    have hx : x ≠ '\n' := hnl x (by simp)
    simp only [List.cons_append, goLines, hx, if_false]
    rw [ih (fun y hy => hnl y (by simp [hy]))]
    simp

/-! ### The character machine on the text the dump writer produces -/

def rawChar (c : Char) : Bool := c ≠ '\'' && c ≠ '"' && c ≠ ';' && c ≠ '\n'

/-- a piece of statement text: plain characters, or a string value written by `renderStr` -/
inductive Seg where
  | raw (cs : Str)
  | str (s : Str)
  deriving Repr

def Seg.text : Seg → Str
  | .raw cs => cs
  | .str s => renderStr s

def Seg.ok : Seg → Bool
  | .raw cs => cs.all rawChar
  | .str _ => true

def segsText (segs : List Seg) : Str := (segs.map Seg.text).flatten

/-- state reached from `v` by appending `t` to the current statement, outside a string -/
def pushed (v : St) (t : Str) (v' : St) : Prop :=
  v'.inStr = false ∧ v'.stmts = v.stmts ∧ v'.cur = t.reverse ++ v.cur

theorem runC_append (X Y : Str) : ∀ v, runC v (X ++ Y) = (runC v X).bind (fun v' => runC v' Y) := by
  induction X with
  | nil => intro v; simp [runC]
  | cons c cs ih =>
    intro v
    simp only [List.cons_append, runC]
    split
    · split
      · exact ih _
      · rfl
    · exact ih _

theorem stepChar_plain (v : St) (c : Char) (hin : v.inStr = false) (hc : rawChar c = true) :
    stepChar v c = { v with cur := c :: v.cur } := by
  simp only [rawChar, Bool.and_eq_true, decide_eq_true_eq] at hc
  obtain ⟨⟨⟨h1, h2⟩, h3⟩, _⟩ := hc
  simp [stepChar, hin, h1, h2, h3]

theorem runC_raw (cs : Str) : ∀ (v : St), v.inStr = false → cs.all rawChar = true →
    ∃ v', runC v cs = some v' ∧ pushed v cs v' := by
  induction cs with
  | nil => intro v hin _; exact ⟨v, rfl, hin, rfl, by simp⟩
  | cons c cs ih =>
    intro v hin hall
    simp only [List.all_cons, Bool.and_eq_true] at hall
    have hnl : c ≠ '\n' := by
      have := hall.1; simp only [rawChar, Bool.and_eq_true, decide_eq_true_eq] at this; exact this.2
    obtain ⟨v', h1, h2, h3, h4⟩ := ih (stepChar v c) (by rw [stepChar_plain v c hin hall.1]; exact hin) hall.2
    refine ⟨v', by simp [runC, hnl, h1], h2, ?_, ?_⟩
    · rw [h3, stepChar_plain v c hin hall.1]
    · rw [h4, stepChar_plain v c hin hall.1]; simp

/-- inside a `'…'` literal the doubled content is copied verbatim, line breaks included -/
theorem runC_content (s : Str) : ∀ (v : St), v.inStr = true → v.strCh = '\'' →
    ∃ v', runC v (dbl '\'' s) = some v' ∧ v'.inStr = true ∧ v'.strCh = '\'' ∧ v'.stmts = v.stmts ∧
      v'.cur = (dbl '\'' s).reverse ++ v.cur := by
  induction s with
  | nil => intro v h1 h2; exact ⟨v, rfl, h1, h2, rfl, by simp [dbl]⟩
  | cons c s ih =>
    intro v h1 h2
    by_cases hq : c = '\''
    · subst hq
      have e1 : stepChar v '\'' = { v with inStr := false, cur := '\'' :: v.cur } := by
        simp [stepChar, h1, h2]
      have e2 : stepChar { v with inStr := false, cur := '\'' :: v.cur } '\'' =
          { v with inStr := true, strCh := '\'', cur := '\'' :: '\'' :: v.cur } := by
        simp [stepChar]
      obtain ⟨v', r1, r2, r3, r4, r5⟩ :=
        ih { v with inStr := true, strCh := '\'', cur := '\'' :: '\'' :: v.cur } rfl rfl
      refine ⟨v', ?_, r2, r3, r4, ?_⟩
      · simp only [dbl, if_true, runC]
        simp only [show ('\'' = '\n') = False by decide, if_false, e1, e2]
        exact r1
      · rw [r5]; simp [dbl]
    · by_cases hn : c = '\n'
      · subst hn
        obtain ⟨v', r1, r2, r3, r4, r5⟩ := ih (nl v) (by rw [nl_inStr]; exact h1)
          (by simp [nl, h1, h2])
        refine ⟨v', ?_, r2, r3, ?_, ?_⟩
        · simp only [dbl, hq, if_false, runC, if_true, h1]
          exact r1
        · rw [r4]; simp [nl, h1]
        · rw [r5]; simp [nl, h1, dbl, hq]
      · have e : stepChar v c = { v with cur := c :: v.cur } := by
          simp [stepChar, h1, h2, hq]
        obtain ⟨v', r1, r2, r3, r4, r5⟩ := ih { v with cur := c :: v.cur } h1 h2
        refine ⟨v', ?_, r2, r3, r4, ?_⟩
        · simp only [dbl, hq, if_false, runC, hn, e]
          exact r1
        · rw [r5]; simp [dbl, hq]

/-- a string value written by the dump is copied verbatim and leaves the machine outside strings -/
theorem runC_str (s : Str) (v : St) (hin : v.inStr = false) :
    ∃ v', runC v (renderStr s) = some v' ∧ pushed v (renderStr s) v' := by
  have e0 : stepChar v '\'' = { v with inStr := true, strCh := '\'', cur := '\'' :: v.cur } := by
    simp [stepChar, hin]
  obtain ⟨v1, r1, r2, r3, r4, r5⟩ :=
    runC_content s { v with inStr := true, strCh := '\'', cur := '\'' :: v.cur } rfl rfl
  have e1 : stepChar v1 '\'' = { v1 with inStr := false, cur := '\'' :: v1.cur } := by
    simp [stepChar, r2, r3]
  refine ⟨{ v1 with inStr := false, cur := '\'' :: v1.cur }, ?_, rfl, ?_, ?_⟩
  · simp only [renderStr, runC, show ('\'' = '\n') = False by decide, if_false, e0]
    rw [runC_append, r1]
    simp [runC, e1]
  · simp [r4]
  · simp [r5, renderStr]

theorem runC_segs (segs : List Seg) : ∀ (v : St), v.inStr = false → (∀ g ∈ segs, g.ok = true) →
    ∃ v', runC v (segsText segs) = some v' ∧ pushed v (segsText segs) v' := by
  induction segs with
  | nil => intro v hin _; exact ⟨v, rfl, hin, rfl, by simp [segsText]⟩
  | cons g gs ih =>
    intro v hin hok
    have hg := hok g (by simp)
    have : ∃ v1, runC v g.text = some v1 ∧ pushed v g.text v1 := by
      cases g with
      | raw cs => exact runC_raw cs v hin hg
      | str s => exact runC_str s v hin
    obtain ⟨v1, a1, a2, a3, a4⟩ := this
    obtain ⟨v2, b1, b2, b3, b4⟩ := ih v1 a2 (fun g' hg' => hok g' (by simp [hg']))
    refine ⟨v2, ?_, b2, by rw [b3, a3], ?_⟩
    · simp only [segsText, List.map_cons, List.flatten_cons]
      rw [runC_append, a1]
      exact b1
    · rw [b4, a4]; simp [segsText]

end VibeProof.Text.Split
