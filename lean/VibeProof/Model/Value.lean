/-
SQL values and three-valued logic for the INTEGER / VARCHAR / BOOLEAN / NULL fragment
(DESIGN.md §3).  Mirrors `SqlValue` restricted to the variants the query-semantics
properties quantify over; numerics are compared by value, so Integer/Bigint/Smallint are one
`int` constructor with an unbounded `Int` (64-bit range is a separate well-formedness
predicate, used where a property is about the boundary).
-/
namespace VibeProof

/-- Kleene truth values. -/
inductive TV where
  | t | f | u
  deriving DecidableEq, Repr, Inhabited

namespace TV
def and3 : TV → TV → TV
  | f, _ => f
  | _, f => f
  | t, t => t
  | _, _ => u

def or3 : TV → TV → TV
  | t, _ => t
  | _, t => t
  | f, f => f
  | _, _ => u

def not3 : TV → TV
  | t => f
  | f => t
  | u => u

def isU : TV → TV
  | u => t
  | _ => f

def ofBool (b : Bool) : TV := if b then t else f
end TV

inductive Value where
  | null
  | int (i : Int)
  | str (s : String)
  | bool (b : Bool)
  deriving DecidableEq, Repr, Inhabited

abbrev Row := List Value

inductive Err where
  | typeMismatch
  | columnOutOfRange
  | overflow
  | multiRow
  | unsupported
  deriving DecidableEq, Repr, Inhabited

namespace Value

def isNull : Value → Bool
  | null => true
  | _ => false

/-- A value in boolean position (`Boolean(b)` / `Null`), as `LogicalOps::and/or` accept it. -/
def toTV : Value → Except Err TV
  | null => .ok .u
  | bool true => .ok .t
  | bool false => .ok .f
  | _ => .error .typeMismatch

def ofTV : TV → Value
  | .t => bool true
  | .f => bool false
  | .u => null

/-- WHERE-clause truth of a value as the SELECT filter sees it: TRUE passes, NULL and FALSE
do not; non-zero integers count as TRUE (engine rule, see DESIGN.md C06 note). -/
def truthy : Value → Except Err TV
  | null => .ok .u
  | bool b => .ok (TV.ofBool b)
  | int i => .ok (TV.ofBool (i != 0))
  | str _ => .error .typeMismatch

def inRange64 (i : Int) : Bool := decide (-(2^63 : Int) ≤ i) && decide (i ≤ 2^63 - 1)

end Value

/-- Comparison outcome of two non-NULL values of the same type; `none` = type mismatch. -/
def Value.cmp? : Value → Value → Option Ordering
  | .int a, .int b => some (compare a b)
  | .str a, .str b => some (compare a b)
  | .bool a, .bool b => some (compare a.toNat b.toNat)
  | _, _ => none

end VibeProof
