import VibeProof.Props.C10
#print axioms VibeProof.C10.C10_init
#print axioms VibeProof.C10.C10_step
#print axioms VibeProof.C10.C10_history
#print axioms VibeProof.C10.C10_history_from_create
#print axioms VibeProof.C10.C10_primary_key_unique
#print axioms VibeProof.C10.C10_unique_on_non_null
#print axioms VibeProof.C10.C10_index_mirrors_rows
#print axioms VibeProof.C10.C10_not_null
#print axioms VibeProof.C10.C10_check_never_false
#print axioms VibeProof.C10.C10_conflict_iff
#print axioms VibeProof.C10.C10_append_skip_unsound
#print axioms VibeProof.C10.C10_add_check_accepted_all_rows
#print axioms VibeProof.C10.C10_add_check_rejected_unchanged
