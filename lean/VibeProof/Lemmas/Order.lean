import Std
import VibeProof.Model.Order
/-
Helper lemmas for C08: comparator laws (orientation + transitivity) lifted through the
NULL-last wrapper, the direction flip and the lexicographic combination; sortedness of
`mergeSort` for a comparator that is lawful on the elements of the list; DISTINCT.
-/
namespace VibeProof.OrderLemmas
open VibeProof Std

/-- orientation and transitivity of a three-way comparison on the elements satisfying `P` -/
structure CmpLaws {α : Type} (P : α → Prop) (cmp : α → α → Ordering) : Prop where
  swap : ∀ {a b}, P a → P b → cmp b a = (cmp a b).swap
  lt_lt : ∀ {a b c}, P a → P b → P c → cmp a b = .lt → cmp b c = .lt → cmp a c = .lt
  lt_eq : ∀ {a b c}, P a → P b → P c → cmp a b = .lt → cmp b c = .eq → cmp a c = .lt
  eq_lt : ∀ {a b c}, P a → P b → P c → cmp a b = .eq → cmp b c = .lt → cmp a c = .lt
  eq_eq : ∀ {a b c}, P a → P b → P c → cmp a b = .eq → cmp b c = .eq → cmp a c = .eq

theorem swap_eq_lt {o : Ordering} : o.swap = .lt ↔ o = .gt := by cases o <;> simp [Ordering.swap]
theorem swap_eq_eq {o : Ordering} : o.swap = .eq ↔ o = .eq := by cases o <;> simp [Ordering.swap]
theorem swap_eq_gt {o : Ordering} : o.swap = .gt ↔ o = .lt := by cases o <;> simp [Ordering.swap]

/-- a lawful comparison stays lawful when its result is reversed (DESC) -/
theorem CmpLaws.flip {α : Type} {P : α → Prop} {cmp : α → α → Ordering} (h : CmpLaws P cmp) :
    CmpLaws P (fun a b => (cmp a b).swap) where
  swap := by intro a b pa pb; simp [h.swap pa pb]
  lt_lt := by
    intro a b c pa pb pc h1 h2
    simp only [swap_eq_lt] at *
    have e1 : cmp b a = .lt := by rw [h.swap pa pb, h1]; rfl
    have e2 : cmp c b = .lt := by rw [h.swap pb pc, h2]; rfl
    have := h.lt_lt pc pb pa e2 e1
    rw [h.swap pc pa, this]; rfl
  lt_eq := by
    intro a b c pa pb pc h1 h2
    simp only [swap_eq_lt, swap_eq_eq] at *
    have e1 : cmp b a = .lt := by rw [h.swap pa pb, h1]; rfl
    have e2 : cmp c b = .eq := by rw [h.swap pb pc, h2]; rfl
    have := h.eq_lt pc pb pa e2 e1
    rw [h.swap pc pa, this]; rfl
  eq_lt := by
    intro a b c pa pb pc h1 h2
    simp only [swap_eq_lt, swap_eq_eq] at *
    have e1 : cmp b a = .eq := by rw [h.swap pa pb, h1]; rfl
    have e2 : cmp c b = .lt := by rw [h.swap pb pc, h2]; rfl
    have := h.lt_eq pc pb pa e2 e1
    rw [h.swap pc pa, this]; rfl
  eq_eq := by
    intro a b c pa pb pc h1 h2
    simp only [swap_eq_eq] at *
    exact h.eq_eq pa pb pc h1 h2

/-- laws of a comparison that is oriented and transitive in the sense of `Std` -/
theorem CmpLaws.ofStd {α : Type} (cmp : α → α → Ordering) [TransCmp cmp] : CmpLaws (fun _ => True) cmp where
  swap := by intro a b _ _; exact OrientedCmp.eq_swap
  lt_lt := by intro a b c _ _ _ h1 h2; exact TransCmp.lt_trans h1 h2
  lt_eq := by intro a b c _ _ _ h1 h2; exact TransCmp.lt_of_lt_of_eq h1 h2
  eq_lt := by intro a b c _ _ _ h1 h2; exact TransCmp.lt_of_eq_of_lt h1 h2
  eq_eq := by intro a b c _ _ _ h1 h2; exact TransCmp.eq_trans h1 h2

/-- non-NULL values of one type -/
def TypedNN (t : KTy) (v : Value) : Prop := v.hasTy t = true ∧ v.isNull = false

theorem cmpNonNull_laws (t : KTy) : CmpLaws (TypedNN t) cmpNonNull := by
  have hi := CmpLaws.ofStd (compare : Int → Int → Ordering)
  have hs := CmpLaws.ofStd (compare : String → String → Ordering)
  have hn := CmpLaws.ofStd (compare : Nat → Nat → Ordering)
  cases t
  · constructor
    · intro a b pa pb
      cases a <;> cases b <;> first
        | (exfalso; simp_all [TypedNN, Value.hasTy, Value.isNull]; done)
        | exact hi.swap trivial trivial
    · intro a b c pa pb pc
      cases a <;> cases b <;> cases c <;> first
        | (exfalso; simp_all [TypedNN, Value.hasTy, Value.isNull]; done)
        | exact hi.lt_lt trivial trivial trivial
    · intro a b c pa pb pc
      cases a <;> cases b <;> cases c <;> first
        | (exfalso; simp_all [TypedNN, Value.hasTy, Value.isNull]; done)
        | exact hi.lt_eq trivial trivial trivial
    · intro a b c pa pb pc
      cases a <;> cases b <;> cases c <;> first
        | (exfalso; simp_all [TypedNN, Value.hasTy, Value.isNull]; done)
        | exact hi.eq_lt trivial trivial trivial
    · intro a b c pa pb pc
      cases a <;> cases b <;> cases c <;> first
        | (exfalso; simp_all [TypedNN, Value.hasTy, Value.isNull]; done)
        | exact hi.eq_eq trivial trivial trivial
  · constructor
    · intro a b pa pb
      cases a <;> cases b <;> first
        | (exfalso; simp_all [TypedNN, Value.hasTy, Value.isNull]; done)
        | exact hs.swap trivial trivial
    · intro a b c pa pb pc
      cases a <;> cases b <;> cases c <;> first
        | (exfalso; simp_all [TypedNN, Value.hasTy, Value.isNull]; done)
        | exact hs.lt_lt trivial trivial trivial
    · intro a b c pa pb pc
      cases a <;> cases b <;> cases c <;> first
        | (exfalso; simp_all [TypedNN, Value.hasTy, Value.isNull]; done)
        | exact hs.lt_eq trivial trivial trivial
    · intro a b c pa pb pc
      cases a <;> cases b <;> cases c <;> first
        | (exfalso; simp_all [TypedNN, Value.hasTy, Value.isNull]; done)
        | exact hs.eq_lt trivial trivial trivial
    · intro a b c pa pb pc
      cases a <;> cases b <;> cases c <;> first
        | (exfalso; simp_all [TypedNN, Value.hasTy, Value.isNull]; done)
        | exact hs.eq_eq trivial trivial trivial
  · constructor
    · intro a b pa pb
      cases a <;> cases b <;> first
        | (exfalso; simp_all [TypedNN, Value.hasTy, Value.isNull]; done)
        | exact hn.swap trivial trivial
    · intro a b c pa pb pc
      cases a <;> cases b <;> cases c <;> first
        | (exfalso; simp_all [TypedNN, Value.hasTy, Value.isNull]; done)
        | exact hn.lt_lt trivial trivial trivial
    · intro a b c pa pb pc
      cases a <;> cases b <;> cases c <;> first
        | (exfalso; simp_all [TypedNN, Value.hasTy, Value.isNull]; done)
        | exact hn.lt_eq trivial trivial trivial
    · intro a b c pa pb pc
      cases a <;> cases b <;> cases c <;> first
        | (exfalso; simp_all [TypedNN, Value.hasTy, Value.isNull]; done)
        | exact hn.eq_lt trivial trivial trivial
    · intro a b c pa pb pc
      cases a <;> cases b <;> cases c <;> first
        | (exfalso; simp_all [TypedNN, Value.hasTy, Value.isNull]; done)
        | exact hn.eq_eq trivial trivial trivial

/-- NULL-last wrapper of `keyCmp` around an inner comparison of the non-NULL values -/
def nullLast (cmp : Value → Value → Ordering) (a b : Value) : Ordering :=
  match a.isNull, b.isNull with
  | true, true => .eq
  | true, false => .gt
  | false, true => .lt
  | false, false => cmp a b

theorem keyCmp_eq (d : Dir) : keyCmp d = nullLast (match d with
    | .asc => cmpNonNull
    | .desc => fun a b => (cmpNonNull a b).swap) := by
  funext a b
  cases d <;> cases ha : a.isNull <;> cases hb : b.isNull <;> simp [keyCmp, nullLast, ha, hb]

theorem nullLast_laws {t : KTy} {cmp : Value → Value → Ordering} (h : CmpLaws (TypedNN t) cmp) :
    CmpLaws (fun v => v.hasTy t = true) (nullLast cmp) where
  swap := by
    intro a b pa pb
    cases ha : a.isNull <;> cases hb : b.isNull <;> simp [nullLast, ha, hb, Ordering.swap]
    exact h.swap ⟨pa, ha⟩ ⟨pb, hb⟩
  lt_lt := by
    intro a b c pa pb pc
    cases ha : a.isNull <;> cases hb : b.isNull <;> cases hc : c.isNull <;> simp [nullLast, ha, hb, hc]
    exact h.lt_lt ⟨pa, ha⟩ ⟨pb, hb⟩ ⟨pc, hc⟩
  lt_eq := by
    intro a b c pa pb pc
    cases ha : a.isNull <;> cases hb : b.isNull <;> cases hc : c.isNull <;> simp [nullLast, ha, hb, hc]
    exact h.lt_eq ⟨pa, ha⟩ ⟨pb, hb⟩ ⟨pc, hc⟩
  eq_lt := by
    intro a b c pa pb pc
    cases ha : a.isNull <;> cases hb : b.isNull <;> cases hc : c.isNull <;> simp [nullLast, ha, hb, hc]
    exact h.eq_lt ⟨pa, ha⟩ ⟨pb, hb⟩ ⟨pc, hc⟩
  eq_eq := by
    intro a b c pa pb pc
    cases ha : a.isNull <;> cases hb : b.isNull <;> cases hc : c.isNull <;> simp [nullLast, ha, hb, hc]
    exact h.eq_eq ⟨pa, ha⟩ ⟨pb, hb⟩ ⟨pc, hc⟩

theorem keyCmp_laws (t : KTy) (d : Dir) : CmpLaws (fun v => v.hasTy t = true) (keyCmp d) := by
  rw [keyCmp_eq]
  cases d
  · exact nullLast_laws (cmpNonNull_laws t)
  · exact nullLast_laws (cmpNonNull_laws t).flip

/-- the lexicographic comparison of well-typed key lists is lawful -/
theorem keysCmp_laws (tys : List (KTy × Dir)) : CmpLaws (fun k => wellTyped tys k = true) keysCmp := by
  induction tys with
  | nil =>
    have hnil : ∀ k : SortKey, wellTyped [] k = true → k = [] := by
      intro k h; cases k <;> simp_all [wellTyped]
    constructor
    · intro a b pa pb; rw [hnil a pa, hnil b pb]; simp [keysCmp, Ordering.swap]
    all_goals
      intro a b c pa pb pc
      rw [hnil a pa, hnil b pb, hnil c pc]; simp [keysCmp]
  | cons td tys ih =>
    obtain ⟨t, d⟩ := td
    have hk := keyCmp_laws t d
    constructor
    · intro a b pa pb
      cases a with
      | nil => simp [wellTyped] at pa
      | cons x xs =>
        cases b with
        | nil => simp [wellTyped] at pb
        | cons y ys =>
          obtain ⟨xv, xd⟩ := x
          obtain ⟨yv, yd⟩ := y
          simp only [wellTyped, Bool.and_eq_true, beq_iff_eq] at pa pb
          obtain ⟨⟨tx, dx⟩, wx⟩ := pa
          obtain ⟨⟨ty, dy⟩, wy⟩ := pb
          subst dx; subst dy
          simp only [keysCmp]
          rw [hk.swap tx ty]
          cases hxy : keyCmp d xv yv <;> simp [Ordering.swap]
          exact ih.swap wx wy
    all_goals
      intro a b c pa pb pc
      cases a with
      | nil => simp [wellTyped] at pa
      | cons x xs =>
        cases b with
        | nil => simp [wellTyped] at pb
        | cons y ys =>
          cases c with
          | nil => simp [wellTyped] at pc
          | cons z zs =>
            obtain ⟨xv, xd⟩ := x
            obtain ⟨yv, yd⟩ := y
            obtain ⟨zv, zd⟩ := z
            simp only [wellTyped, Bool.and_eq_true, beq_iff_eq] at pa pb pc
            obtain ⟨⟨tx, dx⟩, wx⟩ := pa
            obtain ⟨⟨ty, dy⟩, wy⟩ := pb
            obtain ⟨⟨tz, dz⟩, wz⟩ := pc
            subst dx; subst dy; subst dz
            simp only [keysCmp]
            cases hxy : keyCmp d xv yv <;> cases hyz : keyCmp d yv zv <;> simp
            all_goals first
              | done
              | (have e := hk.lt_lt tx ty tz hxy hyz; simp [e]; done)
              | (have e := hk.lt_eq tx ty tz hxy hyz; simp [e]; done)
              | (have e := hk.eq_lt tx ty tz hxy hyz; simp [e]; done)
              | (have e := hk.eq_eq tx ty tz hxy hyz; simp only [e]; first
                  | exact ih.lt_lt wx wy wz
                  | exact ih.lt_eq wx wy wz
                  | exact ih.eq_lt wx wy wz
                  | exact ih.eq_eq wx wy wz)


/-! ### generic versions: NULL-last wrapper and lexicographic key lists over any value type -/

/-- NULL-last wrapper around a comparison of the non-NULL values, for any value type -/
def nullLastG {α : Type} (isNull : α → Bool) (cmp : α → α → Ordering) (a b : α) : Ordering :=
  match isNull a, isNull b with
  | true, true => .eq
  | true, false => .gt
  | false, true => .lt
  | false, false => cmp a b

theorem nullLastG_laws {α : Type} {isNull : α → Bool} {cmp : α → α → Ordering}
    (h : CmpLaws (fun _ : α => True) cmp) : CmpLaws (fun _ : α => True) (nullLastG isNull cmp) where
  swap := by
    intro a b _ _
    cases ha : isNull a <;> cases hb : isNull b <;> simp [nullLastG, ha, hb, Ordering.swap]
    exact h.swap trivial trivial
  lt_lt := by
    intro a b c _ _ _
    cases ha : isNull a <;> cases hb : isNull b <;> cases hc : isNull c <;> simp [nullLastG, ha, hb, hc]
    exact h.lt_lt trivial trivial trivial
  lt_eq := by
    intro a b c _ _ _
    cases ha : isNull a <;> cases hb : isNull b <;> cases hc : isNull c <;> simp [nullLastG, ha, hb, hc]
    exact h.lt_eq trivial trivial trivial
  eq_lt := by
    intro a b c _ _ _
    cases ha : isNull a <;> cases hb : isNull b <;> cases hc : isNull c <;> simp [nullLastG, ha, hb, hc]
    exact h.eq_lt trivial trivial trivial
  eq_eq := by
    intro a b c _ _ _
    cases ha : isNull a <;> cases hb : isNull b <;> cases hc : isNull c <;> simp [nullLastG, ha, hb, hc]
    exact h.eq_eq trivial trivial trivial

/-- the comparison closure of `apply_order_by` over key lists of any value type -/
def lexCmp {α : Type} (cmp : Dir → α → α → Ordering) : List (α × Dir) → List (α × Dir) → Ordering
  | (a, d) :: as, (b, _) :: bs =>
    match cmp d a b with
    | .eq => lexCmp cmp as bs
    | o => o
  | _, _ => .eq

/-- a key list has exactly the directions of the ORDER BY items -/
def shaped {α : Type} : List Dir → List (α × Dir) → Bool
  | [], [] => true
  | d :: ds, (_, d') :: ks => d == d' && shaped ds ks
  | _, _ => false

theorem lexCmp_laws {α : Type} (cmp : Dir → α → α → Ordering)
    (h : ∀ d, CmpLaws (fun _ : α => True) (cmp d)) (dirs : List Dir) :
    CmpLaws (fun k : List (α × Dir) => shaped dirs k = true) (lexCmp cmp) := by
  induction dirs with
  | nil =>
    have hnil : ∀ k : List (α × Dir), shaped [] k = true → k = [] := by
      intro k hk; cases k <;> simp_all [shaped]
    constructor
    · intro a b pa pb; rw [hnil a pa, hnil b pb]; simp [lexCmp, Ordering.swap]
    all_goals
      intro a b c pa pb pc
      rw [hnil a pa, hnil b pb, hnil c pc]; simp [lexCmp]
  | cons d dirs ih =>
    have hk := h d
    constructor
    · intro a b pa pb
      cases a with
      | nil => simp [shaped] at pa
      | cons x xs =>
        cases b with
        | nil => simp [shaped] at pb
        | cons y ys =>
          obtain ⟨xv, xd⟩ := x
          obtain ⟨yv, yd⟩ := y
          simp only [shaped, Bool.and_eq_true, beq_iff_eq] at pa pb
          obtain ⟨dx, wx⟩ := pa
          obtain ⟨dy, wy⟩ := pb
          subst dx; subst dy
          simp only [lexCmp]
          rw [hk.swap (a := xv) (b := yv) trivial trivial]
          cases hxy : cmp d xv yv <;> simp [Ordering.swap]
          exact ih.swap wx wy
    all_goals
      intro a b c pa pb pc
      cases a with
      | nil => simp [shaped] at pa
      | cons x xs =>
        cases b with
        | nil => simp [shaped] at pb
        | cons y ys =>
          cases c with
          | nil => simp [shaped] at pc
          | cons z zs =>
            obtain ⟨xv, xd⟩ := x
            obtain ⟨yv, yd⟩ := y
            obtain ⟨zv, zd⟩ := z
            simp only [shaped, Bool.and_eq_true, beq_iff_eq] at pa pb pc
            obtain ⟨dx, wx⟩ := pa
            obtain ⟨dy, wy⟩ := pb
            obtain ⟨dz, wz⟩ := pc
            subst dx; subst dy; subst dz
            simp only [lexCmp]
            cases hxy : cmp d xv yv <;> cases hyz : cmp d yv zv <;> simp
            all_goals first
              | done
              | (have e := hk.lt_lt (a := xv) (b := yv) (c := zv) trivial trivial trivial hxy hyz; simp [e]; done)
              | (have e := hk.lt_eq (a := xv) (b := yv) (c := zv) trivial trivial trivial hxy hyz; simp [e]; done)
              | (have e := hk.eq_lt (a := xv) (b := yv) (c := zv) trivial trivial trivial hxy hyz; simp [e]; done)
              | (have e := hk.eq_eq (a := xv) (b := yv) (c := zv) trivial trivial trivial hxy hyz; simp only [e]; first
                  | exact ih.lt_lt wx wy wz
                  | exact ih.lt_eq wx wy wz
                  | exact ih.eq_lt wx wy wz
                  | exact ih.eq_eq wx wy wz)

/-- `≤`-transitivity and totality of the Boolean order derived from a lawful comparison -/
theorem CmpLaws.le_trans {α : Type} {P : α → Prop} {cmp : α → α → Ordering} (h : CmpLaws P cmp)
    {a b c : α} (pa : P a) (pb : P b) (pc : P c)
    (h1 : (cmp a b != .gt) = true) (h2 : (cmp b c != .gt) = true) : (cmp a c != .gt) = true := by
  cases hab : cmp a b <;> cases hbc : cmp b c <;> simp_all
  · rw [h.lt_lt pa pb pc hab hbc]; simp
  · rw [h.lt_eq pa pb pc hab hbc]; simp
  · rw [h.eq_lt pa pb pc hab hbc]; simp
  · rw [h.eq_eq pa pb pc hab hbc]; simp

theorem CmpLaws.le_total {α : Type} {P : α → Prop} {cmp : α → α → Ordering} (h : CmpLaws P cmp)
    {a b : α} (pa : P a) (pb : P b) : ((cmp a b != .gt) || (cmp b a != .gt)) = true := by
  rw [h.swap pa pb]
  cases cmp a b <;> simp [Ordering.swap]

/-- `mergeSort` sorts every list on whose elements the order is transitive and total -/
theorem pairwise_mergeSort_on {α : Type} (le : α → α → Bool) (P : α → Prop)
    (trans : ∀ a b c, P a → P b → P c → le a b = true → le b c = true → le a c = true)
    (total : ∀ a b, P a → P b → (le a b || le b a) = true)
    (l : List α) (hl : ∀ x ∈ l, P x) :
    (l.mergeSort le).Pairwise (fun a b => le a b = true) := by
  let le' : {x // P x} → {x // P x} → Bool := fun a b => le a.1 b.1
  have hs : ((l.attachWith P hl).mergeSort le').Pairwise (fun a b => le' a b = true) :=
    List.pairwise_mergeSort
      (fun a b c => trans a.1 b.1 c.1 a.2 b.2 c.2)
      (fun a b => total a.1 b.1 a.2 b.2) _
  have hm : ((l.attachWith P hl).mergeSort le').map Subtype.val
      = ((l.attachWith P hl).map Subtype.val).mergeSort le :=
    List.map_mergeSort (fun _ _ _ _ => rfl)
  rw [List.attachWith_map_subtype_val] at hm
  rw [← hm, List.pairwise_map]
  exact hs

/-! DISTINCT -/

theorem distinct_cons {α : Type} [DecidableEq α] (r : α) (rs : List α) :
    distinct (r :: rs) = r :: (distinct rs).filter (fun x => !(x == r)) := rfl

theorem mem_distinct {α : Type} [DecidableEq α] (l : List α) (x : α) : x ∈ distinct l ↔ x ∈ l := by
  induction l with
  | nil => simp [distinct]
  | cons r rs ih =>
    rw [distinct_cons]
    by_cases h : x = r <;> simp [h, ih]

theorem nodup_distinct {α : Type} [DecidableEq α] (l : List α) : (distinct l).Nodup := by
  induction l with
  | nil => simp [distinct]
  | cons r rs ih =>
    rw [distinct_cons, List.nodup_cons]
    exact ⟨by simp, ih.filter _⟩

theorem distinct_sublist {α : Type} [DecidableEq α] (l : List α) : (distinct l).Sublist l := by
  induction l with
  | nil => simp [distinct]
  | cons r rs ih =>
    rw [distinct_cons]
    exact ((List.filter_sublist).trans ih).cons_cons r

theorem distinct_filter {α : Type} [DecidableEq α] (q : α → Bool) (l : List α) :
    (distinct l).filter q = distinct (l.filter q) := by
  induction l with
  | nil => simp [distinct]
  | cons r rs ih =>
    rw [distinct_cons]
    by_cases hq : q r = true
    · rw [List.filter_cons_of_pos hq, List.filter_cons_of_pos hq, distinct_cons, ← ih,
        List.filter_filter, List.filter_filter]
      congr 2
      funext x
      exact Bool.and_comm _ _
    · rw [List.filter_cons_of_neg hq, List.filter_cons_of_neg hq, ← ih, List.filter_filter]
      apply List.filter_congr
      intro x _
      by_cases hx : x = r
      · subst hx; simp [hq]
      · simp [hx]

theorem distinctLoop_eq {α : Type} [DecidableEq α] (rs seen acc : List α) :
    distinctLoop rs seen acc = acc.reverse ++ distinct (rs.filter (fun x => decide (x ∉ seen))) := by
  induction rs generalizing seen acc with
  | nil => simp [distinctLoop, distinct]
  | cons r rs ih =>
    by_cases h : r ∈ seen
    · simp [distinctLoop, h, ih]
    · simp only [distinctLoop, h, if_false, ih, List.reverse_cons, List.append_assoc,
        List.singleton_append]
      rw [List.filter_cons_of_pos (by simp [h]), distinct_cons, distinct_filter, List.filter_filter]
      congr 3
      apply List.filter_congr
      intro x _
      by_cases hx : x = r <;> simp [hx, h]

end VibeProof.OrderLemmas
