//! C16 — query results do not depend on the index storage backend.
//!
//! Twin databases: `Database::new()` (indexes stay in memory) and
//! `Database::with_path_and_config(private dir, memory_budget 0, SpillToDisk)` (every user index is
//! spilled to the disk-backed B+ tree when it is created; checked through `get_index_data`).
//! Mode A (direct oracle, SQL): the same DML / query workload on both; every query result and,
//!   after every statement, the contents of every index are compared between the twins.
//! Mode B (correspondence + oracle, index API): the maintenance entry points the executor calls
//!   (`insert_row`, `update_indexes_for_update`, `update_indexes_for_delete`) with explicit row
//!   indexes on both twins; index contents of both backends vs the Lean model of both backends
//!   (`drv_c16`), and `IndexData::{get, contains_key, multi_lookup, range_scan, values}` twin-compared.
use std::collections::BTreeMap;
use std::panic::{catch_unwind, AssertUnwindSafe};

use vharness::*;
use vibesql_storage::btree::VerifNode;
use vibesql_storage::database::indexes::IndexData;
use vibesql_storage::database::{DatabaseConfig, SpillPolicy};
use vibesql_storage::{Database, Row};
use vibesql_types::SqlValue;

type Contents = Vec<(Vec<SqlValue>, Vec<usize>)>;

fn collect(n: &VerifNode, out: &mut Contents) {
    match n {
        VerifNode::Leaf { entries, .. } => out.extend(entries.iter().cloned()),
        VerifNode::Internal { children, .. } => children.iter().for_each(|c| collect(c, out)),
    }
}

/// (is disk backed, contents in key order, degree)
fn contents(db: &Database, index: &str) -> Result<(bool, Contents, usize), String> {
    match db.get_index_data(index) {
        None => Err(format!("index {} has no data", index)),
        Some(IndexData::InMemory { data }) => Ok((false, data.iter().map(|(k, v)| (k.clone(), v.clone())).collect(), 0)),
        Some(IndexData::DiskBacked { btree, .. }) => {
            let g = btree.lock();
            let mut out = vec![];
            collect(&g.verif_dump().map_err(|e| format!("{:?}", e))?, &mut out);
            Ok((true, out, g.degree()))
        }
    }
}

fn canon_contents(c: &Contents) -> String {
    c.iter()
        .map(|(k, rs)| {
            let mut rs = rs.clone();
            rs.sort();
            format!("{}→{:?}", canon::row(k), rs)
        })
        .collect::<Vec<_>>()
        .join(" ")
}

fn twins(args: &Args, id: u64) -> (Db, Db, std::path::PathBuf) {
    let dir = args.scratch.join(format!("db{}", id));
    let _ = std::fs::remove_dir_all(&dir);
    std::fs::create_dir_all(&dir).unwrap();
    let cfg = DatabaseConfig { memory_budget: 0, spill_policy: SpillPolicy::SpillToDisk, ..DatabaseConfig::default() };
    let mem = Db::from(Database::new());
    let disk = Db::from(Database::with_path_and_config(dir.clone(), cfg));
    (mem, disk, dir)
}

/// the two table shapes: 0 = integer / string keys (many duplicates), 1 = fractional, REAL, NUMERIC,
/// string and DATE keys on a dense grid (k, k+0.25, k+0.5, k+0.75): no "next value = +1" anywhere
static SCHEMA: std::sync::atomic::AtomicUsize = std::sync::atomic::AtomicUsize::new(0);
fn schema() -> usize {
    SCHEMA.load(std::sync::atomic::Ordering::Relaxed)
}
fn set_schema(k: usize) {
    SCHEMA.store(k, std::sync::atomic::Ordering::Relaxed)
}
const INDEXES_T: [(&str, &str, &[usize]); 3] = [("ix_a", "a", &[1]), ("ix_b", "b", &[2]), ("ix_ac", "a, c", &[1, 3])];
const INDEXES_U: [(&str, &str, &[usize]); 7] =
    [("ix_x", "x", &[1]), ("ix_y", "y", &[2]), ("ix_r", "r", &[3]), ("ix_s", "s", &[4]), ("ix_dt", "dt", &[5]), ("ix_n", "n", &[6]), ("ix_xn", "x, n", &[1, 6])];
fn indexes() -> &'static [(&'static str, &'static str, &'static [usize])] {
    if schema() == 0 { &INDEXES_T } else { &INDEXES_U }
}
fn create_table_sql() -> &'static str {
    if schema() == 0 {
        "CREATE TABLE t (id INTEGER, a INTEGER, b VARCHAR(20), c INTEGER)"
    } else {
        "CREATE TABLE t (id INTEGER, x DOUBLE PRECISION, y NUMERIC(10,2), r REAL, s VARCHAR(20), dt DATE, n INTEGER)"
    }
}
fn table_doc() -> &'static str {
    if schema() == 0 { "t(id,a,b,c); indexes ix_a(a), ix_b(b), ix_ac(a,c)" } else { "t(id,x DOUBLE,y NUMERIC,r REAL,s VARCHAR,dt DATE,n INTEGER); indexes ix_x, ix_y, ix_r, ix_s, ix_dt, ix_n, ix_xn(x,n)" }
}
/// grid value q/4
fn grid(q: i64) -> f64 {
    q as f64 / 4.0
}
fn date_of(q: i64) -> SqlValue {
    let q = q.rem_euclid(336);
    SqlValue::Date(vibesql_types::Date::new(2024, 1 + (q / 28) as u8, 1 + (q % 28) as u8).unwrap())
}
/// `normalize_for_comparison` of the index layer
fn norm_val(v: &SqlValue) -> SqlValue {
    match v {
        SqlValue::Integer(i) | SqlValue::Bigint(i) => SqlValue::Double(*i as f64),
        SqlValue::Smallint(i) => SqlValue::Double(*i as f64),
        SqlValue::Numeric(f) => SqlValue::Double(*f),
        SqlValue::Real(f) | SqlValue::Float(f) => SqlValue::Double(*f as f64),
        o => o.clone(),
    }
}

fn lit(v: &SqlValue) -> String {
    match v {
        SqlValue::Null => "NULL".into(),
        SqlValue::Integer(i) => {
            if *i < 0 { format!("(0{})", i) } else { i.to_string() }
        }
        SqlValue::Varchar(s) => format!("'{}'", s),
        SqlValue::Double(f) | SqlValue::Numeric(f) => format!("{:?}", f),
        SqlValue::Real(f) | SqlValue::Float(f) => format!("{:?}", f),
        SqlValue::Date(d) => format!("DATE '{:04}-{:02}-{:02}'", d.year, d.month, d.day),
        other => format!("{:?}", other),
    }
}

fn gen_row(rng: &mut Rng, id: i64, spread: i64) -> Vec<SqlValue> {
    if schema() == 1 {
        let q = |rng: &mut Rng| rng.range(0, spread * 4);
        let nul = |rng: &mut Rng, v: SqlValue| if rng.chance(1, 14) { SqlValue::Null } else { v };
        let (qx, qy, qr, qs, qd) = (q(rng), q(rng), q(rng), q(rng), q(rng));
        let nv = rng.range(0, spread);
        return vec![
            SqlValue::Integer(id),
            nul(rng, SqlValue::Double(grid(qx))),
            nul(rng, SqlValue::Numeric(grid(qy))),
            nul(rng, SqlValue::Real(grid(qr) as f32)),
            nul(rng, SqlValue::Varchar(format!("k{:04}", qs * 25))),
            nul(rng, date_of(qd)),
            nul(rng, SqlValue::Integer(nv)),
        ];
    }
    let a = if rng.chance(1, 12) { SqlValue::Null } else { SqlValue::Integer(rng.range(0, spread)) };
    let b = if rng.chance(1, 12) { SqlValue::Null } else { SqlValue::Varchar(format!("s{}", rng.range(0, spread))) };
    let c = if rng.chance(1, 12) { SqlValue::Null } else { SqlValue::Integer(rng.range(0, 5)) };
    vec![SqlValue::Integer(id), a, b, c]
}

fn out_canon(o: &Out, ordered_by_first: bool) -> String {
    match o {
        Out::Rows(r) => {
            if ordered_by_first {
                // ORDER BY on the first selected column: that column's sequence is the observable
                format!("seq {}", r.iter().map(|x| canon::val(&x[0])).collect::<Vec<_>>().join(","))
            } else {
                let mut v: Vec<String> = r.iter().map(|x| canon::row(x)).collect();
                v.sort();
                format!("bag {}", v.join(""))
            }
        }
        Out::Count(n) => format!("count {}", n),
        Out::Err { class, .. } => format!("err {}", class),
        Out::Panic(m) => format!("panic {}", m),
    }
}

struct Shared {
    dup_keys_seen: bool,
}

/// a numeric bound on the grid (equal to keys that exist) or strictly between two grid points
fn num_bound(rng: &mut Rng, spread: i64) -> f64 {
    let g = grid(rng.range(0, spread * 4));
    match rng.below(3) {
        0 => g + 0.125,
        _ => g,
    }
}

/// statements for the fractional / string / date schema: every comparison operator, strict and not,
/// bounds on and between keys, on every indexed column (the executor's residual filter included:
/// what is compared is the query result)
fn gen_stmt_u(rng: &mut Rng, next_id: &mut i64, spread: i64) -> (String, bool) {
    let x = rng.below(100);
    if x < 16 {
        let r = gen_row(rng, *next_id, spread);
        *next_id += 1;
        return (format!("INSERT INTO t SELECT {}", r.iter().map(lit).collect::<Vec<_>>().join(", ")), false);
    }
    let any_id = |rng: &mut Rng, n: i64| rng.below(n.max(1) as u64);
    if x < 30 {
        let r = gen_row(rng, 0, spread);
        let (col, i) = *rng.pick(&[("x", 1usize), ("y", 2), ("r", 3), ("s", 4), ("dt", 5), ("n", 6)]);
        let wh = if rng.chance(1, 2) { format!("id = {}", any_id(rng, *next_id)) } else { format!("x > {:?}", num_bound(rng, spread)) };
        return (format!("UPDATE t SET {} = {} WHERE {}", col, lit(&r[i]), wh), false);
    }
    if x < 38 {
        let wh = if rng.chance(2, 3) { format!("id = {}", any_id(rng, *next_id)) } else { format!("y > {:?} AND y < {:?}", num_bound(rng, spread), num_bound(rng, spread)) };
        return (format!("DELETE FROM t WHERE {}", wh), false);
    }
    let op = *rng.pick(&[">", ">", ">=", "<", "<=", "="]);
    let (b1, b2) = {
        let p = num_bound(rng, spread);
        let q = num_bound(rng, spread);
        (p.min(q), p.max(q))
    };
    match rng.below(12) {
        0 | 1 => {
            let c = *rng.pick(&["x", "y", "r"]);
            (format!("SELECT * FROM t WHERE {} {} {:?}", c, op, b1), false)
        }
        2 => {
            let c = *rng.pick(&["x", "y", "r"]);
            (format!("SELECT * FROM t WHERE {} > {:?} AND {} {} {:?}", c, b1, c, rng.pick(&["<", "<="]), b2), false)
        }
        3 => {
            let c = *rng.pick(&["x", "y", "r"]);
            (format!("SELECT * FROM t WHERE {} BETWEEN {:?} AND {:?}", c, b1, b2), false)
        }
        4 => (format!("SELECT * FROM t WHERE n {} {:?}", op, b1), false), // integer column, fractional bound
        5 => (format!("SELECT * FROM t WHERE s {} 'k{:04}'", op, rng.range(0, spread * 4) * 25 + *rng.pick(&[0i64, 0, 12])), false),
        6 => (format!("SELECT * FROM t WHERE dt {} {}", op, lit(&date_of(rng.range(0, spread * 4)))), false),
        7 => (format!("SELECT * FROM t WHERE x > {:?} AND n {} {}", b1, rng.pick(&[">", ">=", "<", "="]), rng.range(0, spread)), false),
        8 => (format!("SELECT x, id FROM t WHERE x > {:?} ORDER BY x", b1), true),
        9 => (format!("SELECT * FROM t WHERE x IN ({:?}, {:?}, {:?})", b1, b2, grid(rng.range(0, spread * 4))), false),
        10 => (format!("SELECT COUNT(*) FROM t WHERE r > {:?}", b1), false),
        _ => (format!("SELECT * FROM t WHERE y >= {:?} AND y < {:?}", b1, b2), false),
    }
}

/// compare index contents of the twins; returns a description of the first difference
fn compare_indexes(mem: &Db, disk: &Db, rep: &mut Report, must_be_spilled: bool) -> Result<(), String> {
    for (ix, _, _) in indexes().iter().copied() {
        // indexes come and go (DROP INDEX / DROP TABLE / ROLLBACK): the registries must agree
        let (em, ed) = (mem.db.index_exists(ix), disk.db.index_exists(ix));
        if em != ed {
            return Err(format!("index {} exists on the in-memory twin: {}, on the disk-backed twin: {}", ix, em, ed));
        }
        if !em {
            rep.count("index_checks_absent");
            continue;
        }
        let (m_disk, m, _) = contents(&mem.db, ix)?;
        let (d_disk, d, _) = contents(&disk.db, ix)?;
        if m_disk {
            return Err(format!("index {} of the in-memory twin is disk backed", ix));
        }
        if must_be_spilled && !d_disk {
            return Err(format!("index {} of the budget-0 twin was not spilled", ix));
        }
        rep.count(if d_disk { "index_checks_disk_backed" } else { "index_checks_budget0_twin_in_memory" });
        if canon_contents(&m) != canon_contents(&d) {
            return Err(format!("contents of {} differ\n  in-memory : {}\n  disk-backed: {}", ix, canon_contents(&m), canon_contents(&d)));
        }
    }
    Ok(())
}

/// a DML statement of the current schema (never a query)
fn gen_dml(rng: &mut Rng, next_id: &mut i64, spread: i64) -> String {
    if schema() == 1 {
        loop {
            let (s, _) = gen_stmt_u(rng, next_id, spread);
            if !s.starts_with("SELECT") {
                return s;
            }
        }
    }
    let v = rng.range(0, spread);
    match rng.below(5) {
        0 => {
            let r = gen_row(rng, *next_id, spread);
            *next_id += 1;
            format!("INSERT INTO t SELECT {}", r.iter().map(lit).collect::<Vec<_>>().join(", "))
        }
        1 => format!("UPDATE t SET a = {} WHERE id = {}", v, rng.below((*next_id).max(1) as u64)),
        2 => format!("UPDATE t SET b = 's{}' WHERE a = {}", v, rng.range(0, spread)),
        3 => format!("UPDATE t SET a = {}, c = {} WHERE a = {}", v, rng.range(0, 5), rng.range(0, spread)),
        _ => format!("DELETE FROM t WHERE id = {}", rng.below((*next_id).max(1) as u64)),
    }
}

/// queries through the first column of an index
fn gen_probe_queries(rng: &mut Rng, ixi: usize, spread: i64) -> Vec<String> {
    let (_, cols, _) = indexes()[ixi];
    let col = cols.split(',').next().unwrap().trim();
    let b = |rng: &mut Rng| -> String {
        match col {
            "b" => format!("'s{}'", rng.range(0, spread)),
            "s" => format!("'k{:04}'", rng.range(0, spread * 4) * 25),
            "dt" => lit(&date_of(rng.range(0, spread * 4))),
            "a" | "n" => rng.range(0, spread).to_string(),
            _ => format!("{:?}", grid(rng.range(0, spread * 4))),
        }
    };
    vec![
        format!("SELECT * FROM t WHERE {} = {}", col, b(rng)),
        format!("SELECT * FROM t WHERE {} > {}", col, b(rng)),
        format!("SELECT * FROM t WHERE {} <= {}", col, b(rng)),
    ]
}

/// a transaction around DML and index DDL: BEGIN; DML…; [SAVEPOINT; DML…; ROLLBACK TO]; index DDL
/// (DROP INDEX / CREATE INDEX / DROP TABLE); DML…; ROLLBACK | COMMIT; then queries through the index
fn gen_txn_block(rng: &mut Rng, next_id: &mut i64, spread: i64, mem: &Db) -> Vec<String> {
    let mut v = vec!["BEGIN".to_string()];
    for _ in 0..rng.range(1, 3) {
        v.push(gen_dml(rng, next_id, spread));
    }
    if rng.chance(1, 3) {
        v.push("SAVEPOINT sp1".into());
        for _ in 0..rng.range(1, 2) {
            v.push(gen_dml(rng, next_id, spread));
        }
        if rng.chance(2, 3) {
            v.push("ROLLBACK TO SAVEPOINT sp1".into());
        }
    }
    let ixi = rng.below(indexes().len() as u64) as usize;
    let (ix, cols, _) = indexes()[ixi];
    let mut dropped_table = false;
    match rng.below(10) {
        0 => {
            v.push("DROP TABLE t".into());
            dropped_table = true;
        }
        1..=6 => v.push(if mem.db.index_exists(ix) { format!("DROP INDEX {}", ix) } else { format!("CREATE INDEX {} ON t ({})", ix, cols) }),
        7 => {
            // drop and re-create inside the same transaction
            if mem.db.index_exists(ix) {
                v.push(format!("DROP INDEX {}", ix));
            }
            v.push(gen_dml(rng, next_id, spread));
            v.push(format!("CREATE INDEX {} ON t ({})", ix, cols));
        }
        _ => {}
    }
    if !dropped_table {
        for _ in 0..rng.range(0, 2) {
            v.push(gen_dml(rng, next_id, spread));
        }
    }
    let rollback = rng.chance(3, 5);
    v.push(if rollback { "ROLLBACK".into() } else { "COMMIT".into() });
    if dropped_table && !rollback {
        // the table is gone for good: start over so that the rest of the history is not all errors
        v.push(create_table_sql().to_string());
        for _ in 0..6 {
            let r = gen_row(rng, *next_id, spread);
            *next_id += 1;
            v.push(format!("INSERT INTO t SELECT {}", r.iter().map(lit).collect::<Vec<_>>().join(", ")));
        }
        for (ix, cols, _) in indexes().iter().copied() {
            v.push(format!("CREATE INDEX {} ON t ({})", ix, cols));
        }
    }
    v.extend(gen_probe_queries(rng, ixi, spread));
    v
}

/// Mode A: SQL workload
fn mode_a(args: &Args, id: u64, rng: &mut Rng, rep: &mut Report, n_rows: usize, n_stmts: usize, spread: i64) -> Shared {
    let (mut mem, mut disk, dir) = twins(args, id);
    let mut sh = Shared { dup_keys_seen: false };
    let mut next_id = 0i64;
    let both = |mem: &mut Db, disk: &mut Db, sql: &str| -> (Out, Out) { (mem.exec(sql), disk.exec(sql)) };
    both(&mut mem, &mut disk, create_table_sql());
    for _ in 0..n_rows.max(1) {
        let r = gen_row(rng, next_id, spread);
        next_id += 1;
        both(&mut mem, &mut disk, &format!("INSERT INTO t SELECT {}", r.iter().map(lit).collect::<Vec<_>>().join(", ")));
    }
    for (ix, cols, _) in indexes().iter().copied() {
        both(&mut mem, &mut disk, &format!("CREATE INDEX {} ON t ({})", ix, cols));
    }
    let fail = |rep: &mut Report, mem: &Db, what: &str, detail: &str| {
        rep.fail(
            FailKind::Oracle,
            None,
            what,
            &format!("-- twin A: Database::new(); twin B: Database::with_path_and_config(dir, memory_budget 0, SpillToDisk)\n{};\n-- {}\n", mem.log.join(";\n"), detail),
        );
    };
    if let Err(e) = compare_indexes(&mem, &disk, rep, true) {
        fail(rep, &mem, "index contents differ between the backends right after CREATE INDEX / spill", &e);
        let _ = std::fs::remove_dir_all(&dir);
        return sh;
    }
    let mut pending: std::collections::VecDeque<String> = std::collections::VecDeque::new();
    let mut n_done = 0usize;
    while n_done < n_stmts || !pending.is_empty() {
        n_done += 1;
        let v = |rng: &mut Rng| rng.range(0, spread);
        let x = rng.below(100);
        if pending.is_empty() && rng.chance(1, 9) {
            pending.extend(gen_txn_block(rng, &mut next_id, spread, &mem));
            rep.count("txn_blocks");
        } else if pending.is_empty() && rng.chance(1, 30) {
            // index DDL outside a transaction
            let (ix, cols, _) = indexes()[rng.below(indexes().len() as u64) as usize];
            pending.push_back(if mem.db.index_exists(ix) { format!("DROP INDEX {}", ix) } else { format!("CREATE INDEX {} ON t ({})", ix, cols) });
        }
        let (sql, ordered) = if let Some(s) = pending.pop_front() {
            (s, false)
        } else if schema() == 1 {
            gen_stmt_u(rng, &mut next_id, spread)
        } else if x < 18 {
            let r = gen_row(rng, next_id, spread);
            next_id += 1;
            (format!("INSERT INTO t SELECT {}", r.iter().map(lit).collect::<Vec<_>>().join(", ")), false)
        } else if x < 36 {
            // update of an indexed column, by id or by predicate (several rows, duplicate keys)
            let col = *rng.pick(&["a", "b", "c"]);
            let newv = match col {
                "b" => format!("'s{}'", v(rng)),
                "c" => rng.range(0, 5).to_string(),
                _ => v(rng).to_string(),
            };
            let wh = if rng.chance(1, 2) { format!("id = {}", rng.below(next_id.max(1) as u64)) } else { format!("a = {}", v(rng)) };
            (format!("UPDATE t SET {} = {} WHERE {}", col, newv, wh), false)
        } else if x < 46 {
            let wh = if rng.chance(2, 3) { format!("id = {}", rng.below(next_id.max(1) as u64)) } else { format!("a = {} AND c = {}", v(rng), rng.range(0, 5)) };
            (format!("DELETE FROM t WHERE {}", wh), false)
        } else {
            let (lo, hi) = {
                let p = v(rng);
                let q = v(rng);
                (p.min(q), p.max(q))
            };
            match rng.below(11) {
                0 => (format!("SELECT * FROM t WHERE a = {}", lo), false),
                1 => (format!("SELECT * FROM t WHERE a > {} AND a < {}", lo, hi), false),
                2 => (format!("SELECT * FROM t WHERE a >= {} AND a <= {}", lo, hi), false),
                3 => (format!("SELECT * FROM t WHERE a BETWEEN {} AND {}", lo, hi), false),
                4 => (format!("SELECT * FROM t WHERE b = 's{}'", lo), false),
                5 => (format!("SELECT * FROM t WHERE b >= 's{}'", lo), false),
                6 => (format!("SELECT * FROM t WHERE a IN ({}, {}, {})", lo, hi, v(rng)), false),
                7 => (format!("SELECT a, id FROM t WHERE a >= {} ORDER BY a", lo), true),
                8 => (format!("SELECT * FROM t WHERE a = {} AND c > {}", lo, rng.range(0, 4)), false),
                9 => (format!("SELECT * FROM t WHERE a < {}", hi), false),
                _ => (format!("SELECT COUNT(*) FROM t WHERE a > {}", lo), false),
            }
        };
        let (om, od) = both(&mut mem, &mut disk, &sql);
        rep.count(&format!("stmt_{}", sql.split(' ').take(if sql.starts_with("DROP") || sql.starts_with("CREATE") || sql.starts_with("ROLLBACK TO") { 2 } else { 1 }).collect::<Vec<_>>().join("_")));
        let (cm, cd) = (out_canon(&om, ordered), out_canon(&od, ordered));
        if cm != cd {
            fail(rep, &mem, &format!("{} gives different results on the two index backends", sql.split(' ').next().unwrap_or("")), &format!("last statement\n-- in-memory : {}\n-- disk-backed: {}", cm, cd));
            break;
        }
        if mem.db.in_transaction() != disk.db.in_transaction() {
            fail(rep, &mem, "transaction state differs between the twins", "in_transaction()");
            break;
        }
        if let Err(e) = compare_indexes(&mem, &disk, rep, false) {
            fail(rep, &mem, "index contents differ between the backends", &e);
            break;
        }
        if let Ok((_, c, _)) = contents(&mem.db, indexes()[0].0) {
            if c.iter().any(|(_, rs)| rs.len() >= 2) {
                sh.dup_keys_seen = true;
            }
        }
    }
    drop(disk);
    let _ = std::fs::remove_dir_all(&dir);
    sh
}

#[derive(Clone, Debug)]
enum IOp {
    Ins(Vec<SqlValue>),
    Upd(usize, Vec<SqlValue>),
    Del(usize),
}

fn key_of(row: &[SqlValue], ix: &str) -> Vec<SqlValue> {
    let cols = indexes().iter().find(|i| i.0 == ix).map(|i| i.2).unwrap_or(&[]);
    cols.iter().map(|c| norm_val(&row[*c])).collect()
}

fn assoc_sx(c: &[(usize, Vec<usize>)]) -> String {
    format!(
        "({})",
        c.iter()
            .map(|(k, rs)| {
                let mut rs = rs.clone();
                rs.sort();
                format!("({}{})", k, rs.iter().map(|r| format!(" {}", r)).collect::<String>())
            })
            .collect::<Vec<_>>()
            .join(" ")
    )
}

/// Mode B: index maintenance entry points with explicit row indexes, both twins + the model
#[allow(clippy::too_many_arguments)]
fn mode_b(args: &Args, id: u64, rng: &mut Rng, model: &mut model::Model, rep: &mut Report, n_rows: usize, n_ops: usize, spread: i64, scripted: Option<(Vec<Vec<SqlValue>>, Vec<IOp>)>) -> bool {
    let (mut mem, mut disk, dir) = twins(args, id);
    for db in [&mut mem, &mut disk] {
        db.exec(create_table_sql());
    }
    // the key the table is stored under (insert_row does no name resolution)
    let tname = mem.db.list_tables().into_iter().next().unwrap_or_else(|| "t".into());
    // rows as the harness tracks them; None = deleted from the indexes
    let mut rows: Vec<Option<Vec<SqlValue>>> = vec![];
    let (init, ops): (Vec<Vec<SqlValue>>, Vec<IOp>) = match scripted {
        Some(s) => s,
        None => {
            let init: Vec<Vec<SqlValue>> = (0..n_rows.max(1)).map(|i| gen_row(rng, i as i64, spread)).collect();
            let mut live: Vec<usize> = (0..init.len()).collect();
            let mut total = init.len();
            let mut ops = vec![];
            for _ in 0..n_ops {
                let x = rng.below(100);
                if x < 35 || live.is_empty() {
                    ops.push(IOp::Ins(gen_row(rng, total as i64, spread)));
                    live.push(total);
                    total += 1;
                } else if x < 70 {
                    let r = live[rng.below(live.len() as u64) as usize];
                    ops.push(IOp::Upd(r, gen_row(rng, r as i64, spread)));
                } else {
                    let p = rng.below(live.len() as u64) as usize;
                    ops.push(IOp::Del(live.swap_remove(p)));
                }
            }
            (init, ops)
        }
    };
    for r in &init {
        for db in [&mut mem, &mut disk] {
            db.db.insert_row(&tname, Row::new(r.clone())).expect("harness precondition: insert_row");
        }
        rows.push(Some(r.clone()));
    }
    for (ix, cols, _) in indexes().iter().copied() {
        for db in [&mut mem, &mut disk] {
            db.exec(&format!("CREATE INDEX {} ON t ({})", ix, cols));
        }
    }
    let table = {
        // the name the index metadata carries
        disk.db.get_index(indexes()[0].0).map(|m| m.table_name.clone()).unwrap_or_else(|| "t".into())
    };
    let describe = |init: &Vec<Vec<SqlValue>>, ops: &Vec<IOp>, upto: usize| -> String {
        let mut s = format!("-- index-API replay: table {}; initial rows, then CREATE INDEX on both twins\n", table_doc());
        for r in init {
            s.push_str(&format!("insert_row {}\n", canon::row(r)));
        }
        for o in ops.iter().take(upto + 1) {
            s.push_str(&match o {
                IOp::Ins(r) => format!("insert_row {}\n", canon::row(r)),
                IOp::Upd(i, r) => format!("update_indexes_for_update row_index={} new={}\n", i, canon::row(r)),
                IOp::Del(i) => format!("update_indexes_for_delete row_index={}\n", i),
            });
        }
        s
    };
    // key pools per index over every key the case can produce
    let mut all_rows: Vec<Vec<SqlValue>> = init.clone();
    for o in &ops {
        match o {
            IOp::Ins(r) | IOp::Upd(_, r) => all_rows.push(r.clone()),
            _ => {}
        }
    }
    let mut ok = true;
    let mut pools: BTreeMap<&str, Vec<Vec<SqlValue>>> = BTreeMap::new();
    for (ix, _, _) in indexes().iter().copied() {
        let mut p: Vec<Vec<SqlValue>> = all_rows.iter().map(|r| key_of(r, ix)).collect();
        p.sort_by(|a, b| a.cmp(b));
        p.dedup_by(|a, b| a.as_slice().cmp(b.as_slice()) == std::cmp::Ordering::Equal);
        pools.insert(ix, p);
    }
    let rank = |ix: &str, k: &Vec<SqlValue>| pools[ix].binary_search_by(|p| p.cmp(k)).ok();
    // model request per index
    let mut model_steps: BTreeMap<&str, Vec<Sx>> = BTreeMap::new();
    for (ix, _, _) in indexes().iter().copied() {
        let mut bulk: Vec<(usize, usize)> = init.iter().enumerate().map(|(i, r)| (rank(ix, &key_of(r, ix)).unwrap(), i)).collect();
        bulk.sort();
        let degree = contents(&disk.db, ix).map(|c| c.2).unwrap_or(5).max(5);
        let mut cur: Vec<Option<Vec<SqlValue>>> = init.iter().cloned().map(Some).collect();
        let mut mops = vec![];
        for o in &ops {
            match o {
                IOp::Ins(r) => {
                    mops.push(format!("(ins {} {})", rank(ix, &key_of(r, ix)).unwrap(), cur.len()));
                    cur.push(Some(r.clone()));
                }
                IOp::Upd(i, r) => {
                    let old = cur[*i].clone().unwrap();
                    mops.push(format!("(upd {} {} {})", rank(ix, &key_of(&old, ix)).unwrap(), rank(ix, &key_of(r, ix)).unwrap(), i));
                    cur[*i] = Some(r.clone());
                }
                IOp::Del(i) => {
                    let old = cur[*i].clone().unwrap();
                    mops.push(format!("(del {} {})", rank(ix, &key_of(&old, ix)).unwrap(), i));
                    cur[*i] = None;
                }
            }
        }
        let reply = model.ask(&format!("idx {} ({}) ({})", degree, bulk.iter().map(|(k, r)| format!("({} {})", k, r)).collect::<Vec<_>>().join(" "), mops.join(" ")));
        match Sx::parse(&reply) {
            Some(Sx::List(v)) if v.first().and_then(|x| x.as_atom()) == Some("ok") => {
                model_steps.insert(ix, v[1..].to_vec());
            }
            _ => {
                rep.fail(FailKind::ModelDiff, None, "model driver rejected the request", &format!("{}\nmodel reply: {}", describe(&init, &ops, ops.len()), reply));
                ok = false;
            }
        }
    }
    // step 0 = after CREATE INDEX (spill), step i = after ops[i-1]
    'steps: for step in 0..=ops.len() {
        if !ok {
            break;
        }
        if step > 0 {
            let op = &ops[step - 1];
            let res = catch_unwind(AssertUnwindSafe(|| {
                for db in [&mut mem, &mut disk] {
                    match op {
                        IOp::Ins(r) => {
                            db.db.insert_row(&tname, Row::new(r.clone())).expect("harness precondition: insert_row");
                        }
                        IOp::Upd(i, r) => {
                            let old = Row::new(rows[*i].clone().unwrap());
                            db.db.update_indexes_for_update(&table, &old, &Row::new(r.clone()), *i);
                        }
                        IOp::Del(i) => {
                            let old = Row::new(rows[*i].clone().unwrap());
                            db.db.update_indexes_for_delete(&table, &old, *i);
                        }
                    }
                }
            }));
            if res.is_err() {
                rep.fail(FailKind::Oracle, None, "index maintenance panicked", &describe(&init, &ops, step - 1));
                ok = false;
                break;
            }
            match op {
                IOp::Ins(r) => {
                    rows.push(Some(r.clone()));
                    rep.count("iop_insert");
                }
                IOp::Upd(i, r) => {
                    rows[*i] = Some(r.clone());
                    rep.count("iop_update");
                }
                IOp::Del(i) => {
                    rows[*i] = None;
                    rep.count("iop_delete");
                }
            }
        }
        // direct oracle: the two backends hold the same multimap and answer the same
        if let Err(e) = compare_indexes(&mem, &disk, rep, true) {
            rep.fail(FailKind::Oracle, None, "index contents differ between the backends after an index maintenance call", &format!("{}-- {}\n", describe(&init, &ops, step.saturating_sub(1)), e));
            ok = false;
            break;
        }
        for (ix, _, _) in indexes().iter().copied() {
            let (m, d) = (mem.db.get_index_data(ix).unwrap(), disk.db.get_index_data(ix).unwrap());
            let pool = &pools[ix];
            let sorted = |mut v: Vec<usize>| {
                v.sort();
                v
            };
            for _ in 0..4 {
                let k = &pool[rng.below(pool.len() as u64) as usize];
                let (gm, gd) = (m.get(k).map(&sorted), d.get(k).map(&sorted));
                if gm != gd || m.contains_key(k) != d.contains_key(k) {
                    rep.fail(FailKind::Oracle, None, "IndexData::get / contains_key differ between the backends", &format!("{}-- {} key {}: in-memory {:?}, disk-backed {:?}\n", describe(&init, &ops, step.saturating_sub(1)), ix, canon::row(k), gm, gd));
                    ok = false;
                    break 'steps;
                }
                rep.count("query_get");
            }
            // first-column probes (what the executor passes): equality, ranges, IN lists
            let firsts: Vec<SqlValue> = pool.iter().map(|k| k[0].clone()).filter(|v| *v != SqlValue::Null).collect();
            if firsts.is_empty() {
                continue;
            }
            let pick = |rng: &mut Rng| match firsts[rng.below(firsts.len() as u64) as usize].clone() {
                // numeric keys: also bounds strictly between keys, and bounds that are not normalised yet
                SqlValue::Double(f) => match rng.below(6) {
                    0 => SqlValue::Double(f + 0.125),
                    1 => SqlValue::Double(f - 0.125),
                    2 => SqlValue::Numeric(f),
                    3 if f.fract() == 0.0 => SqlValue::Integer(f as i64),
                    _ => SqlValue::Double(f),
                },
                o => o,
            };
            for _ in 0..6 {
                let (s, e) = {
                    let p = pick(rng);
                    let q = pick(rng);
                    if norm_val(&p).cmp(&norm_val(&q)) != std::cmp::Ordering::Greater { (p, q) } else { (q, p) }
                };
                let so = if rng.chance(1, 5) { None } else { Some(&s) };
                let eo = if rng.chance(1, 5) { None } else if rng.chance(1, 5) { Some(&s) } else { Some(&e) };
                let (is, ie) = (rng.chance(1, 2), rng.chance(1, 2));
                let (rm, rd) = (sorted(m.range_scan(so, eo, is, ie)), sorted(d.range_scan(so, eo, is, ie)));
                rep.count("query_range_scan");
                // the executor does not re-check the predicate on every path (index-ordered scans skip
                // it), so a scan must return exactly the rows whose first key column lies in the range
                // (a range predicate is never true for NULL; with no bound at all every row is returned)
                let norm = |v: &SqlValue| norm_val(v);
                let mut expected: Vec<usize> = rows
                    .iter()
                    .enumerate()
                    .filter_map(|(i, r)| r.as_ref().map(|r| (i, key_of(r, ix)[0].clone())))
                    .filter(|(_, f)| {
                        (so.is_none() && eo.is_none())
                            || (*f != SqlValue::Null
                                && so.map_or(true, |s| if is { norm(s).cmp(f) != std::cmp::Ordering::Greater } else { norm(s).cmp(f) == std::cmp::Ordering::Less })
                                && eo.map_or(true, |e| if ie { f.cmp(&norm(e)) != std::cmp::Ordering::Greater } else { f.cmp(&norm(e)) == std::cmp::Ordering::Less }))
                    })
                    .map(|(i, _)| i)
                    .collect();
                expected.sort();
                if rm != expected || rd != expected {
                    rep.fail(
                        FailKind::Oracle,
                        None,
                        if rd != expected { "IndexData::range_scan of the disk-backed backend does not return exactly the rows in the range" } else { "IndexData::range_scan of the in-memory backend does not return exactly the rows in the range" },
                        &format!("{}-- {} range_scan({:?}, {:?}, {}, {}): rows in range {:?}; in-memory {:?}, disk-backed {:?}\n", describe(&init, &ops, step.saturating_sub(1)), ix, so.map(canon::val), eo.map(canon::val), is, ie, expected, rm, rd),
                    );
                    ok = false;
                    break 'steps;
                }
            }
            let vals: Vec<SqlValue> = (0..3).map(|_| pick(rng)).collect();
            let (lm, ld) = (sorted(m.multi_lookup(&vals)), sorted(d.multi_lookup(&vals)));
            rep.count("query_multi_lookup");
            if lm != ld {
                rep.fail(FailKind::Oracle, None, "IndexData::multi_lookup differs between the backends", &format!("{}-- {} multi_lookup({:?}): in-memory {:?}, disk-backed {:?}\n", describe(&init, &ops, step.saturating_sub(1)), ix, vals.iter().map(canon::val).collect::<Vec<_>>(), lm, ld));
                ok = false;
                break 'steps;
            }
            let (vm, vd) = (sorted(m.values().flatten().collect()), sorted(d.values().flatten().collect()));
            if vm != vd {
                rep.fail(FailKind::Oracle, None, "IndexData::values differs between the backends", &describe(&init, &ops, step.saturating_sub(1)));
                ok = false;
                break 'steps;
            }
        }
        // correspondence: both backends vs the model of both backends
        for (ix, _, _) in indexes().iter().copied() {
            let to_ranks = |c: &Contents| -> Vec<(usize, Vec<usize>)> { c.iter().map(|(k, rs)| (rank(ix, k).unwrap_or(usize::MAX), rs.clone())).collect() };
            let cm = assoc_sx(&to_ranks(&contents(&mem.db, ix).unwrap().1));
            let cd = assoc_sx(&to_ranks(&contents(&disk.db, ix).unwrap().1));
            let (mm, md) = match model_steps.get(ix).and_then(|s| s.get(step)).and_then(|s| s.as_list()) {
                Some([a, b]) => (a.to_string(), b.to_string()),
                _ => ("<missing>".to_string(), "<missing>".to_string()),
            };
            if cm != mm || cd != md {
                rep.fail(
                    FailKind::ModelDiff,
                    None,
                    if cm != mm { "in-memory index contents differ from the model's" } else { "disk-backed index contents differ from the model's" },
                    &format!("{}-- {} step {}\n-- code  in-memory {} disk-backed {}\n-- model in-memory {} disk-backed {}\n", describe(&init, &ops, step.saturating_sub(1)), ix, step, cm, cd, mm, md),
                );
                ok = false;
                break 'steps;
            }
            rep.traces_validated += 1;
        }
    }
    drop(disk);
    let _ = std::fs::remove_dir_all(&dir);
    ok
}

/// deterministic probe (schema 1): keys {1.0, 1.25, 1.5, 1.75, 2.0, 2.5} in every key type, every
/// comparison shape on both twins, each result compared with the answer computed here
fn probe_fractional(args: &Args, id: u64, rep: &mut Report) -> bool {
    set_schema(1);
    let (mut mem, mut disk, dir) = twins(args, id);
    let vals = [1.0f64, 1.25, 1.5, 1.75, 2.0, 2.5];
    let q4 = |v: f64| (v * 4.0) as i64;
    for db in [&mut mem, &mut disk] {
        db.exec(create_table_sql());
        for (i, v) in vals.iter().enumerate() {
            // n = 1,1,1,1,2,2 : an integer column to be probed with fractional bounds
            let row = vec![SqlValue::Integer(i as i64), SqlValue::Double(*v), SqlValue::Numeric(*v), SqlValue::Real(*v as f32), SqlValue::Varchar(format!("k{:04}", q4(*v) * 25)), date_of(q4(*v)), SqlValue::Integer(*v as i64)];
            db.exec(&format!("INSERT INTO t SELECT {}", row.iter().map(lit).collect::<Vec<_>>().join(", ")));
        }
        for (ix, cols, _) in indexes().iter().copied() {
            db.exec(&format!("CREATE INDEX {} ON t ({})", ix, cols));
        }
    }
    let mut ok = true;
    if let Err(e) = compare_indexes(&mem, &disk, rep, true) {
        rep.fail(FailKind::Oracle, None, "fractional probe: index contents differ / not spilled", &format!("{};\n-- {}\n", mem.log.join(";\n"), e));
        ok = false;
    }
    // (operator, bound) pairs: bounds equal to keys and strictly between keys
    let shapes: Vec<(&str, f64)> = vec![(">", 1.0), (">", 1.25), (">", 1.1), (">", 1.75), (">", 2.0), (">", 0.5), (">=", 1.5), (">=", 1.6), ("<", 2.0), ("<", 1.3), ("<=", 1.75), ("<=", 1.8), ("=", 1.5), ("=", 1.6)];
    let holds = |op: &str, k: f64, b: f64| match op {
        ">" => k > b,
        ">=" => k >= b,
        "<" => k < b,
        "<=" => k <= b,
        _ => k == b,
    };
    let mut queries: Vec<(String, Vec<usize>)> = vec![];
    for (op, b) in &shapes {
        for col in ["x", "y", "r"] {
            queries.push((format!("SELECT id FROM t WHERE {} {} {:?}", col, op, b), (0..6).filter(|i| holds(op, vals[*i], *b)).collect()));
        }
        // integer column n (= floor of the key) against the fractional bound
        queries.push((format!("SELECT id FROM t WHERE n {} {:?}", op, b), (0..6).filter(|i| holds(op, vals[*i].floor(), *b)).collect()));
        // strings and dates follow the same order as the grid; only bounds on the grid make sense for dates
        let sb = format!("k{:04}", (b * 100.0) as i64);
        queries.push((format!("SELECT id FROM t WHERE s {} '{}'", op, sb), (0..6).filter(|i| holds(op, vals[*i], *b)).collect()));
        if (b * 4.0).fract() == 0.0 {
            queries.push((format!("SELECT id FROM t WHERE dt {} {}", op, lit(&date_of(q4(*b)))), (0..6).filter(|i| holds(op, vals[*i], *b)).collect()));
        }
        // composite index (x, n)
        queries.push((format!("SELECT id FROM t WHERE x {} {:?} AND n >= 1", op, b), (0..6).filter(|i| holds(op, vals[*i], *b)).collect()));
    }
    for (lo, hi) in [(1.25, 2.0), (1.1, 1.8), (1.0, 1.0), (1.5, 2.5)] {
        for col in ["x", "y", "r"] {
            queries.push((format!("SELECT id FROM t WHERE {} BETWEEN {:?} AND {:?}", col, lo, hi), (0..6).filter(|i| vals[*i] >= lo && vals[*i] <= hi).collect()));
            queries.push((format!("SELECT id FROM t WHERE {} > {:?} AND {} < {:?}", col, lo, col, hi), (0..6).filter(|i| vals[*i] > lo && vals[*i] < hi).collect()));
        }
    }
    for (sql, want) in &queries {
        rep.count("probe_fractional_queries");
        for (name, db) in [("in-memory", &mut mem), ("disk-backed", &mut disk)] {
            let got: Option<Vec<usize>> = match db.exec(sql) {
                Out::Rows(r) => {
                    let mut v: Vec<usize> = r.iter().filter_map(|x| if let SqlValue::Integer(i) = x[0] { Some(i as usize) } else { None }).collect();
                    v.sort();
                    Some(v)
                }
                _ => None,
            };
            if got.as_ref() != Some(want) {
                rep.fail(
                    FailKind::Oracle,
                    None,
                    &format!("fractional-key probe: {} twin returns the wrong rows", name),
                    &format!("-- twin A: Database::new(); twin B: with_path_and_config(dir, memory_budget 0, SpillToDisk)\n{};\n-- {} twin: ids {:?}, expected {:?}\n", db.log.join(";\n"), name, got, want),
                );
                ok = false;
            }
        }
    }
    drop(disk);
    let _ = std::fs::remove_dir_all(&dir);
    ok
}

/// deterministic probe: index DDL and DML inside transactions, then ROLLBACK / COMMIT, on both twins;
/// after every statement results, registries and index contents are compared; after a ROLLBACK the
/// restored indexes must answer (SQL and `IndexData::get` / `range_scan`) as at BEGIN
fn probe_txn(args: &Args, id0: &mut u64, rep: &mut Report) -> bool {
    set_schema(0);
    let init: Vec<Vec<SqlValue>> = vec![
        vec![iv(0), iv(7), sv("x"), iv(1)],
        vec![iv(1), iv(7), sv("x"), iv(2)],
        vec![iv(2), iv(8), sv("y"), iv(1)],
        vec![iv(3), iv(8), sv("z"), iv(3)],
        vec![iv(4), iv(9), sv("x"), iv(1)],
        vec![iv(5), iv(5), sv("w"), iv(0)],
    ];
    // (statements, true = the database must be back at the initial state afterwards)
    let scripts: Vec<(Vec<&str>, bool)> = vec![
        (vec!["BEGIN", "UPDATE t SET a = 9 WHERE id = 0", "DROP INDEX ix_a", "ROLLBACK"], true),
        (vec!["BEGIN", "UPDATE t SET a = 1 WHERE a = 7", "DELETE FROM t WHERE id = 4", "DROP INDEX ix_ac", "DROP INDEX ix_a", "ROLLBACK"], true),
        (vec!["BEGIN", "DELETE FROM t WHERE id = 1", "UPDATE t SET b = 'q' WHERE id = 2", "DROP TABLE t", "ROLLBACK"], true),
        (vec!["BEGIN", "DROP INDEX ix_b", "INSERT INTO t SELECT 6, 7, 'x', 1", "CREATE INDEX ix_b ON t (b)", "UPDATE t SET b = 'y' WHERE id = 0", "ROLLBACK"], true),
        (vec!["BEGIN", "INSERT INTO t SELECT 6, 7, 'x', 1", "UPDATE t SET a = 8 WHERE id = 1", "ROLLBACK"], true),
        (vec!["BEGIN", "UPDATE t SET a = 9 WHERE id = 0", "SAVEPOINT s1", "UPDATE t SET a = 5 WHERE id = 1", "DROP INDEX ix_ac", "ROLLBACK TO SAVEPOINT s1", "COMMIT"], false),
        (vec!["BEGIN", "UPDATE t SET a = 9 WHERE id = 0", "DROP INDEX ix_a", "COMMIT", "CREATE INDEX ix_a ON t (a)"], false),
        (vec!["BEGIN", "UPDATE t SET b = 'y' WHERE id = 0", "SAVEPOINT s1", "DELETE FROM t WHERE a = 8", "ROLLBACK TO SAVEPOINT s1", "DROP INDEX ix_b", "ROLLBACK"], true),
    ];
    let queries = ["SELECT id FROM t WHERE a = 7", "SELECT id FROM t WHERE a > 7", "SELECT id FROM t WHERE a <= 8", "SELECT id FROM t WHERE b = 'x'", "SELECT id FROM t WHERE b >= 'y'", "SELECT id FROM t WHERE a = 8 AND c > 0", "SELECT id FROM t WHERE a IN (5, 9)"];
    let ids = |o: &Out| -> Option<Vec<i64>> {
        match o {
            Out::Rows(r) => {
                let mut v: Vec<i64> = r.iter().filter_map(|x| if let SqlValue::Integer(i) = x[0] { Some(i) } else { None }).collect();
                v.sort();
                Some(v)
            }
            _ => None,
        }
    };
    let mut all_ok = true;
    for (script, back_to_init) in &scripts {
        *id0 += 1;
        let (mut mem, mut disk, dir) = twins(args, *id0);
        for db in [&mut mem, &mut disk] {
            db.exec(create_table_sql());
            for r in &init {
                db.exec(&format!("INSERT INTO t SELECT {}", r.iter().map(lit).collect::<Vec<_>>().join(", ")));
            }
            for (ix, cols, _) in indexes().iter().copied() {
                db.exec(&format!("CREATE INDEX {} ON t ({})", ix, cols));
            }
        }
        let mut ok = compare_indexes(&mem, &disk, rep, true).is_ok();
        // the answers at BEGIN, from the in-memory twin before anything happens (checked below against
        // the rows themselves through the index API)
        let before: Vec<Option<Vec<i64>>> = queries.iter().map(|q| ids(&mem.exec(q))).collect();
        let mut detail = String::new();
        let mut stmts: Vec<String> = script.iter().map(|s| s.to_string()).collect();
        stmts.extend(queries.iter().map(|s| s.to_string()));
        for sql in &stmts {
            let (a, b) = (mem.exec(sql), disk.exec(sql));
            rep.count("probe_txn_statements");
            if out_canon(&a, false) != out_canon(&b, false) {
                detail = format!("{}: in-memory {} / disk-backed {}", sql, out_canon(&a, false), out_canon(&b, false));
                ok = false;
                break;
            }
            if let Err(e) = compare_indexes(&mem, &disk, rep, false) {
                detail = format!("after {}: {}", sql, e);
                ok = false;
                break;
            }
        }
        if ok && *back_to_init {
            for (q, want) in queries.iter().zip(before.iter()) {
                for (name, db) in [("in-memory", &mut mem), ("disk-backed", &mut disk)] {
                    let got = ids(&db.exec(q));
                    if &got != want {
                        detail = format!("{} twin after ROLLBACK: {} gives {:?}, at BEGIN it gave {:?}", name, q, got, want);
                        ok = false;
                    }
                }
            }
            // index API after the rollback: every index is back and maps each key to the rows holding it
            for (ix, _, _) in indexes().iter().copied() {
                for (name, db) in [("in-memory", &mem), ("disk-backed", &disk)] {
                    let Some(data) = db.db.get_index_data(ix) else {
                        detail = format!("{} twin: index {} is missing after ROLLBACK", name, ix);
                        ok = false;
                        continue;
                    };
                    let mut want: BTreeMap<Vec<SqlValue>, Vec<usize>> = BTreeMap::new();
                    for (i, r) in init.iter().enumerate() {
                        want.entry(key_of(r, ix)).or_default().push(i);
                    }
                    for (k, rows) in &want {
                        let mut got = data.get(k).unwrap_or_default();
                        got.sort();
                        let mut scan = data.range_scan(Some(&k[0]), Some(&k[0]), true, true);
                        scan.sort();
                        let scan_want: Vec<usize> = init.iter().enumerate().filter(|(_, r)| key_of(r, ix)[0] == k[0]).map(|(i, _)| i).collect();
                        rep.count("probe_txn_index_api_checks");
                        if &got != rows || scan != scan_want {
                            detail = format!("{} twin after ROLLBACK: index {} key {}: get {:?} (rows holding it {:?}), range_scan {:?} (expected {:?})", name, ix, canon::row(k), got, rows, scan, scan_want);
                            ok = false;
                        }
                    }
                }
            }
        }
        if !ok {
            rep.fail(
                FailKind::Oracle,
                None,
                "transaction probe: index DDL / DML inside a transaction leaves the backends different or the restored index stale",
                &format!("-- twin A: Database::new(); twin B: with_path_and_config(dir, memory_budget 0, SpillToDisk)\n{};\n-- {}\n", mem.log.join(";\n"), detail),
            );
            all_ok = false;
        }
        drop(disk);
        let _ = std::fs::remove_dir_all(&dir);
    }
    all_ok
}

fn iv(i: i64) -> SqlValue {
    SqlValue::Integer(i)
}
fn sv(s: &str) -> SqlValue {
    SqlValue::Varchar(s.into())
}

fn main() {
    let args = Args::parse("C16");
    let mut rep = Report::new(
        &args,
        "a case is non-trivial iff every index of the budget-0 twin was observed to be disk backed (get_index_data), at least one key held two or more row ids, and every statement / maintenance call was followed by a comparison of results and index contents",
    );
    rep.assumptions.push("the spill is forced by memory_budget = 0 with SpillToDisk at CREATE INDEX; the 100 000-row DISK_BACKED_THRESHOLD path builds the same BTreeIndex by the same bulk_load and is not run".into());
    rep.assumptions.push("keys: integers, short strings, and (every second case) DOUBLE / NUMERIC / REAL / VARCHAR / DATE keys on a dense grid of quarters, with bounds on and strictly between keys; IndexData::range_scan of either backend must return exactly the rows whose first key column is in the range (the executor skips the re-check on index-ordered paths); SQL results must be equal between the twins".into());
    let mut model = args.model();
    let mut rng = Rng::new(args.seed);
    let mut id = 0u64;

    // deterministic probe on fractional / REAL / NUMERIC / string / DATE keys, independent expected answers
    id += 1;
    let okp = probe_fractional(&args, id, &mut rep);
    rep.count("probe_cases");
    rep.case("probe fractional keys", okp);
    set_schema(0);
    let okt = probe_txn(&args, &mut id, &mut rep);
    rep.count("probe_cases");
    rep.case("probe transactions with index DDL", okt);
    // deterministic probes: duplicate key, update / delete of one of the rows sharing it
    let init = vec![vec![iv(0), iv(7), sv("x"), iv(1)], vec![iv(1), iv(7), sv("x"), iv(1)], vec![iv(2), iv(7), sv("y"), iv(2)], vec![iv(3), iv(8), sv("y"), iv(2)]];
    for ops in [
        vec![IOp::Del(0)],
        vec![IOp::Upd(1, vec![iv(1), iv(9), sv("z"), iv(1)])],
        vec![IOp::Upd(0, vec![iv(0), iv(8), sv("y"), iv(2)]), IOp::Del(3), IOp::Del(0), IOp::Ins(vec![iv(4), iv(7), sv("x"), iv(1)]), IOp::Del(1), IOp::Del(2)],
    ] {
        id += 1;
        let ok = mode_b(&args, id, &mut rng, &mut model, &mut rep, 0, 0, 0, Some((init.clone(), ops.clone())));
        rep.count("probe_cases");
        rep.case(&format!("probe {:?}", ops), ok);
    }
    // many equal keys on a string index (degree-5 tree after the spill): splits, borrows, merges
    id += 1;
    let init2: Vec<Vec<SqlValue>> = (0..40).map(|i| vec![iv(i), iv(i % 6), sv(&format!("k{:02}", i % 17)), iv(i % 3)]).collect();
    let mut ops2: Vec<IOp> = (0..40).map(|i| IOp::Del((i * 7 % 40) as usize)).collect();
    ops2.extend((40..70).map(|i| IOp::Ins(vec![iv(i), iv(i % 4), sv(&format!("k{:02}", i % 23)), iv(1)])));
    let ok = mode_b(&args, id, &mut rng, &mut model, &mut rep, 0, 0, 0, Some((init2, ops2)));
    rep.count("probe_cases");
    rep.case("probe delete-all-then-insert", ok);

    let n_b = args.n(60, 600);
    for i in 0..n_b {
        id += 1;
        set_schema((i % 2) as usize);
        rep.count(if schema() == 0 { "schema_int_string" } else { "schema_fractional_string_date" });
        let spread = *rng.pick(&[3i64, 8, 30]);
        let n_rows = *rng.pick(&[1usize, 4, 15, 40]);
        let before = rep.violations();
        let ok = mode_b(&args, id, &mut rng, &mut model, &mut rep, n_rows, args.n(50, 150) as usize, spread, None);
        rep.count("mode_b_cases");
        rep.case(&format!("B{} {} {} {}", i, args.seed, spread, n_rows), ok && rep.violations() == before && spread <= 30);
        if i < 2 {
            rep.sample(serde_json::json!({"mode": "index API + model", "initial_rows": n_rows, "key_spread": spread, "ops": args.n(50, 150)}));
        }
    }
    let n_a = args.n(60, 600);
    for i in 0..n_a {
        id += 1;
        set_schema((i % 2) as usize);
        rep.count(if schema() == 0 { "schema_int_string" } else { "schema_fractional_string_date" });
        let spread = *rng.pick(&[3i64, 8, 30]);
        let n_rows = *rng.pick(&[1usize, 5, 20, 60]);
        let before = rep.violations();
        let sh = mode_a(&args, id, &mut rng, &mut rep, n_rows, args.n(50, 150) as usize, spread);
        rep.count("mode_a_cases");
        rep.case(&format!("A{} {} {} {}", i, args.seed, spread, n_rows), sh.dup_keys_seen && rep.violations() == before);
        if i < 2 {
            rep.sample(serde_json::json!({"mode": "SQL twin", "initial_rows": n_rows, "key_spread": spread, "statements": args.n(50, 150)}));
        }
    }
    std::process::exit(rep.finish());
}
