import VibeProof.Lemmas.TemporalNum
namespace VibeProof.Temporal

/-- bytes of a printed timestamp other than the blank -/
def plain (b : UInt8) : Bool := isDigit b || b == 45 || b == 58 || b == 46

theorem plain_lt {b : UInt8} (h : plain b = true) : 45 ≤ b.toNat ∧ b.toNat ≤ 58 := by
  simp only [plain, isDigit, Bool.or_eq_true, Bool.and_eq_true, decide_eq_true_eq, beq_iff_eq] at h
  rcases h with ((h | h) | h) | h
  · have h1 := UInt8.le_iff_toNat_le.mp h.1
    have h2 := UInt8.le_iff_toNat_le.mp h.2
    simp at h1 h2; omega
  all_goals (subst h; decide)

theorem wsLen_plain (b : UInt8) (rest : Bytes) (h : plain b = true) : wsLen (b :: rest) = 0 := by
  have hb := plain_lt h
  unfold wsLen
  split <;> first
    | (rename_i heq; simp at heq; obtain ⟨e, _⟩ := heq; subst e; simp at hb)
    | skip
  all_goals first
    | (rename_i heq; simp at heq; obtain ⟨e, _⟩ := heq; subst e; simp at hb)
    | skip
  · rename_i heq
    simp at heq
    obtain ⟨e, _⟩ := heq
    subst e
    simp
    refine ⟨?_, fun _ => ?_⟩
    · intro e; subst e; simp at hb
    · apply UInt8.lt_iff_toNat_lt.mpr; simp; omega
  · rename_i heq; simp at heq

theorem wsLenRev_plain (b : UInt8) (rest : Bytes) (h : plain b = true) : wsLenRev (b :: rest) = 0 := by
  have hb := plain_lt h
  have hnw : ¬ b = 32 ∧ (9 ≤ b → 13 < b) := by
    refine ⟨?_, fun _ => ?_⟩
    · intro e; subst e; simp at hb
    · apply UInt8.lt_iff_toNat_lt.mpr; simp; omega
  have hn3 : ¬ (128 ≤ b) := by
    intro hh; have := UInt8.le_iff_toNat_le.mp hh; simp at this; omega
  have h913 : ¬ (b ≤ 13) := by
    intro hh; have := UInt8.le_iff_toNat_le.mp hh; simp at this; omega
  unfold wsLenRev
  split <;> first
    | (rename_i heq; simp at heq; obtain ⟨e, _⟩ := heq; subst e; simp at hb)
    | skip
  · rename_i heq
    simp at heq
    obtain ⟨e, _⟩ := heq
    subst e
    have h168 : b ≠ 168 := by intro e; subst e; simp at hb
    have h169 : b ≠ 169 := by intro e; subst e; simp at hb
    have h175 : b ≠ 175 := by intro e; subst e; simp at hb
    simp [hnw, hn3, h168, h169, h175, h913]
  · rename_i heq
    simp at heq
    obtain ⟨e, _⟩ := heq
    subst e
    simp [hnw, h913]
  · rename_i heq; simp at heq

theorem trimStartFuel_id (n : Nat) (s : Bytes) (h : wsLen s = 0) : trimStartFuel n s = s := by
  cases n <;> simp [trimStartFuel, h]

theorem trimEndRevFuel_id (n : Nat) (s : Bytes) (h : wsLenRev s = 0) : trimEndRevFuel n s = s := by
  cases n <;> simp [trimEndRevFuel, h]

theorem trim_plain (s r r' : Bytes) (b c : UInt8) (hs : s = b :: r) (hr : s.reverse = c :: r')
    (hb : plain b = true) (hc : plain c = true) : trim s = s := by
  unfold trim
  simp only []
  rw [trimStartFuel_id _ _ (by rw [hs]; exact wsLen_plain b r hb)]
  rw [trimEndRevFuel_id _ _ (by rw [hr]; exact wsLenRev_plain c r' hc)]
  simp

/-- `split_whitespace` of two plain words separated by one blank -/
theorem go_plain (P : Bytes) (hP : ∀ b ∈ P, plain b = true) (cur : Bytes) (acc : List Bytes) (rest : Bytes) :
    wsGo 0 cur acc (P ++ rest) = wsGo 0 (P.reverse ++ cur) acc rest := by
  induction P generalizing cur with
  | nil => simp
  | cons x xs ih =>
    have hx := wsLen_plain x (xs ++ rest) (hP x (by simp))
    simp only [List.cons_append, wsGo, hx, if_true]
    rw [ih (fun b hb => hP b (by simp [hb]))]
    simp

theorem splitWhitespace_two (D T : Bytes) (hD : ∀ b ∈ D, plain b = true) (hT : ∀ b ∈ T, plain b = true)
    (hDne : D ≠ []) (hTne : T ≠ []) : splitWhitespace (D ++ [32] ++ T) = [D, T] := by
  unfold splitWhitespace
  have e : D ++ [32] ++ T = D ++ (32 :: (T ++ [])) := by simp
  rw [e, go_plain D hD]
  have h32 : wsLen (32 :: (T ++ [])) = 1 := by
    unfold wsLen
    split <;> first | (rename_i heq; simp at heq; done) | skip
    · rename_i heq
      simp at heq
      simp [← heq.1]
  simp only [wsGo, h32]
  simp only [Nat.one_ne_zero, if_false, Nat.sub_self]
  rw [go_plain T hT]
  have hd : (D.reverse).isEmpty = false := by
    cases D with
    | nil => exact absurd rfl hDne
    | cons x xs => simp
  have ht : (T.reverse).isEmpty = false := by
    cases T with
    | nil => exact absurd rfl hTne
    | cons x xs => simp
  simp [wsGo, wsFlush, hd, ht]

theorem plain_ne84 (s : Bytes) (h : ∀ b ∈ s, plain b = true ∨ b = 32) : ∀ b ∈ s, b ≠ 84 := by
  intro b hb e
  subst e
  rcases h 84 hb with h | h
  · revert h; decide
  · revert h; decide

theorem isTimezoneOffset_long (post : Bytes) (h : 11 ≤ post.length) :
    isTimezoneOffset (45 :: post) = .ok false := by
  unfold isTimezoneOffset
  have h3 : ¬ ((45 :: post).length < 3) := by simp; omega
  have h5 : (post.length == 5) = false := by simp; omega
  have h4 : (post.length == 4) = false := by simp; omega
  have h2 : (post.length == 2) = false := by simp; omega
  simp [h3, first, h5, h4, h2]

end VibeProof.Temporal

namespace VibeProof.Temporal

theorem plain_of_digit {b : UInt8} (h : isDigit b = true) : plain b = true := by simp [plain, h]

theorem fmtInt_plain (w : Nat) (i : Int) : ∀ b ∈ fmtInt w i, plain b = true := by
  intro b hb
  unfold fmtInt at hb
  split at hb
  · simp only [List.mem_cons] at hb
    rcases hb with hb | hb
    · subst hb; decide
    · exact plain_of_digit (padLeft0_all _ _ b hb)
  · exact plain_of_digit (padLeft0_all _ _ b hb)

theorem date_display_plain (d : Date) : ∀ b ∈ d.display, plain b = true := by
  intro b hb
  simp only [Date.display, List.mem_append, List.mem_singleton] at hb
  rcases hb with (((hb | hb) | hb) | hb) | hb
  · exact fmtInt_plain 4 _ b hb
  · subst hb; decide
  · exact plain_of_digit (fmtNat_all 2 _ b hb)
  · subst hb; decide
  · exact plain_of_digit (fmtNat_all 2 _ b hb)

/-- bytes of a printed time: digits, `:` and `.` -/
def tplain (b : UInt8) : Bool := isDigit b || b == 58 || b == 46

theorem time_display_tplain (t : Time) : ∀ b ∈ t.display, tplain b = true := by
  intro b hb
  have hms : ∀ b ∈ fmtNat 2 t.hour ++ [58] ++ fmtNat 2 t.minute ++ [58] ++ fmtNat 2 t.second, tplain b = true := by
    intro b hb
    simp only [List.mem_append, List.mem_singleton] at hb
    rcases hb with (((hb | hb) | hb) | hb) | hb
    · simp [tplain, fmtNat_all 2 _ b hb]
    · subst hb; decide
    · simp [tplain, fmtNat_all 2 _ b hb]
    · subst hb; decide
    · simp [tplain, fmtNat_all 2 _ b hb]
  unfold Time.display at hb
  simp only [] at hb
  split at hb
  · exact hms b hb
  · simp only [List.mem_append, List.mem_singleton] at hb
    rcases hb with (hb | hb) | hb
    · exact hms b (by simp only [List.mem_append, List.mem_singleton]; exact hb)
    · subst hb; decide
    · simp [tplain, trimEnd0_all _ (fmtNat_all 9 _) b hb]

theorem tplain_plain {b : UInt8} (h : tplain b = true) : plain b = true := by
  simp only [tplain, Bool.or_eq_true] at h
  simp only [plain, Bool.or_eq_true]
  rcases h with (h | h) | h
  · exact Or.inl (Or.inl (Or.inl h))
  · exact Or.inl (Or.inr h)
  · exact Or.inr h

theorem tplain_nosign {b : UInt8} (h : tplain b = true) : (b == 43 || b == 45) = false := by
  simp only [tplain, Bool.or_eq_true, beq_iff_eq] at h
  rcases h with (h | h) | h
  · have := isDigit_ne h
    simp [this.1, this.2.1]
  · subst h; decide
  · subst h; decide

theorem fmtNat_length_ge (w n : Nat) : w ≤ (fmtNat w n).length := by
  simp [fmtNat, padLeft0]; omega

theorem time_display_length (t : Time) : 8 ≤ t.display.length := by
  have h1 := fmtNat_length_ge 2 t.hour
  have h2 := fmtNat_length_ge 2 t.minute
  have h3 := fmtNat_length_ge 2 t.second
  unfold Time.display
  simp only []
  split <;> simp <;> omega

theorem getLast?_of_reverse {s r' : Bytes} {c : UInt8} (h : s.reverse = c :: r') : s.getLast? = some c := by
  have : s = r'.reverse ++ [c] := by
    have := congrArg List.reverse h
    simpa using this
  rw [this]; simp

/-- a printed timestamp has no timezone suffix to strip -/
theorem strip_display (Y M DD T r' : Bytes) (c : UInt8)
    (hDD : ∀ b ∈ DD, isDigit b = true) (hT : ∀ b ∈ T, tplain b = true)
    (hDDlen : 2 ≤ DD.length) (hTlen : 8 ≤ T.length)
    (hr : (Y ++ [45] ++ M ++ [45] ++ DD ++ [32] ++ T).reverse = c :: r') (hc : tplain c = true) :
    stripTimezoneSuffix (Y ++ [45] ++ M ++ [45] ++ DD ++ [32] ++ T)
      = .ok (Y ++ [45] ++ M ++ [45] ++ DD ++ [32] ++ T) := by
  unfold stripTimezoneSuffix
  rw [getLast?_of_reverse hr]
  have hc90 : c ≠ 90 ∧ c ≠ 122 := by
    simp only [tplain, Bool.or_eq_true, beq_iff_eq] at hc
    rcases hc with (h | h) | h
    · simp only [isDigit, Bool.and_eq_true, decide_eq_true_eq] at h
      have h2 := UInt8.le_iff_toNat_le.mp h.2
      constructor <;> (intro e; subst e; simp at h2)
    · subst h; decide
    · subst h; decide
  have hlast : ((some c == some (90 : UInt8)) || (some c == some (122 : UInt8))) = false := by
    simp [hc90.1, hc90.2]
  rw [hlast]
  simp only [Bool.false_eq_true, if_false]
  have e : Y ++ [45] ++ M ++ [45] ++ DD ++ [32] ++ T = (Y ++ [45] ++ M) ++ 45 :: (DD ++ [32] ++ T) := by
    simp
  have hpost : ∀ b ∈ DD ++ [32] ++ T, (b == 43 || b == 45) = false := by
    intro b hb
    simp only [List.mem_append, List.mem_singleton] at hb
    rcases hb with (hb | hb) | hb
    · have := isDigit_ne (hDD b hb); simp [this.1, this.2.1]
    · subst hb; decide
    · exact tplain_nosign (hT b hb)
  rw [e, splitLastP_app _ _ _ _ (by decide) hpost]
  simp only []
  split
  · rw [isTimezoneOffset_long _ (by simp; omega)]
  · rfl

end VibeProof.Temporal
