//! C23 — the SQL parser is total.
//!
//!  (a) token streams: public `Lexer::tokenize` (in-process, catch_unwind) vs the Lean lexer model on
//!      generated strings (valid SQL, mutations, truncations, arbitrary Unicode, huge literals);
//!      token kinds and payloads compared exactly, lexer errors by kind and position;
//!  (b) direct oracle: `Parser::parse_sql` in a worker subprocess (this binary re-invoked with
//!      `worker`; the parse runs on a thread with an 8 MiB stack; 5 s time-out per input) on the same
//!      strings and on nesting families with n up to 10^5–10^6. ok / parse error = fine;
//!      panic, SIGSEGV / SIGABRT (stack overflow) or time-out = violation;
//!  (c) the nesting skeleton of the model vs the real parser on the `(`ⁿ / NOTⁿ / -ⁿ families:
//!      accepted below the limit, rejected ("too deep") above it.
use std::io::{BufRead, BufReader, Write};
use std::panic::catch_unwind;
use std::process::{Child, ChildStdin, Command, Stdio};
use std::sync::mpsc::{channel, Receiver};
use std::time::{Duration, Instant};

use vharness::*;
use vibesql_parser::{Lexer, Parser, Token};

// ------------------------------------------------------------------------------------------------
// worker
// ------------------------------------------------------------------------------------------------
fn family(name: &str, n: usize) -> Option<String> {
    let rep = |open: &str, inner: &str, close: &str| format!("SELECT {}{}{}", open.repeat(n), inner, close.repeat(n));
    Some(match name {
        "paren" => rep("(", "1", ")"),
        "not" => rep("NOT ", "TRUE", ""),
        "minus" => rep("- ", "1", ""),
        "plus" => rep("+", "1", ""),
        "abs" => rep("ABS(", "1", ")"),
        "case" => rep("CASE WHEN TRUE THEN ", "1", " END"),
        "casewhen" => rep("CASE WHEN ", "TRUE", " THEN 1 END"),
        "subquery" => rep("(SELECT ", "1", ")"),
        "exists" => format!("SELECT 1 WHERE {}1{}", "EXISTS (SELECT 1 WHERE ".repeat(n), ")".repeat(n)),
        "inlist" => format!("SELECT 1 WHERE {}1{}", "1 IN (".repeat(n), ")".repeat(n)),
        "insub" => format!("SELECT 1 WHERE {}1{}", "1 IN (SELECT ".repeat(n), ")".repeat(n)),
        "derived" => format!("SELECT * FROM {}t{}", "(SELECT * FROM ".repeat(n), ") AS d".repeat(n)),
        "fromparen" => format!("SELECT * FROM {}t{}", "(".repeat(n), ")".repeat(n)),
        "joinparen" => format!("SELECT * FROM {}t{}", "(t JOIN ".repeat(n), " ON 1 = 1)".repeat(n)),
        "union" => format!("SELECT 1{}", " UNION SELECT 1".repeat(n)),
        "cte" => format!("{}SELECT 1{}", "WITH c AS (".repeat(n), ") SELECT 1".repeat(n)),
        "cast" => rep("CAST(", "1", " AS INTEGER)"),
        "coalesce" => rep("COALESCE(1, ", "1", ")"),
        "between" => format!("SELECT 1 WHERE 1{}", " BETWEEN 1 AND 1".repeat(n)),
        "addchain" => format!("SELECT 1{}", " + 1".repeat(n)),
        "andchain" => format!("SELECT 1 WHERE TRUE{}", " AND TRUE".repeat(n)),
        "orchain" => format!("SELECT 1 WHERE TRUE{}", " OR TRUE".repeat(n)),
        "concatchain" => format!("SELECT 'a'{}", " || 'a'".repeat(n)),
        "cmpchain" => format!("SELECT 1{}", " = 1".repeat(n)),
        "mulchain" => format!("SELECT 1{}", " * 1".repeat(n)),
        "likechain" => format!("SELECT 'a'{}", " LIKE 'a'".repeat(n)),
        "isnullchain" => format!("SELECT 1{}", " IS NULL".repeat(n)),
        "commalist" => format!("SELECT 1{}", ", 1".repeat(n)),
        "values" => format!("INSERT INTO t VALUES (1){}", ", (1)".repeat(n)),
        "inwide" => format!("SELECT 1 WHERE 1 IN (1{})", ", 1".repeat(n)),
        "joins" => format!("SELECT * FROM t{}", " JOIN t ON 1 = 1".repeat(n)),
        "createcols" => format!("CREATE TABLE t (c0 INTEGER{})", (1..=n).map(|i| format!(", c{} INTEGER", i)).collect::<String>()),
        "longdigits" => format!("SELECT {}", "9".repeat(n)),
        "longstring" => format!("SELECT '{}'", "x".repeat(n)),
        "longident" => format!("SELECT {}", "a".repeat(n)),
        "quotes" => format!("SELECT '{}'", "''".repeat(n)),
        "comments" => format!("SELECT 1 {}", "-- c\n".repeat(n)),
        "semicolons" => format!("SELECT 1{}", ";".repeat(n)),
        "dots" => format!("SELECT a{}", ".a".repeat(n)),
        "notafterplus" => format!("SELECT 1 + {}1", "NOT ".repeat(n)),
        "procif" => format!("CREATE PROCEDURE p() BEGIN {}SELECT 1; {}END", "IF 1 THEN ".repeat(n), "END IF; ".repeat(n)),
        "procifelse" => format!("CREATE PROCEDURE p() BEGIN {}SELECT 1; {}END", "IF 1 THEN SELECT 1; ELSE ".repeat(n), "END IF; ".repeat(n)),
        "procwhile" => format!("CREATE PROCEDURE p() BEGIN {}SELECT 1; {}END", "WHILE 1 DO ".repeat(n), "END WHILE; ".repeat(n)),
        "procloop" => format!("CREATE PROCEDURE p() BEGIN {}SELECT 1; {}END", "LOOP ".repeat(n), "END LOOP; ".repeat(n)),
        "procrepeat" => format!("CREATE PROCEDURE p() BEGIN {}SELECT 1; {}END", "REPEAT ".repeat(n), "UNTIL 1 END REPEAT; ".repeat(n)),
        "procbegin" => format!("CREATE PROCEDURE p() {}SELECT 1; {}", "BEGIN ".repeat(n), "END; ".repeat(n)),
        "procinproc" => format!("{}SELECT 1; {}", "CREATE PROCEDURE p() BEGIN ".repeat(n), "END; ".repeat(n)),
        "funcif" => format!("CREATE FUNCTION f() RETURNS INTEGER BEGIN {}RETURN 1; {}END", "IF 1 THEN ".repeat(n), "END IF; ".repeat(n)),
        "funcwhile" => format!("CREATE FUNCTION f() RETURNS INTEGER BEGIN {}RETURN 1; {}END", "WHILE 1 DO ".repeat(n), "END WHILE; ".repeat(n)),
        "trigif" => format!("CREATE TRIGGER tr AFTER INSERT ON t FOR EACH ROW BEGIN {}SELECT 1; {}END", "IF 1 THEN ".repeat(n), "END IF; ".repeat(n)),
        "trigbegin" => format!("CREATE TRIGGER tr AFTER INSERT ON t FOR EACH ROW {}SELECT 1; {}", "BEGIN ".repeat(n), "END; ".repeat(n)),
        "setopparen" => format!("{}SELECT 1{}", "(SELECT 1 UNION ".repeat(n), ")".repeat(n)),
        "intersect" => format!("SELECT 1{}", " INTERSECT SELECT 1".repeat(n)),
        "except" => format!("SELECT 1{}", " EXCEPT SELECT 1".repeat(n)),
        "withnest" => format!("{}SELECT 1{}", "WITH c AS (SELECT * FROM (".repeat(n), ") AS d) SELECT 1".repeat(n)),
        "commajoin" => format!("SELECT * FROM t{}", ", t".repeat(n)),
        "naturaljoin" => format!("SELECT * FROM t{}", " NATURAL JOIN t".repeat(n)),
        "viewnest" => format!("{}SELECT 1", "CREATE VIEW v AS ".repeat(n)),
        "explain" => format!("{}SELECT 1", "EXPLAIN ".repeat(n)),
        "typeparen" => format!("CREATE TABLE t (a {}INTEGER{})", "ROW(".repeat(n), ")".repeat(n)),
        "qualified" => format!("SELECT {}a", "a.".repeat(n)),
        "lparens_only" => "(".repeat(n),
        "select_lparens" => format!("SELECT {}", "(".repeat(n)),
        "case_open" => format!("SELECT {}", "CASE WHEN ".repeat(n)),
        _ => return None,
    })
}

/// recursive productions: (name, open, innermost, close); a tower of depth n is openⁿ inner closeⁿ
const PRODUCTIONS: [(&str, &str, &str, &str); 40] = [
    ("not", "NOT ", "TRUE", ""),
    ("minus", "- ", "1", ""),
    ("plus", "+", "1", ""),
    ("tilde", "~", "1", ""),
    ("paren", "(", "1", ")"),
    ("case", "CASE WHEN TRUE THEN ", "1", " END"),
    ("casewhen", "CASE WHEN ", "TRUE", " THEN 1 END"),
    ("caseelse", "CASE WHEN FALSE THEN 1 ELSE ", "1", " END"),
    ("caseoperand", "CASE ", "1", " WHEN 1 THEN 1 END"),
    ("cast", "CAST(", "1", " AS INTEGER)"),
    ("function", "ABS(", "1", ")"),
    ("function2", "COALESCE(1, ", "1", ")"),
    ("nullif", "NULLIF(", "1", ", 1)"),
    ("subquery", "(SELECT ", "1", ")"),
    ("exists", "EXISTS (SELECT 1 WHERE ", "TRUE", ")"),
    ("notexists", "NOT EXISTS (SELECT 1 WHERE ", "TRUE", ")"),
    ("trim", "TRIM(", "'a'", ")"),
    ("trimfrom", "TRIM(BOTH 'x' FROM ", "'a'", ")"),
    ("trimchar", "TRIM(LEADING ", "'a'", " FROM 'a')"),
    ("substring", "SUBSTRING(", "'a'", " FROM 1 FOR 1)"),
    ("substringfrom", "SUBSTRING('a' FROM ", "1", ")"),
    ("substringcomma", "SUBSTRING('a', ", "1", ", 1)"),
    ("position", "POSITION('a' IN ", "'a'", ")"),
    ("positionneedle", "POSITION(", "'a'", " IN 'a')"),
    ("extract", "EXTRACT(YEAR FROM ", "d", ")"),
    ("interval", "INTERVAL '1' DAY + ", "d", ""),
    ("row", "ROW(", "1", ")"),
    ("array", "ARRAY[", "1", "]"),
    ("inlist", "1 IN (", "1", ")"),
    ("insubquery", "1 IN (SELECT ", "1", ")"),
    ("notin", "1 NOT IN (", "1", ")"),
    ("between", "1 BETWEEN ", "1", " AND 1"),
    ("like", "'a' LIKE ", "'a'", ""),
    ("isnull", "", "1", " IS NULL"),
    ("isnotnull", "(", "1", " IS NOT NULL)"),
    ("anyquantified", "1 = ANY (SELECT ", "1", ")"),
    ("window", "SUM(1) OVER (ORDER BY ", "1", ")"),
    ("windowframe", "SUM(1) OVER (ORDER BY 1 ROWS ", "1", " PRECEDING)"),
    ("match", "MATCH (a) AGAINST (", "'a'", ")"),
    ("concat", "'a' || ", "'a'", ""),
];

/// syntactic positions of an expression: (name, before, after)
const POSITIONS: [(&str, &str, &str); 20] = [
    ("select", "SELECT ", ""),
    ("afterplus", "SELECT 1 + ", ""),
    ("aftermul", "SELECT 2 * ", ""),
    ("aftercmp", "SELECT 1 = ", ""),
    ("afterand", "SELECT TRUE AND ", ""),
    ("afteror", "SELECT TRUE OR ", ""),
    ("where", "SELECT 1 FROM t WHERE ", ""),
    ("on", "SELECT 1 FROM t JOIN u ON ", ""),
    ("groupby", "SELECT 1 FROM t GROUP BY ", ""),
    ("having", "SELECT 1 FROM t GROUP BY a HAVING ", ""),
    ("orderby", "SELECT 1 FROM t ORDER BY ", ""),
    ("values", "INSERT INTO t VALUES (", ")"),
    ("default", "CREATE TABLE t (a INTEGER DEFAULT ", ")"),
    ("check", "CREATE TABLE t (a INTEGER CHECK (", "))"),
    ("set", "UPDATE t SET a = ", ""),
    ("deletewhere", "DELETE FROM t WHERE ", ""),
    ("fnarg", "SELECT COALESCE(1, ", ")"),
    ("view", "CREATE VIEW v AS SELECT ", ""),
    ("procbody", "CREATE PROCEDURE p() BEGIN SET x = ", "; END"),
    ("triggerbody", "CREATE TRIGGER tr AFTER INSERT ON t FOR EACH ROW BEGIN UPDATE t SET a = ", "; END"),
];

/// iterative list / chain productions: (name, prefix, link, suffix, builds a left-deep tree);
/// a chain of n links is prefix linkⁿ suffix
const CHAINS: [(&str, &str, &str, &str, bool); 72] = [
    ("from_comma", "SELECT * FROM t", ", t", "", true),
    ("from_comma_alias", "SELECT * FROM t a", ", t b", "", true),
    ("join", "SELECT * FROM t", " JOIN t ON 1 = 1", "", true),
    ("inner_join", "SELECT * FROM t", " INNER JOIN t ON 1 = 1", "", true),
    ("left_join", "SELECT * FROM t", " LEFT JOIN t ON 1 = 1", "", true),
    ("left_outer_join", "SELECT * FROM t", " LEFT OUTER JOIN t ON 1 = 1", "", true),
    ("right_join", "SELECT * FROM t", " RIGHT JOIN t ON 1 = 1", "", true),
    ("full_join", "SELECT * FROM t", " FULL OUTER JOIN t ON 1 = 1", "", true),
    ("cross_join", "SELECT * FROM t", " CROSS JOIN t", "", true),
    ("natural_join", "SELECT * FROM t", " NATURAL JOIN t", "", true),
    ("join_using", "SELECT * FROM t", " JOIN t USING (a)", "", true),
    ("comma_and_join", "SELECT * FROM t", ", t JOIN t ON 1 = 1", "", true),
    ("join_and_comma", "SELECT * FROM t", " CROSS JOIN t, t", "", true),
    ("plus", "SELECT 1", " + 1", "", true),
    ("minus", "SELECT 1", " - 1", "", true),
    ("times", "SELECT 1", " * 1", "", true),
    ("divide", "SELECT 1", " / 1", "", true),
    ("div", "SELECT 1", " DIV 1", "", true),
    ("concat", "SELECT 'a'", " || 'a'", "", true),
    ("and", "SELECT 1 WHERE TRUE", " AND TRUE", "", true),
    ("or", "SELECT 1 WHERE TRUE", " OR TRUE", "", true),
    ("and_or", "SELECT 1 WHERE TRUE", " AND TRUE OR TRUE", "", true),
    ("plus_times", "SELECT 1", " + 1 * 1", "", true),
    ("on_and", "SELECT * FROM t JOIN t ON TRUE", " AND TRUE", "", true),
    ("eq", "SELECT 1", " = 1", "", false),
    ("lt", "SELECT 1", " < 1", "", false),
    ("ne", "SELECT 1", " <> 1", "", false),
    ("le", "SELECT 1", " <= 1", "", false),
    ("is_null", "SELECT 1", " IS NULL", "", false),
    ("is_not_null", "SELECT 1", " IS NOT NULL", "", false),
    ("like", "SELECT 'a'", " LIKE 'a'", "", false),
    ("not_like", "SELECT 'a'", " NOT LIKE 'a'", "", false),
    ("in_chain", "SELECT 1", " IN (1)", "", false),
    ("between", "SELECT 1", " BETWEEN 1 AND 1", "", false),
    ("between_and", "SELECT 1 BETWEEN 1", " AND 1", "", false),
    ("in_list", "SELECT 1 WHERE 1 IN (1", ", 1", ")", false),
    ("not_in_list", "SELECT 1 WHERE 1 NOT IN (1", ", 1", ")", false),
    ("in_list_strings", "SELECT 1 WHERE 'a' IN ('a'", ", 'a'", ")", false),
    ("union", "SELECT 1", " UNION SELECT 1", "", false),
    ("union_all", "SELECT 1", " UNION ALL SELECT 1", "", false),
    ("intersect", "SELECT 1", " INTERSECT SELECT 1", "", false),
    ("intersect_all", "SELECT 1", " INTERSECT ALL SELECT 1", "", false),
    ("except", "SELECT 1", " EXCEPT SELECT 1", "", false),
    ("except_all", "SELECT 1", " EXCEPT ALL SELECT 1", "", false),
    ("case_when_arms", "SELECT CASE", " WHEN 1 THEN 1", " END", false),
    ("case_simple_arms", "SELECT CASE 1", " WHEN 1 THEN 1", " ELSE 1 END", false),
    ("function_args", "SELECT COALESCE(1", ", 1", ")", false),
    ("concat_args", "SELECT CONCAT('a'", ", 'a'", ")", false),
    ("values_rows", "INSERT INTO t VALUES (1)", ", (1)", "", false),
    ("values_tuple", "INSERT INTO t VALUES (1", ", 1", ")", false),
    ("insert_columns", "INSERT INTO t (a", ", a", ") VALUES (1)", false),
    ("select_list", "SELECT 1", ", 1", "", false),
    ("select_list_alias", "SELECT 1 AS a", ", 1 AS a", " FROM t", false),
    ("order_by", "SELECT 1 FROM t ORDER BY a", ", a DESC", "", false),
    ("group_by", "SELECT 1 FROM t GROUP BY a", ", a", "", false),
    ("cte_list", "WITH c AS (SELECT 1)", ", c AS (SELECT 1)", " SELECT 1", false),
    ("set_assignments", "UPDATE t SET a = 1", ", a = 1", "", false),
    ("script", "SELECT 1", "; SELECT 1", "", false),
    ("create_columns", "CREATE TABLE t (a INTEGER", ", a INTEGER", ")", false),
    ("create_constraints", "CREATE TABLE t (a INTEGER", ", CHECK (a > 0)", ")", false),
    ("column_constraints", "CREATE TABLE t (a INTEGER", " NOT NULL", ")", false),
    ("index_columns", "CREATE INDEX i ON t (a", ", a", ")", false),
    ("drop_tables", "DROP TABLE t", ", t", "", false),
    ("grant_privileges", "GRANT SELECT", ", SELECT", " ON t TO r", false),
    ("grant_grantees", "GRANT SELECT ON t TO r", ", r", "", false),
    ("qualified_name", "SELECT a", ".a", "", false),
    ("proc_statements", "CREATE PROCEDURE p() BEGIN ", "SET x = 1; ", "END", false),
    ("proc_declares", "CREATE PROCEDURE p() BEGIN ", "DECLARE x INTEGER; ", "END", false),
    ("proc_params", "CREATE PROCEDURE p(IN a INTEGER", ", IN a INTEGER", ") BEGIN SELECT 1; END", false),
    ("window_partition", "SELECT SUM(1) OVER (PARTITION BY a", ", a", ") FROM t", false),
    ("on_duplicate", "INSERT INTO t VALUES (1) ON DUPLICATE KEY UPDATE a = 1", ", a = 1", "", false),
    ("unary_mix", "SELECT 1", " + - 1", "", true),
];

/// data-type spellings (every arm of `parse_data_type`, with and without arguments, plus user-defined names)
const TYPES: [&str; 86] = [
    "INTEGER", "INT", "INT(11)", "SIGNED", "UNSIGNED", "INT UNSIGNED", "SMALLINT", "BIGINT", "LONG", "TINYINT", "MEDIUMINT",
    "BOOLEAN", "BOOL", "BIT", "BIT(8)", "BIT VARYING(8)", "FLOAT", "FLOAT(10)", "FLOAT(10, 2)", "REAL", "DOUBLE", "DOUBLE PRECISION",
    "DOUBLE(10, 2)", "NUMERIC", "NUMERIC(10)", "NUMERIC(10, 2)", "DECIMAL(10, 2)", "DECIMAL", "DEC(5)", "DEC(5, 1)", "DATE", "NAME",
    "TIME", "TIME(3)", "TIME WITH TIME ZONE", "TIME WITHOUT TIME ZONE", "TIME(3) WITH TIME ZONE", "TIMESTAMP", "TIMESTAMP(6)",
    "TIMESTAMP WITH TIME ZONE", "TIMESTAMP WITHOUT TIME ZONE", "DATETIME", "DATETIME(3)", "YEAR", "YEAR(4)", "INTERVAL YEAR",
    "INTERVAL DAY TO SECOND", "INTERVAL YEAR TO MONTH", "INTERVAL HOUR(2) TO SECOND(3)", "INTERVAL", "VARCHAR", "VARCHAR(10)",
    "VARCHAR(10) CHARACTER SET utf8", "VARCHAR(10 CHARACTERS)", "VARCHAR(10 OCTETS)", "VARCHAR(MAX)", "CHAR", "CHAR(5)", "CHARACTER(5)", "CHARACTER VARYING(10)",
    "CHAR VARYING(10)", "CHARACTER LARGE OBJECT", "CHAR(5 CHARACTERS)", "NCHAR", "NCHAR(5)", "NCHAR VARYING(5)", "NVARCHAR(5)", "NVARCHAR", "TEXT", "TEXT(100)",
    "BINARY(4)", "VARBINARY(8)", "BINARY", "BLOB", "ENUM('a', 'b')", "ENUM(('x', 'y'), 'z')", "ENUM", "ENUM()", "SET('a', 'b')", "SET(('x'), 'y', ('z', ('w')))",
    "NATIONAL VARCHAR(5)", "NATIONAL CHARACTER(5)", "NATIONAL CHAR VARYING(5)", "NATIONAL CHARACTER VARYING(5)", "my_type", "my_type(3, 4)",
];

/// statements in which a data type can appear; `{T}` is replaced by the type
const TYPE_POSITIONS: [&str; 16] = [
    "CREATE TABLE t (c {T})",
    "CREATE TABLE t (c {T} NOT NULL, d INTEGER)",
    "CREATE TABLE t (b INTEGER, c {T} DEFAULT NULL, PRIMARY KEY (b))",
    "ALTER TABLE t ADD COLUMN c {T}",
    "ALTER TABLE t ADD c {T} NOT NULL",
    "ALTER TABLE t MODIFY COLUMN c {T}",
    "ALTER TABLE t CHANGE COLUMN c d {T}",
    "SELECT CAST(a AS {T})",
    "SELECT CAST(a AS {T}) FROM t WHERE CAST(b AS {T}) = 1",
    "CREATE PROCEDURE p(IN a {T}) BEGIN SELECT 1; END",
    "CREATE PROCEDURE p() BEGIN DECLARE x {T}; SELECT 1; END",
    "CREATE FUNCTION f(a {T}) RETURNS {T} BEGIN RETURN 1; END",
    "CREATE DOMAIN d AS {T}",
    "CREATE DOMAIN d AS {T} CHECK (VALUE > 0)",
    "CREATE TYPE ty AS ({T}, b {T})",
    "CREATE TYPE ty AS {T}",
];

/// (start, end) character ranges of the tokens of `s` (quotes grouped, words grouped, other characters single)
fn rough_tokens(cs: &[char]) -> Vec<(usize, usize)> {
    let mut out = vec![];
    let mut i = 0;
    while i < cs.len() {
        let c = cs[i];
        if c.is_whitespace() {
            i += 1;
        } else if c == '\'' || c == '"' || c == '`' {
            let mut j = i + 1;
            while j < cs.len() && cs[j] != c {
                j += 1;
            }
            out.push((i, (j + 1).min(cs.len())));
            i = j + 1;
        } else if c.is_alphanumeric() || c == '_' {
            let mut j = i;
            while j < cs.len() && (cs[j].is_alphanumeric() || cs[j] == '_') {
                j += 1;
            }
            out.push((i, j));
            i = j;
        } else {
            out.push((i, i + 1));
            i += 1;
        }
    }
    out
}

fn chain(name: &str, n: usize) -> Option<String> {
    let c = CHAINS.iter().find(|c| c.0 == name)?;
    Some(format!("{}{}{}", c.1, c.2.repeat(n), c.3))
}

fn tower(prod: &str, pos: &str, n: usize) -> Option<String> {
    let p = PRODUCTIONS.iter().find(|p| p.0 == prod)?;
    let q = POSITIONS.iter().find(|q| q.0 == pos)?;
    Some(format!("{}{}{}{}{}", q.1, p.1.repeat(n), p.2, p.3.repeat(n), q.2))
}

fn worker() {
    std::panic::set_hook(Box::new(|_| {}));
    // a lexer / parser that allocates without bound must die here, not take the machine down
    unsafe {
        let lim = libc::rlimit { rlim_cur: 3 << 29, rlim_max: 3 << 29 };
        libc::setrlimit(libc::RLIMIT_AS, &lim);
    }
    let stdin = std::io::stdin();
    let out = std::io::stdout();
    for line in stdin.lock().lines() {
        let line = match line {
            Ok(l) => l,
            Err(_) => break,
        };
        if let Some(rest) = line.strip_prefix("lex:") {
            // public lexer on the given text; the reply is the canonical token text
            let text = sx::unhex_str(rest).unwrap_or_default();
            let r = catch_unwind(move || Lexer::new(&text).tokenize());
            let got = match &r {
                Ok(Ok(toks)) => format!("(ok{})", toks.iter().map(|t| format!(" {}", tok_sx(t))).collect::<String>()),
                Ok(Err(e)) => format!("(err {} {})", err_kind(&e.message), e.position),
                Err(_) => "(panic)".to_string(),
            };
            let mut o = out.lock();
            let _ = writeln!(o, "lexed {}", got);
            let _ = o.flush();
            continue;
        }
        let sql = if let Some(rest) = line.strip_prefix("chain:") {
            let mut it = rest.split(':');
            let name = it.next().unwrap_or("");
            let n: usize = it.next().and_then(|s| s.parse().ok()).unwrap_or(0);
            match chain(name, n) {
                Some(s) => s,
                None => {
                    println!("badfam");
                    continue;
                }
            }
        } else if let Some(rest) = line.strip_prefix("tower:") {
            let mut it = rest.split(':');
            let prod = it.next().unwrap_or("");
            let pos = it.next().unwrap_or("");
            let n: usize = it.next().and_then(|s| s.parse().ok()).unwrap_or(0);
            match tower(prod, pos, n) {
                Some(s) => s,
                None => {
                    println!("badfam");
                    continue;
                }
            }
        } else if let Some(rest) = line.strip_prefix("fam:") {
            let mut it = rest.split(':');
            let name = it.next().unwrap_or("");
            let n: usize = it.next().and_then(|s| s.parse().ok()).unwrap_or(0);
            match family(name, n) {
                Some(s) => s,
                None => {
                    println!("badfam");
                    continue;
                }
            }
        } else {
            match sx::unhex_str(&line) {
                Some(s) => s,
                None => {
                    println!("badhex");
                    continue;
                }
            }
        };
        // the parse (and the drop of its result) runs on a thread with the default main-thread stack size
        let h = std::thread::Builder::new().stack_size(8 << 20).spawn(move || {
            let t0 = Instant::now();
            let r = catch_unwind(|| match Parser::parse_sql(&sql) {
                Ok(stmt) => {
                    if std::env::var("C23_FORGET_AST").is_ok() {
                        std::mem::forget(stmt); // diagnosis only: separates the parse from the drop of its result
                    } else {
                        drop(stmt);
                    }
                    "ok".to_string()
                }
                Err(e) => {
                    if e.message.contains("too deep") {
                        "toodeep".to_string()
                    } else if e.message.contains("too long") {
                        "toolong".to_string()
                    } else {
                        "err".to_string()
                    }
                }
            });
            (r.unwrap_or_else(|_| "panic".to_string()), t0.elapsed().as_millis())
        });
        let res = match h {
            Ok(h) => h.join().unwrap_or_else(|_| ("panic".to_string(), 0)),
            Err(_) => ("spawnfail".to_string(), 0),
        };
        let mut o = out.lock();
        let _ = writeln!(o, "{} {}", res.0, res.1);
        let _ = o.flush();
    }
}

struct Worker {
    child: Child,
    stdin: ChildStdin,
    rx: Receiver<String>,
}

#[derive(Debug, Clone, PartialEq)]
enum WOut {
    Ok(u128),
    Err(u128),
    TooDeep(u128),
    TooLong(u128),
    Panic,
    Crash(String),
    Timeout,
    /// not run: the batch had already produced enough abnormal terminations
    Skipped,
}

impl Worker {
    fn spawn() -> Worker {
        let exe = std::env::current_exe().expect("current_exe");
        let mut child = Command::new(exe).arg("worker").stdin(Stdio::piped()).stdout(Stdio::piped()).stderr(Stdio::null()).spawn().expect("spawn worker");
        let stdin = child.stdin.take().unwrap();
        let stdout = child.stdout.take().unwrap();
        let (tx, rx) = channel();
        std::thread::spawn(move || {
            let r = BufReader::new(stdout);
            for l in r.lines() {
                match l {
                    Ok(l) => {
                        if tx.send(l).is_err() {
                            break;
                        }
                    }
                    Err(_) => break,
                }
            }
        });
        Worker { child, stdin, rx }
    }
    fn kill(&mut self) {
        let _ = self.child.kill();
        let _ = self.child.wait();
    }
}

/// CPU seconds (user + system) consumed so far by process `pid` (Linux /proc), None if unknown
fn cpu_secs(pid: u32) -> Option<f64> {
    let st = std::fs::read_to_string(format!("/proc/{}/stat", pid)).ok()?;
    let rest = &st[st.rfind(')')? + 1..];
    let f: Vec<&str> = rest.split_whitespace().collect();
    // after the command name: state is field 0, utime field 11, stime field 12
    let ut: f64 = f.get(11)?.parse().ok()?;
    let stt: f64 = f.get(12)?.parse().ok()?;
    Some((ut + stt) / 100.0)
}

/// Wait for one reply line. The limit is on the CPU time the worker spends on the request (so a
/// machine loaded by other builds does not turn a 0.5 s parse into a "hang"), with a generous
/// wall-clock cap. Ok(line) | Err(true) = limit exceeded | Err(false) = the worker died.
fn wait_reply(w: &mut Worker, cpu_limit: f64) -> Result<String, bool> {
    let pid = w.child.id();
    let cpu0 = cpu_secs(pid).unwrap_or(0.0);
    let t0 = Instant::now();
    loop {
        match w.rx.recv_timeout(Duration::from_millis(500)) {
            Ok(l) => return Ok(l),
            Err(std::sync::mpsc::RecvTimeoutError::Timeout) => {
                let used = cpu_secs(pid).map(|c| c - cpu0).unwrap_or_else(|| t0.elapsed().as_secs_f64());
                if used > cpu_limit || t0.elapsed().as_secs() > 1200 {
                    return Err(true);
                }
            }
            Err(_) => return Err(false),
        }
    }
}

struct Pool {
    w: Option<Worker>,
    restarts: u64,
}

impl Pool {
    /// limit: 4 × `timeout` seconds of CPU time of the worker on this request (see `wait_reply`)
    fn run_checked(&mut self, line: &str, timeout: Duration) -> WOut {
        self.run(line, timeout)
    }

    /// `Lexer::tokenize` in the worker: Ok(canonical token text) or the abnormal outcome
    fn lex(&mut self, text: &str, timeout: Duration) -> Result<String, WOut> {
        {
            if self.w.is_none() {
                self.w = Some(Worker::spawn());
            }
            let w = self.w.as_mut().unwrap();
            let line = format!("lex:{}\n", sx::hex_str(text));
            if w.stdin.write_all(line.as_bytes()).is_err() || w.stdin.flush().is_err() {
                let st = w.child.wait().map(|s| format!("{}", s)).unwrap_or_default();
                self.w = None;
                self.restarts += 1;
                return Err(WOut::Crash(st));
            }
            match wait_reply(w, timeout.as_secs_f64() * 4.0) {
                Ok(l) => Ok(l.strip_prefix("lexed ").unwrap_or(&l).to_string()),
                Err(true) => {
                    w.kill();
                    self.w = None;
                    self.restarts += 1;
                    Err(WOut::Timeout)
                }
                Err(false) => {
                    let st = w.child.wait().map(|s| format!("{}", s)).unwrap_or_default();
                    self.w = None;
                    self.restarts += 1;
                    Err(WOut::Crash(st))
                }
            }
        }
    }

    /// many small inputs: the lines are written ahead (pipelined), the replies collected in order; an
    /// abnormal termination is attributed to the first line without a reply and the rest is re-sent
    fn run_batch(&mut self, lines: &[String], timeout: Duration) -> Vec<WOut> {
        let mut out: Vec<WOut> = Vec::with_capacity(lines.len());
        let mut failures = 0usize;
        while out.len() < lines.len() {
            if failures >= 3 {
                // every further hang costs seconds; the property is decided, the rest is reported as skipped
                out.push(WOut::Skipped);
                continue;
            }
            if self.w.is_none() {
                self.w = Some(Worker::spawn());
            }
            let w = self.w.as_mut().unwrap();
            let pending = &lines[out.len()..];
            let chunk = &pending[..pending.len().min(256)];
            let mut buf = String::new();
            for l in chunk {
                buf.push_str(l);
                buf.push('\n');
            }
            let wrote = w.stdin.write_all(buf.as_bytes()).is_ok() && w.stdin.flush().is_ok();
            let mut got = 0usize;
            let mut failure: Option<WOut> = None;
            while got < chunk.len() {
                match wait_reply(w, timeout.as_secs_f64() * 4.0) {
                    Ok(l) => {
                        let mut it = l.split(' ');
                        let k = it.next().unwrap_or("");
                        let ms: u128 = it.next().and_then(|s| s.parse().ok()).unwrap_or(0);
                        out.push(match k {
                            "ok" => WOut::Ok(ms),
                            "err" => WOut::Err(ms),
                            "toodeep" => WOut::TooDeep(ms),
                            "toolong" => WOut::TooLong(ms),
                            "panic" => WOut::Panic,
                            other => WOut::Crash(format!("unexpected worker reply {}", other)),
                        });
                        got += 1;
                    }
                    Err(true) => {
                        w.kill();
                        failure = Some(WOut::Timeout);
                        break;
                    }
                    Err(false) => {
                        let st = w.child.wait().map(|s| format!("{}", s)).unwrap_or_default();
                        failure = Some(WOut::Crash(st));
                        break;
                    }
                }
            }
            if let Some(f) = failure {
                self.w = None;
                self.restarts += 1;
                failures += 1;
                out.push(f); // the line being processed when the worker stopped answering
            } else if !wrote {
                self.w = None;
                self.restarts += 1;
            }
        }
        out
    }

    fn run(&mut self, line: &str, timeout: Duration) -> WOut {
        // generated inputs can be many megabytes: 15 more CPU seconds per MB of SQL text
        let spec_len = |l: &str| -> usize {
            let mut it = l.split(':');
            match (it.next(), it.next(), it.next(), it.next()) {
                (Some("chain"), Some(name), Some(n), _) => chain(name, 1).map(|s| s.len()).unwrap_or(0) / 2 * n.parse::<usize>().unwrap_or(0),
                (Some("fam"), Some(name), Some(n), _) => family(name, 2).map(|s| s.len()).unwrap_or(0) / 2 * n.parse::<usize>().unwrap_or(0),
                (Some("tower"), Some(p), Some(q), Some(n)) => tower(p, q, 1).map(|s| s.len()).unwrap_or(0) * n.parse::<usize>().unwrap_or(0),
                _ => l.len() / 2,
            }
        };
        let extra = 15.0 * (spec_len(line) as f64) / 1.0e6;
        if self.w.is_none() {
            self.w = Some(Worker::spawn());
        }
        let w = self.w.as_mut().unwrap();
        if w.stdin.write_all(line.as_bytes()).is_err() || w.stdin.write_all(b"\n").is_err() || w.stdin.flush().is_err() {
            let st = w.child.wait().map(|s| format!("{:?}", s)).unwrap_or_default();
            self.w = None;
            self.restarts += 1;
            return WOut::Crash(st);
        }
        match wait_reply(w, timeout.as_secs_f64() * 4.0 + extra) {
            Ok(l) => {
                let mut it = l.split(' ');
                let k = it.next().unwrap_or("");
                let ms: u128 = it.next().and_then(|s| s.parse().ok()).unwrap_or(0);
                match k {
                    "ok" => WOut::Ok(ms),
                    "err" => WOut::Err(ms),
                    "toodeep" => WOut::TooDeep(ms),
                    "toolong" => WOut::TooLong(ms),
                    "panic" => WOut::Panic,
                    other => WOut::Crash(format!("unexpected worker reply {}", other)),
                }
            }
            Err(true) => {
                w.kill();
                self.w = None;
                self.restarts += 1;
                WOut::Timeout
            }
            Err(false) => {
                // stdout closed: the worker died (stack overflow = SIGSEGV / SIGABRT)
                let st = w.child.wait().map(|s| format!("{}", s)).unwrap_or_default();
                self.w = None;
                self.restarts += 1;
                WOut::Crash(st)
            }
        }
    }
}

// ------------------------------------------------------------------------------------------------
// token correspondence
// ------------------------------------------------------------------------------------------------
fn tok_sx(t: &Token) -> String {
    let h = |s: &str| sx::hex_str(s);
    match t {
        Token::Keyword(k) => format!("(kw {:?})", k),
        Token::Identifier(s) => format!("(id {})", h(s)),
        Token::DelimitedIdentifier(s) => format!("(did {})", h(s)),
        Token::Number(s) => format!("(num {})", h(s)),
        Token::String(s) => format!("(str {})", h(s)),
        Token::Symbol(c) => format!("(sym {})", h(&c.to_string())),
        Token::Operator(s) => format!("(op {})", h(s)),
        Token::SessionVariable(s) => format!("(svar {})", h(s)),
        Token::UserVariable(s) => format!("(uvar {})", h(s)),
        Token::Semicolon => "semi".into(),
        Token::Comma => "comma".into(),
        Token::LParen => "lp".into(),
        Token::RParen => "rp".into(),
        Token::Eof => "eof".into(),
    }
}

fn err_kind(msg: &str) -> &'static str {
    if msg.starts_with("Unexpected character: '|' (did you mean") {
        "pipe"
    } else if msg.starts_with("Unexpected character") {
        "unexpected"
    } else if msg.starts_with("Expected variable name after @@") {
        "svar"
    } else if msg.starts_with("Expected variable name after @") {
        "uvar"
    } else if msg.starts_with("Invalid scientific notation") {
        "exponent"
    } else if msg.starts_with("Empty delimited identifier") {
        "emptydelim"
    } else if msg.starts_with("Unterminated delimited identifier") {
        "unterminateddelim"
    } else if msg.starts_with("Unterminated string literal") {
        "unterminatedstring"
    } else {
        "other"
    }
}

/// model reply with the spans removed, and the spans checked for order on the side
fn strip_spans(reply: &str) -> (String, bool) {
    match Sx::parse(reply) {
        Some(Sx::List(v)) if v.first().and_then(|x| x.as_atom()) == Some("ok") => {
            let mut out = String::from("(ok");
            let mut last = 0u64;
            let mut ordered = true;
            for t in &v[1..] {
                if let Sx::List(p) = t {
                    if p.len() == 3 {
                        out.push(' ');
                        out.push_str(&p[0].to_string());
                        let a: u64 = p[1].as_atom().and_then(|s| s.parse().ok()).unwrap_or(0);
                        let b: u64 = p[2].as_atom().and_then(|s| s.parse().ok()).unwrap_or(0);
                        if a < last || b < a {
                            ordered = false;
                        }
                        last = b;
                    }
                }
            }
            out.push(')');
            (out, ordered)
        }
        _ => (reply.to_string(), true),
    }
}

fn lex_case(s: &str, model: &mut model::Model, pool: &mut Pool, rep: &mut Report, tag: &str) -> bool {
    if enough_failures(rep) {
        return false;
    }
    let mut ws = String::new();
    let mut al = String::new();
    let mut ups: Vec<String> = vec![];
    let mut seen = std::collections::BTreeSet::new();
    for c in s.chars() {
        if !c.is_ascii() && seen.insert(c) {
            if c.is_whitespace() {
                ws.push(c);
            }
            if c.is_alphanumeric() {
                al.push(c);
                let u: String = c.to_uppercase().collect();
                ups.push(format!("({} {})", sx::hex_str(&c.to_string()), sx::hex_str(&u)));
            }
        }
    }
    let req = format!("lex {} {} {} ({})", sx::hex_str(s), sx::hex_str(&ws), sx::hex_str(&al), ups.join(" "));
    let m = model.ask(&req);
    let (m_tokens, ordered) = strip_spans(&m);
    // the real lexer runs in the worker process (time and memory limits): a lexer that stops
    // advancing must not hang the harness
    let res = pool.lex(s, Duration::from_secs(5));
    let got = match &res {
        Ok(g) => g.clone(),
        Err(o) => format!("{:?}", o),
    };
    let ntok = got.matches('(').count().saturating_sub(1) + got.matches(" semi").count() + got.matches(" comma").count() + got.matches(" lp").count() + got.matches(" rp").count();
    let is_err = got.starts_with("(err");
    rep.case(&req, ntok >= 3 || is_err);
    rep.count(&format!("lex_{}", tag));
    rep.count(if got.starts_with("(ok") {
        "lex_outcome_tokens"
    } else if is_err {
        "lex_outcome_error"
    } else {
        "lex_outcome_abnormal"
    });
    if !s.is_ascii() {
        rep.count("lex_non_ascii_input");
    }
    let shown: String = s.chars().take(300).collect();
    let replay = format!("input (first 300 chars): {:?}\ninput hex: {}\n-- engine: {}\n-- model:  {}", shown, if s.len() < 4000 { sx::hex_str(s) } else { format!("<{} bytes>", s.len()) }, trunc(&got), trunc(&m));
    if res.is_err() || got == "(panic)" {
        rep.fail(FailKind::Oracle, None, &format!("Lexer::tokenize did not return normally: {}", trunc(&got)), &replay);
        return false;
    }
    if got.starts_with("(ok") && !got.ends_with(" eof)") {
        rep.fail(FailKind::Oracle, None, "token list does not end in Eof", &replay);
    }
    if !ordered {
        rep.fail(FailKind::ModelDiff, None, "model token spans are not ordered (theorem C23_spans_ordered contradicted?)", &replay);
    }
    rep.traces_validated += 1;
    if got != m_tokens {
        rep.fail(FailKind::ModelDiff, None, "Lexer::tokenize differs from the Lean lexer model", &replay);
    }
    got.starts_with("(ok")
}

/// Every abnormal termination costs seconds (the worker runs into its time or memory limit and is
/// restarted). Once several inputs have been reported the property is decided for this run; the
/// remaining cases are skipped (and counted) so that the run ends with its report.
fn enough_failures(rep: &mut Report) -> bool {
    if rep.oracle_failures >= 6 {
        rep.count("cases_skipped_after_6_abnormal_terminations");
        true
    } else {
        false
    }
}

fn trunc(s: &str) -> String {
    if s.len() > 1500 {
        format!("{}… [{} bytes]", &s[..s.char_indices().take_while(|(i, _)| *i < 1500).last().map(|(i, c)| i + c.len_utf8()).unwrap_or(0)], s.len())
    } else {
        s.to_string()
    }
}

const CORPUS: [&str; 36] = [
    "SELECT a, b FROM t WHERE a > 5 AND b <= 3 ORDER BY a DESC LIMIT 10 OFFSET 2",
    "SELECT DISTINCT x.a, COUNT(*) FROM t AS x JOIN u ON x.a = u.a GROUP BY x.a HAVING COUNT(*) > 1",
    "INSERT INTO t (a, b) VALUES (1, 'it''s'), (2, NULL)",
    "UPDATE t SET a = a + 1, b = 'x' WHERE a IN (1, 2, 3)",
    "DELETE FROM t WHERE a BETWEEN 1 AND 10 OR b IS NOT NULL",
    "CREATE TABLE t (id INTEGER PRIMARY KEY, name VARCHAR(20) NOT NULL, p DECIMAL(10, 2) DEFAULT 0.5)",
    "CREATE INDEX i ON t (a, b)",
    "SELECT CASE WHEN a > 0 THEN 'pos' WHEN a < 0 THEN 'neg' ELSE 'zero' END FROM t",
    "SELECT (SELECT MAX(a) FROM u WHERE u.b = t.b) FROM t",
    "SELECT a FROM t WHERE EXISTS (SELECT 1 FROM u WHERE u.a = t.a)",
    "SELECT a FROM t UNION ALL SELECT a FROM u EXCEPT SELECT a FROM v",
    "WITH c AS (SELECT 1 AS x) SELECT x FROM c",
    "SELECT CAST(a AS VARCHAR(10)), SUBSTRING(s FROM 2 FOR 3), TRIM(BOTH 'x' FROM s) FROM t",
    "SELECT \"Quoted Col\", `back``tick` FROM \"T\"",
    "SELECT 1.5e10, .5, 2.E-3, 1e+5, 00012 FROM t -- trailing comment",
    "SELECT a -- comment\n, b FROM t",
    "SELECT @@sql_mode, @@session.x, @uservar",
    "SELECT a || b, a <> b, a != b, a >= b, a <= b FROM t",
    "SELECT * FROM t LEFT OUTER JOIN u ON t.a = u.a CROSS JOIN v",
    "SELECT a FROM t WHERE s LIKE 'a%' ESCAPE '!' AND s NOT LIKE '_b'",
    "SELECT a FROM t WHERE a NOT IN (SELECT a FROM u) AND NOT EXISTS (SELECT 1)",
    "ALTER TABLE t ADD COLUMN c INTEGER",
    "DROP TABLE IF EXISTS t",
    "BEGIN; COMMIT; ROLLBACK",
    "SAVEPOINT s1",
    "CREATE VIEW v AS SELECT a, b FROM t WHERE a > 0",
    "GRANT SELECT ON t TO r",
    "SELECT COUNT(DISTINCT a), SUM(b), AVG(c), MIN(d), MAX(e) FROM t",
    "SELECT a, ROW_NUMBER() OVER (PARTITION BY b ORDER BY c) FROM t",
    "SELECT DATE '2024-01-01', TIMESTAMP '2024-01-01 10:00:00', INTERVAL '5' DAY",
    "SELECT -a, +b, - - c, NOT NOT d FROM t",
    "SELECT ((a + b) * (c - d)) / e FROM t",
    "CREATE TRIGGER tr AFTER INSERT ON t FOR EACH ROW BEGIN UPDATE u SET a = 1; END",
    "SELECT a FROM t WHERE a = ANY (SELECT b FROM u) AND c > ALL (SELECT d FROM v)",
    "TRUNCATE TABLE t",
    "SELECT COALESCE(a, b, 0), NULLIF(a, b) FROM t WHERE a IS NULL",
];

const ODD: [char; 40] = [
    '\u{00A0}', '\u{2028}', '\u{2029}', '\u{0085}', '\u{3000}', '\u{200B}', '\u{FEFF}', 'é', 'ß', 'ı', 'İ', 'ǅ', 'ﬁ', 'Ω', '日', '😀', '\u{0301}', '１', '٣', 'ⅷ', '²', '½', '\0', '\u{7f}', '\t', '\r', '\n', '\u{0B}', '\u{0C}', '\'', '"', '`', '@', '|', '.', '-', 'e', 'E', '_', '$',
];

fn mutate(r: &mut Rng, s: &str) -> String {
    let mut cs: Vec<char> = s.chars().collect();
    let k = 1 + r.below(3);
    for _ in 0..k {
        let n = cs.len();
        let pos = if n == 0 { 0 } else { r.below(n as u64 + 1) as usize };
        match r.below(8) {
            0 if n > 0 => {
                cs.remove(pos.min(n - 1));
            }
            1 => cs.insert(pos, *r.pick(&ODD)),
            2 if n > 0 => cs[pos.min(n - 1)] = *r.pick(&ODD),
            3 if n > 0 => {
                let c = cs[pos.min(n - 1)];
                cs.insert(pos, c);
            }
            4 => cs.truncate(pos),
            5 if n > 1 => {
                let a = pos.min(n - 2);
                cs.swap(a, a + 1);
            }
            6 => {
                let ins: Vec<char> = (*r.pick(&["''", "\"\"", "--", "@@", "||", "1e", "1e+", "..", ".5e", "<>", "!=", "(", ")", "NOT ", " - ", "'"])).chars().collect();
                for (i, c) in ins.into_iter().enumerate() {
                    cs.insert((pos + i).min(cs.len()), c);
                }
            }
            _ => {
                let c = char::from_u32(r.below(0x11_0000) as u32).unwrap_or('?');
                cs.insert(pos, c);
            }
        }
    }
    cs.into_iter().collect()
}

fn random_unicode(r: &mut Rng) -> String {
    let n = r.below(40) as usize;
    (0..n)
        .map(|_| match r.below(4) {
            0 => *r.pick(&ODD),
            1 => (32 + r.below(95) as u8) as char,
            2 => char::from_u32(r.below(0x3000) as u32).unwrap_or(' '),
            _ => char::from_u32(r.below(0x11_0000) as u32).unwrap_or(' '),
        })
        .collect()
}

fn main() {
    if std::env::args().nth(1).as_deref() == Some("worker") {
        worker();
        return;
    }
    engine::silence_panics();
    let args = Args::parse("C23");
    let mut rep = Report::new(
        &args,
        "case = one input string. Streams: lexer correspondence (corpus, every truncation of the corpus, mutations, arbitrary \
         Unicode, huge literals) and the parser oracle in a worker process (same strings + nesting families up to n = 10^5..10^6). \
         Non-trivial = lexer: at least 3 tokens or a lexer error; parser: the input reaches the parser (not rejected by the lexer) \
         or is a nesting-family member. Distinct by hash of the input.",
    );
    rep.assumptions.push("Unicode classification of non-ASCII characters (is_whitespace, is_alphanumeric, to_uppercase) is taken from Rust's std and passed to the model with each input".into());
    rep.assumptions.push("parser / lexer oracle: worker process, 8 MiB stack (the default main-thread size), 20 s of worker CPU time per input plus 15 s per MB of SQL text (CPU, not wall clock, so that a loaded machine is not mistaken for a hang), 1.5 GiB address space, harness build profile (opt-level 1); the parsed statement is dropped inside the worker before it answers".into());
    let mut model = args.model();
    let mut rng = Rng::new(args.seed);
    let mut pool = Pool { w: None, restarts: 0 };
    let timeout = Duration::from_secs(5);
    let mut parse_inputs: Vec<String> = vec![];
    let mut lexed_ok: std::collections::HashSet<String> = Default::default();

    // ---- (a) lexer correspondence --------------------------------------------------------------
    for s in CORPUS.iter() {
        if lex_case(s, &mut model, &mut pool, &mut rep, "corpus") {
            lexed_ok.insert(s.to_string());
        }
        parse_inputs.push(s.to_string());
        // every truncation point
        let cs: Vec<char> = s.chars().collect();
        let step = if args.quick() { 3 } else { 1 };
        for i in (0..cs.len()).step_by(step) {
            let t: String = cs[..i].iter().collect();
            if lex_case(&t, &mut model, &mut pool, &mut rep, "truncation") {
                lexed_ok.insert(t.clone());
            }
            if i % 7 == 0 {
                parse_inputs.push(t);
            }
        }
    }
    for s in [
        "", " ", "--", "-- only a comment", "--\n", "-", "- -", "'", "''", "'''", "\"", "\"\"", "\"\"\"", "`", "``", "`a``b`", "@", "@@", "@@.", "@a@@b", "|", "||", "|||", "!", "!=", "<", "<>", "<=>", "1e", "1e+", "1e-5", "1.2.3", "1..2", ".", "..", ".e5", ".5.5", "5.", "5.e", "5.e1", "0x1F", "1_000", "a.b.c", "a..b", "%", "#", "$1", "?", "[a]", "{", "a\u{0301}b", "sel\u{00A0}ect", "ıN", "ſelect", "SELECT\u{2028}1", "１２３", "a１", "ⅷ", "_x", "_", "a-b", "a--b\nc", "'a\nb'", "'unterminated", "\"unterminated", "`unterminated", "'a''", "x'", "\u{FEFF}SELECT 1", "SELECT 1\0", "\0",
    ] {
        if lex_case(s, &mut model, &mut pool, &mut rep, "edge") {
            lexed_ok.insert(s.to_string());
        }
        parse_inputs.push(s.to_string());
    }
    for n in [1000usize, 20000, 100000] {
        for s in [format!("SELECT {}", "9".repeat(n)), format!("SELECT '{}'", "x".repeat(n)), format!("SELECT {}", "a".repeat(n)), format!("SELECT 1.{}e{}", "0".repeat(n), "1".repeat(n)), format!("SELECT '{}", "''".repeat(n)), format!("{}", " ".repeat(n)), format!("SELECT \"{}\"", "é".repeat(n))] {
            lex_case(&s, &mut model, &mut pool, &mut rep, "huge_literal");
        }
        if args.quick() && n >= 20000 {
            break;
        }
    }
    let n_mut = args.n(2500, 80000);
    for i in 0..n_mut {
        let mut r = rng.fork();
        let s = if i % 5 == 4 {
            random_unicode(&mut r)
        } else {
            let base = *r.pick(&CORPUS);
            mutate(&mut r, base)
        };
        if i < 4 {
            rep.sample(serde_json::json!({"stream": "lexer", "input": s}));
        }
        if lex_case(&s, &mut model, &mut pool, &mut rep, if i % 5 == 4 { "random_unicode" } else { "mutation" }) {
            lexed_ok.insert(s.clone());
        }
        if i % 3 == 0 {
            parse_inputs.push(s);
        }
    }

    // ---- (b) parser oracle in the worker -------------------------------------------------------
    let t_parse = Instant::now();
    let mut slowest = 0u128;
    for s in &parse_inputs {
        if enough_failures(&mut rep) {
            break;
        }
        let o = pool.run_checked(&sx::hex_str(s).replace('-', ""), timeout);
        let lexes = lexed_ok.contains(s.as_str());
        rep.case(&format!("parse {}", sx::hex_str(s)), lexes);
        rep.count(match &o {
            WOut::Ok(_) => "parse_ok",
            WOut::Err(_) => "parse_error",
            WOut::TooDeep(_) => "parse_too_deep",
            WOut::TooLong(_) => "parse_too_long",
            WOut::Panic => "parse_panic",
            WOut::Crash(_) => "parse_crash",
            WOut::Timeout | WOut::Skipped => "parse_timeout",
        });
        match &o {
            WOut::Ok(ms) | WOut::Err(ms) | WOut::TooDeep(ms) | WOut::TooLong(ms) => slowest = slowest.max(*ms),
            bad => {
                let shown: String = s.chars().take(300).collect();
                rep.fail(FailKind::Oracle, None, &format!("Parser::parse_sql did not return: {:?}", bad), &format!("input: {:?}\ninput hex: {}\noutcome: {:?}", shown, sx::hex_str(s), bad));
            }
        }
    }
    let fams = [
        "paren", "not", "minus", "plus", "abs", "case", "casewhen", "subquery", "exists", "inlist", "insub", "derived", "fromparen", "joinparen", "union", "cte", "cast", "coalesce", "between",
        "addchain", "andchain", "orchain", "concatchain", "cmpchain", "mulchain", "likechain", "isnullchain", "commalist", "values", "inwide", "joins", "createcols", "longdigits", "longstring", "longident", "quotes", "comments", "semicolons", "dots", "lparens_only", "select_lparens", "case_open",
        "notafterplus", "procif", "procifelse", "procwhile", "procloop", "procrepeat", "procbegin", "procinproc", "funcif", "funcwhile", "trigif", "trigbegin", "setopparen", "intersect", "except", "withnest", "commajoin", "naturaljoin", "viewnest", "explain", "typeparen", "qualified",
    ];
    let sizes: Vec<usize> = if args.quick() { vec![1, 10, 98, 99, 197, 198, 200, 100000] } else { vec![1, 10, 40, 90, 98, 99, 100, 101, 150, 197, 198, 200, 300, 1000, 5000, 20000, 100000, 1000000] };
    for f in fams {
        for n in &sizes {
            if enough_failures(&mut rep) {
                break;
            }
            let line = format!("fam:{}:{}", f, n);
            let o = pool.run_checked(&line, timeout);
            rep.case(&line, true);
            rep.count(&format!(
                "family_outcome_{}",
                match &o {
                    WOut::Ok(_) => "ok",
                    WOut::Err(_) => "parse_error",
                    WOut::TooDeep(_) => "too_deep",
                    WOut::TooLong(_) => "too_long",
                    WOut::Panic => "panic",
                    WOut::Crash(_) => "crash",
                    WOut::Timeout | WOut::Skipped => "timeout",
                }
            ));
            match &o {
                WOut::Ok(ms) | WOut::Err(ms) | WOut::TooDeep(ms) | WOut::TooLong(ms) => slowest = slowest.max(*ms),
                bad => {
                    let text = family(f, (*n).min(3)).unwrap_or_default();
                    rep.fail(FailKind::Oracle, None, &format!("Parser::parse_sql did not return on nesting family {}: {:?}", f, bad), &format!("family {} with n = {} (n = 3 looks like: {})\nreplay: echo '{}' | harness/target/debug/c23 worker\noutcome: {:?}", f, n, text, line, bad));
                    break;
                }
            }
            // (c) skeleton vs parser on the three families the skeleton models
            if matches!(f, "paren" | "not" | "minus") {
                // budget `-`: MAX_NESTING_DEPTH (read from the source by the model) minus the SELECT's own level
                let m = model.ask(&format!("sk - {} {}", n, f));
                let want = match &o {
                    WOut::Ok(_) => "(ok 0)",
                    WOut::TooDeep(_) => "(err tooDeep)",
                    _ => "?",
                };
                rep.traces_validated += 1;
                if m != want {
                    rep.fail(FailKind::ModelDiff, None, "nesting skeleton and parser disagree on accept / too deep", &format!("family {} n = {}: parser {:?}, skeleton (budget MAX_NESTING_DEPTH - 1) {}", f, n, o, m));
                }
            }
        }
    }
    // ---- towers: every recursive production at depth N in every syntactic position -------------
    let tower_sizes: [usize; 3] = [200, 5000, 100000];
    for (pi, p) in PRODUCTIONS.iter().enumerate() {
        for (qi, q) in POSITIONS.iter().enumerate() {
            for n in tower_sizes {
                // quick tier (thorough runs the full product): depth 200 in every second position, depth 5000 in every
                // tenth, depth 100000 in every eightieth (production, position) pair, rotating with the seed; the
                // reported inputs are always run
                let rot = qi + pi + args.seed as usize;
                let reported = n == 100000 && ((p.0 == "not" && q.0 == "afterplus") || (p.0.starts_with("trim") && q.0 == "select"));
                if args.quick() && !reported && ((n == 200 && rot % 2 != 0) || (n == 5000 && rot % 10 != 0) || (n == 100000 && rot % 80 != 0)) {
                    continue;
                }
                if enough_failures(&mut rep) {
                    continue;
                }
                let line = format!("tower:{}:{}:{}", p.0, q.0, n);
                let o = pool.run_checked(&line, timeout);
                rep.case(&line, true);
                rep.count(&format!(
                    "tower_outcome_{}",
                    match &o {
                        WOut::Ok(_) => "ok",
                        WOut::Err(_) => "parse_error",
                        WOut::TooDeep(_) => "too_deep",
                        WOut::TooLong(_) => "too_long",
                    WOut::TooLong(_) => "too_long",
                        WOut::Panic => "panic",
                        WOut::Crash(_) => "crash",
                        WOut::Timeout | WOut::Skipped => "timeout",
                    }
                ));
                rep.count(&format!("tower_depth_{}", n));
                match &o {
                    WOut::Ok(ms) | WOut::Err(ms) | WOut::TooDeep(ms) | WOut::TooLong(ms) => slowest = slowest.max(*ms),
                    bad => {
                        let text = tower(p.0, q.0, 3).unwrap_or_default();
                        rep.fail(
                            FailKind::Oracle,
                            None,
                            &format!("Parser::parse_sql did not return on a depth-{} tower of production {}: {:?}", n, p.0, bad),
                            &format!("production {} in position {} at depth {} (depth 3 looks like: {})\nreplay: echo '{}' | harness/target/debug/c23 worker\noutcome: {:?}", p.0, q.0, n, text, line, bad),
                        );
                    }
                }
            }
        }
    }
    // ---- long chains: every iterative list / chain production at lengths around and far beyond the limit ---
    let chain_lengths: [usize; 4] = [1000, 1001, 50000, 400000];
    for (ci, c) in CHAINS.iter().enumerate() {
        for n in chain_lengths {
            // quick tier: the left-deep tree builders at 1000 / 1001 / 400 000; the other lists at 1000 / 1001 always and
            // at 50 000 in every 3rd family (rotating with the seed); thorough: every family at every length
            let rot = ci + args.seed as usize;
            if args.quick() && ((c.4 && n == 50000) || (!c.4 && ((n == 50000 && rot % 3 != 0) || n == 400000))) {
                continue;
            }
            if enough_failures(&mut rep) {
                continue;
            }
            let line = format!("chain:{}:{}", c.0, n);
            let o = pool.run_checked(&line, timeout);
            rep.case(&line, true);
            rep.count(&format!(
                "chain_outcome_{}",
                match &o {
                    WOut::Ok(_) => "ok",
                    WOut::Err(_) => "parse_error",
                    WOut::TooDeep(_) => "too_deep",
                    WOut::TooLong(_) => "too_long",
                    WOut::Panic => "panic",
                    WOut::Crash(_) => "crash",
                    WOut::Timeout | WOut::Skipped => "timeout",
                }
            ));
            rep.count(&format!("chain_length_{}", n));
            match &o {
                WOut::Ok(ms) | WOut::Err(ms) | WOut::TooDeep(ms) | WOut::TooLong(ms) => slowest = slowest.max(*ms),
                bad => {
                    rep.fail(
                        FailKind::Oracle,
                        None,
                        &format!("Parser::parse_sql (or the drop of its result) did not return on a chain of {} links of {}: {:?}", n, c.0, bad),
                        &format!("chain {} with {} links (3 links look like: {})\nreplay: echo '{}' | harness/target/debug/c23 worker\noutcome: {:?}", c.0, n, chain(c.0, 3).unwrap_or_default(), line, bad),
                    );
                    continue;
                }
            }
            // chain model (left-deep tree builders): accepted up to MAX_CHAIN_LENGTH links, "too long" beyond
            if c.4 && matches!(c.0, "from_comma" | "join" | "cross_join" | "natural_join" | "left_join" | "plus" | "minus" | "times" | "divide" | "concat" | "and" | "or") {
                let m = model.ask(&format!("chain {}", n));
                let got = match &o {
                    WOut::Ok(_) => format!("(ok {})", n),
                    WOut::TooLong(_) => "(err tooLong)".to_string(),
                    other => format!("{:?}", other),
                };
                rep.traces_validated += 1;
                if got != m {
                    rep.fail(FailKind::ModelDiff, None, "chain length limit: parser and chain model disagree", &format!("chain {} with {} links: parser {}, model {}", c.0, n, got, m));
                }
            }
        }
    }
    // ---- data types: every spelling in every position, every truncation and every single-token deletion ------
    {
        // the generator must know every type keyword the parser dispatches on (table re-read from the source)
        let arms = model.ask("typearms");
        if let Some(Sx::List(v)) = Sx::parse(&arms) {
            for a in v.iter().skip(1).filter_map(|x| x.as_atom()) {
                let covered = TYPES.iter().any(|t| t.split(|c: char| !c.is_alphanumeric() && c != '_').next() == Some(a));
                rep.count("datatype_arms_checked");
                if !covered {
                    rep.fail(FailKind::ModelDiff, None, "the data-type generator has no spelling for a type keyword of parse_data_type", &format!("type keyword {} (crates/vibesql-parser/src/parser/create/types.rs) is not in TYPES of harness/src/bin/c23.rs", a));
                }
            }
        }
        let mut seen: std::collections::HashSet<String> = Default::default();
        let mut variants: Vec<(String, &'static str)> = vec![];
        for (ti, t) in TYPES.iter().enumerate() {
            for (pi, pos) in TYPE_POSITIONS.iter().enumerate() {
                // quick tier: column definition, ALTER ADD, CAST, routine parameter and DECLARE for every type; of the
                // other positions two per type, rotating with the seed
                let fixed = matches!(pi, 0 | 3 | 7 | 9 | 10);
                if args.quick() && !fixed && (ti + pi + args.seed as usize) % 6 != 0 {
                    continue;
                }
                let full = pos.replace("{T}", t);
                let cs: Vec<char> = full.chars().collect();
                let toks = rough_tokens(&cs);
                variants.push((full.clone(), "full"));
                // token-level truncation: cut before every token
                for (a, _) in &toks {
                    variants.push((cs[..*a].iter().collect(), "token_truncation"));
                }
                // single-token deletion
                for (a, b) in &toks {
                    // parentheses, commas, quoted strings and every other punctuation token (words only in the thorough tier)
                    if args.quick() && (cs[*a].is_alphanumeric() || cs[*a] == '_') {
                        continue;
                    }
                    let mut v: String = cs[..*a].iter().collect();
                    v.extend(cs[*b..].iter());
                    variants.push((v, "token_deletion"));
                }
                // character-level truncation: everywhere in the thorough tier; in the quick tier for the first
                // column position and one more position rotating with the seed
                if !args.quick() || pi == 0 || (ti + pi + args.seed as usize) % TYPE_POSITIONS.len() == 0 {
                    for i in 0..cs.len() {
                        variants.push((cs[..i].iter().collect(), "char_truncation"));
                    }
                }
            }
        }
        let variants: Vec<(String, &'static str)> = variants.into_iter().filter(|(v, _)| seen.insert(v.clone())).collect();
        for part in variants.chunks(2048) {
            if enough_failures(&mut rep) {
                break;
            }
            let lines: Vec<String> = part.iter().map(|(v, _)| sx::hex_str(v).replace('-', "")).collect();
            let outs = pool.run_batch(&lines, Duration::from_secs(2));
            for ((v, kind), o) in part.iter().zip(outs.iter()) {
                if *o == WOut::Skipped {
                    rep.count("cases_skipped_after_abnormal_terminations_in_a_batch");
                    continue;
                }
                rep.case(&format!("type {}", v), true);
                rep.count(&format!("datatype_{}", kind));
                rep.count(match o {
                    WOut::Ok(_) => "datatype_outcome_ok",
                    WOut::Err(_) | WOut::TooDeep(_) | WOut::TooLong(_) => "datatype_outcome_error",
                    _ => "datatype_outcome_abnormal",
                });
                match o {
                    WOut::Ok(ms) | WOut::Err(ms) | WOut::TooDeep(ms) | WOut::TooLong(ms) => slowest = slowest.max(*ms),
                    bad => rep.fail(
                        FailKind::Oracle,
                        None,
                        &format!("Parser::parse_sql did not return on a {} of a statement with a data type: {:?}", kind.replace('_', " "), bad),
                        &format!("input: {:?}\ninput hex: {}\nreplay: echo '{}' | harness/target/debug/c23 worker\noutcome: {:?}", v, sx::hex_str(v), sx::hex_str(v), bad),
                    ),
                }
            }
        }
    }
    // ---- string-ish literal prefixes × non-ASCII / odd-length content ---------------------------
    let prefixes = ["x", "X", "b", "B", "n", "N", "e", "E", "u&", "U&", "r", "_utf8", "_binary", "0x", "date", "time", "timestamp", "interval"];
    let contents = ["", "a", "aé1", "é", "éa", "aé", "é1", "1é0", "日", "a日b", "日本", "😀", "a😀", "😀1", "\u{80}", "ß1", "0é", "00é", "0101010é", "é0101010", "4142é", "4", "414", "g1", "2024-01-01é", "1é"];
    for pf in prefixes {
        for c in contents {
            for sep in ["", " "] {
                let sql = format!("SELECT {}{}'{}'", pf, sep, c);
                lex_case(&sql, &mut model, &mut pool, &mut rep, "literal_prefix");
                if enough_failures(&mut rep) {
                    continue;
                }
                let o = pool.run_checked(&sx::hex_str(&sql), timeout);
                rep.case(&format!("parse {}", sx::hex_str(&sql)), true);
                rep.count(match &o {
                    WOut::Ok(_) => "literal_prefix_ok",
                    WOut::Err(_) | WOut::TooDeep(_) | WOut::TooLong(_) => "literal_prefix_error",
                    _ => "literal_prefix_abnormal",
                });
                if !matches!(o, WOut::Ok(_) | WOut::Err(_) | WOut::TooDeep(_) | WOut::TooLong(_)) {
                    rep.fail(FailKind::Oracle, None, &format!("Parser::parse_sql did not return on a prefixed string literal: {:?}", o), &format!("input: {:?}\ninput hex: {}\noutcome: {:?}", sql, sx::hex_str(&sql), o));
                }
            }
        }
    }
    if let Some(mut w) = pool.w.take() {
        w.kill();
    }
    rep.extra.insert("parser_oracle_seconds".into(), serde_json::json!(t_parse.elapsed().as_secs_f64()));
    rep.extra.insert("slowest_parse_ms".into(), serde_json::json!(slowest as u64));
    rep.extra.insert("worker_restarts".into(), serde_json::json!(pool.restarts));
    rep.extra.insert("limit".into(), serde_json::json!("20 s of worker CPU time per input + 15 s per MB of SQL text (wall clock cap 1200 s), 1.5 GiB address space"));
    rep.extra.insert(
        "explanation".into(),
        serde_json::json!("level partial: the lexer is modelled completely and its termination / span theorems are proved; of the parser only the nesting skeleton with its depth budget is modelled. 'No panic in any parser branch' rests on the worker-process search, not on proof."),
    );
    rep.extra.insert("partial_theorems".into(), serde_json::json!(["C23_skeleton_depth_budget: nesting skeleton only (parenthesised / NOT / sign chains), not the 25k-line grammar"]));
    std::process::exit(rep.finish());
}
