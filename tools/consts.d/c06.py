# C06 / C01: the operator tables of the columnar predicate extractors (select/columnar/filter.rs)
# and of the index range extractor (select/scan/index_scan/predicate.rs), re-read on every run:
# every `match op { BinaryOperator::X => <Pred>::Y … }` block, tagged "direct" (column op literal)
# or "reversed" (literal op column) by the comment / destructuring pattern that precedes it.
import re


def innermost_op_matches(src):
    """(start offset, body) of every `match op {` … first `_ =>` that contains no further `match op {`"""
    res = []
    for m in re.finditer(r"match\s+\*?op\s*\{", src):
        end = re.search(r"\n\s*_\s*=>", src[m.end():])
        if not end:
            continue
        body = src[m.end():m.end() + end.start()]
        if re.search(r"match\s+\*?op\s*\{", body):
            continue
        res.append((m.start(), body))
    return res


def blocks(src):
    """yield (kind, [(BinaryOperator variant, predicate variant)]) for every operator match block"""
    out = []
    # a block starts at `match op {` (or `match *op {`) and runs to the first `_ =>` arm
    for m in innermost_op_matches(src):
        body = m[1]
        pairs = re.findall(r"BinaryOperator::(\w+)\s*=>\s*(?:\w+::)*ColumnPredicate::(\w+)", body)
        if not pairs:
            continue
        # which destructuring precedes the block: (ColumnRef, Literal) = direct, (Literal, ColumnRef) = reversed
        head = src[max(0, m[0] - 700):m[0]]
        d = head.rfind("Expression::ColumnRef { table, column }, Expression::Literal(")
        r = head.rfind("Expression::Literal(value), Expression::ColumnRef")
        if d < 0 and r < 0:
            kind = "unknown"
        else:
            kind = "direct" if d > r else "reversed"
        out.append((kind, pairs))
    return out


def range_tables(src):
    """index_scan/predicate.rs: every `match op { BinaryOperator::X => RangePredicate { … } }` block:
    (kind, [(op, start is Some, end is Some, inclusive_start, inclusive_end)]), kind by which operand
    is tested with is_column_reference just before the block"""
    out = []
    for m in innermost_op_matches(src):
        body = m[1]
        rows = re.findall(
            r"BinaryOperator::(\w+)\s*=>\s*RangePredicate\s*\{\s*start:\s*(Some|None)[^,]*,\s*end:\s*(Some|None)[^,]*,\s*inclusive_start:\s*(true|false),\s*inclusive_end:\s*(true|false)",
            body)
        if not rows:
            continue
        head = src[max(0, m[0] - 600):m[0]]
        d = head.rfind("is_column_reference(left")
        r = head.rfind("is_column_reference(right")
        kind = "unknown" if d < 0 and r < 0 else ("direct" if d > r else "reversed")
        out.append((kind, rows))
    return out


def ast_children(ast_src):
    """variant -> names of the fields of `pub enum Expression` whose type contains an expression
    (Box<Expression>, Option<Box<Expression>>, Vec<Expression>, Vec<CaseWhen>)"""
    m = re.search(r"pub enum Expression \{(.*?)\n\}\n", ast_src, re.S)
    out = {}
    if not m:
        return out
    body = re.sub(r"//[^\n]*", "", m.group(1))
    for vm in re.finditer(r"\n    (\w+)\s*(\{(.*?)\n    \}|\([^)]*\))?,", body, re.S):
        name, rest, fields = vm.group(1), vm.group(2) or "", vm.group(3)
        kids = []
        if fields is not None:
            for fname, fty in re.findall(r"(\w+)\s*:\s*([^,\n]+(?:<[^\n]*>)?)", fields):
                if "Expression" in fty or "CaseWhen" in fty:
                    kids.append(fname)
        out[name] = kids
    return out


def cse_arms(src):
    """arms of ExpressionHasher::is_deterministic: [(variants, kind, identifiers the body passes to
    is_deterministic or iterates over)] with kind in {"false", "true", "rec"}"""
    m = re.search(r"pub fn is_deterministic\(expr: &vibesql_ast::Expression\) -> bool \{\s*match expr \{(.*?)\n        \}\n    \}", src, re.S)
    if not m:
        return None
    body = re.sub(r"//[^\n]*", "", m.group(1))
    arms = []
    # split at top-level arms: a pattern starts with `vibesql_ast::Expression::` at 12 spaces of indentation
    parts = re.split(r"\n            (?=vibesql_ast::Expression::)", "\n" + body)
    for part in parts:
        if "=>" not in part:
            continue
        pat, rhs = part.split("=>", 1)
        variants = re.findall(r"Expression::(\w+)", pat)
        rhs_s = rhs.strip().rstrip(",").strip()
        if re.fullmatch(r"false|\{\s*false\s*\}", rhs_s):
            kind, used = "false", []
        elif re.fullmatch(r"true", rhs_s):
            kind, used = "true", []
        else:
            kind = "rec"
            used = sorted(set(re.findall(r"is_deterministic\(&?(?:clause\.)?(\w+)\)", rhs) + re.findall(r"(\w+)(?:\.as_ref\(\))?\.(?:iter\(\)\.all|is_none_or)\(", rhs)
                              + re.findall(r"if let Some\(\w+\) = (\w+)", rhs) + re.findall(r"for \w+ in &?(?:clause\.)?(\w+)", rhs)))
        arms.append((variants, kind, used))
    return arms


def extract(read):
    src = read("crates/vibesql-executor/src/select/columnar/filter.rs")
    bl = blocks(src)
    out = ["/-- select/columnar/filter.rs: every operator table of the predicate extractors, as written:\n(kind, [(BinaryOperator, ColumnPredicate)]) with kind = \"direct\" (column op literal) or \"reversed\" (literal op column) -/"]
    rows = []
    for kind, pairs in bl:
        rows.append('("%s", [%s])' % (kind, ", ".join('("%s", "%s")' % p for p in pairs)))
    out.append("def c06ColumnarOpTables : List (String × List (String × String)) := [%s]" % ", ".join(rows))
    rsrc = read("crates/vibesql-executor/src/select/scan/index_scan/predicate.rs")
    rt = range_tables(rsrc)
    out.append("/-- select/scan/index_scan/predicate.rs: every operator → RangePredicate table, as written:\n(kind, [(BinaryOperator, start is Some, end is Some, inclusive_start, inclusive_end)]) -/")
    rrows = []
    for kind, rows in rt:
        rrows.append('("%s", [%s])' % (kind, ", ".join('("%s", %s, %s, %s, %s)' % (o, "true" if a == "Some" else "false", "true" if b == "Some" else "false", c, d) for o, a, b, c, d in rows)))
    out.append("def c06IndexRangeTables : List (String × List (String × Bool × Bool × Bool × Bool)) := [%s]" % ", ".join(rrows))
    ast = ast_children(read("crates/vibesql-ast/src/expression.rs"))
    arms = cse_arms(read("crates/vibesql-executor/src/evaluator/expression_hash.rs"))
    out.append("/-- evaluator/expression_hash.rs `is_deterministic` (which sub-expressions the per-evaluator CSE cache may keep)\nagainst vibesql-ast `enum Expression`: (variant, fields of the variant that hold expressions, kind of the arm\n(\"false\" / \"true\" / \"rec\"), identifiers the arm checks recursively) -/")
    rows = []
    if arms is not None:
        for variants, kind, used in arms:
            for v in variants:
                rows.append('("%s", [%s], "%s", [%s])' % (v, ", ".join('"%s"' % k for k in ast.get(v, [])), kind, ", ".join('"%s"' % u for u in used)))
    out.append("def c06CseArms : List (String × List String × String × List String) := [%s]" % ", ".join(rows))
    out.append("/-- all variants of vibesql-ast `enum Expression` -/")
    out.append("def c06AstVariants : List String := [%s]" % ", ".join('"%s"' % v for v in ast))
    return "\n".join(out) + "\n"
