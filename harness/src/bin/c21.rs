use std::collections::hash_map::DefaultHasher;
use std::hash::{Hash, Hasher};
use vibesql_types::SqlValue;
use vharness::*;
fn h(v: &SqlValue) -> u64 { let mut s = DefaultHasher::new(); v.hash(&mut s); s.finish() }
fn main() {
    let a = SqlValue::Double(0.0); let b = SqlValue::Double(-0.0);
    println!("eq={} cmp={:?} hash_eq={}", a == b, a.cmp(&b), h(&a) == h(&b));
    let mut db = Db::new();
    println!("{}", db.exec("CREATE TABLE t (d DOUBLE PRECISION)").brief());
    println!("{}", db.exec("INSERT INTO t VALUES (0.0)").brief());
    println!("{}", db.exec("INSERT INTO t SELECT 0.0 * (0 - 1)").brief());
    println!("{}", db.exec("INSERT INTO t SELECT -0.0").brief());
    println!("{}", db.exec("SELECT d FROM t").brief());
    println!("{:?}", db.exec("SELECT d FROM t"));
    println!("{}", db.exec("SELECT DISTINCT d FROM t").brief());
    println!("{}", db.exec("SELECT d, COUNT(*) FROM t GROUP BY d").brief());
    println!("{}", db.exec("SELECT d FROM t UNION SELECT d FROM t").brief());
}
