//! C08 — ORDER BY, LIMIT/OFFSET and DISTINCT return correct sequences.
//!
//! Direct oracle (real engine only), for plain, aggregate and set-operation queries, with and
//! without a usable index:
//!   * F = `Q ORDER BY …` is sorted by its keys under an independent comparison (NULLs last in both
//!     directions) and is a permutation of U = `Q` without ORDER BY;
//!   * the key sequence of `Q ORDER BY … LIMIT n OFFSET m` is the slice [m, m+n) of F's key sequence
//!     (robust to ties), its rows are rows of F, its length is min(n, len − m);
//!   * `SELECT DISTINCT` returns each distinct row once and the same set of rows.
//! Correspondence: the Lean model (`runPlain` / `runOnResult` of Model/Order.lean) on the same rows:
//! equal key sequences always, equal row sequences when the keys are unique.
use std::collections::BTreeMap;
use vharness::qast::*;
use vharness::*;
use vibesql_types::SqlValue;

#[derive(Clone, Debug, PartialEq)]
enum K {
    Null,
    Num(f64),
    /// integers are compared exactly (f64 merges neighbours from 2^53 upwards)
    Int(i128),
    Str(Vec<u8>),
    Bool(bool),
    /// temporal values as their components, most significant first
    Tup(Vec<i64>),
    Other(String),
}

fn kval(v: &SqlValue) -> K {
    match v {
        SqlValue::Null => K::Null,
        SqlValue::Integer(i) | SqlValue::Bigint(i) => K::Int(*i as i128),
        SqlValue::Smallint(i) => K::Int(*i as i128),
        SqlValue::Unsigned(u) => K::Int(*u as i128),
        SqlValue::Numeric(f) | SqlValue::Double(f) => K::Num(*f),
        SqlValue::Float(f) | SqlValue::Real(f) => K::Num(*f as f64),
        SqlValue::Character(s) | SqlValue::Varchar(s) => K::Str(s.as_bytes().to_vec()),
        SqlValue::Boolean(b) => K::Bool(*b),
        SqlValue::Date(d) => K::Tup(vec![d.year as i64, d.month as i64, d.day as i64]),
        SqlValue::Time(t) => K::Tup(vec![t.hour as i64, t.minute as i64, t.second as i64, t.nanosecond as i64]),
        SqlValue::Timestamp(ts) => K::Tup(vec![
            ts.date.year as i64,
            ts.date.month as i64,
            ts.date.day as i64,
            ts.time.hour as i64,
            ts.time.minute as i64,
            ts.time.second as i64,
            ts.time.nanosecond as i64,
        ]),
        other => K::Other(format!("{:?}", other)),
    }
}

/// independent comparison: NULL last regardless of direction; None = incomparable (mixed types)
fn cmp_key(a: &K, b: &K, desc: bool) -> Option<std::cmp::Ordering> {
    use std::cmp::Ordering::*;
    let o = match (a, b) {
        (K::Null, K::Null) => return Some(Equal),
        (K::Null, _) => return Some(Greater),
        (_, K::Null) => return Some(Less),
        (K::Num(x), K::Num(y)) => x.partial_cmp(y)?,
        (K::Int(x), K::Int(y)) => x.cmp(y),
        (K::Int(x), K::Num(y)) => (*x as f64).partial_cmp(y)?,
        (K::Num(x), K::Int(y)) => x.partial_cmp(&(*y as f64))?,
        (K::Str(x), K::Str(y)) => x.cmp(y),
        (K::Bool(x), K::Bool(y)) => x.cmp(y),
        (K::Tup(x), K::Tup(y)) if x.len() == y.len() => x.cmp(y),
        _ => return None,
    };
    Some(if desc { o.reverse() } else { o })
}

#[derive(Clone, Debug)]
struct KeySpec {
    /// output column holding the key
    idx: usize,
    desc: bool,
}

fn keys_of(row: &[SqlValue], ks: &[KeySpec]) -> Vec<K> {
    ks.iter().map(|k| row.get(k.idx).map(kval).unwrap_or(K::Other("missing".into()))).collect()
}

fn cmp_rows(a: &[K], b: &[K], ks: &[KeySpec]) -> Option<std::cmp::Ordering> {
    for (i, k) in ks.iter().enumerate() {
        let o = cmp_key(&a[i], &b[i], k.desc)?;
        if o != std::cmp::Ordering::Equal {
            return Some(o);
        }
    }
    Some(std::cmp::Ordering::Equal)
}

fn bag(rows: &[Vec<SqlValue>]) -> BTreeMap<String, i64> {
    let mut m = BTreeMap::new();
    for r in rows {
        *m.entry(canon::row(r)).or_insert(0) += 1;
    }
    m
}

fn sub_bag(small: &BTreeMap<String, i64>, big: &BTreeMap<String, i64>) -> bool {
    small.iter().all(|(k, v)| big.get(k).copied().unwrap_or(0) >= *v)
}

fn lo_sql(l: &(Option<usize>, Option<usize>)) -> String {
    let mut s = String::new();
    if let Some(n) = l.0 {
        s.push_str(&format!(" LIMIT {}", n));
    }
    if let Some(m) = l.1 {
        s.push_str(&format!(" OFFSET {}", m));
    }
    s
}

/// LIMIT/OFFSET combinations around the boundaries of a result of `len` rows
fn lo_set(r: &mut Rng, len: usize, max: usize) -> Vec<(Option<usize>, Option<usize>)> {
    let ns = [0usize, 1, len.saturating_sub(1), len, len + 1, 1_000_000];
    let ms = [0usize, 1, len.saturating_sub(1), len, len + 1, 1_000_000];
    let mut all: Vec<(Option<usize>, Option<usize>)> = vec![];
    for n in ns {
        for m in ms {
            all.push((Some(n), Some(m)));
        }
    }
    for n in ns {
        all.push((Some(n), None));
    }
    for m in ms {
        all.push((None, Some(m)));
    }
    r.shuffle(&mut all);
    all.truncate(max);
    all
}

struct Ctx<'a> {
    rep: &'a mut Report,
    script: String,
    kind: &'static str,
}

/// The direct oracle for one ordered query; returns F's rows when everything could be evaluated.
fn check_ordered(
    db: &mut Db,
    base: &str,
    order: &str,
    ks: &[KeySpec],
    los: &[(Option<usize>, Option<usize>)],
    cx: &mut Ctx,
    tag: &str,
) -> Option<(Vec<Vec<SqlValue>>, Vec<Vec<SqlValue>>)> {
    let u = db.query(base);
    let fq = format!("{} {}", base, order);
    let f = db.query(&fq);
    let replay = |extra: &str| format!("{}-- unordered: {}\n-- ordered:   {}\n{}", cx.script, base, fq, extra);
    if u.is_panic() || f.is_panic() {
        cx.rep.fail(FailKind::Oracle, None, &format!("{}: engine panicked on an ordered query [{}]", cx.kind, tag), &replay(&format!("U: {}\nF: {}", u.brief(), f.brief())));
        return None;
    }
    let (ur, fr) = match (u.rows(), f.rows()) {
        (Some(a), Some(b)) => (a.clone(), b.clone()),
        (None, None) => {
            cx.rep.count("both_rejected");
            return None;
        }
        _ => {
            cx.rep.fail(
                FailKind::Oracle,
                None,
                &format!("{}: query accepted without ORDER BY but not with it (or vice versa) [{}]", cx.kind, tag),
                &replay(&format!("U: {}\nF: {}", u.brief(), f.brief())),
            );
            return None;
        }
    };
    // permutation of the unordered result
    if bag(&ur) != bag(&fr) {
        cx.rep.fail(
            FailKind::Oracle,
            None,
            &format!("{}: ordered result is not a permutation of the unordered result [{}]", cx.kind, tag),
            &replay(&format!("U: {}\nF: {}", u.brief(), f.brief())),
        );
    }
    // sorted by the keys
    let fk: Vec<Vec<K>> = fr.iter().map(|r| keys_of(r, ks)).collect();
    for i in 0..fk.len().saturating_sub(1) {
        match cmp_rows(&fk[i], &fk[i + 1], ks) {
            Some(std::cmp::Ordering::Greater) => {
                cx.rep.fail(
                    FailKind::Oracle,
                    None,
                    &format!("{}: ordered result is not sorted by its keys [{}]", cx.kind, tag),
                    &replay(&format!("rows {} and {} are out of order\nF: {}", i, i + 1, f.brief())),
                );
                break;
            }
            None => {
                cx.rep.count("incomparable_keys_skipped");
                break;
            }
            _ => {}
        }
    }
    // LIMIT / OFFSET = slice of F (by keys)
    let fb = bag(&fr);
    for l in los {
        let lq = format!("{}{}", fq, lo_sql(l));
        let lo = db.query(&lq);
        let lr = match lo.rows() {
            Some(r) => r.clone(),
            None => {
                cx.rep.fail(
                    FailKind::Oracle,
                    None,
                    &format!("{}: query fails once LIMIT/OFFSET is added [{}]", cx.kind, tag),
                    &replay(&format!("-- limited:   {}\nL: {}", lq, lo.brief())),
                );
                continue;
            }
        };
        cx.rep.count("limit_offset_queries");
        let m = l.1.unwrap_or(0).min(fr.len());
        let end = match l.0 {
            Some(n) => (m + n).min(fr.len()),
            None => fr.len(),
        };
        let expect: Vec<Vec<K>> = fk[m..end].to_vec();
        let got: Vec<Vec<K>> = lr.iter().map(|r| keys_of(r, ks)).collect();
        if expect != got || !sub_bag(&bag(&lr), &fb) {
            cx.rep.fail(
                FailKind::Oracle,
                None,
                &format!("{}: LIMIT/OFFSET result is not the slice [m, m+n) of the ordered result [{}]", cx.kind, tag),
                &replay(&format!("-- limited:   {}\nF: {}\nL: {}", lq, f.brief(), lo.brief())),
            );
        }
    }
    Some((ur, fr))
}

fn rows_sx_vals(rows: &[Vec<SqlValue>]) -> String {
    canon::rows_seq(rows)
}

fn parse_model_rows(reply: &str) -> Option<Vec<String>> {
    let sx = Sx::parse(reply)?;
    let l = sx.as_list()?;
    if l.len() != 2 || l[0].as_atom()? != "rows" {
        return None;
    }
    Some(l[1].as_list()?.iter().map(|r| r.to_string()).collect())
}

fn key_strings(rows: &[Vec<SqlValue>], ks: &[KeySpec]) -> Vec<String> {
    rows.iter().map(|r| ks.iter().map(|k| canon::val(&r[k.idx])).collect::<Vec<_>>().join(" ")).collect()
}

fn model_key_strings(rows: &[String], ks: &[KeySpec]) -> Option<Vec<String>> {
    let mut out = vec![];
    for r in rows {
        let sx = Sx::parse(r)?;
        let l = sx.as_list()?;
        let mut parts = vec![];
        for k in ks {
            parts.push(l.get(k.idx)?.as_atom()?.to_string());
        }
        out.push(parts.join(" "));
    }
    Some(out)
}

/// compare a model reply with engine rows: key sequences always, rows too when keys are unique
fn compare_model(reply: &str, engine: &[Vec<SqlValue>], ks: &[KeySpec], unique_keys: bool, cx: &mut Ctx, what: &str, req: &str) {
    cx.rep.traces_validated += 1;
    let mr = match parse_model_rows(reply) {
        Some(r) => r,
        None => {
            cx.rep.fail(FailKind::ModelDiff, None, &format!("{}: model rejects a query the engine evaluates [{}]", cx.kind, what), &format!("{}-- model request: {}\nmodel: {}\nengine: {}", cx.script, req, reply, rows_sx_vals(engine)));
            return;
        }
    };
    let ek = key_strings(engine, ks);
    let mk = model_key_strings(&mr, ks).unwrap_or_default();
    let er: Vec<String> = engine.iter().map(|r| canon::row(r)).collect();
    let bad = ek != mk || (unique_keys && er != mr);
    if bad {
        cx.rep.fail(
            FailKind::ModelDiff,
            None,
            &format!("{}: model and engine sequences differ [{}]", cx.kind, what),
            &format!("{}-- model request: {}\nmodel:  {}\nengine: {}", cx.script, req, reply, rows_sx_vals(engine)),
        );
    }
}

fn all_unique(rows: &[Vec<SqlValue>], ks: &[KeySpec]) -> bool {
    let k = key_strings(rows, ks);
    let mut s = k.clone();
    s.sort();
    s.dedup();
    s.len() == k.len()
}

// ---------------------------------------------------------------------------------------------
// plain queries
// ---------------------------------------------------------------------------------------------

#[derive(Clone, Debug)]
enum OrdKind {
    Pos(usize),
    Alias(String),
    Col(usize),
    Expr(E),
}

struct PlainCase {
    schema: Schema,
    not_null: Vec<bool>,
    rows: Vec<Vec<Lit>>,
    sel: Vec<(E, Option<String>)>,
    order: Vec<(OrdKind, bool)>,
    distinct: bool,
    where_lit: Option<i64>,
    index: Option<Vec<(usize, bool)>>,
}

fn create_sql(c: &PlainCase) -> String {
    let cols: Vec<String> = c
        .schema
        .cols
        .iter()
        .enumerate()
        .map(|(i, (n, t))| format!("{} {}{}", n, if *t == Ty::Int { "INTEGER" } else { "VARCHAR(20)" }, if c.not_null[i] { " NOT NULL" } else { "" }))
        .collect();
    format!("CREATE TABLE {} ({})", c.schema.table, cols.join(", "))
}

fn load_plain(db: &mut Db, c: &PlainCase) {
    db.must(&create_sql(c));
    for chunk in c.rows.chunks(50) {
        let vals: Vec<String> = chunk.iter().map(|r| format!("({})", r.iter().map(|v| match v { Lit::I(i) => i.to_string(), o => o.sql() }).collect::<Vec<_>>().join(", "))).collect();
        db.must(&format!("INSERT INTO {} VALUES {}", c.schema.table, vals.join(", ")));
    }
}

fn gen_plain(r: &mut Rng, size_class: u32) -> PlainCase {
    let ncols = r.range(2, 4) as usize;
    let mut cols = vec![];
    for i in 0..ncols {
        let ty = if i == 0 || r.chance(3, 5) { Ty::Int } else { Ty::Str };
        cols.push((format!("c{}", i), ty));
    }
    let schema = Schema { table: "t".into(), cols };
    let n = match size_class {
        0 => 0,
        1 => 1,
        2 => r.range(2, 12) as usize,
        3 => r.range(100, 130) as usize,
        _ => r.range(2600, 2700) as usize,
    };
    let mut rows = gen_rows(r, &schema, n);
    let not_null: Vec<bool> = (0..ncols).map(|_| r.chance(1, 3)).collect();
    for row in rows.iter_mut() {
        for (i, v) in row.iter_mut().enumerate() {
            if not_null[i] && *v == Lit::Null {
                *v = if schema.cols[i].1 == Ty::Int { Lit::I(r.range(-2, 6)) } else { Lit::S((*r.pick(STR_POOL)).to_string()) };
            }
        }
    }
    let g = Gen::new(&schema);
    let nsel = r.range(1, 3) as usize;
    let mut sel = vec![];
    for i in 0..nsel {
        let e = match r.below(4) {
            0 => g.int(r, 1),
            1 if !schema.cols_of(Ty::Str).is_empty() => E::Col(*r.pick(&schema.cols_of(Ty::Str))),
            _ => E::Col(r.below(ncols as u64) as usize),
        };
        let alias = if r.chance(1, 2) { Some(format!("x{}", i)) } else { None };
        sel.push((e, alias));
    }
    let nord = r.range(1, 3) as usize;
    let mut order = vec![];
    for _ in 0..nord {
        let k = match r.below(6) {
            0 => OrdKind::Pos(r.below(nsel as u64) as usize),
            1 => {
                let with_alias: Vec<&(E, Option<String>)> = sel.iter().filter(|s| s.1.is_some()).collect();
                if with_alias.is_empty() {
                    OrdKind::Col(r.below(ncols as u64) as usize)
                } else {
                    OrdKind::Alias(r.pick(&with_alias).1.clone().unwrap())
                }
            }
            2 => match g.int(r, 1) {
                // a bare integer literal in ORDER BY is a position, not an expression
                E::Lit(_) => OrdKind::Col(r.below(ncols as u64) as usize),
                e => OrdKind::Expr(e),
            },
            _ => OrdKind::Col(r.below(ncols as u64) as usize),
        };
        order.push((k, r.chance(1, 2)));
    }
    let distinct = r.chance(1, 4);
    let where_lit = if r.chance(1, 3) { Some(r.range(-1, 3)) } else { None };
    // index on the ORDER BY columns when they are bare columns, else on the first int column
    let index = if r.chance(2, 3) {
        let bare: Vec<(usize, bool)> = order.iter().filter_map(|(k, d)| if let OrdKind::Col(i) = k { Some((*i, *d)) } else { None }).collect();
        if bare.len() == order.len() {
            let mut seen = vec![];
            let mut v = vec![];
            for (i, d) in bare {
                if !seen.contains(&i) {
                    seen.push(i);
                    v.push((i, d));
                }
            }
            Some(v)
        } else {
            Some(vec![(0, r.chance(1, 2))])
        }
    } else {
        None
    };
    PlainCase { schema, not_null, rows, sel, order, distinct, where_lit, index }
}

fn run_plain(c: &PlainCase, model: &mut model::Model, rep: &mut Report, rng: &mut Rng) {
    let names: Vec<String> = c.schema.cols.iter().map(|(n, _)| n.clone()).collect();
    let mut db = Db::new();
    db.keep_log = false;
    load_plain(&mut db, c);
    // resolved key expressions
    let resolved: Vec<E> = c
        .order
        .iter()
        .map(|(k, _)| match k {
            OrdKind::Pos(i) => c.sel[*i].0.clone(),
            OrdKind::Alias(a) => c.sel.iter().find(|s| s.1.as_deref() == Some(a.as_str())).unwrap().0.clone(),
            OrdKind::Col(i) => E::Col(*i),
            OrdKind::Expr(e) => e.clone(),
        })
        .collect();
    let mut items: Vec<String> = c.sel.iter().map(|(e, a)| match a { Some(a) => format!("{} AS {}", e.sql(&names), a), None => e.sql(&names) }).collect();
    items.extend(resolved.iter().map(|e| e.sql(&names)));
    let w = c.where_lit.map(|l| format!(" WHERE c0 >= {}", Lit::I(l).sql())).unwrap_or_default();
    let base = format!("SELECT {}{} FROM t{}", if c.distinct { "DISTINCT " } else { "" }, items.join(", "), w);
    let order_sql = format!(
        "ORDER BY {}",
        c.order
            .iter()
            .map(|(k, d)| {
                let e = match k {
                    OrdKind::Pos(i) => (i + 1).to_string(),
                    OrdKind::Alias(a) => a.clone(),
                    OrdKind::Col(i) => names[*i].clone(),
                    OrdKind::Expr(e) => e.sql(&names),
                };
                format!("{}{}", e, if *d { " DESC" } else { "" })
            })
            .collect::<Vec<_>>()
            .join(", ")
    );
    let ks: Vec<KeySpec> = c.order.iter().enumerate().map(|(i, (_, d))| KeySpec { idx: c.sel.len() + i, desc: *d }).collect();
    let script = format!(
        "{};\n{}",
        create_sql(c),
        c.rows.iter().take(40).map(|r| format!("INSERT INTO t VALUES ({});\n", r.iter().map(|v| v.sql()).collect::<Vec<_>>().join(", "))).collect::<String>()
    ) + &(if c.rows.len() > 40 { format!("-- … {} rows in total (seeded generator)\n", c.rows.len()) } else { String::new() });
    let case_id = format!("plain {} {} {} {}", rows_sx(&c.rows), base, order_sql, c.index.is_some());
    let mut cx = Ctx { rep, script, kind: "plain" };

    // engine rows that enter the sort (WHERE is not the property here)
    let input = db.query(&format!("SELECT * FROM t{}", w));
    let input_rows = match input.rows() {
        Some(r) => r.clone(),
        None => {
            cx.rep.count("input_query_failed");
            cx.rep.case(&case_id, false);
            return;
        }
    };
    let probe = db.query(&format!("{} {}", base, order_sql));
    let len = probe.rows().map(|r| r.len()).unwrap_or(0);
    let quick_los = if c.rows.len() > 1000 { 3 } else { 7 };
    let los = lo_set(rng, len, quick_los);
    let res = check_ordered(&mut db, &base, &order_sql, &ks, &los, &mut cx, "no index");
    let mut nontrivial = false;
    if let Some((_, fr)) = &res {
        let k = key_strings(fr, &ks);
        let mut d = k.clone();
        d.sort();
        d.dedup();
        nontrivial = d.len() >= 2;
        if d.len() < k.len() {
            cx.rep.count("cases_with_ties");
        }
        if k.iter().any(|s| s.split(' ').any(|p| p == "N")) {
            cx.rep.count("cases_with_null_keys");
        }
        // correspondence with the model
        if c.rows.len() <= 200 {
            let unique = d.len() == k.len();
            let sel_sx: Vec<String> = c
                .sel
                .iter()
                .map(|(e, a)| format!("({} {})", e.sx(), a.as_ref().map(|a| sx::hex_str(a)).unwrap_or("-".into())))
                .chain(resolved.iter().map(|e| format!("({} -)", e.sx())))
                .collect();
            let ord_sx: Vec<String> = c
                .order
                .iter()
                .map(|(k, d)| {
                    let e = match k {
                        OrdKind::Pos(i) => format!("(pos {})", i + 1),
                        OrdKind::Alias(a) => format!("(name {})", sx::hex_str(a)),
                        OrdKind::Col(i) => format!("(name {})", sx::hex_str(&names[*i])),
                        OrdKind::Expr(e) => format!("(expr {})", e.sx()),
                    };
                    format!("({} {})", e, if *d { "desc" } else { "asc" })
                })
                .collect();
            let cols_sx: Vec<String> = names.iter().map(|n| sx::hex_str(n)).collect();
            let mut variants: Vec<(Option<usize>, Option<usize>)> = vec![(None, None)];
            variants.extend(los.iter().take(2).cloned());
            for l in variants {
                let req = format!(
                    "plain (cols {}) (rows {}) (sel {}) (order {}) {} {} {}",
                    cols_sx.join(" "),
                    rows_sx_vals(&input_rows),
                    sel_sx.join(" "),
                    ord_sx.join(" "),
                    if c.distinct { 1 } else { 0 },
                    l.0.map(|n| n.to_string()).unwrap_or("-".into()),
                    l.1.map(|n| n.to_string()).unwrap_or("-".into())
                );
                let reply = model.ask(&req);
                let eng = db.query(&format!("{} {}{}", base, order_sql, lo_sql(&l)));
                if let Some(er) = eng.rows() {
                    compare_model(&reply, er, &ks, unique, &mut cx, &format!("limit {:?} offset {:?}", l.0, l.1), &req);
                }
            }
        }
    }
    // the same with an index that can provide the order / serve the WHERE
    if let (Some(ix), Some((ur0, _))) = (&c.index, &res) {
        let cols: Vec<String> = ix.iter().map(|(i, d)| format!("{}{}", names[*i], if *d { " DESC" } else { " ASC" })).collect();
        let ci = format!("CREATE INDEX ix ON t ({})", cols.join(", "));
        let o = db.exec(&ci);
        if o.is_ok() {
            cx.script.push_str(&format!("{};\n", ci));
            cx.rep.count("cases_with_index");
            if let Some((ur1, _)) = check_ordered(&mut db, &base, &order_sql, &ks, &los, &mut cx, "with index") {
                if bag(&ur1) != bag(ur0) {
                    cx.rep.fail(FailKind::Oracle, None, "plain: result multiset changes when an index is created", &format!("{}-- query: {}", cx.script, base));
                }
            }
        } else {
            cx.rep.count("create_index_rejected");
        }
    }
    cx.rep.count(&format!("plain_size_{}", match c.rows.len() { 0 => "0", 1 => "1", 2..=12 => "2-12", 13..=999 => "100-130", _ => ">=2600" }));
    for (k, d) in &c.order {
        cx.rep.count(&format!("order_item_{}_{}", match k { OrdKind::Pos(_) => "position", OrdKind::Alias(_) => "alias", OrdKind::Col(_) => "column", OrdKind::Expr(_) => "expression" }, if *d { "desc" } else { "asc" }));
    }
    if c.distinct {
        cx.rep.count("plain_distinct");
    }
    cx.rep.case(&case_id, nontrivial);
}

// ---------------------------------------------------------------------------------------------
// aggregate and set-operation queries: keys are output columns
// ---------------------------------------------------------------------------------------------

fn run_result_query(db: &mut Db, base: &str, ncols: usize, names: &[Option<String>], model: &mut model::Model, rep: &mut Report, rng: &mut Rng, kind: &'static str, script: &str, distinct_in_model: bool) {
    // ORDER BY items: position or output column name
    let nord = rng.range(1, 2.min(ncols as i64).max(1)) as usize + if ncols > 1 && rng.chance(1, 3) { 1 } else { 0 };
    let mut ks = vec![];
    let mut items = vec![];
    for _ in 0..nord.min(3) {
        let i = rng.below(ncols as u64) as usize;
        let desc = rng.chance(1, 2);
        let text = match (&names[i], rng.chance(1, 2)) {
            (Some(n), true) => n.clone(),
            _ => (i + 1).to_string(),
        };
        items.push(format!("{}{}", text, if desc { " DESC" } else { "" }));
        ks.push(KeySpec { idx: i, desc });
        rep.count(&format!("{}_order_{}", kind, if desc { "desc" } else { "asc" }));
    }
    let order_sql = format!("ORDER BY {}", items.join(", "));
    let probe = db.query(base);
    let len = probe.rows().map(|r| r.len()).unwrap_or(0);
    let los = lo_set(rng, len, 6);
    let mut cx = Ctx { rep, script: script.to_string(), kind };
    let case_id = format!("{} {} {} {}", kind, script, base, order_sql);
    let res = check_ordered(db, base, &order_sql, &ks, &los, &mut cx, "-");
    let mut nontrivial = false;
    if let Some((ur, fr)) = &res {
        let k = key_strings(fr, &ks);
        let mut d = k.clone();
        d.sort();
        d.dedup();
        nontrivial = d.len() >= 2;
        if d.len() < k.len() {
            cx.rep.count("cases_with_ties");
        }
        if k.iter().any(|s| s.split(' ').any(|p| p == "N")) {
            cx.rep.count("cases_with_null_keys");
        }
        let unique = d.len() == k.len();
        let ord_sx: Vec<String> = ks.iter().map(|k| format!("({} {})", k.idx, if k.desc { "desc" } else { "asc" })).collect();
        let mut variants: Vec<(Option<usize>, Option<usize>)> = vec![(None, None)];
        variants.extend(los.iter().take(2).cloned());
        for l in variants {
            let req = format!(
                "result (rows {}) (order {}) {} {} {}",
                rows_sx_vals(ur),
                ord_sx.join(" "),
                if distinct_in_model { 1 } else { 0 },
                l.0.map(|n| n.to_string()).unwrap_or("-".into()),
                l.1.map(|n| n.to_string()).unwrap_or("-".into())
            );
            let reply = model.ask(&req);
            let eng = db.query(&format!("{} {}{}", base, order_sql, lo_sql(&l)));
            if let Some(er) = eng.rows() {
                compare_model(&reply, er, &ks, unique, &mut cx, &format!("limit {:?} offset {:?}", l.0, l.1), &req);
            }
        }
    }
    cx.rep.case(&case_id, nontrivial);
}

fn two_tables(r: &mut Rng, db: &mut Db, n: usize) -> String {
    let mut script = String::new();
    for t in ["t", "u"] {
        let schema = Schema { table: t.into(), cols: vec![("a".into(), Ty::Int), ("b".into(), Ty::Int), ("s".into(), Ty::Str)] };
        let rows = gen_rows(r, &schema, if t == "t" { n } else { (n * 2) / 3 + 1 });
        load(db, &schema, &rows);
    }
    for l in &db.log {
        script.push_str(l);
        script.push_str(";\n");
    }
    script
}

fn run_aggregate(model: &mut model::Model, rep: &mut Report, rng: &mut Rng, n: usize) {
    let mut db = Db::new();
    let script = two_tables(rng, &mut db, n);
    db.keep_log = false;
    let forms: [(&str, usize, Vec<Option<String>>); 4] = [
        ("SELECT a, COUNT(*) AS c, SUM(b) AS sb FROM t GROUP BY a", 3, vec![Some("a".into()), Some("c".into()), Some("sb".into())]),
        ("SELECT s, a, MIN(b) AS mb FROM t GROUP BY s, a", 3, vec![Some("s".into()), Some("a".into()), Some("mb".into())]),
        ("SELECT b, COUNT(a) AS ca, MAX(s) AS ms FROM t WHERE a >= 0 GROUP BY b HAVING COUNT(*) >= 1", 3, vec![Some("b".into()), Some("ca".into()), Some("ms".into())]),
        ("SELECT DISTINCT a, b FROM t", 2, vec![Some("a".into()), Some("b".into())]),
    ];
    let (base, ncols, names) = &forms[rng.below(forms.len() as u64) as usize];
    rep.count(if base.contains("DISTINCT") { "form_distinct_order" } else { "form_group_by" });
    run_result_query(&mut db, base, *ncols, names, model, rep, rng, if base.contains("DISTINCT") { "distinct" } else { "aggregate" }, &script, false);
}

fn run_setop(model: &mut model::Model, rep: &mut Report, rng: &mut Rng, n: usize) {
    let mut db = Db::new();
    let script = two_tables(rng, &mut db, n);
    db.keep_log = false;
    let op = *rng.pick(&["UNION", "UNION ALL", "INTERSECT", "INTERSECT ALL", "EXCEPT", "EXCEPT ALL"]);
    rep.count(&format!("setop_{}", op.replace(' ', "_")));
    let (base, ncols, names): (String, usize, Vec<Option<String>>) = match rng.below(4) {
        0 => (format!("SELECT a FROM t {} SELECT b FROM u", op), 1, vec![Some("a".into())]),
        1 => (format!("SELECT a, s FROM t {} SELECT b, s FROM u", op), 2, vec![Some("a".into()), Some("s".into())]),
        2 => (format!("SELECT a AS k, b FROM t {} SELECT a, b FROM u WHERE a >= 0", op), 2, vec![Some("k".into()), Some("b".into())]),
        _ => (format!("SELECT * FROM t {} SELECT * FROM u", op), 3, vec![Some("a".into()), Some("b".into()), Some("s".into())]),
    };
    run_result_query(&mut db, &base, ncols, &names, model, rep, rng, "setop", &script, false);
}

/// DISTINCT without ORDER BY: each distinct row once, same set of rows
fn run_distinct(model: &mut model::Model, rep: &mut Report, rng: &mut Rng, n: usize) {
    let mut db = Db::new();
    let script = two_tables(rng, &mut db, n);
    db.keep_log = false;
    let sel = *rng.pick(&["a", "a, b", "s", "b, s", "a, b, s", "a + b, s"]);
    let all = db.query(&format!("SELECT {} FROM t", sel));
    let dis = db.query(&format!("SELECT DISTINCT {} FROM t", sel));
    let case_id = format!("distinct {} {}", script, sel);
    match (all.rows(), dis.rows()) {
        (Some(a), Some(d)) => {
            let ab = bag(a);
            let dbg = bag(d);
            let ok = dbg.values().all(|v| *v == 1) && ab.keys().collect::<Vec<_>>() == dbg.keys().collect::<Vec<_>>();
            if !ok {
                rep.fail(FailKind::Oracle, None, "DISTINCT does not return each distinct row exactly once", &format!("{}-- SELECT [DISTINCT] {} FROM t\nall: {}\ndistinct: {}", script, sel, all.brief(), dis.brief()));
            }
            // model: applyDistinct on the engine's non-distinct rows
            let req = format!("result (rows {}) (order) 1 - -", rows_sx_vals(a));
            let reply = model.ask(&req);
            rep.traces_validated += 1;
            match parse_model_rows(&reply) {
                Some(mut mr) => {
                    let mut er: Vec<String> = d.iter().map(|r| canon::row(r)).collect();
                    mr.sort();
                    er.sort();
                    if mr != er {
                        rep.fail(FailKind::ModelDiff, None, "DISTINCT: model and engine return different sets of rows", &format!("{}-- model request: {}\nmodel: {}\nengine: {}", script, req, reply, dis.brief()));
                    }
                }
                None => rep.fail(FailKind::ModelDiff, None, "DISTINCT: model rejects the request", &format!("{}-- model request: {}\nmodel: {}", script, req, reply)),
            }
            rep.count("distinct_without_order");
            rep.case(&case_id, ab.len() >= 2 && a.len() > ab.len());
        }
        _ => {
            rep.count("distinct_query_failed");
            rep.case(&case_id, false);
        }
    }
}

// ---------------------------------------------------------------------------------------------
// deterministic probes: boundary shapes and the defects repaired for this property
// ---------------------------------------------------------------------------------------------

struct Probe {
    name: &'static str,
    setup: &'static [&'static str],
    base: &'static str,
    order: &'static str,
    keys: &'static [(usize, bool)],
}

const PROBES: &[Probe] = &[
    Probe {
        name: "index on nullable column, ORDER BY ASC (37985c9a)",
        setup: &["CREATE TABLE t (a INTEGER, b INTEGER)", "INSERT INTO t VALUES (3, 1), (NULL, 2), (1, 3), (2, 4), (1, NULL), (NULL, NULL)", "CREATE INDEX ia ON t (a)"],
        base: "SELECT a, b FROM t",
        order: "ORDER BY a",
        keys: &[(0, false)],
    },
    Probe {
        name: "index on nullable column, ORDER BY DESC",
        setup: &["CREATE TABLE t (a INTEGER, b INTEGER)", "INSERT INTO t VALUES (3, 1), (NULL, 2), (1, 3), (2, 4), (1, NULL), (NULL, NULL)", "CREATE INDEX ia ON t (a DESC)"],
        base: "SELECT a, b FROM t",
        order: "ORDER BY a DESC",
        keys: &[(0, true)],
    },
    Probe {
        name: "index (a ASC, b DESC), ORDER BY a ASC, b DESC (37985c9a)",
        setup: &["CREATE TABLE t (a INTEGER NOT NULL, b INTEGER NOT NULL)", "INSERT INTO t VALUES (1, 1), (1, 2), (2, 1), (2, 2), (1, 3)", "CREATE INDEX iab ON t (a ASC, b DESC)"],
        base: "SELECT a, b FROM t",
        order: "ORDER BY a ASC, b DESC",
        keys: &[(0, false), (1, true)],
    },
    Probe {
        name: "index order used: NOT NULL column ASC",
        setup: &["CREATE TABLE t (a INTEGER NOT NULL, b INTEGER)", "INSERT INTO t VALUES (3, 1), (1, 2), (2, 3), (1, 4), (5, NULL)", "CREATE INDEX ia ON t (a)"],
        base: "SELECT a, b FROM t",
        order: "ORDER BY a",
        keys: &[(0, false)],
    },
    Probe {
        name: "index order + WHERE on the same column + LIMIT",
        setup: &["CREATE TABLE t (a INTEGER NOT NULL, b INTEGER)", "INSERT INTO t VALUES (3, 1), (1, 2), (2, 3), (1, 4), (5, NULL), (4, 4)", "CREATE INDEX ia ON t (a DESC)"],
        base: "SELECT a, b FROM t WHERE a >= 2",
        order: "ORDER BY a DESC",
        keys: &[(0, true)],
    },
    Probe {
        name: "two-column DESC index order",
        setup: &["CREATE TABLE t (a INTEGER, b INTEGER)", "INSERT INTO t VALUES (1, 1), (1, 2), (2, 1), (2, 2), (1, NULL), (NULL, 1), (NULL, NULL)", "CREATE INDEX iab ON t (a DESC, b DESC)"],
        base: "SELECT a, b FROM t",
        order: "ORDER BY a DESC, b DESC",
        keys: &[(0, true), (1, true)],
    },
    Probe {
        name: "GROUP BY … ORDER BY key DESC with a NULL group (ed283a47)",
        setup: &["CREATE TABLE t0 (a INTEGER, b VARCHAR(20))", "INSERT INTO t0 VALUES (1, NULL), (1, 'ab'), (2, 'ab'), (NULL, 'c')"],
        base: "SELECT a, b, COUNT(*) FROM t0 GROUP BY a, b",
        order: "ORDER BY b DESC, a DESC",
        keys: &[(1, true), (0, true)],
    },
    Probe {
        name: "GROUP BY … ORDER BY positions (ed283a47)",
        setup: &["CREATE TABLE t (a INTEGER, b INTEGER)", "INSERT INTO t VALUES (3, 1), (NULL, 2), (1, 3), (2, 4), (1, NULL), (NULL, NULL)"],
        base: "SELECT a, COUNT(*) AS c FROM t GROUP BY a",
        order: "ORDER BY 2 DESC, 1",
        keys: &[(1, true), (0, false)],
    },
    Probe {
        name: "UNION ALL … ORDER BY (1e0426f4)",
        setup: &["CREATE TABLE t (a INTEGER, b INTEGER)", "INSERT INTO t VALUES (3, 1), (NULL, 2), (1, 3), (2, 4), (1, NULL), (NULL, NULL)"],
        base: "SELECT a FROM t UNION ALL SELECT b FROM t",
        order: "ORDER BY a DESC",
        keys: &[(0, true)],
    },
    Probe {
        name: "UNION of wildcards … ORDER BY 2, 1",
        setup: &["CREATE TABLE t (a INTEGER, b INTEGER)", "INSERT INTO t VALUES (3, 1), (NULL, 2), (1, 3), (2, 4), (1, NULL), (NULL, NULL)"],
        base: "SELECT * FROM t UNION SELECT b, a FROM t",
        order: "ORDER BY 2, 1",
        keys: &[(1, false), (0, false)],
    },
    Probe {
        name: "alias shadows a column name",
        setup: &["CREATE TABLE t (a INTEGER, b INTEGER)", "INSERT INTO t VALUES (3, 1), (NULL, 2), (1, 3), (2, 4), (1, NULL)"],
        base: "SELECT b AS a, b FROM t",
        order: "ORDER BY a",
        keys: &[(1, false)],
    },
    Probe {
        name: "string keys, DESC, empty string and NULL",
        setup: &["CREATE TABLE t (s VARCHAR(10), n INTEGER)", "INSERT INTO t VALUES ('b', 1), ('', 2), (NULL, 3), ('ab', 4), ('B', 5), ('a', 6)"],
        base: "SELECT s, n FROM t",
        order: "ORDER BY s DESC",
        keys: &[(0, true)],
    },
    Probe {
        name: "unsorted IN list with duplicates, ORDER BY served by ASC index on NOT NULL column",
        setup: &["CREATE TABLE t (k INTEGER NOT NULL, v INTEGER)", "INSERT INTO t VALUES (3, 1), (1, 2), (4, 3), (2, 4), (2, 5), (5, 6), (1, 7), (6, 8)", "CREATE INDEX ik ON t (k)"],
        base: "SELECT k, v FROM t WHERE k IN (4, 1, 3, 2, 2)",
        order: "ORDER BY k",
        keys: &[(0, false)],
    },
    Probe {
        name: "unsorted IN list with duplicates, ORDER BY DESC served by (k DESC) index",
        setup: &["CREATE TABLE t (k INTEGER, v INTEGER)", "INSERT INTO t VALUES (3, 1), (1, 2), (4, 3), (2, 4), (2, 5), (5, 6), (1, 7), (NULL, 8)", "CREATE INDEX ik ON t (k DESC)"],
        base: "SELECT k, v FROM t WHERE k IN (4, 1, 3, 2, 2)",
        order: "ORDER BY k DESC",
        keys: &[(0, true)],
    },
    Probe {
        name: "unsorted IN list AND another predicate, index-served ORDER BY",
        setup: &["CREATE TABLE t (k INTEGER NOT NULL, v INTEGER)", "INSERT INTO t VALUES (3, 1), (1, 2), (4, 3), (2, 4), (2, 5), (5, 6), (1, 7), (6, 8)", "CREATE INDEX ik ON t (k)"],
        base: "SELECT k, v FROM t WHERE k IN (5, 2, 4, 1, 1) AND v >= 3",
        order: "ORDER BY k",
        keys: &[(0, false)],
    },
    Probe {
        name: "descending IN list, string keys, index-served ORDER BY DESC",
        setup: &["CREATE TABLE t (k VARCHAR(10) NOT NULL, v INTEGER)", "INSERT INTO t VALUES ('b', 1), ('a', 2), ('d', 3), ('c', 4), ('c', 5), ('e', 6)", "CREATE INDEX ik ON t (k DESC)"],
        base: "SELECT k, v FROM t WHERE k IN ('d', 'c', 'a', 'c') AND v < 6",
        order: "ORDER BY k DESC",
        keys: &[(0, true)],
    },
    Probe {
        name: "TIME keys differing only below the second, sort path",
        setup: &["CREATE TABLE t (k TIME, v INTEGER)", "INSERT INTO t VALUES (TIME '10:00:00.900', 1), (TIME '10:00:00.100', 2), (TIME '10:00:00.100000001', 3), (TIME '10:00:00.100001', 4), (TIME '10:00:00', 5), (NULL, 6), (TIME '10:00:00.101', 7)"],
        base: "SELECT k, v FROM t",
        order: "ORDER BY k",
        keys: &[(0, false)],
    },
    Probe {
        name: "TIMESTAMP keys differing only below the second, DESC, second key position",
        setup: &["CREATE TABLE t (k TIMESTAMP, v INTEGER)", "INSERT INTO t VALUES (TIMESTAMP '2024-03-01 10:00:00.100', 1), (TIMESTAMP '2024-03-01 10:00:00.900', 1), (TIMESTAMP '2024-03-01 10:00:00.100000001', 1), (TIMESTAMP '2024-03-01 10:00:00.100001', 2), (TIMESTAMP '2024-03-01 10:00:00', 2), (TIMESTAMP '2024-03-01 10:00:00.5', 2)"],
        base: "SELECT k, v FROM t",
        order: "ORDER BY v, k DESC",
        keys: &[(1, false), (0, true)],
    },
    Probe {
        name: "TIMESTAMP NOT NULL with ASC index (index-order path), sub-second differences",
        setup: &["CREATE TABLE t (k TIMESTAMP NOT NULL, v INTEGER)", "INSERT INTO t VALUES (TIMESTAMP '2024-03-01 10:00:00.900', 1), (TIMESTAMP '2024-03-01 10:00:00.100', 2), (TIMESTAMP '2024-03-01 10:00:00.100000001', 3), (TIMESTAMP '2024-03-01 10:00:00.100001', 4), (TIMESTAMP '2024-03-01 09:59:59.999999999', 5)", "CREATE INDEX ik ON t (k)"],
        base: "SELECT k, v FROM t",
        order: "ORDER BY k",
        keys: &[(0, false)],
    },
    Probe {
        name: "TIME with (k DESC) index, ORDER BY k DESC",
        setup: &["CREATE TABLE t (k TIME, v INTEGER)", "INSERT INTO t VALUES (TIME '10:00:00.100', 1), (TIME '10:00:00.900', 2), (TIME '10:00:00.100000001', 3), (NULL, 4), (TIME '10:00:00.5', 5)", "CREATE INDEX ik ON t (k DESC)"],
        base: "SELECT k, v FROM t",
        order: "ORDER BY k DESC",
        keys: &[(0, true)],
    },
    Probe {
        name: "NUMERIC / DOUBLE keys with tiny differences and -0.0",
        setup: &["CREATE TABLE t (k NUMERIC(20, 10), f DOUBLE)", "INSERT INTO t VALUES (1.0000000002, 1.0000000000000002), (1.0000000001, 1.0), (1.0000000003, -0.0), (0.9999999999, 0.0), (-1.0000000001, 1.0e-300), (NULL, 1.5e-300)"],
        base: "SELECT k, f FROM t",
        order: "ORDER BY f DESC, k",
        keys: &[(1, true), (0, false)],
    },
    Probe { name: "empty table", setup: &["CREATE TABLE t (a INTEGER, b INTEGER)"], base: "SELECT a, b FROM t", order: "ORDER BY a, b DESC", keys: &[(0, false), (1, true)] },
];

fn run_probes(rep: &mut Report) {
    for p in PROBES {
        let mut db = Db::new();
        let mut script = String::new();
        for s in p.setup {
            db.must(s);
            script.push_str(&format!("{};\n", s));
        }
        // C08_SELFTEST=1 checks the checker: with every direction inverted the oracle must object
        let flip = std::env::var("C08_SELFTEST").is_ok();
        let ks: Vec<KeySpec> = p.keys.iter().map(|(i, d)| KeySpec { idx: *i, desc: *d != flip }).collect();
        let len = db.query(p.base).rows().map(|r| r.len()).unwrap_or(0);
        let mut los = vec![];
        for n in [0usize, 1, len.saturating_sub(1), len, len + 1, 1_000_000] {
            for m in [0usize, 1, len.saturating_sub(1), len, len + 1] {
                los.push((Some(n), Some(m)));
            }
        }
        los.push((None, Some(2)));
        los.push((Some(2), None));
        let mut cx = Ctx { rep, script, kind: "probe" };
        let r = check_ordered(&mut db, p.base, p.order, &ks, &los, &mut cx, p.name);
        let nontrivial = r.map(|(_, f)| f.len() >= 2).unwrap_or(false);
        cx.rep.count("deterministic_probes");
        cx.rep.case(&format!("probe {}", p.name), nontrivial);
    }
}

/// generated: unsorted IN list (duplicates, values absent from the table) on a single-column index
/// that also serves the ORDER BY; same query on a twin table without the index
fn run_in_order(rep: &mut Report, rng: &mut Rng) {
    let desc = rng.chance(1, 2);
    let not_null = !desc || rng.chance(1, 2);
    let n = *rng.pick(&[0usize, 1, 6, 12, 30, 110]);
    let create = format!("CREATE TABLE t (k INTEGER{}, v INTEGER)", if not_null { " NOT NULL" } else { "" });
    let mut vals = vec![];
    for _ in 0..n {
        let k = if !not_null && rng.chance(1, 6) { "NULL".to_string() } else { rng.range(-3, 9).to_string() };
        vals.push(format!("({}, {})", k, rng.range(0, 5)));
    }
    let mut list: Vec<String> = (0..rng.range(2, 7)).map(|_| rng.range(-3, 10).to_string()).collect();
    if rng.chance(1, 2) && list.len() > 1 {
        let d = list[0].clone();
        list.push(d);
    }
    if rng.chance(1, 4) {
        list.push(if rng.chance(1, 2) { "2.0".into() } else { "7".into() });
    }
    let extra = if rng.chance(1, 3) { format!(" AND v >= {}", rng.range(0, 3)) } else { String::new() };
    let base = format!("SELECT k, v FROM t WHERE k IN ({}){}", list.join(", "), extra);
    let order = format!("ORDER BY k{}", if desc { " DESC" } else { "" });
    let index = format!("CREATE INDEX ik ON t (k{})", if desc { " DESC" } else { "" });
    let mut script = format!("{};\n", create);
    let mut dbs = [Db::new(), Db::new()];
    for (i, db) in dbs.iter_mut().enumerate() {
        db.keep_log = false;
        db.must(&create);
        if !vals.is_empty() {
            db.must(&format!("INSERT INTO t VALUES {}", vals.join(", ")));
        }
        if i == 1 {
            db.must(&index);
        }
    }
    if !vals.is_empty() {
        script.push_str(&format!("INSERT INTO t VALUES {};\n", vals.join(", ")));
    }
    let ks = [KeySpec { idx: 0, desc }];
    let len = dbs[0].query(&base).rows().map(|r| r.len()).unwrap_or(0);
    let los = lo_set(rng, len, 5);
    let case_id = format!("in-order {} {} {} {}", script, base, order, index);
    let mut cx = Ctx { rep, script: script.clone(), kind: "in-list" };
    let plain = check_ordered(&mut dbs[0], &base, &order, &ks, &los, &mut cx, "no index");
    cx.script.push_str(&format!("{};\n", index));
    let indexed = check_ordered(&mut dbs[1], &base, &order, &ks, &los, &mut cx, "with index");
    let mut nontrivial = false;
    if let (Some((_, fp)), Some((_, fi))) = (&plain, &indexed) {
        nontrivial = fp.len() >= 2;
        if key_strings(fp, &ks) != key_strings(fi, &ks) || bag(fp) != bag(fi) {
            cx.rep.fail(FailKind::Oracle, None, "in-list: ordered result differs with and without the index", &format!("{}-- query: {} {}\nwithout: {}\nwith:    {}", cx.script, base, order, rows_sx_vals(fp), rows_sx_vals(fi)));
        }
    }
    cx.rep.count(&format!("in_list_order_{}", if desc { "desc" } else { "asc" }));
    cx.rep.case(&case_id, nontrivial);
}

/// sort keys of every orderable column type the engine stores; neighbouring values differ only in
/// the least significant component
const TYPED: &[(&str, &str, &[&str])] = &[
    ("TIME", "TIME", &["TIME '10:00:00.900'", "TIME '10:00:00.100'", "TIME '10:00:00.100000001'", "TIME '10:00:00.100001'", "TIME '10:00:00.101'", "TIME '10:00:00'", "TIME '10:00:01'", "TIME '09:59:59.999999999'"]),
    ("TIMESTAMP", "TIMESTAMP", &["TIMESTAMP '2024-03-01 10:00:00.900'", "TIMESTAMP '2024-03-01 10:00:00.100'", "TIMESTAMP '2024-03-01 10:00:00.100000001'", "TIMESTAMP '2024-03-01 10:00:00.100001'", "TIMESTAMP '2024-03-01 10:00:00.101'", "TIMESTAMP '2024-03-01 10:00:00'", "TIMESTAMP '2024-02-29 23:59:59.999999999'", "TIMESTAMP '2024-03-01 10:00:01'"]),
    ("DATE", "DATE", &["DATE '2024-03-01'", "DATE '2024-02-29'", "DATE '2024-03-02'", "DATE '2023-12-31'", "DATE '2024-01-01'", "DATE '2024-02-28'"]),
    ("NUMERIC", "NUMERIC(20, 10)", &["1.0000000002", "1.0000000001", "1.0000000003", "0.9999999999", "-1.0000000001", "0", "-1.0000000002"]),
    ("DOUBLE", "DOUBLE", &["1.5e-300", "-0.0", "0.0", "1.0e-300", "1.0000000000000002", "1.0", "-1.0000000000000002", "-1.0"]),
    ("BOOLEAN", "BOOLEAN", &["TRUE", "FALSE"]),
    ("CHAR", "CHAR(5)", &["'abc'", "'abd'", "'ab'", "'aB'", "'ab  a'", "'a'", "'ab '"]),
    ("VARCHAR", "VARCHAR(20)", &["'é'", "'e'", "'E'", "'z'", "'Z'", "'ée'", "'éd'", "'日本'", "'日'", "'a'", "'ab'", "'ab '"]),
    ("BIGINT", "BIGINT", &["9223372036854775807", "9223372036854775806", "-9223372036854775807", "-9223372036854775806", "0", "1", "-1"]),
    ("SMALLINT", "SMALLINT", &["32767", "32766", "-32768", "-32767", "0", "1"]),
];

/// ORDER BY over a typed key column `k` (alone, first, second or last of a multi-key list), with and
/// without an index that can provide the order, LIMIT/OFFSET included
fn run_typed(rep: &mut Report, rng: &mut Rng, which: usize) {
    let (tname, decl, pool) = TYPED[which % TYPED.len()];
    let not_null = rng.chance(1, 2);
    let n = *rng.pick(&[2usize, 3, 5, 8, 12]);
    let mut vals: Vec<String> = vec![];
    for i in 0..n {
        let k = if !not_null && rng.chance(1, 7) { "NULL".to_string() } else { (*rng.pick(pool)).to_string() };
        vals.push(format!("({}, {}, {})", k, rng.range(0, 2), i));
    }
    let create = format!("CREATE TABLE t (k {}{}, j INTEGER NOT NULL, id INTEGER NOT NULL)", decl, if not_null { " NOT NULL" } else { "" });
    // key lists with k in every position
    let uniform = rng.chance(1, 2);
    let d0 = rng.chance(1, 2);
    let mut dir = |rng: &mut Rng| if uniform { d0 } else { rng.chance(1, 2) };
    let shape: Vec<(&str, usize, bool)> = match rng.below(5) {
        0 | 1 => vec![("k", 0, dir(rng))],
        2 => vec![("k", 0, dir(rng)), ("j", 1, dir(rng))],
        3 => vec![("j", 1, dir(rng)), ("k", 0, dir(rng))],
        _ => vec![("j", 1, dir(rng)), ("k", 0, dir(rng)), ("id", 2, dir(rng))],
    };
    let order = format!("ORDER BY {}", shape.iter().map(|(c, _, d)| format!("{}{}", c, if *d { " DESC" } else { "" })).collect::<Vec<_>>().join(", "));
    let ks: Vec<KeySpec> = shape.iter().map(|(_, i, d)| KeySpec { idx: *i, desc: *d }).collect();
    let index = format!("CREATE INDEX ik ON t ({})", shape.iter().map(|(c, _, d)| format!("{}{}", c, if *d { " DESC" } else { " ASC" })).collect::<Vec<_>>().join(", "));
    let base = "SELECT k, j, id FROM t";
    let insert = format!("INSERT INTO t VALUES {}", vals.join(", "));
    let mut dbs = [Db::new(), Db::new()];
    for (i, db) in dbs.iter_mut().enumerate() {
        db.keep_log = false;
        if !db.exec(&create).is_ok() || !db.exec(&insert).is_ok() {
            rep.count(&format!("typed_setup_rejected_{}", tname));
            rep.case(&format!("typed {} {}", create, insert), false);
            return;
        }
        if i == 1 && !db.exec(&index).is_ok() {
            rep.count("typed_index_rejected");
        }
    }
    let script = format!("{};\n{};\n", create, insert);
    let los = lo_set(rng, n, 5);
    let mut cx = Ctx { rep, script: script.clone(), kind: "typed-key" };
    let a = check_ordered(&mut dbs[0], base, &order, &ks, &los, &mut cx, &format!("{} no index", tname));
    cx.script.push_str(&format!("{};\n", index));
    let b = check_ordered(&mut dbs[1], base, &order, &ks, &los, &mut cx, &format!("{} with index", tname));
    let mut nontrivial = false;
    if let (Some((_, fa)), Some((_, fb))) = (&a, &b) {
        let k = key_strings(fa, &ks);
        let mut d = k.clone();
        d.sort();
        d.dedup();
        nontrivial = d.len() >= 2;
        if k != key_strings(fb, &ks) || bag(fa) != bag(fb) {
            cx.rep.fail(FailKind::Oracle, None, &format!("typed-key: ordered result differs with and without the index [{}]", tname), &format!("{}-- query: {} {}\nwithout: {}\nwith:    {}", cx.script, base, order, rows_sx_vals(fa), rows_sx_vals(fb)));
        }
    }
    cx.rep.count(&format!("typed_key_{}", tname));
    cx.rep.case(&format!("typed {} {} {}", script, order, index), nontrivial);
}

// ---------------------------------------------------------------------------------------------
// the slice law in every position a query block can occur
// ---------------------------------------------------------------------------------------------

fn opt_sql(v: &Option<i64>) -> String {
    v.map(|x| x.to_string()).unwrap_or("NULL".into())
}

fn opt_canon(v: &Option<i64>) -> String {
    v.map(|x| format!("I{}", x)).unwrap_or("N".into())
}

/// reference: sort (NULLs last in both directions), optional DISTINCT, slice [m, m+n)
fn ref_slice(vals: &[Option<i64>], desc: bool, distinct: bool, n: Option<usize>, m: Option<usize>) -> Vec<Option<i64>> {
    let mut v: Vec<Option<i64>> = vals.to_vec();
    v.sort_by(|a, b| match (a, b) {
        (None, None) => std::cmp::Ordering::Equal,
        (None, _) => std::cmp::Ordering::Greater,
        (_, None) => std::cmp::Ordering::Less,
        (Some(x), Some(y)) => if desc { y.cmp(x) } else { x.cmp(y) },
    });
    if distinct {
        v.dedup();
    }
    let start = m.unwrap_or(0).min(v.len());
    let end = match n {
        Some(n) => (start + n).min(v.len()),
        None => v.len(),
    };
    v[start..end].to_vec()
}

fn bag_of(vals: impl Iterator<Item = String>) -> BTreeMap<String, i64> {
    let mut m = BTreeMap::new();
    for v in vals {
        *m.entry(v).or_insert(0) += 1;
    }
    m
}

/// ORDER BY … LIMIT/OFFSET inside IN / NOT IN / EXISTS / scalar subqueries, derived tables, CTEs,
/// views, operands of set operations and INSERT … SELECT: the block must denote the slice [m, m+n)
/// of its sorted rows (after DISTINCT), whatever surrounds it
#[allow(clippy::too_many_arguments)]
fn nested_slice_case(rep: &mut Report, model: &mut model::Model, t1: &[Option<i64>], t2: &[Option<i64>], desc: bool, distinct: bool, n: Option<usize>, m: Option<usize>) {
    let mut db = Db::new();
    db.keep_log = false;
    db.must("CREATE TABLE t1 (a INTEGER, v INTEGER)");
    db.must("CREATE TABLE t2 (b INTEGER, w INTEGER)");
    db.must("CREATE TABLE t3 (c INTEGER)");
    let mut script = String::from("CREATE TABLE t1 (a INTEGER, v INTEGER);\nCREATE TABLE t2 (b INTEGER, w INTEGER);\nCREATE TABLE t3 (c INTEGER);\n");
    for (name, vals) in [("t1", t1), ("t2", t2)] {
        if !vals.is_empty() {
            let ins = format!("INSERT INTO {} VALUES {}", name, vals.iter().enumerate().map(|(i, v)| format!("({}, {})", opt_sql(v), i)).collect::<Vec<_>>().join(", "));
            db.must(&ins);
            script.push_str(&format!("{};\n", ins));
        }
    }
    let tail = format!("{}{}", n.map(|n| format!(" LIMIT {}", n)).unwrap_or_default(), m.map(|m| format!(" OFFSET {}", m)).unwrap_or_default());
    let dir = if desc { " DESC" } else { "" };
    let dis = if distinct { "DISTINCT " } else { "" };
    let sub = format!("SELECT {}b FROM t2 ORDER BY b{}{}", dis, dir, tail);
    let s = ref_slice(t2, desc, distinct, n, m);
    // the model's slice (runOnResult: sort → DISTINCT → LIMIT/OFFSET) must be the same sequence
    let req = format!(
        "result (rows ({})) (order (0 {})) {} {} {}",
        t2.iter().map(|v| format!("({})", opt_canon(v))).collect::<Vec<_>>().join(" "),
        if desc { "desc" } else { "asc" },
        distinct as u8,
        n.map(|x| x.to_string()).unwrap_or("-".into()),
        m.map(|x| x.to_string()).unwrap_or("-".into())
    );
    let reply = model.ask(&req);
    rep.traces_validated += 1;
    let want = format!("(rows ({}))", s.iter().map(|v| format!("({})", opt_canon(v))).collect::<Vec<_>>().join(" "));
    if reply != want {
        rep.fail(FailKind::ModelDiff, None, "nested slice: the model's slice differs from the reference slice", &format!("-- model request: {}\nmodel: {}\nreference: {}", req, reply, want));
    }
    let snn: Vec<i64> = s.iter().flatten().cloned().collect();
    let has_null = s.iter().any(|v| v.is_none());
    let s_bag = bag_of(s.iter().map(|v| format!("({})", opt_canon(v))));
    let a_rows = |keep: &dyn Fn(&Option<i64>) -> bool| bag_of(t1.iter().filter(|a| keep(a)).map(|a| format!("({})", opt_canon(a))));
    // (position, SQL, expected bag of rows in canonical text)
    let mut checks: Vec<(&str, String, BTreeMap<String, i64>)> = vec![];
    checks.push(("in", format!("SELECT a FROM t1 WHERE a IN ({})", sub), a_rows(&|a| a.map(|x| snn.contains(&x)).unwrap_or(false))));
    checks.push(("in_and", format!("SELECT a FROM t1 WHERE v >= 0 AND a IN ({})", sub), a_rows(&|a| a.map(|x| snn.contains(&x)).unwrap_or(false))));
    checks.push((
        "not_in",
        format!("SELECT a FROM t1 WHERE a NOT IN ({})", sub),
        a_rows(&|a| if s.is_empty() { true } else if has_null { false } else { a.map(|x| !snn.contains(&x)).unwrap_or(false) }),
    ));
    checks.push(("exists", format!("SELECT a FROM t1 WHERE EXISTS ({})", sub), a_rows(&|_| !s.is_empty())));
    checks.push(("not_exists", format!("SELECT a FROM t1 WHERE NOT EXISTS ({})", sub), a_rows(&|_| s.is_empty())));
    // correlated: the slice is taken per outer row, after the correlation predicate
    let corr = |a: &Option<i64>, ge: bool| -> bool {
        match a {
            None => false,
            Some(x) => {
                let inner: Vec<Option<i64>> = t2.iter().filter(|b| b.map(|y| if ge { y >= *x } else { y == *x }).unwrap_or(false)).cloned().collect();
                !ref_slice(&inner, desc, distinct, n, m).is_empty()
            }
        }
    };
    checks.push(("exists_correlated_range", format!("SELECT a FROM t1 WHERE EXISTS (SELECT {}b FROM t2 WHERE b >= t1.a ORDER BY b{}{})", dis, dir, tail), a_rows(&|a| corr(a, true))));
    checks.push(("exists_correlated_eq", format!("SELECT a FROM t1 WHERE EXISTS (SELECT {}b FROM t2 WHERE t2.b = t1.a ORDER BY b{}{})", dis, dir, tail), a_rows(&|a| corr(a, false))));
    checks.push(("not_exists_correlated", format!("SELECT a FROM t1 WHERE NOT EXISTS (SELECT {}b FROM t2 WHERE t2.b = t1.a ORDER BY b{}{})", dis, dir, tail), a_rows(&|a| !corr(a, false))));
    checks.push((
        "in_correlated",
        format!("SELECT a FROM t1 WHERE a IN (SELECT {}b FROM t2 WHERE w >= t1.v ORDER BY b{}{})", dis, dir, tail),
        bag_of(t1.iter().enumerate().filter(|(i, a)| {
            let inner: Vec<Option<i64>> = t2.iter().enumerate().filter(|(j, _)| j >= i).map(|(_, b)| *b).collect();
            a.map(|x| ref_slice(&inner, desc, distinct, n, m).contains(&Some(x))).unwrap_or(false)
        }).map(|(_, a)| format!("({})", opt_canon(a)))),
    ));
    // scalar subquery: ORDER BY … LIMIT 1 OFFSET m picks the (m+1)-th value
    let pick = ref_slice(t2, desc, distinct, Some(1), m);
    let picked = pick.first().cloned().unwrap_or(None);
    checks.push((
        "scalar",
        format!("SELECT a, (SELECT {}b FROM t2 ORDER BY b{} LIMIT 1{}) FROM t1", dis, dir, m.map(|m| format!(" OFFSET {}", m)).unwrap_or_default()),
        bag_of(t1.iter().map(|a| format!("({} {})", opt_canon(a), opt_canon(&picked)))),
    ));
    checks.push(("derived", format!("SELECT x.b FROM ({}) AS x", sub), s_bag.clone()));
    checks.push(("cte", format!("WITH c AS ({}) SELECT b FROM c", sub), s_bag.clone()));
    let s1 = ref_slice(t1, !desc, false, n, m);
    let mut both = s_bag.clone();
    for v in &s1 {
        *both.entry(format!("({})", opt_canon(v))).or_insert(0) += 1;
    }
    checks.push((
        "setop_operands",
        format!("SELECT b FROM ({}) AS x UNION ALL SELECT a FROM (SELECT a FROM t1 ORDER BY a{}{}) AS y", sub, if desc { "" } else { " DESC" }, tail),
        both,
    ));
    for (pos, q, want) in checks {
        let o = db.query(&q);
        rep.count(&format!("nested_slice_{}", pos));
        match o.rows() {
            Some(r) => {
                if bag_of(r.iter().map(|x| canon::row(x))) != want {
                    rep.fail(
                        FailKind::Oracle,
                        None,
                        &format!("nested slice [{}]: the block does not denote the slice [m, m+n) of its sorted rows", pos),
                        &format!("{}-- query: {}\n-- slice of the sorted subquery rows: {:?}\nexpected rows (as a multiset): {:?}\nengine: {}", script, q, s, want, o.brief()),
                    );
                }
            }
            None => rep.count(&format!("nested_slice_rejected_{}", pos)),
        }
    }
    // view definition and INSERT … SELECT
    if db.exec(&format!("CREATE VIEW vw AS {}", sub)).is_ok() {
        let o = db.query("SELECT b FROM vw");
        rep.count("nested_slice_view");
        if o.rows().map(|r| bag_of(r.iter().map(|x| canon::row(x)))) != Some(s_bag.clone()) {
            rep.fail(FailKind::Oracle, None, "nested slice [view]: the view does not denote the slice of its sorted rows", &format!("{}CREATE VIEW vw AS {};\n-- query: SELECT b FROM vw\n-- slice: {:?}\nengine: {}", script, sub, s, o.brief()));
        }
    } else {
        rep.count("nested_slice_rejected_view");
    }
    let ins = db.exec(&format!("INSERT INTO t3 {}", sub));
    if ins.is_ok() {
        let o = db.query("SELECT c FROM t3");
        rep.count("nested_slice_insert_select");
        if o.rows().map(|r| bag_of(r.iter().map(|x| canon::row(x)))) != Some(s_bag.clone()) {
            rep.fail(FailKind::Oracle, None, "nested slice [insert-select]: INSERT … SELECT … ORDER BY … LIMIT/OFFSET did not insert the slice", &format!("{}INSERT INTO t3 {};\n-- query: SELECT c FROM t3\n-- slice: {:?}\nengine: {}", script, sub, s, o.brief()));
        }
    } else {
        rep.count("nested_slice_rejected_insert_select");
    }
    rep.case(&format!("nested {} {:?} {:?} {}", script, n, m, sub), !s.is_empty() && s.len() < t2.len());
}

fn probe_nested_slices(rep: &mut Report, model: &mut model::Model) {
    let t1 = [Some(1), Some(2), Some(3), None, Some(5), Some(2)];
    let t2 = [Some(3), Some(1), Some(2), Some(2), None, Some(5), Some(4)];
    for desc in [false, true] {
        for distinct in [false, true] {
            for (n, m) in [(None, Some(2)), (None, Some(6)), (None, Some(7)), (Some(0), None), (Some(3), None), (Some(9), None), (Some(2), Some(1)), (Some(1), Some(3)), (Some(3), Some(6))] {
                nested_slice_case(rep, model, &t1, &t2, desc, distinct, n, m);
                rep.count("deterministic_probes");
            }
        }
    }
}

fn run_nested_slice(rep: &mut Report, model: &mut model::Model, rng: &mut Rng) {
    let gen = |rng: &mut Rng, len: usize| -> Vec<Option<i64>> { (0..len).map(|_| if rng.chance(1, 6) { None } else { Some(rng.range(-1, 5)) }).collect() };
    let l1 = rng.range(0, 8) as usize;
    let l2 = rng.range(0, 9) as usize;
    let (t1, t2) = (gen(rng, l1), gen(rng, l2));
    let n = match rng.below(4) {
        0 => None,
        1 => Some(0),
        _ => Some(rng.range(1, l2 as i64 + 2) as usize),
    };
    let m = match rng.below(4) {
        0 => None,
        1 => Some(l2 + rng.below(2) as usize),
        _ => Some(rng.range(0, l2 as i64 + 1) as usize),
    };
    let (n, m) = if n.is_none() && m.is_none() { (None, Some(1)) } else { (n, m) };
    nested_slice_case(rep, model, &t1, &t2, rng.chance(1, 2), rng.chance(1, 3), n, m);
}

// ---------------------------------------------------------------------------------------------
// composite indexes and ORDER BY on their leading columns
// ---------------------------------------------------------------------------------------------

/// one composite-index case: columns a INTEGER, s VARCHAR, c INTEGER (each NOT NULL or nullable with
/// NULLs in several rows per leading-key group), an index over 2–3 of them (per-column ASC/DESC,
/// optional prefix length on s, values sharing the prefix and differing after it, inserted out of
/// order), ORDER BY on the leading k index columns (directions matching / all reversed / mixed),
/// unqualified or qualified names, optional WHERE, LIMIT/OFFSET set; compared with an index-free copy
/// of the table and with the model's sort
#[allow(clippy::too_many_arguments)]
fn composite_case(
    rep: &mut Report,
    model: &mut model::Model,
    rng: &mut Rng,
    not_null: [bool; 3],
    rows: &[(Option<i64>, Option<String>, Option<i64>)],
    index_cols: &[(usize, bool, Option<u32>)],
    order: &[(usize, bool)],
    qualified: bool,
    where_sql: &str,
    tag: &str,
) {
    let names = ["a", "s", "c"];
    let create = format!(
        "CREATE TABLE t (a INTEGER{}, s VARCHAR(10){}, c INTEGER{}, id INTEGER NOT NULL)",
        if not_null[0] { " NOT NULL" } else { "" },
        if not_null[1] { " NOT NULL" } else { "" },
        if not_null[2] { " NOT NULL" } else { "" }
    );
    let vals: Vec<String> = rows
        .iter()
        .enumerate()
        .map(|(i, (a, sv, c))| format!("({}, {}, {}, {})", opt_sql(a), sv.as_ref().map(|x| format!("'{}'", x)).unwrap_or("NULL".into()), opt_sql(c), i))
        .collect();
    let insert = format!("INSERT INTO t VALUES {}", vals.join(", "));
    let index = format!(
        "CREATE INDEX ix ON t ({})",
        index_cols.iter().map(|(c, d, pl)| format!("{}{}{}", names[*c], pl.map(|n| format!("({})", n)).unwrap_or_default(), if *d { " DESC" } else { " ASC" })).collect::<Vec<_>>().join(", ")
    );
    let order_sql = format!("ORDER BY {}", order.iter().map(|(c, d)| format!("{}{}{}", if qualified { "t." } else { "" }, names[*c], if *d { " DESC" } else { "" })).collect::<Vec<_>>().join(", "));
    let base = format!("SELECT a, s, c, id FROM t{}", where_sql);
    let ks: Vec<KeySpec> = order.iter().map(|(c, d)| KeySpec { idx: *c, desc: *d }).collect();
    let mut dbs = [Db::new(), Db::new()];
    for (i, db) in dbs.iter_mut().enumerate() {
        db.keep_log = false;
        db.must(&create);
        if !rows.is_empty() {
            db.must(&insert);
        }
        if i == 1 && !db.exec(&index).is_ok() {
            rep.count("composite_index_rejected");
        }
    }
    let script = format!("{};\n{};\n", create, insert);
    let len = dbs[0].query(&base).rows().map(|r| r.len()).unwrap_or(0);
    let mut los = lo_set(rng, len, 4);
    los.push((Some(3), Some(1)));
    let mut cx = Ctx { rep, script: script.clone(), kind: "composite-index" };
    let plain = check_ordered(&mut dbs[0], &base, &order_sql, &ks, &los, &mut cx, &format!("{} no index", tag));
    cx.script.push_str(&format!("{};\n", index));
    let indexed = check_ordered(&mut dbs[1], &base, &order_sql, &ks, &los, &mut cx, &format!("{} with index", tag));
    let mut nontrivial = false;
    if let (Some((_, fp)), Some((_, fi))) = (&plain, &indexed) {
        let kp = key_strings(fp, &ks);
        let unique = all_unique(fp, &ks);
        nontrivial = kp.len() >= 2;
        let seq = |r: &Vec<Vec<SqlValue>>| r.iter().map(|x| canon::row(x)).collect::<Vec<_>>();
        if kp != key_strings(fi, &ks) || bag(fp) != bag(fi) || (unique && seq(fp) != seq(fi)) {
            cx.rep.fail(
                FailKind::Oracle,
                None,
                &format!("composite-index: the ordered sequence differs with and without the index [{}]", tag),
                &format!("{}-- query: {} {}\nwithout: {}\nwith:    {}", cx.script, base, order_sql, rows_sx_vals(fp), rows_sx_vals(fi)),
            );
        }
        // LIMIT/OFFSET slices with the index against the slice of the index-free sequence
        for l in &los {
            let q = format!("{} {}{}", base, order_sql, lo_sql(l));
            if let Some(lr) = dbs[1].query(&q).rows() {
                let m = l.1.unwrap_or(0).min(fp.len());
                let end = l.0.map(|n| (m + n).min(fp.len())).unwrap_or(fp.len());
                let want = &fp[m..end];
                if key_strings(lr, &ks) != key_strings(want, &ks) || (unique && seq(&lr.clone()) != seq(&want.to_vec())) {
                    cx.rep.fail(
                        FailKind::Oracle,
                        None,
                        &format!("composite-index: LIMIT/OFFSET with the index is not the slice of the index-free ordered sequence [{}]", tag),
                        &format!("{}-- query: {}\nfull sequence without index: {}\nwith index: {}", cx.script, q, rows_sx_vals(fp), rows_sx_vals(lr)),
                    );
                }
            }
        }
        // the model's sort (and slices) of the same rows
        if where_sql.is_empty() {
            let input: Vec<Vec<SqlValue>> = rows
                .iter()
                .enumerate()
                .map(|(i, (a, sv, c))| vec![a.map(SqlValue::Integer).unwrap_or(SqlValue::Null), sv.clone().map(SqlValue::Varchar).unwrap_or(SqlValue::Null), c.map(SqlValue::Integer).unwrap_or(SqlValue::Null), SqlValue::Integer(i as i64)])
                .collect();
            let ord_sx: Vec<String> = order.iter().map(|(c, d)| format!("((name {}) {})", sx::hex_str(names[*c]), if *d { "desc" } else { "asc" })).collect();
            let mut variants: Vec<(Option<usize>, Option<usize>)> = vec![(None, None), (Some(3), Some(1))];
            variants.push(los[0]);
            for l in variants {
                let req = format!(
                    "plain (cols 61 73 63 6964) (rows {}) (sel ((col 0) -) ((col 1) -) ((col 2) -) ((col 3) -)) (order {}) 0 {} {}",
                    rows_sx_vals(&input),
                    ord_sx.join(" "),
                    l.0.map(|n| n.to_string()).unwrap_or("-".into()),
                    l.1.map(|n| n.to_string()).unwrap_or("-".into())
                );
                let reply = model.ask(&req);
                if let Some(er) = dbs[1].query(&format!("{} {}{}", base, order_sql, lo_sql(&l))).rows() {
                    compare_model(&reply, er, &ks, unique, &mut cx, &format!("{} limit {:?} offset {:?}", tag, l.0, l.1), &req);
                }
            }
        }
    }
    cx.rep.count("composite_index_cases");
    cx.rep.case(&format!("composite {} {} {} {}", script, index, base, order_sql), nontrivial);
}

const S_POOL: &[&str] = &["abz", "abc", "aba", "ab", "abd", "b", "ba", "a", "abcz", "abca"];

fn run_composite(rep: &mut Report, model: &mut model::Model, rng: &mut Rng) {
    let not_null = [rng.chance(1, 2), rng.chance(1, 2), rng.chance(1, 2)];
    let n = *rng.pick(&[3usize, 6, 10, 14]);
    let unique = rng.chance(1, 2);
    // index: 2 or 3 distinct columns in random order
    let mut cols = vec![0usize, 1, 2];
    rng.shuffle(&mut cols);
    cols.truncate(if rng.chance(1, 2) { 2 } else { 3 });
    let all_desc = rng.chance(1, 3);
    let all_asc = !all_desc && rng.chance(1, 2);
    let index_cols: Vec<(usize, bool, Option<u32>)> = cols
        .iter()
        .map(|c| (*c, if all_desc { true } else if all_asc { false } else { rng.chance(1, 2) }, if *c == 1 && rng.chance(1, 2) { Some(rng.range(1, 3) as u32) } else { None }))
        .collect();
    let k = rng.range(1, index_cols.len() as i64) as usize;
    let mode = rng.below(4);
    let order: Vec<(usize, bool)> = index_cols[..k].iter().map(|(c, d, _)| (*c, match mode { 0 | 1 => *d, 2 => !*d, _ => rng.chance(1, 2) })).collect();
    let mut rows: Vec<(Option<i64>, Option<String>, Option<i64>)> = vec![];
    let mut seen: Vec<String> = vec![];
    for _ in 0..n * 3 {
        if rows.len() >= n {
            break;
        }
        let a = if !not_null[0] && rng.chance(1, 4) { None } else { Some(rng.range(1, 3)) };
        let sv = if !not_null[1] && rng.chance(1, 4) { None } else { Some((*rng.pick(S_POOL)).to_string()) };
        let c = if !not_null[2] && rng.chance(1, 4) { None } else { Some(rng.range(0, 3)) };
        let key: String = order.iter().map(|(col, _)| match col { 0 => format!("{:?}", a), 1 => format!("{:?}", sv), _ => format!("{:?}", c) }).collect::<Vec<_>>().join("|");
        if unique && seen.contains(&key) {
            continue;
        }
        seen.push(key);
        rows.push((a, sv, c));
    }
    let where_sql = if rng.chance(1, 4) { format!(" WHERE {} >= {}", ["a", "c"][rng.below(2) as usize], rng.range(0, 2)) } else { String::new() };
    let qualified = rng.chance(1, 5);
    composite_case(rep, model, rng, not_null, &rows, &index_cols, &order, qualified, &where_sql, "generated");
}

fn probe_composite(rep: &mut Report, model: &mut model::Model, rng: &mut Rng) {
    let s = |x: &str| Some(x.to_string());
    // (a NOT NULL, c nullable) with NULLs inside each a-group: ORDER BY a, c
    let rows1 = vec![(Some(2), s("x"), None), (Some(1), s("x"), Some(2)), (Some(1), s("y"), None), (Some(2), s("y"), Some(1)), (Some(1), s("z"), Some(1)), (Some(2), s("z"), None), (Some(1), s("w"), None)];
    composite_case(rep, model, rng, [true, true, false], &rows1, &[(0, false, None), (2, false, None)], &[(0, false), (2, false)], false, "", "ASC index (a NOT NULL, c nullable), ORDER BY a, c");
    composite_case(rep, model, rng, [true, true, false], &rows1, &[(0, true, None), (2, true, None)], &[(0, true), (2, true)], false, "", "DESC index, ORDER BY a DESC, c DESC");
    composite_case(rep, model, rng, [true, true, false], &rows1, &[(0, false, None), (2, false, None)], &[(0, false)], false, "", "ORDER BY leading column only");
    // prefix length on the second column: values share the prefix, differ after it, inserted out of order
    let rows2 = vec![(Some(1), s("abz"), Some(0)), (Some(1), s("abc"), Some(1)), (Some(2), s("abd"), Some(2)), (Some(1), s("aba"), Some(3)), (Some(2), s("aba"), Some(4)), (Some(1), s("ab"), Some(5)), (Some(2), s("abcz"), Some(6)), (Some(2), s("abca"), Some(7))];
    for pl in [1u32, 2, 3] {
        composite_case(rep, model, rng, [true, true, true], &rows2, &[(0, false, None), (1, false, Some(pl))], &[(0, false), (1, false)], false, "", "ASC index (a, s(n)), ORDER BY a, s");
        composite_case(rep, model, rng, [true, true, true], &rows2, &[(0, true, None), (1, true, Some(pl))], &[(0, true), (1, true)], false, "", "DESC index (a DESC, s(n) DESC), ORDER BY a DESC, s DESC");
        composite_case(rep, model, rng, [true, true, true], &rows2, &[(1, false, Some(pl)), (0, false, None)], &[(1, false), (0, false)], false, "", "ASC index (s(n), a), ORDER BY s, a");
    }
    composite_case(rep, model, rng, [true, true, true], &rows2, &[(0, false, None), (1, false, Some(2)), (2, false, None)], &[(0, false), (1, false), (2, false)], false, " WHERE a >= 1", "three-column index with a prefix in the middle, WHERE on the leading column");
    composite_case(rep, model, rng, [true, true, true], &rows2, &[(0, false, None), (1, false, None)], &[(0, false), (1, false)], true, "", "qualified names");
    composite_case(rep, model, rng, [true, true, true], &rows2, &[(0, false, None), (1, true, None)], &[(0, false), (1, true)], false, "", "mixed directions matching the index");
}

/// regression probe for 1db75cd3: SIMD filter path (>= 100 rows, WHERE) with a NULL in the first row's VARCHAR
fn probe_simd(rep: &mut Report) {
    let mut db = Db::new();
    db.must("CREATE TABLE t (c0 INTEGER, c2 VARCHAR(20))");
    let mut vals = vec!["(3, NULL)".to_string()];
    for i in 0..119 {
        vals.push(format!("({}, 'a{}')", 3 + i % 3, i % 4));
    }
    db.must(&format!("INSERT INTO t VALUES {}", vals.join(", ")));
    let script = "CREATE TABLE t (c0 INTEGER, c2 VARCHAR(20));\n-- 120 rows: (3, NULL) first, then (3 + i % 3, 'a<i % 4>') for i in 0..119\n".to_string();
    let mut cx = Ctx { rep, script, kind: "probe" };
    let ks = [KeySpec { idx: 1, desc: false }];
    check_ordered(&mut db, "SELECT c2, c0 FROM t WHERE c0 >= 3", "ORDER BY c0", &ks, &[], &mut cx, "SIMD filter path, first VARCHAR value NULL");
    cx.rep.count("deterministic_probes");
    cx.rep.case("probe simd", true);
}

fn main() {
    engine::silence_panics();
    let args = Args::parse("C08");
    let mut rep = Report::new(
        &args,
        "case = (tables, query, ORDER BY list, LIMIT/OFFSET set, optional index); plain / GROUP BY / set-operation / DISTINCT queries over \
         INTEGER and VARCHAR columns with NULLs and duplicates; non-trivial = the ordered result has at least two distinct key tuples \
         (DISTINCT-only cases: at least two distinct rows and at least one duplicate); distinct by hash of (data, query)",
    );
    rep.assumptions.push("sort keys of one ORDER BY item have one type (INTEGER or VARCHAR) or are NULL — the typing hypothesis of C08_orderBy_sorted; mixed-type keys are not generated".into());
    rep.assumptions.push("strings are ASCII, so byte order = code point order".into());
    rep.assumptions.push("rows with equal keys may come in any order: sequences are compared by keys, whole rows only when keys are unique".into());
    let mut model = args.model();
    let mut rng = Rng::new(args.seed);
    run_probes(&mut rep);
    probe_simd(&mut rep);
    probe_nested_slices(&mut rep, &mut model);
    {
        let mut rp = rng.fork();
        probe_composite(&mut rep, &mut model, &mut rp);
    }
    let n = args.n(1200, 40000);
    for i in 0..n {
        let mut r = rng.fork();
        if i % 6 == 3 {
            let mut r6 = r.fork();
            run_composite(&mut rep, &mut model, &mut r6);
        }
        if i % 16 == 0 {
            let mut r4 = r.fork();
            run_nested_slice(&mut rep, &mut model, &mut r4);
        }
        if i % 3 == 1 {
            let mut r3 = r.fork();
            run_typed(&mut rep, &mut r3, (i / 3) as usize);
        }
        if i % 5 == 2 {
            let mut r2 = r.fork();
            run_in_order(&mut rep, &mut r2);
        }
        match i % 10 {
            0..=4 => {
                let class = match i % 50 {
                    0 => 0,
                    1 => 1,
                    10 | 20 | 30 => 3,
                    40 if i % 200 == 40 => 4,
                    _ => 2,
                };
                let c = gen_plain(&mut r, class);
                if i < 3 {
                    rep.sample(serde_json::json!({"kind": "plain", "rows": c.rows.len(), "create": create_sql(&c), "order_items": c.order.len(), "distinct": c.distinct, "index": format!("{:?}", c.index)}));
                }
                run_plain(&c, &mut model, &mut rep, &mut r);
            }
            5 | 6 => {
                let n = if i % 40 == 5 { r.range(100, 120) as usize } else { r.range(0, 12) as usize };
                run_aggregate(&mut model, &mut rep, &mut r, n)
            }
            7 | 8 => {
                let n = if i % 40 == 7 { r.range(100, 120) as usize } else { r.range(0, 10) as usize };
                run_setop(&mut model, &mut rep, &mut r, n)
            }
            _ => {
                let n = r.range(0, 14) as usize;
                run_distinct(&mut model, &mut rep, &mut r, n)
            }
        }
    }
    std::process::exit(rep.finish());
}
