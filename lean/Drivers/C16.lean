import VibeProof.Model.Proto
import VibeProof.Model.IndexBackend
open VibeProof VibeProof.Proto VibeProof.BTree VibeProof.IndexBackend

/-!
`(idx D ((K R) …) (OP …))` → `(ok (MEM DISK) …)`: contents of the in-memory backend and of the
disk-backed backend (spilled from the initial entries) after the spill and after every OP.
OP = `(ins K R)` | `(upd OLDK NEWK R)` | `(del K R)`; contents = `((K R …) …)` with row ids sorted.
-/

def sortNat (l : List Nat) : List Nat := (l.toArray.qsort (· < ·)).toList

def encAssoc (m : List Entry) : Sx := .list (m.map (fun e => .list (sxInt e.1 :: (sortNat e.2).map sxNat)))

def decOp : Sx → Option MOp
  | .list [.atom "ins", k, r] => do pure (.ins (← k.int?) (← r.nat?))
  | .list [.atom "upd", a, b, r] => do pure (.upd (← a.int?) (← b.int?) (← r.nat?))
  | .list [.atom "del", k, r] => do pure (.del (← k.int?) (← r.nat?))
  | _ => none

def decPair : Sx → Option (Int × Nat)
  | .list [k, r] => do pure (← k.int?, ← r.nat?)
  | _ => none

def encDisk : Except Err BTree → Sx
  | .ok t => encAssoc t.toAssoc
  | .error .panic => .list [.atom "err", .atom "panic"]
  | .error .io => .list [.atom "err", .atom "io"]

def runOps (d : Nat) : List Entry → Except Err BTree → List MOp → List Sx → List Sx
  | _, _, [], acc => acc.reverse
  | m, t, op :: ops, acc =>
    let m' := memStep m op
    let t' := match t with | .ok t => diskStep d t op | .error e => .error e
    runOps d m' t' ops (.list [encAssoc m', encDisk t'] :: acc)

def handle : List Sx → Sx
  | [.atom "idx", d, .list ps, .list ops] =>
    match d.nat?, ps.mapM decPair, ops.mapM decOp with
    | some d, some ps, some ops =>
      let m := group ps
      let t := bulkLoad d ps
      .list (.atom "ok" :: .list [encAssoc m, encDisk t] :: runOps d m t ops [])
    | _, _, _ => .atom "bad-request"
  | _ => .atom "bad-request"

def main : IO Unit := runDriver handle
