use vharness::*;
use std::io::BufRead;
fn main() {
    engine::silence_panics();
    let mut db = Db::new();
    for line in std::io::stdin().lock().lines() {
        let l = line.unwrap(); let l = l.trim();
        if l.is_empty() { continue; }
        let o = db.exec(l);
        let b = o.brief();
        println!("{}\n    => {}", l, &b[..b.len().min(300)]);
    }
}
