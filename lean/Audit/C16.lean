import VibeProof.Props.C16
#print axioms VibeProof.C16.C16_mem_remove_eq
#print axioms VibeProof.C16.C16_mem_step
#print axioms VibeProof.C16.C16_insert_simulation
#print axioms VibeProof.C16.C16_queries_agree
#print axioms VibeProof.C16.C16_delete_simulation_partial
#print axioms VibeProof.C16.C16_full_of_C17_delete
#print axioms VibeProof.C16.C16_delete_all_counterexample
#print axioms VibeProof.C16.C16_inclusive_end_counterexample
#print axioms VibeProof.C16.C16_simulation
#print axioms VibeProof.C16.C16_history
#print axioms VibeProof.C16.C16_spill
#print axioms VibeProof.C16.C16_exclusive_start
#print axioms VibeProof.C16.C16_exclusive_start_no_successor
#print axioms VibeProof.C16.C16_plus_one_counterexample
